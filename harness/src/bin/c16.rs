//! C16 — structured constructors put the right value at every coordinate.
//!
//! Case lines: `C16.<op> <type> args…` with `<type>` in `i32 i64 u8 f64`; the model (Lean, over Int / exact Rat /
//! an abstract power domain) ignores the type.  Integer-valued outputs are compared exactly.  Spaced sequences:
//! the model answers exact rationals (`n/d`, integers only on the wire) or, for the `powf`-based ones, one
//! expression per element which is evaluated here natively in f64 (bit-exact comparison), plus the statement-level
//! oracle (count, first, last, constant difference/ratio within a stated tolerance) computed natively.
//!
//! Robustness streams: value-class element types `<t>v` for all twelve numeric types (`i8v … u64v isizev usizev f32v f64v`): the
//! integer tags of the case line are mapped through a per-type palette of values that do not survive an f64 round trip or a
//! multiplication by a 0/1 mask (|x| > 2^53, MIN/MAX, -0.0, ±inf, NaN, subnormals, u8 255, i8 -128) and every element of the
//! result is compared BIT-WISE (masked / padding positions must be exactly `T::zero()`, i.e. +0.0); shapes beyond the small scope
//! (`big_shapes()`, 4900-element matrices, sides to 130) and `zero_shapes()` for every structural constructor.  The constructors of
//! this property are associated functions / methods of `Array<N>` only: there is no `impl … for Result<Array<N>, _>` to exercise.
//!
//! Round 5 (`gen_streams5`): band sweeps of the sequence constructors (whole start / stop / step of every magnitude below 2^53 with a
//! small count, plain element types incl. `u64`; an integral linspace grid is demanded bit for bit), dense value pools for the `powf`
//! kernel (non-integers cross as the exact dyadic rational of the f64, `fx`), `mi_<macro>` = the constructor macros with impure
//! argument expressions (evaluation count and order are observed), one-byte results above 2^24 elements for the cheap constructors.
use arrharness::*;

// ------------------------------------------------------------------------------------------------ element types

trait Elem: Numeric {
    const FLOAT: bool;
    /// unit round-off of the element type (tolerances of the float comparisons are multiples of it)
    const EPS: f64 = f64::EPSILON;
    /// smallest normal magnitude (below it a value carries fewer bits and "constant ratio to rounding accuracy" has no meaning)
    const MINPOS: f64 = f64::MIN_POSITIVE;
    fn of_f(v: f64) -> Self { <Self as Numeric>::from_f64(v) }
    fn f(&self) -> f64 { <Self as Numeric>::to_f64(self) }
}
impl Elem for i32 { const FLOAT: bool = false; }
impl Elem for i64 { const FLOAT: bool = false; }
impl Elem for u8 { const FLOAT: bool = false; }
impl Elem for f64 { const FLOAT: bool = true; }
/// only used by the part-2 streams (types back to back, extreme magnitudes): the crate computes in f64 and casts once
impl Elem for f32 { const FLOAT: bool = true; const EPS: f64 = f32::EPSILON as f64; const MINPOS: f64 = f32::MIN_POSITIVE as f64; }
/// only used by the round-5 band sweeps of the sequences (whole-number bounds of every magnitude below 2^53, never negative)
impl Elem for u64 { const FLOAT: bool = false; }

const TYPES: [&str; 4] = ["i32", "i64", "u8", "f64"];

/// integer-valued element as text; anything else gets a spelling no model answer can equal
fn show_val<T: Elem>(x: &T) -> String {
    let f = x.f();
    if f.is_finite() && f.fract() == 0.0 && f.abs() < 9.0e15 { format!("{}", f as i64) } else { format!("f{:016x}", f.to_bits()) }
}
fn show_arr_t<T: Elem>(a: &Array<T>) -> String {
    let e = a.get_elements().unwrap();
    format!("{}:{}", show_list(&a.get_shape().unwrap()), if e.is_empty() { "-".to_string() } else { e.iter().map(show_val).collect::<Vec<_>>().join(",") })
}
fn res_arr_t<T: Elem>(r: &Result<Array<T>, ArrayError>) -> String {
    match r {
        Ok(a) => if consistent(a) { format!("ok {}", show_arr_t(a)) } else { format!("ok INCONSISTENT {}", show_arr_t(a)) },
        Err(e) => format!("err {}", err_name(e)),
    }
}
fn arr_t<T: Elem>(s: &str) -> Array<T> {
    let (shape, elems) = parse_arr_raw(s);
    Array::new(elems.into_iter().map(|x| T::of_f(x as f64)).collect(), shape).expect("harness: malformed array literal")
}

/// `n` or `n/d` -> f64 (exact for the dyadic values the generator emits; correctly rounded otherwise).  Parts that do not fit an i64
/// (magnitudes to 1.8e308, denominators to 2^1074 and beyond) go through an exact big-integer division, correctly rounded as well.
fn rat(s: &str) -> Option<f64> {
    match s.split_once('/') {
        Some((ns, ds)) => match (ns.parse::<i64>(), ds.parse::<i64>()) {
            (Ok(n), Ok(d)) => {
                let v = n as f64 / d as f64;
                // the big-integer division is validated against the hardware division on a seventh of the small-scope rationals of every
                // run (both parts below 2^53, so both are the correctly rounded quotient); a disagreement makes the case a harness error
                if (n ^ d) % 7 == 0 && n.unsigned_abs() < (1 << 53) && d > 0 && d < (1 << 53) {
                    BIG_CHECKS.with(|c| c.set(c.get() + 1));
                    if big::ratio(ns, ds).map(f64::to_bits) != Some(v.to_bits()) && !(n == 0) { return None }
                }
                Some(v)
            }
            _ => big::ratio(ns, ds),
        },
        None => match s.parse::<i64>() { Ok(v) => Some(v as f64), Err(_) => big::ratio(s, "1") },
    }
}
thread_local! { static BIG_CHECKS: std::cell::Cell<u64> = const { std::cell::Cell::new(0) }; }
/// both parts of every argument fit an i64 (the small scope); otherwise the big-integer path is in play
fn small_args(a: &[&str]) -> bool { a.iter().all(|s| s.split('/').all(|p| p.parse::<i64>().is_ok())) }

/// minimal unsigned big integers (little-endian base 2^32) — just enough for `numerator / denominator -> f64`, correctly rounded
mod big {
    use std::cmp::Ordering;
    type B = Vec<u32>;
    fn from_dec(s: &str) -> Option<B> {
        if s.is_empty() { return None }
        let mut v: B = vec![];
        for c in s.bytes() {
            if !c.is_ascii_digit() { return None }
            let mut carry = (c - b'0') as u64;
            for limb in v.iter_mut() { let x = *limb as u64 * 10 + carry; *limb = x as u32; carry = x >> 32; }
            if carry > 0 { v.push(carry as u32); }
        }
        Some(v)
    }
    fn bits(v: &B) -> usize { match v.iter().rposition(|&x| x != 0) { None => 0, Some(i) => i * 32 + (32 - v[i].leading_zeros() as usize) } }
    fn shl(v: &B, k: usize) -> B {
        let (w, b) = (k / 32, k % 32);
        let mut out = vec![0u32; v.len() + w + 1];
        for (i, &x) in v.iter().enumerate() { let y = (x as u64) << b; out[i + w] |= y as u32; out[i + w + 1] |= (y >> 32) as u32; }
        out
    }
    fn cmp(a: &B, b: &B) -> Ordering {
        for i in (0..a.len().max(b.len())).rev() {
            let (x, y) = (a.get(i).copied().unwrap_or(0), b.get(i).copied().unwrap_or(0));
            if x != y { return x.cmp(&y) }
        }
        Ordering::Equal
    }
    fn sub_assign(a: &mut B, b: &B) {
        let mut borrow = 0i64;
        for i in 0..a.len() {
            let mut x = a[i] as i64 - b.get(i).copied().unwrap_or(0) as i64 - borrow;
            if x < 0 { x += 1 << 32; borrow = 1 } else { borrow = 0 }
            a[i] = x as u32;
        }
    }
    /// v * 2^e without intermediate overflow / underflow
    fn ldexp(mut v: f64, mut e: i64) -> f64 {
        while e > 900 { v *= 2f64.powi(900); e -= 900; }
        while e < -900 { if v == 0.0 { return v } v *= 2f64.powi(-900); e += 900; }
        v * 2f64.powi(e as i32)
    }
    pub fn ratio(n: &str, d: &str) -> Option<f64> {
        let (neg, n) = match n.strip_prefix('-') { Some(r) => (true, r), None => (false, n) };
        let (mut nb, mut db) = (from_dec(n)?, from_dec(d)?);
        if bits(&db) == 0 { return None }
        if bits(&nb) == 0 { return Some(0.0) }
        // scale so that the integer quotient has 71 or 72 bits, divide bit by bit, keep a sticky bit for the remainder
        let k: i64 = 71 - (bits(&nb) as i64 - bits(&db) as i64);
        if k >= 0 { nb = shl(&nb, k as usize) } else { db = shl(&db, (-k) as usize) }
        let mut q: u128 = 0;
        for bit in (0..=72usize).rev() {
            let t = shl(&db, bit);
            if cmp(&nb, &t) != Ordering::Less { nb.resize(nb.len().max(t.len()), 0); sub_assign(&mut nb, &t); q |= 1u128 << bit; }
        }
        if bits(&nb) > 0 { q |= 1 }
        let v = ldexp(q as f64, -k);
        Some(if neg { -v } else { v })
    }
}
fn opt_rat(s: &str) -> Option<Option<f64>> { if s == "none" { Some(None) } else { rat(s).map(Some) } }
fn opt_usize(s: &str) -> Option<Option<usize>> { if s == "none" { Some(None) } else { s.parse().ok().map(Some) } }
fn opt_isize(s: &str) -> Option<Option<isize>> { if s == "none" { Some(None) } else { s.parse().ok().map(Some) } }
fn opt_bool(s: &str) -> Option<Option<bool>> { match s { "none" => Some(None), "true" => Some(Some(true)), "false" => Some(Some(false)), _ => None } }

// ------------------------------------------------------------------------------------------------ expression evaluation

/// evaluates `S | T | B | M(x,y) | D(x,y) | P(x,n/d)` natively in f64
fn eval_expr(s: &[u8], pos: &mut usize, st: f64, tp: f64, b: f64) -> Option<f64> {
    let c = *s.get(*pos)?;
    *pos += 1;
    match c {
        b'S' => Some(st), b'T' => Some(tp), b'B' => Some(b),
        b'M' | b'D' => {
            if *s.get(*pos)? != b'(' { return None; } *pos += 1;
            let x = eval_expr(s, pos, st, tp, b)?;
            if *s.get(*pos)? != b',' { return None; } *pos += 1;
            let y = eval_expr(s, pos, st, tp, b)?;
            if *s.get(*pos)? != b')' { return None; } *pos += 1;
            Some(if c == b'M' { x * y } else { x / y })
        }
        b'P' => {
            if *s.get(*pos)? != b'(' { return None; } *pos += 1;
            let x = eval_expr(s, pos, st, tp, b)?;
            if *s.get(*pos)? != b',' { return None; } *pos += 1;
            let start = *pos;
            while *s.get(*pos)? != b')' { *pos += 1; }
            let q = std::str::from_utf8(&s[start..*pos]).ok()?;
            *pos += 1;
            let (ns, ds) = q.split_once('/')?;
            // the Rust code has the exponent either as `1. / (num - delta) as f64` or as `i as f64` (or, for logspace, as the argument itself)
            let e = match (ns.parse::<i64>(), ds.parse::<i64>()) {
                (Ok(n), Ok(d)) => if d == 1 { n as f64 } else { n as f64 / d as f64 },
                _ => big::ratio(ns, ds)?,
            };
            Some(x.powf(e))
        }
        _ => None,
    }
}

/// run a call of the real crate; `Err(())` = it panicked
fn try_run<R>(f: impl FnOnce() -> R) -> Result<R, ()> { std::panic::catch_unwind(std::panic::AssertUnwindSafe(f)).map_err(|_| ()) }

fn same_f64(a: f64, b: f64) -> bool { a.to_bits() == b.to_bits() || (a.is_nan() && b.is_nan()) }

// ------------------------------------------------------------------------------------------------ exec

fn macro_dims<T: Numeric>(which: &str, d: &[usize]) -> Option<Result<Array<T>, ArrayError>> {
    Some(match (which, d.len()) {
        ("zeros", 1) => array_zeros!(T, d[0]), ("zeros", 2) => array_zeros!(T, d[0], d[1]), ("zeros", 3) => array_zeros!(T, d[0], d[1], d[2]),
        ("ones", 1) => array_ones!(T, d[0]), ("ones", 2) => array_ones!(T, d[0], d[1]), ("ones", 3) => array_ones!(T, d[0], d[1], d[2]),
        ("rand", 1) => array_rand!(T, d[0]), ("rand", 2) => array_rand!(T, d[0], d[1]), ("rand", 3) => array_rand!(T, d[0], d[1], d[2]),
        _ => return None,
    })
}

/// the constructor macros with IMPURE argument expressions: argument j is `{ log.push(j); it.next().unwrap() }` where `it` yields the
/// values of the case line followed by sentinels — every argument expression must be evaluated exactly once, in reading order (a macro
/// that repeats `$n` in its expansion builds another array and logs the argument twice).  Returns the array and the evaluation log.
fn macro_impure<T: Elem>(which: &str, d: &[usize], extra: &[i64]) -> Option<(Result<Array<T>, ArrayError>, Vec<usize>, usize)> {
    let log = std::cell::RefCell::new(Vec::<usize>::new());
    let vals: Vec<usize> = d.iter().copied().chain([91usize, 92, 93]).collect();
    let it = std::cell::RefCell::new(vals.into_iter());
    macro_rules! arg { ($j:expr) => {{ log.borrow_mut().push($j); let v = it.borrow_mut().next().unwrap(); v }} }
    // (the scalar arguments of full / arange come from `extra`, drawn by the same discipline)
    let xs: Vec<i64> = extra.iter().copied().chain([91i64, 92, 93]).collect();
    let xit = std::cell::RefCell::new(xs.into_iter());
    macro_rules! xarg { ($j:expr) => {{ log.borrow_mut().push($j); let v = xit.borrow_mut().next().unwrap(); T::of_f(v as f64) }} }
    let r = match (which, d.len(), extra.len()) {
        ("zeros", 1, 0) => array_zeros!(T, arg!(0)), ("zeros", 2, 0) => array_zeros!(T, arg!(0), arg!(1)), ("zeros", 3, 0) => array_zeros!(T, arg!(0), arg!(1), arg!(2)),
        ("ones", 1, 0) => array_ones!(T, arg!(0)), ("ones", 2, 0) => array_ones!(T, arg!(0), arg!(1)), ("ones", 3, 0) => array_ones!(T, arg!(0), arg!(1), arg!(2)),
        ("rand", 1, 0) => array_rand!(T, arg!(0)), ("rand", 2, 0) => array_rand!(T, arg!(0), arg!(1)), ("rand", 3, 0) => array_rand!(T, arg!(0), arg!(1), arg!(2)),
        ("full", _, 1) => array_full!(T, { log.borrow_mut().push(0); d.to_vec() }, xarg!(1)),
        ("eye", 1, 0) => array_eye!(T, arg!(0)), ("eye", 2, 0) => array_eye!(T, arg!(0), arg!(1)), ("eye", 3, 0) => array_eye!(T, arg!(0), arg!(1), arg!(2)),
        ("identity", 1, 0) => array_identity!(T, arg!(0)),
        ("arange", 0, 2) => array_arange!(T, xarg!(0), xarg!(1)), ("arange", 0, 3) => array_arange!(T, xarg!(0), xarg!(1), xarg!(2)),
        _ => return None,
    };
    let arity = if which == "full" { 2 } else { d.len() + extra.len() };
    let l = log.borrow().clone();
    Some((r, l, arity))
}
/// `None` = every argument expression was evaluated exactly once, in reading order
fn impure_fault(log: &[usize], arity: usize) -> Option<String> {
    if log.iter().copied().eq(0..arity) { None } else { Some(format!("the macro evaluated its {arity} argument expression(s) in the order {log:?} (each exactly once, in reading order, is required: an argument expression may have side effects)")) }
}

fn rand_verdict<T: Elem>(r: Result<Array<T>, ArrayError>, expected: &str) -> Verdict {
    match r {
        Ok(a) => {
            let e = a.get_elements().unwrap();
            let obs = format!("ok {} {}", show_list(&a.get_shape().unwrap()), e.len());
            if let Some(bad) = e.iter().find(|x| !(x.f() >= 0.0 && x.f() <= 1.0)) {
                return Verdict::Mismatch { observed: obs, detail: format!("element {} outside the unit interval", bad.f()) };
            }
            if !consistent(&a) { return Verdict::Mismatch { observed: obs, detail: "shape/count inconsistent".into() }; }
            compare_default(obs, expected)
        }
        Err(e) => compare_default(format!("err {}", err_name(&e)), expected),
    }
}

/// exact rationals of the model answer `ok L:q0,q1,…` -> (len, values as f64)
fn parse_rat_answer(expected: &str) -> Option<Vec<f64>> {
    let body = expected.strip_prefix("ok ")?;
    let (sh, el) = body.split_once(':')?;
    let n: usize = sh.parse().ok()?;
    let v: Vec<f64> = if el == "-" { vec![] } else { el.split(',').map(rat).collect::<Option<Vec<_>>>()? };
    if v.len() != n { return None; }
    Some(v)
}

/// |ln(last/first)| for ranges beyond e^50 (outside every case of the small scope, whose tolerances stay as they were)
fn range_term(first: f64, last: f64) -> f64 { let l = (last / first).abs().ln().abs(); if l.is_finite() && l > 50.0 { 2.0 * l } else { 0.0 } }
fn small_range(first: f64, last: f64) -> bool { range_term(first, last) == 0.0 && first.abs() >= f64::MIN_POSITIVE && last.abs() >= f64::MIN_POSITIVE }
fn ulp_scale(scale: f64) -> f64 { scale.abs().max(f64::MIN_POSITIVE) * f64::EPSILON }

/// the element-by-element rules of `seq_verdict`, with the exact values given by a function (the parsed model answer for ordinary
/// cases, the harness-native rational formula for the giant ones)
fn seq_check<T: Elem>(e: &[T], n_want: usize, want: &dyn Fn(usize) -> f64, tol: f64, exact_all: bool, endpoint: bool) -> Result<(), String> {
    if e.len() != n_want { return Err(format!("count {} but the model has {}", e.len(), n_want)); }
    let n = e.len();
    for i in 0..n {
        let (o, x) = (e[i].f(), want(i));
        let must_be_exact = exact_all || i == 0 || (endpoint && i == n - 1);
        if T::FLOAT {
            if must_be_exact { if !same_f64(o, T::of_f(x).f()) { return Err(format!("position {i}: {o:?} but exactly {x:?} is required")); } }
            else if !((o - x).abs() <= tol) { return Err(format!("position {i}: {o:?} differs from the exact value {x:?} by more than {tol:e}")); }
        } else {
            // `N::from(f64)` truncates: accept the truncation of any value within tol of the exact one
            let (lo, hi) = (T::of_f(x - tol).f(), T::of_f(x + tol).f());
            // (truncation is monotone: `o` is the truncation of some value within tol of x iff it lies between the truncated ends)
            let ok = if must_be_exact { o == T::of_f(x).f() } else { o == lo || o == hi || o == T::of_f(x).f() || (o >= lo.min(hi) && o <= lo.max(hi)) };
            if !ok { return Err(format!("position {i}: {o:?} is not the truncation of {x:?}")); }
        }
    }
    // the statement's own oracle: constant difference (floats; exact arithmetic is what the theorem covers)
    if T::FLOAT && n >= 3 && !exact_all {
        let d0 = e[1].f() - e[0].f();
        for i in 1..n - 1 {
            let d = e[i + 1].f() - e[i].f();
            if !((d - d0).abs() <= 2.0 * tol) { return Err(format!("difference at {i} is {d:?}, at 0 it is {d0:?}")); }
        }
    }
    Ok(())
}

/// linspace / arange: observed against the exact rationals of the model.
/// `exact_ends`: first (and last when `endpoint`) must be bit-exact; interior within `tol`.
fn seq_verdict<T: Elem>(r: Result<Array<T>, ArrayError>, expected: &str, tol: f64, exact_all: bool, endpoint: bool) -> Verdict {
    let a = match r { Ok(a) => a, Err(e) => return compare_default(format!("err {}", err_name(&e)), expected) };
    let e: Vec<T> = a.get_elements().unwrap();
    let obs = format!("ok {}:{}", show_list(&a.get_shape().unwrap()), if e.is_empty() { "-".into() } else { e.iter().map(|x| format!("{:?}", x.f())).collect::<Vec<_>>().join(",") });
    let want = match parse_rat_answer(expected) { Some(w) => w, None => return compare_default(obs, expected) };
    let mism = |d: String| Verdict::Mismatch { observed: obs.clone(), detail: d };
    if !consistent(&a) || a.get_shape().unwrap() != vec![e.len()] { return mism("not a consistent 1-D array".into()); }
    if let Err(d) = seq_check(&e, want.len(), &|i| want[i], tol, exact_all, endpoint) { return mism(d); }
    Verdict::Match(expected.to_string())
}

/// the element-by-element rules of `pow_seq_verdict`, with the value of position i given by a function (the model's expression
/// evaluated natively for ordinary cases, the harness-native formula for the giant ones)
fn pow_check<T: Elem>(e: &[T], n_want: usize, val: &dyn Fn(usize) -> Result<(f64, String), String>, first: f64, last: f64, endpoint: bool) -> Result<(), String> {
    if e.len() != n_want { return Err(format!("count {} but the model has {}", e.len(), n_want)); }
    let n = e.len();
    for i in 0..n {
        let (v, how) = val(i)?;
        let w = T::of_f(v).f();
        if !same_f64(e[i].f(), w) { return Err(format!("position {i}: {:?} but {how} evaluates to {:?}", e[i].f(), w)); }
    }
    // (subnormal elements carry fewer bits: only count, first, last and the bit-exact expression are compared there)
    if T::FLOAT && n >= 2 && e.iter().all(|x| x.f().is_finite() && x.f() != 0.0) && (small_range(first, last) || e.iter().all(|x| x.f().abs() >= T::MINPOS)) {
        if !same_f64(e[0].f(), T::of_f(first).f()) { return Err(format!("first element {:?}, start value {:?}", e[0].f(), first)); }
        if endpoint && !same_f64(e[n - 1].f(), T::of_f(last).f()) { return Err(format!("last element {:?}, stop value {:?}", e[n - 1].f(), last)); }
        // constant ratio: powf is accurate to ~1 ulp, the rounding of the common ratio is amplified by the exponent
        // beyond a range of e^50 the rounding of the exponent 1/d is amplified by ln(stop/start): x^(1/d + delta) = x^(1/d) * e^(delta ln x)
        let tol = (8.0 * (n as f64 + 4.0) + range_term(first, last)) * T::EPS;
        let q0 = e[1].f() / e[0].f();
        for i in 1..n - 1 {
            let q = e[i + 1].f() / e[i].f();
            if !(((q - q0) / q0).abs() <= tol) { return Err(format!("ratio at {i} is {q:?}, at 0 it is {q0:?} (relative tolerance {tol:e})")); }
        }
    }
    Ok(())
}

/// geomspace / logspace: every element is the model's expression evaluated natively (bit-exact after the cast),
/// and for f64 the statement's oracle: first, last, constant ratio within a relative tolerance.
/// `native`: the harness-native formula of the same sequence (used alone on the giant cases) — compared bit-wise with the model's
/// expression at every position of every ordinary case, so that it is validated against the model in the same run.
fn pow_seq_verdict<T: Elem>(r: Result<Array<T>, ArrayError>, expected: &str, st: f64, tp: f64, base: f64,
                            first: f64, last: f64, endpoint: bool, native: Option<&dyn Fn(usize) -> f64>) -> Verdict {
    let a = match r { Ok(a) => a, Err(e) => return compare_default(format!("err {}", err_name(&e)), expected) };
    let e: Vec<T> = a.get_elements().unwrap();
    let obs = format!("ok {}:{}", show_list(&a.get_shape().unwrap()), if e.is_empty() { "-".into() } else { e.iter().map(|x| format!("{:?}", x.f())).collect::<Vec<_>>().join(",") });
    let body = match expected.strip_prefix("ok ") { Some(b) => b, None => return compare_default(obs, expected) };
    let exprs: Vec<&str> = if body == "-" { vec![] } else { body.split(';').collect() };
    let mism = |d: String| Verdict::Mismatch { observed: obs.clone(), detail: d };
    if !consistent(&a) || a.get_shape().unwrap() != vec![e.len()] { return mism("not a consistent 1-D array".into()); }
    let val = |i: usize| -> Result<(f64, String), String> {
        let mut pos = 0;
        match eval_expr(exprs[i].as_bytes(), &mut pos, st, tp, base) { Some(v) if pos == exprs[i].len() => Ok((v, format!("the model's expression `{}`", exprs[i]))), _ => Err(format!("harness cannot evaluate `{}`", exprs[i])) }
    };
    if let Err(d) = pow_check(&e, exprs.len(), &val, first, last, endpoint) { return mism(d); }
    if let Some(nat) = native {
        for i in 0..exprs.len() {
            let v = val(i).map(|x| x.0).unwrap_or(f64::NAN);
            if !same_f64(v, nat(i)) { return mism(format!("ORACLE-VS-MODEL position {i}: the harness-native formula gives {:?}, the model's expression `{}` {:?} (harness defect: the reference is not usable)", nat(i), exprs[i], v)); }
        }
        SEQ_OK.with(|c| c.set(c.get() + 1));
    }
    Verdict::Match(expected.to_string())
}

// ---- harness-native formulas of the sequences (exact rationals for arange / linspace, the f64 expression for the powf-based ones)

/// linspace on whole-number bounds: (count, endpoint, exact value of position i as a correctly rounded f64).  `None` when a part
/// does not fit 2^53 (then the quotient of the two f64 images would not be the correctly rounded value)
fn nat_linspace(s: i64, t: i64, num: Option<usize>, endpoint: Option<bool>) -> Option<(usize, bool, Box<dyn Fn(usize) -> f64>)> {
    let (num, ep) = (num.unwrap_or(50), endpoint.unwrap_or(true));
    let d = num.saturating_sub(ep as usize) as i128;
    let lim = 1i128 << 53;
    let worst = (s as i128 * d).abs() + (num as i128) * (t as i128 - s as i128).abs();
    if d >= lim || worst >= lim { return None }
    Some((num, ep, Box::new(move |i| {
        if ep && i + 1 == num { return t as f64 }
        if d == 0 { return s as f64 }
        (s as i128 * d + i as i128 * (t as i128 - s as i128)) as f64 / d as f64
    })))
}
/// arange on whole-number bounds with a whole step >= 1: floor((stop + 1 - start) / step) terms start + i * step
fn nat_arange(s: i64, t: i64, step: Option<i64>) -> Option<(usize, Box<dyn Fn(usize) -> f64>)> {
    let st = step.unwrap_or(1);
    if st < 1 { return None }
    let span = t as i128 + 1 - s as i128;
    let cnt = if span <= 0 { 0 } else { (span / st as i128) as usize };
    if (s as i128).abs() + cnt as i128 * st as i128 >= 1i128 << 53 { return None }
    Some((cnt, Box::new(move |i| (s as i128 + i as i128 * st as i128) as f64)))
}
/// `first * ((last / first)^(1/d))^i`, the last position replaced by `last` with the endpoint (geomspace on start / stop,
/// logspace on base^start / base^stop)
fn nat_geom(first: f64, last: f64, num: Option<usize>, endpoint: Option<bool>) -> (usize, bool, Box<dyn Fn(usize) -> f64>) {
    let (num, ep) = (num.unwrap_or(50), endpoint.unwrap_or(true));
    let d = num.saturating_sub(ep as usize);
    // (the model's exact `1 / 0` is 0; positions that use it do not exist: num = 0, or num = 1 with the endpoint)
    let ratio = (last / first).powf(if d == 0 { 0.0 } else { 1.0 / d as f64 });
    (num, ep, Box::new(move |i| if ep && i + 1 == num { last } else { first * ratio.powf(i as f64) }))
}
fn whole(s: &str) -> Option<i64> { s.parse::<i64>().ok() }

/// "the base raised to evenly spaced exponents": compare with base^(linspace_i) natively
fn logspace_stmt_check<T: Elem>(el: &[T], sv: f64, tv: f64, bf: f64, ep: bool) -> Option<(String, String)> {
    let num = el.len();
    // base^start or base^stop outside the normal range of the element type (the crate forms both before anything else, so an overflowing
    // `base^stop` spoils every position even when the endpoint is left out): only the bit-exact expression comparison applies there
    let in_range = |x: f64| { let w = T::of_f(bf.powf(x)).f(); w.is_finite() && w.abs() >= T::MINPOS };
    if num >= 2 && in_range(sv) && in_range(tv) {
        let d = (num - ep as usize) as f64;
        for i in 0..num {
            let x = sv + (i as f64) * (tv - sv) / d;
            let w = bf.powf(x);
            // the native reference itself rounds its exponent: relative error |x| ln(b) eps/2, negligible in the small scope (|x| <= 8)
            let exp_term = { let t = 2.0 * x.abs() * bf.ln(); if t > 50.0 { t } else { 0.0 } };
            let tol = (64.0 * (num as f64) + range_term(bf.powf(sv), bf.powf(tv)) + exp_term) * T::EPS;
            if w.is_finite() && w != 0.0 && w.abs() >= T::MINPOS && !(((el[i].f() - w) / w).abs() <= tol) {
                return Some((format!("{:?}", el[i].f()), format!("position {i}: base^exponent is {w:?} (relative tolerance {tol:e})")));
            }
        }
    }
    None
}

fn run<T: Elem>(op: &str, a: &[&str], expected: &str) -> Option<Verdict> {
    let cmp = |obs: String| Some(compare_default(obs, expected));
    match op {
        "full" => { let s = parse_usize_list(a[0]); let v = T::of_f(a[1].parse::<i64>().ok()? as f64); cmp(guarded(|| res_arr_t(&Array::<T>::full(s, v)))) }
        "zeros" => { let s = parse_usize_list(a[0]); cmp(guarded(|| res_arr_t(&Array::<T>::zeros(s)))) }
        "ones" => { let s = parse_usize_list(a[0]); cmp(guarded(|| res_arr_t(&Array::<T>::ones(s)))) }
        "full_like" => { let o = arr_t::<T>(a[0]); let v = T::of_f(a[1].parse::<i64>().ok()? as f64); cmp(guarded(|| res_arr_t(&Array::<T>::full_like(&o, v)))) }
        "zeros_like" => { let o = arr_t::<T>(a[0]); cmp(guarded(|| res_arr_t(&Array::<T>::zeros_like(&o)))) }
        "ones_like" => { let o = arr_t::<T>(a[0]); cmp(guarded(|| res_arr_t(&Array::<T>::ones_like(&o)))) }
        "rand" => {
            let s = parse_usize_list(a[0]);
            match try_run(|| Array::<T>::rand(s)) { Ok(r) => Some(rand_verdict(r, expected)), Err(_) => cmp("panic".into()) }
        }
        "eye" => { let n: usize = a[0].parse().ok()?; let (m, k) = (opt_usize(a[1])?, opt_usize(a[2])?); cmp(guarded(|| res_arr_t(&Array::<T>::eye(n, m, k)))) }
        "identity" => { let n: usize = a[0].parse().ok()?; cmp(guarded(|| res_arr_t(&Array::<T>::identity(n)))) }
        "tri" => { let n: usize = a[0].parse().ok()?; let (m, k) = (opt_usize(a[1])?, opt_isize(a[2])?); cmp(guarded(|| res_arr_t(&Array::<T>::tri(n, m, k)))) }
        "tril" => { let o = arr_t::<T>(a[0]); let k = opt_isize(a[1])?; cmp(guarded(|| res_arr_t(&o.tril(k)))) }
        "triu" => { let o = arr_t::<T>(a[0]); let k = opt_isize(a[1])?; cmp(guarded(|| res_arr_t(&o.triu(k)))) }
        "tril_plus_triu" => {
            let o = arr_t::<T>(a[0]); let k: isize = a[1].parse().ok()?;
            cmp(guarded(|| {
                let (l, u) = (o.tril(Some(k)), o.triu(Some(k + 1)));
                match (l, u) {
                    (Ok(l), Ok(u)) => {
                        if l.get_shape().unwrap() != u.get_shape().unwrap() { return "ok SHAPES-DIFFER".into(); }
                        // the sum is formed here, natively (the crate's `+` belongs to C04/C20)
                        let sum: Vec<T> = l.get_elements().unwrap().iter().zip(u.get_elements().unwrap().iter()).map(|(x, y)| T::of_f(x.f() + y.f())).collect();
                        res_arr_t(&Array::new(sum, l.get_shape().unwrap()))
                    }
                    (Err(e), _) | (_, Err(e)) => format!("err {}", err_name(&e)),
                }
            }))
        }
        "diag" => { let o = arr_t::<T>(a[0]); let k = opt_isize(a[1])?; cmp(guarded(|| res_arr_t(&o.diag(k)))) }
        "diagflat" => { let o = arr_t::<T>(a[0]); let k = opt_isize(a[1])?; cmp(guarded(|| res_arr_t(&o.diagflat(k)))) }
        "diag_diag" => { let o = arr_t::<T>(a[0]); let k = opt_isize(a[1])?; cmp(guarded(|| res_arr_t(&o.diag(k).and_then(|m| m.diag(k))))) }
        "vander" => { let o = arr_t::<T>(a[0]); let (n, inc) = (opt_usize(a[1])?, opt_bool(a[2])?); cmp(guarded(|| res_arr_t(&o.vander(n, inc)))) }
        "arange" | "m_arange" => {
            let (s, t, st) = (rat(a[0])?, rat(a[1])?, opt_rat(a[2])?);
            let (s, t, st) = (T::of_f(s), T::of_f(t), st.map(T::of_f));
            let is_macro = op == "m_arange";
            let r = try_run(move || if is_macro { match st { None => array_arange!(T, s, t), Some(x) => array_arange!(T, s, t, x) } } else { Array::<T>::arange(s, t, st) });
            match r {
                Err(_) => cmp("panic".into()),
                Ok(r) => {
                    let v = seq_verdict(r, expected, 0.0, true, false);
                    // the native formula of the giant cases, validated against the model's answer
                    if let (Verdict::Match(_), Some(s0), Some(t0), Some(st0)) = (&v, whole(a[0]), whole(a[1]), if a[2] == "none" { Some(None) } else { whole(a[2]).map(Some) }) {
                        if let (Some((cnt, f)), Some(want)) = (nat_arange(s0, t0, st0), parse_rat_answer(expected)) {
                            if cnt != want.len() || (0..cnt).any(|i| !same_f64(f(i), want[i])) {
                                return Some(Verdict::Mismatch { observed: format!("native arange: {cnt} terms"), detail: format!("ORACLE-VS-MODEL the harness-native arange formula disagrees with the model answer `{}` (harness defect: the reference is not usable)", truncate(expected, 200)) });
                            }
                            SEQ_OK.with(|c| c.set(c.get() + 1));
                        }
                    }
                    Some(v)
                }
            }
        }
        "linspace" => {
            let (s, t, n, e) = (rat(a[0])?, rat(a[1])?, opt_usize(a[2])?, opt_bool(a[3])?);
            let (sv, tv) = (T::of_f(s), T::of_f(t));
            let r = try_run(move || Array::<T>::linspace(sv, tv, n, e));
            match r {
                Err(_) => cmp("panic".into()),
                // beyond the i64 scope the exact rationals of the model are converted by the big-integer division (another half ulp)
                Ok(r) => {
                    // an INTEGRAL GRID below 2^53 (whole bounds, whole step, every sample a whole number below 2^53 in magnitude): the quotient
                    // (stop - start) / d, every product i * step and every sum start + i * step are exact in f64, so the model's exact
                    // answer is the required one bit for bit at EVERY position (no tolerance)
                    let exact_grid = match (whole(a[0]), whole(a[1])) {
                        (Some(s0), Some(t0)) => {
                            let d = n.unwrap_or(50).saturating_sub(e.unwrap_or(true) as usize) as i128;
                            let (lim, span) = (1i128 << 53, t0 as i128 - s0 as i128);
                            d > 0 && (s0 as i128).abs() < lim && (t0 as i128).abs() < lim && span.abs() < lim && span % d == 0
                        }
                        _ => false,
                    };
                    if exact_grid { GRID_EXACT.with(|c| c.set(c.get() + 1)); }
                    let v = seq_verdict(r, expected, (if small_args(&a[..2]) { 4.0 } else { 8.0 }) * ulp_scale(s.abs().max(t.abs())) * (T::EPS / f64::EPSILON), exact_grid, e.unwrap_or(true));
                    if let (Verdict::Match(_), Some(s0), Some(t0)) = (&v, whole(a[0]), whole(a[1])) {
                        if let (Some((cnt, _, f)), Some(want)) = (nat_linspace(s0, t0, n, e), parse_rat_answer(expected)) {
                            if cnt != want.len() || (0..cnt).any(|i| !same_f64(f(i), want[i])) {
                                return Some(Verdict::Mismatch { observed: format!("native linspace: {cnt} points"), detail: format!("ORACLE-VS-MODEL the harness-native linspace formula disagrees with the model answer `{}` (harness defect: the reference is not usable)", truncate(expected, 200)) });
                            }
                            SEQ_OK.with(|c| c.set(c.get() + 1));
                        }
                    }
                    Some(v)
                }
            }
        }
        "geomspace" => {
            let (s, t, n, e) = (rat(a[0])?, rat(a[1])?, opt_usize(a[2])?, opt_bool(a[3])?);
            let (sv, tv) = (T::of_f(s), T::of_f(t));
            let r = try_run(move || Array::<T>::geomspace(sv, tv, n, e));
            match r {
                Err(_) => cmp("panic".into()),
                Ok(r) => {
                    let nat = nat_geom(sv.f(), tv.f(), n, e).2;
                    Some(pow_seq_verdict(r, expected, sv.f(), tv.f(), 0.0, sv.f(), tv.f(), e.unwrap_or(true), if small_args(&a[..2]) { Some(&*nat) } else { None }))
                }
            }
        }
        "logspace" => {
            let (s, t, n, e, b) = (rat(a[0])?, rat(a[1])?, opt_usize(a[2])?, opt_bool(a[3])?, opt_usize(a[4])?);
            let (sv, tv) = (T::of_f(s), T::of_f(t));
            let r = try_run(move || Array::<T>::logspace(sv, tv, n, e, b));
            let bf = b.unwrap_or(10) as f64;
            match r {
                Err(_) => cmp("panic".into()),
                // in the expressions S/T are unused; the leaves are P(B, start) and P(B, stop)
                Ok(r) => {
                    // the native formula is the model's only when start / stop cross the boundary as whole numbers (`P(B, n/d)` divides)
                    let nat = nat_geom(bf.powf(sv.f()), bf.powf(tv.f()), n, e).2;
                    let v = pow_seq_verdict(r.clone(), expected, 0.0, 0.0, bf, bf.powf(sv.f()), bf.powf(tv.f()), e.unwrap_or(true), if whole(a[0]).is_some() && whole(a[1]).is_some() { Some(&*nat) } else { None });
                    if let (Verdict::Match(_), true, Ok(arr)) = (&v, T::FLOAT, &r) {
                        if let Some((observed, detail)) = logspace_stmt_check(&arr.get_elements().unwrap(), sv.f(), tv.f(), bf, e.unwrap_or(true)) { return Some(Verdict::Mismatch { observed, detail }); }
                    }
                    Some(v)
                }
            }
        }
        "m_zeros" => { let d = parse_usize_list(a[0]); let r = try_run(|| macro_dims::<T>("zeros", &d)); match r { Ok(Some(r)) => cmp(res_arr_t(&r)), Ok(None) => None, Err(_) => cmp("panic".into()) } }
        "m_ones" => { let d = parse_usize_list(a[0]); let r = try_run(|| macro_dims::<T>("ones", &d)); match r { Ok(Some(r)) => cmp(res_arr_t(&r)), Ok(None) => None, Err(_) => cmp("panic".into()) } }
        "m_rand" => { let d = parse_usize_list(a[0]); let r = try_run(|| macro_dims::<T>("rand", &d)); match r { Ok(Some(r)) => Some(rand_verdict(r, expected)), Ok(None) => None, Err(_) => cmp("panic".into()) } }
        "m_full" => { let s = parse_usize_list(a[0]); let v = T::of_f(a[1].parse::<i64>().ok()? as f64); cmp(guarded(|| res_arr_t(&array_full!(T, s, v)))) }
        "m_eye" => {
            let n: usize = a[0].parse().ok()?; let (m, k) = (opt_usize(a[1])?, opt_usize(a[2])?);
            cmp(guarded(|| res_arr_t(&match (m, k) { (None, _) => array_eye!(T, n), (Some(m), None) => array_eye!(T, n, m), (Some(m), Some(k)) => array_eye!(T, n, m, k) })))
        }
        "m_identity" => { let n: usize = a[0].parse().ok()?; cmp(guarded(|| res_arr_t(&array_identity!(T, n)))) }
        // ---- the macros again, with impure argument expressions (evaluation count and order are part of the observation)
        "mi_zeros" | "mi_ones" | "mi_rand" | "mi_full" | "mi_eye" | "mi_identity" | "mi_arange" => {
            let which = &op[3..];
            let (d, extra): (Vec<usize>, Vec<i64>) = match which {
                "full" => (parse_usize_list(a[0]), vec![a[1].parse().ok()?]),
                "eye" => (std::iter::once(a[0].parse::<usize>().ok()).chain([opt_usize(a[1])?, opt_usize(a[2])?]).flatten().collect(), vec![]),
                "identity" => (vec![a[0].parse().ok()?], vec![]),
                "arange" => (vec![], a.iter().filter(|x| **x != "none").map(|x| x.parse::<i64>().ok()).collect::<Option<Vec<_>>>()?),
                _ => (parse_usize_list(a[0]), vec![]),
            };
            if which == "eye" && a[1] == "none" && a[2] != "none" { return None }
            IMPURE.with(|c| c.set(c.get() + 1));
            match try_run(|| macro_impure::<T>(which, &d, &extra)) {
                Err(_) => cmp("panic".into()),
                Ok(None) => None,
                Ok(Some((r, log, arity))) => {
                    let fault = impure_fault(&log, arity);
                    let v = match which {
                        "rand" => rand_verdict(r, expected),
                        "arange" => seq_verdict(r, expected, 0.0, true, false),
                        _ => compare_default(res_arr_t(&r), expected),
                    };
                    Some(match (v, fault) {
                        (Verdict::Mismatch { observed, detail }, Some(f)) => Verdict::Mismatch { observed, detail: format!("{detail}; {f}") },
                        (Verdict::Mismatch { observed, detail }, None) => Verdict::Mismatch { observed, detail },
                        (_, Some(f)) => Verdict::Mismatch { observed: format!("evaluation log {log:?}"), detail: f },
                        (v, None) => v,
                    })
                }
            }
        }
        _ => None,
    }
}

// ------------------------------------------------------------------------------------------------ value classes (`<type>v`)

/// element types of the value-class stream: a tag of the case line stands for `pal(tag)`; tag 0 is `T::zero()` (what a mask writes)
trait VElem: Numeric {
    fn pal(t: i64) -> Self;
    /// bit-level identity (every NaN alike; -0.0 differs from +0.0)
    fn key(&self) -> u128;
    fn shw(&self) -> String;
    /// image of a tag in the GIANT streams: injective on the tags of a giant array wherever the type is wide enough (bit BITS-2 set, so
    /// never zero and, on the 64-bit types, beyond what an f64 round trip keeps); the small-scope palette otherwise
    fn gp(t: i64) -> Self { Self::pal(t) }
}
macro_rules! velem_signed { ($($t:ty),*) => { $( impl VElem for $t {
    fn pal(t: i64) -> Self {
        if t == 0 { return 0 }
        let (q, r) = (((t - 1) / 6) as $t, (t - 1) % 6);
        let wide = <$t>::BITS >= 64;
        // beyond 2^53 (odd: not representable in f64) for the 64-bit types; near the ends of the range for every type
        let big: $t = if wide { ((1i64 << 53) + 1) as $t } else { <$t>::MAX / 2 + 1 };
        let v: $t = match r { 0 => big.wrapping_add(q.wrapping_mul(2)), 1 => (0 as $t).wrapping_sub(big).wrapping_sub(q.wrapping_mul(2)), 2 => <$t>::MAX.wrapping_sub(q), 3 => <$t>::MIN.wrapping_add(q),
                  4 => big.wrapping_add(2).wrapping_add(q.wrapping_mul(2)), _ => if q % 2 == 0 { (q % 100).wrapping_add(1) } else { (0 as $t).wrapping_sub(q % 100).wrapping_sub(1) } };
        // (the narrow types wrap round for large tags) a tag other than 0 never stands for zero
        if v == 0 { <$t>::MIN } else { v }
    }
    fn key(&self) -> u128 { (*self as i128) as u128 }
    fn shw(&self) -> String { format!("{}", self) }
    fn gp(t: i64) -> Self { if <$t>::BITS >= 32 { (t as $t) | ((1 as $t) << (<$t>::BITS - 2)) } else { Self::pal(t) } }
} )* } }
macro_rules! velem_unsigned { ($($t:ty),*) => { $( impl VElem for $t {
    fn pal(t: i64) -> Self {
        if t == 0 { return 0 }
        let (q, r) = (((t - 1) / 6) as $t, (t - 1) % 6);
        let wide = <$t>::BITS >= 64;
        let big: $t = if wide { ((1u64 << 53) + 1) as $t } else { <$t>::MAX / 2 + 1 };
        let v: $t = match r { 0 => big.wrapping_add(q.wrapping_mul(2)), 1 => <$t>::MAX.wrapping_sub(q), 2 => (<$t>::MAX / 2).wrapping_add(2).wrapping_add(q), 3 => <$t>::MAX.wrapping_sub(1).wrapping_sub(q.wrapping_mul(2)),
                  4 => big.wrapping_add(2).wrapping_add(q.wrapping_mul(2)), _ => (q % 100).wrapping_add(1) };
        if v == 0 { <$t>::MAX } else { v }
    }
    fn key(&self) -> u128 { *self as u128 }
    fn shw(&self) -> String { format!("{}", self) }
    fn gp(t: i64) -> Self { if <$t>::BITS >= 32 { (t as $t) | ((1 as $t) << (<$t>::BITS - 2)) } else { Self::pal(t) } }
} )* } }
velem_signed!(i8, i16, i32, i64, isize);
velem_unsigned!(u8, u16, u32, u64, usize);
impl VElem for f64 {
    fn pal(t: i64) -> Self {
        if t == 0 { return 0.0 }
        let (q, r) = (((t - 1) / 10) as f64, (t - 1) % 10);
        match r { 0 => -0.0, 1 => f64::INFINITY, 2 => f64::NEG_INFINITY, 3 => f64::NAN, 4 => f64::from_bits(1 + q as u64), 5 => f64::MAX - q * 1e292,
                  6 => -(q + 1.5), 7 => 9007199254740994.0 + 2. * q, 8 => f64::MIN_POSITIVE * (q + 1.), _ => 0.1 + q }
    }
    fn key(&self) -> u128 { if self.is_nan() { u128::MAX } else { self.to_bits() as u128 } }
    fn shw(&self) -> String { format!("{:?}", self) }
    fn gp(t: i64) -> Self { match t % 64 { 7 => -0.0, 9 => f64::NAN, 11 => f64::NEG_INFINITY, _ => t as f64 + 0.25 } }
}
impl VElem for f32 {
    fn pal(t: i64) -> Self {
        if t == 0 { return 0.0 }
        let (q, r) = (((t - 1) / 10) as f32, (t - 1) % 10);
        match r { 0 => -0.0, 1 => f32::INFINITY, 2 => f32::NEG_INFINITY, 3 => f32::NAN, 4 => f32::from_bits(1 + q as u32), 5 => f32::MAX - q * 1e31,
                  6 => -(q + 1.5), 7 => 16777216.0 + 2. * q, 8 => f32::MIN_POSITIVE * (q + 1.), _ => 0.1 + q }
    }
    fn key(&self) -> u128 { if self.is_nan() { u128::MAX } else { self.to_bits() as u128 } }
    fn shw(&self) -> String { format!("{:?}", self) }
    fn gp(t: i64) -> Self { match t % 64 { 7 => -0.0, 9 => f32::NAN, 11 => f32::NEG_INFINITY, _ => t as f32 + 0.5 } }
}
const VTYPES: [&str; 12] = ["i8v", "i16v", "i32v", "i64v", "isizev", "u8v", "u16v", "u32v", "u64v", "usizev", "f32v", "f64v"];

fn arr_v<T: VElem>(s: &str) -> Array<T> {
    let (shape, elems) = parse_arr_raw(s);
    Array::new(elems.into_iter().map(T::pal).collect(), shape).expect("harness: malformed array literal")
}
fn show_v<T: VElem>(a: &Array<T>) -> String {
    let e = a.get_elements().unwrap();
    format!("{}:{}", show_list(&a.get_shape().unwrap()), if e.is_empty() { "-".to_string() } else { e.iter().take(40).map(|x| x.shw()).collect::<Vec<_>>().join(",") })
}
/// compare a real array bit-wise with the model's integer answer: `tags` — a model value `m` stands for `pal(m)`; otherwise 0 / 1 stand
/// for `T::zero()` / `T::one()`
fn cmp_v<T: VElem>(r: &Result<Array<T>, ArrayError>, expected: &str, tags: bool) -> Verdict {
    let a = match r { Ok(a) => a, Err(e) => return compare_default(format!("err {}", err_name(e)), expected) };
    let obs = format!("ok {}", show_v(a));
    let Some(body) = expected.strip_prefix("ok ") else { return Verdict::Mismatch { observed: obs, detail: format!("model says `{}`", truncate(expected, 200)) } };
    let Some((sh, el)) = body.split_once(':') else { return Verdict::Mismatch { observed: obs, detail: "harness cannot read the model's answer".into() } };
    let mism = |d: String| Verdict::Mismatch { observed: obs.clone(), detail: d };
    if !consistent(a) { return mism("shape/count inconsistent (C01 monitor)".into()) }
    if a.get_shape().unwrap() != parse_usize_list(sh) { return mism(format!("shape: the model has {sh}")) }
    let want = parse_i64_list(el);
    let e = a.get_elements().unwrap();
    if e.len() != want.len() { return mism(format!("{} elements, the model has {}", e.len(), want.len())) }
    for (p, (x, &m)) in e.iter().zip(&want).enumerate() {
        let w: T = if tags { T::pal(m) } else if m == 0 { T::zero() } else if m == 1 { T::one() } else { return mism(format!("harness: model value {m} where only 0/1 can occur")) };
        if x.key() != w.key() { return mism(format!("flat position {p}: {} instead of {} (bit-wise; model value {m})", x.shw(), w.shw())) }
    }
    Verdict::Match(expected.to_string())
}

fn run_v<T: VElem>(op: &str, a: &[&str], expected: &str) -> Option<Verdict> {
    let out = |r: Result<Result<Array<T>, ArrayError>, ()>, tags: bool| -> Option<Verdict> { match r { Ok(r) => Some(cmp_v(&r, expected, tags)), Err(()) => Some(compare_default("panic".into(), expected)) } };
    match op {
        "full" => { let s = parse_usize_list(a[0]); let v = T::pal(a[1].parse().ok()?); out(try_run(|| Array::<T>::full(s, v)), true) }
        "m_full" => { let s = parse_usize_list(a[0]); let v = T::pal(a[1].parse().ok()?); out(try_run(|| array_full!(T, s, v)), true) }
        "full_like" => { let o = arr_v::<T>(a[0]); let v = T::pal(a[1].parse().ok()?); out(try_run(|| Array::<T>::full_like(&o, v)), true) }
        "zeros" => { let s = parse_usize_list(a[0]); out(try_run(|| Array::<T>::zeros(s)), false) }
        "ones" => { let s = parse_usize_list(a[0]); out(try_run(|| Array::<T>::ones(s)), false) }
        "zeros_like" => { let o = arr_v::<T>(a[0]); out(try_run(|| Array::<T>::zeros_like(&o)), false) }
        "ones_like" => { let o = arr_v::<T>(a[0]); out(try_run(|| Array::<T>::ones_like(&o)), false) }
        "eye" => { let n: usize = a[0].parse().ok()?; let (m, k) = (opt_usize(a[1])?, opt_usize(a[2])?); out(try_run(|| Array::<T>::eye(n, m, k)), false) }
        "identity" => { let n: usize = a[0].parse().ok()?; out(try_run(|| Array::<T>::identity(n)), false) }
        "tri" => { let n: usize = a[0].parse().ok()?; let (m, k) = (opt_usize(a[1])?, opt_isize(a[2])?); out(try_run(|| Array::<T>::tri(n, m, k)), false) }
        "tril" => { let o = arr_v::<T>(a[0]); let k = opt_isize(a[1])?; out(try_run(|| o.tril(k)), true) }
        "triu" => { let o = arr_v::<T>(a[0]); let k = opt_isize(a[1])?; out(try_run(|| o.triu(k)), true) }
        "tril_plus_triu" => {
            // reassembly without arithmetic: at every position one of the two parts holds the input's bits and the other one exactly zero
            let o = arr_v::<T>(a[0]); let k: isize = a[1].parse().ok()?;
            let r = try_run(|| (o.tril(Some(k)), o.triu(Some(k.saturating_add(1)))));
            let (l, u) = match r { Err(()) => return Some(compare_default("panic".into(), expected)), Ok((Err(e), _)) | Ok((_, Err(e))) => return Some(compare_default(format!("err {}", err_name(&e)), expected)), Ok((Ok(l), Ok(u))) => (l, u) };
            if l.get_shape().unwrap() != u.get_shape().unwrap() || l.get_shape().unwrap() != o.get_shape().unwrap() { return Some(Verdict::Mismatch { observed: format!("ok {} / {}", show_v(&l), show_v(&u)), detail: "the two parts and the input differ in shape".into() }) }
            let (x, le, ue) = (o.get_elements().unwrap(), l.get_elements().unwrap(), u.get_elements().unwrap());
            let z = T::zero().key();
            for p in 0..x.len() {
                let lower = le[p].key() == x[p].key() && ue[p].key() == z;
                let upper = ue[p].key() == x[p].key() && le[p].key() == z;
                if lower == upper { return Some(Verdict::Mismatch { observed: format!("ok lower {} upper {}", le[p].shw(), ue[p].shw()), detail: format!("flat position {p}: input {} is not held (bit-wise) by exactly one of tril(k), triu(k+1) with exact zero in the other", x[p].shw()) }) }
            }
            // the parts reassemble the input: answer with the input itself, which is what the model's sum is
            Some(cmp_v(&Ok(o), expected, true))
        }
        "diag" => { let o = arr_v::<T>(a[0]); let k = opt_isize(a[1])?; out(try_run(|| o.diag(k)), true) }
        "diagflat" => { let o = arr_v::<T>(a[0]); let k = opt_isize(a[1])?; out(try_run(|| o.diagflat(k)), true) }
        "diag_diag" => { let o = arr_v::<T>(a[0]); let k = opt_isize(a[1])?; out(try_run(|| o.diag(k).and_then(|m| m.diag(k))), true) }
        _ => None,
    }
}

// ------------------------------------------------------------------------------------------------ part 3: harness-native reference

use std::rc::Rc;
type At = Rc<dyn Fn(usize) -> i64>;
/// the native reference's answer at MODEL level (integers: tags of the source, fill values, 0 / 1), as a coordinate formula:
/// nothing is materialised, so the same code answers a 2 x 2 and a 1031 x 1033 case
struct Ora { shape: Vec<usize>, at: At, tags: bool }
impl Ora { fn count(&self) -> usize { self.shape.iter().product() } }

/// a source array named in a case line, without building it: `i<shape>[+off]` (tag p + off at flat position p), explicit values, or
/// (giant lines only) `m<k>x<shape>`: the value p mod k at flat position p
fn src_of(s: &str) -> (Vec<usize>, At) {
    if let Some(body) = s.strip_prefix('m') {
        let (k, sh) = body.split_once('x').unwrap();
        let k: usize = k.parse().unwrap();
        (parse_usize_list(sh), Rc::new(move |p| (p % k) as i64))
    } else if let Some(body) = s.strip_prefix('i') {
        let (sh, off) = match body.split_once('+') { Some((a, b)) => (a, b.parse::<i64>().unwrap()), None => (body, 0) };
        (parse_usize_list(sh), Rc::new(move |p| p as i64 + off))
    } else { let (sh, v) = parse_arr_raw(s); (sh, Rc::new(move |p| v[p])) }
}

fn ora_diag(shape: &[usize], src: At, k: i128) -> Result<Ora, ()> {
    match shape.len() {
        1 => {
            let (n, ak) = (shape[0] as u128, k.unsigned_abs());
            let side = n + ak;
            if side > usize::MAX as u128 || side * side > usize::MAX as u128 { return Err(()) }
            let (side, n, ak) = (side as usize, n as usize, ak as usize);
            Ok(Ora { shape: vec![side, side], tags: true, at: Rc::new(move |p| {
                let (i, j) = (p / side, p % side);
                if k >= 0 { if j == i + ak && i < n { src(i) } else { 0 } } else if i == j + ak && j < n { src(j) } else { 0 }
            }) })
        }
        2 => {
            let (rows, cols) = (shape[0], shape[1]);
            let ak = k.unsigned_abs().min(usize::MAX as u128) as usize;
            let (sr, sc) = if k >= 0 { (0, ak) } else { (ak, 0) };
            let len = rows.saturating_sub(sr).min(cols.saturating_sub(sc));
            Ok(Ora { shape: vec![len], tags: true, at: Rc::new(move |t| src((sr + t) * cols + sc + t)) })
        }
        _ => Err(()),
    }
}

/// `None` = the reference has no opinion on this operation (sequences and rand have their own native formulas)
fn oracle(op: &str, a: &[&str]) -> Option<Result<Ora, ()>> {
    let int = |s: &str| s.parse::<i128>().ok();
    let opt_int = |s: &str| if s == "none" { Some(None) } else { s.parse::<i128>().ok().map(Some) };
    let konst = |shape: Vec<usize>, v: i64, tags: bool| -> Option<Result<Ora, ()>> { Some(Ok(Ora { shape, tags, at: Rc::new(move |_| v) })) };
    match op {
        "full" | "m_full" => konst(parse_usize_list(a[0]), a[1].parse().ok()?, true),
        "zeros" | "m_zeros" => konst(parse_usize_list(a[0]), 0, false),
        "ones" | "m_ones" => konst(parse_usize_list(a[0]), 1, false),
        "full_like" => konst(src_of(a[0]).0, a[1].parse().ok()?, true),
        "zeros_like" => konst(src_of(a[0]).0, 0, false),
        "ones_like" => konst(src_of(a[0]).0, 1, false),
        "eye" | "m_eye" => {
            let n: usize = a[0].parse().ok()?;
            let m = opt_int(a[1])?.map_or(n, |x| x as usize);
            let k = opt_int(a[2])?.unwrap_or(0);
            Some(Ok(Ora { shape: vec![n, m], tags: false, at: Rc::new(move |p| ((p % m) as i128 == (p / m) as i128 + k) as i64) }))
        }
        "identity" | "m_identity" => { let n: usize = a[0].parse().ok()?; Some(Ok(Ora { shape: vec![n, n], tags: false, at: Rc::new(move |p| (p / n == p % n) as i64) })) }
        "tri" => {
            let n: usize = a[0].parse().ok()?;
            let m = opt_int(a[1])?.map_or(n, |x| x as usize);
            let k = opt_int(a[2])?.unwrap_or(0);
            Some(Ok(Ora { shape: vec![n, m], tags: false, at: Rc::new(move |p| ((p % m) as i128 <= (p / m) as i128 + k) as i64) }))
        }
        "tril" | "triu" | "tril_plus_triu" => {
            let (sh, src) = src_of(a[0]);
            let k = if op == "tril_plus_triu" { int(a[1])? } else { opt_int(a[1])?.unwrap_or(0) };
            if sh.len() < 2 { return Some(Err(())) }
            let (rows, cols) = (sh[sh.len() - 2], sh[sh.len() - 1]);
            let mode = match op { "tril" => 0, "triu" => 1, _ => 2 };
            Some(Ok(Ora { shape: sh, tags: true, at: Rc::new(move |p| {
                let (i, j) = (((p / cols) % rows) as i128, (p % cols) as i128);
                let keep = match mode { 0 => j <= i + k, 1 => j >= i + k, _ => true };
                if keep { src(p) } else { 0 }
            }) }))
        }
        "diag" => { let (sh, src) = src_of(a[0]); Some(ora_diag(&sh, src, opt_int(a[1])?.unwrap_or(0))) }
        "diagflat" => { let (sh, src) = src_of(a[0]); Some(ora_diag(&[sh.iter().product()], src, opt_int(a[1])?.unwrap_or(0))) }
        "diag_diag" => {
            let (sh, src) = src_of(a[0]);
            let k = opt_int(a[1])?.unwrap_or(0);
            Some(ora_diag(&sh, src, k).and_then(|o| ora_diag(&o.shape.clone(), o.at, k)))
        }
        "vander" => {
            let (sh, src) = src_of(a[0]);
            if sh.len() != 1 { return Some(Err(())) }
            let cols = opt_int(a[1])?.map_or(sh[0], |x| x as usize);
            let inc = opt_bool(a[2])?.unwrap_or(false);
            // i64::MIN = "the power does not fit": the validation then has no opinion
            Some(Ok(Ora { shape: vec![sh[0], cols], tags: true, at: Rc::new(move |p| {
                let (i, c) = (p / cols, p % cols);
                src(i).checked_pow((if inc { c } else { cols - c - 1 }) as u32).unwrap_or(i64::MIN)
            }) }))
        }
        _ => None,
    }
}

thread_local! {
    /// ordinary cases on which the native reference agreed with the model's full answer / had no opinion; sequence cases on which the
    /// native sequence formulas agreed with the model; giant cases judged by the reference alone, and the time they took
    static ORA_OK: std::cell::Cell<u64> = const { std::cell::Cell::new(0) };
    static ORA_NONE: std::cell::Cell<u64> = const { std::cell::Cell::new(0) };
    static SEQ_OK: std::cell::Cell<u64> = const { std::cell::Cell::new(0) };
    static GIANT: std::cell::Cell<u64> = const { std::cell::Cell::new(0) };
    /// linspace cases on an integral grid below 2^53, judged bit for bit at every position
    static GRID_EXACT: std::cell::Cell<u64> = const { std::cell::Cell::new(0) };
    /// macro calls with impure argument expressions (evaluation count and order observed)
    static IMPURE: std::cell::Cell<u64> = const { std::cell::Cell::new(0) };
    static GIANT_MS: std::cell::Cell<u64> = const { std::cell::Cell::new(0) };
}

/// compare the native reference with the model's answer of an ordinary case; `Some(detail)` = they disagree
fn validate_oracle(op: &str, a: &[&str], expected: &str) -> Option<String> {
    let none = || { ORA_NONE.with(|c| c.set(c.get() + 1)); None };
    let o = match std::panic::catch_unwind(std::panic::AssertUnwindSafe(|| oracle(op, a))) { Ok(Some(o)) => o, _ => return none() };
    match (o, class_of(expected)) {
        (_, "panic") => none(),
        (Err(()), "err") => { ORA_OK.with(|c| c.set(c.get() + 1)); None }
        (Err(()), _) => Some(format!("the reference refuses the call, the model says `{}`", truncate(expected, 200))),
        (Ok(_), "err") => Some(format!("the reference accepts the call, the model says `{expected}`")),
        (Ok(o), "ok") => {
            let Some((sh, el)) = expected[3..].split_once(':') else { return none() };
            if parse_usize_list(sh) != o.shape { return Some(format!("the reference has shape {}, the model {sh}", show_list(&o.shape))) }
            let n = o.count();
            // every case up to 2 000 elements, one in four up to 20 000, one in sixteen of the larger ones (those are judged by the model itself)
            let pick = n + a.len() + a.iter().map(|x| x.len()).sum::<usize>();
            if n > 400_000 || (n > 20_000 && pick % 16 != 0) || (n > 2_000 && pick % 4 != 0) { return none() }
            let mut p = 0usize;
            if el != "-" {
                for t in el.split(',') {
                    let Ok(m) = t.parse::<i64>() else { return none() };
                    if p >= n { return Some(format!("the model has more than the reference's {n} elements")) }
                    let w = (o.at)(p);
                    if w == i64::MIN { return none() }
                    if w != m { return Some(format!("flat position {p}: the reference has {w}, the model {m}")) }
                    p += 1;
                }
            }
            if p != n { return Some(format!("the model has {p} elements, the reference {n}")) }
            ORA_OK.with(|c| c.set(c.get() + 1));
            None
        }
        _ => none(),
    }
}

/// in-place comparison of a giant result with the reference (nothing is formatted; only the first differing position is reported)
fn cmp_giant<T: VElem>(r: &Result<Array<T>, ArrayError>, want: &Result<Ora, ()>) -> Verdict {
    let mism = |observed: String, detail: String| Verdict::Mismatch { observed, detail: format!("giant case, harness-native reference: {detail}") };
    match (r, want) {
        (Err(e), Err(())) => Verdict::Match(format!("err {} (giant: refused, as the reference demands)", err_name(e))),
        (Err(e), Ok(o)) => mism(format!("err {}", err_name(e)), format!("the reference has a result of shape {}", show_list(&o.shape))),
        (Ok(a), Err(())) => mism(format!("ok shape {}", show_list(&a.get_shape().unwrap())), "the reference refuses the call".into()),
        (Ok(a), Ok(o)) => {
            let obs = format!("ok shape {} (giant result, not printed)", show_list(&a.get_shape().unwrap()));
            if !consistent(a) { return mism(obs, "shape/count inconsistent (C01 monitor)".into()) }
            if a.get_shape().unwrap() != o.shape { return mism(obs, format!("shape: the reference has {}", show_list(&o.shape))) }
            let e = a.get_elements().unwrap();
            if e.len() != o.count() { return mism(obs, format!("{} elements, the reference has {}", e.len(), o.count())) }
            for (p, x) in e.iter().enumerate() {
                let m = (o.at)(p);
                let w: T = if o.tags { if m == 0 { T::zero() } else { T::gp(m) } } else if m == 0 { T::zero() } else { T::one() };
                if x.key() != w.key() { return mism(obs, format!("flat position {p}: {} instead of {} (bit-wise; reference value {m})", x.shw(), w.shw())) }
            }
            Verdict::Match(format!("ok native (giant: shape {}, {} elements compared in place with the harness-native reference)", show_list(&o.shape), e.len()))
        }
    }
}

/// a giant structural case on a value-class element type: the source holds `gp(tag)`, tag 0 never occurs in a source
fn giant_v<T: VElem>(op: &str, a: &[&str]) -> Option<Verdict> {
    let want = oracle(op, a)?;
    let arr = |s: &str| -> Array<T> { let (sh, src) = src_of(s); let n: usize = sh.iter().product(); Array::new((0..n).map(|p| T::gp(src(p))).collect(), sh).expect("harness: giant source") };
    let r: Result<Result<Array<T>, ArrayError>, ()> = match op {
        "full" => { let s = parse_usize_list(a[0]); let v = T::gp(a[1].parse().ok()?); try_run(|| Array::<T>::full(s, v)) }
        "m_full" => { let s = parse_usize_list(a[0]); let v = T::gp(a[1].parse().ok()?); try_run(|| array_full!(T, s, v)) }
        "full_like" => { let o = arr(a[0]); let v = T::gp(a[1].parse().ok()?); try_run(|| Array::<T>::full_like(&o, v)) }
        "zeros" => { let s = parse_usize_list(a[0]); try_run(|| Array::<T>::zeros(s)) }
        "ones" => { let s = parse_usize_list(a[0]); try_run(|| Array::<T>::ones(s)) }
        "m_zeros" => { let d = parse_usize_list(a[0]); match try_run(|| macro_dims::<T>("zeros", &d)) { Ok(Some(r)) => Ok(r), Ok(None) => return None, Err(()) => Err(()) } }
        "m_ones" => { let d = parse_usize_list(a[0]); match try_run(|| macro_dims::<T>("ones", &d)) { Ok(Some(r)) => Ok(r), Ok(None) => return None, Err(()) => Err(()) } }
        "zeros_like" => { let o = arr(a[0]); try_run(|| Array::<T>::zeros_like(&o)) }
        "ones_like" => { let o = arr(a[0]); try_run(|| Array::<T>::ones_like(&o)) }
        "eye" => { let n: usize = a[0].parse().ok()?; let (m, k) = (opt_usize(a[1])?, opt_usize(a[2])?); try_run(|| Array::<T>::eye(n, m, k)) }
        "m_eye" => { let n: usize = a[0].parse().ok()?; let (m, k) = (opt_usize(a[1])?, opt_usize(a[2])?); try_run(|| match (m, k) { (None, _) => array_eye!(T, n), (Some(m), None) => array_eye!(T, n, m), (Some(m), Some(k)) => array_eye!(T, n, m, k) }) }
        "identity" => { let n: usize = a[0].parse().ok()?; try_run(|| Array::<T>::identity(n)) }
        "m_identity" => { let n: usize = a[0].parse().ok()?; try_run(|| array_identity!(T, n)) }
        "tri" => { let n: usize = a[0].parse().ok()?; let (m, k) = (opt_usize(a[1])?, opt_isize(a[2])?); try_run(|| Array::<T>::tri(n, m, k)) }
        "tril" => { let o = arr(a[0]); let k = opt_isize(a[1])?; try_run(|| o.tril(k)) }
        "triu" => { let o = arr(a[0]); let k = opt_isize(a[1])?; try_run(|| o.triu(k)) }
        "tril_plus_triu" => {
            let o = arr(a[0]); let k: isize = a[1].parse().ok()?;
            let (l, u) = match try_run(|| (o.tril(Some(k)), o.triu(Some(k.saturating_add(1))))) {
                Err(()) => return Some(Verdict::Mismatch { observed: "panic".into(), detail: "giant case: tril / triu panicked".into() }),
                Ok((Err(e), _)) | Ok((_, Err(e))) => return Some(cmp_giant::<T>(&Err(e), &want)),
                Ok((Ok(l), Ok(u))) => (l, u) };
            if l.get_shape().unwrap() != u.get_shape().unwrap() || l.get_shape().unwrap() != o.get_shape().unwrap() { return Some(Verdict::Mismatch { observed: "ok (giant parts)".into(), detail: "the two parts and the input differ in shape".into() }) }
            let (x, le, ue) = (o.get_elements().unwrap(), l.get_elements().unwrap(), u.get_elements().unwrap());
            if le.len() != x.len() || ue.len() != x.len() { return Some(Verdict::Mismatch { observed: "ok (giant parts)".into(), detail: "the two parts and the input differ in element count".into() }) }
            let z = T::zero().key();
            for p in 0..x.len() {
                let lower = le[p].key() == x[p].key() && ue[p].key() == z;
                let upper = ue[p].key() == x[p].key() && le[p].key() == z;
                if lower == upper { return Some(Verdict::Mismatch { observed: format!("ok lower {} upper {}", le[p].shw(), ue[p].shw()), detail: format!("giant case, flat position {p}: input {} is not held (bit-wise) by exactly one of tril(k), triu(k+1) with exact zero in the other", x[p].shw()) }) }
            }
            Ok(Ok(o))
        }
        "diag" => { let o = arr(a[0]); let k = opt_isize(a[1])?; try_run(|| o.diag(k)) }
        "diagflat" => { let o = arr(a[0]); let k = opt_isize(a[1])?; try_run(|| o.diagflat(k)) }
        "diag_diag" => { let o = arr(a[0]); let k = opt_isize(a[1])?; try_run(|| o.diag(k).and_then(|m| m.diag(k))) }
        _ => return None,
    };
    match r { Ok(r) => Some(cmp_giant(&r, &want)), Err(()) => Some(Verdict::Mismatch { observed: "panic".into(), detail: "giant case: the call panicked".into() }) }
}

/// giant cases on a plain element type: vander, the sequences, rand
fn giant_p<T: Elem>(op: &str, a: &[&str]) -> Option<Verdict> {
    let mism = |observed: String, detail: String| Some(Verdict::Mismatch { observed, detail: format!("giant case, harness-native reference: {detail}") });
    let okm = |n: usize| Some(Verdict::Match(format!("ok native (giant: {n} elements compared in place with the harness-native reference)")));
    let seq_arr = |r: Result<Result<Array<T>, ArrayError>, ()>| -> Result<Vec<T>, Option<Verdict>> {
        match r {
            Err(()) => Err(mism("panic".into(), "the call panicked".into())),
            Ok(Err(e)) => Err(mism(format!("err {}", err_name(&e)), "the reference has a sequence".into())),
            Ok(Ok(arr)) => { let e = arr.get_elements().unwrap(); if !consistent(&arr) || arr.get_shape().unwrap() != vec![e.len()] { Err(mism("ok".into(), "not a consistent 1-D array".into())) } else { Ok(e) } }
        }
    };
    match op {
        "vander" => {
            let want = match oracle(op, a)? { Ok(o) => o, Err(()) => return None };
            let (sh, src) = src_of(a[0]);
            let n: usize = sh.iter().product();
            let o = Array::new((0..n).map(|p| T::of_f(src(p) as f64)).collect::<Vec<T>>(), sh).expect("harness: giant source");
            let (cols, inc) = (opt_usize(a[1])?, opt_bool(a[2])?);
            match try_run(|| o.vander(cols, inc)) {
                Err(()) => mism("panic".into(), "the call panicked".into()),
                Ok(Err(e)) => mism(format!("err {}", err_name(&e)), "the reference has a result".into()),
                Ok(Ok(r)) => {
                    if !consistent(&r) || r.get_shape().unwrap() != want.shape { return mism(format!("ok shape {}", show_list(&r.get_shape().unwrap())), format!("shape: the reference has {}", show_list(&want.shape))) }
                    let e = r.get_elements().unwrap();
                    for (p, x) in e.iter().enumerate() { let w = (want.at)(p); if !same_f64(x.f(), T::of_f(w as f64).f()) { return mism(format!("{:?}", x.f()), format!("flat position {p}: the power is {w}")) } }
                    okm(e.len())
                }
            }
        }
        "rand" => {
            let s = parse_usize_list(a[0]);
            match try_run(|| Array::<T>::rand(s.clone())) {
                Err(()) => mism("panic".into(), "the call panicked".into()),
                Ok(Err(e)) => mism(format!("err {}", err_name(&e)), "the reference has a result".into()),
                Ok(Ok(r)) => {
                    let e = r.get_elements().unwrap();
                    if !consistent(&r) || r.get_shape().unwrap() != s || e.len() != s.iter().product::<usize>() { return mism("ok".into(), "shape / count are not the requested ones".into()) }
                    if let Some(p) = e.iter().position(|x| !(x.f() >= 0.0 && x.f() <= 1.0)) { return mism(format!("{:?}", e[p].f()), format!("flat position {p} outside the unit interval")) }
                    okm(e.len())
                }
            }
        }
        "arange" | "m_arange" => {
            let (s, t, st) = (whole(a[0])?, whole(a[1])?, if a[2] == "none" { None } else { Some(whole(a[2])?) });
            let (cnt, f) = nat_arange(s, t, st)?;
            let (sv, tv, stv) = (T::of_f(s as f64), T::of_f(t as f64), st.map(|x| T::of_f(x as f64)));
            let is_macro = op == "m_arange";
            let e = match seq_arr(try_run(move || if is_macro { match stv { None => array_arange!(T, sv, tv), Some(x) => array_arange!(T, sv, tv, x) } } else { Array::<T>::arange(sv, tv, stv) })) { Ok(e) => e, Err(v) => return v };
            match seq_check(&e, cnt, &*f, 0.0, true, false) { Ok(()) => okm(cnt), Err(d) => mism(format!("{} terms", e.len()), d) }
        }
        "linspace" => {
            let (s, t, n, ep) = (whole(a[0])?, whole(a[1])?, opt_usize(a[2])?, opt_bool(a[3])?);
            let (cnt, epb, f) = nat_linspace(s, t, n, ep)?;
            let (sv, tv) = (T::of_f(s as f64), T::of_f(t as f64));
            let e = match seq_arr(try_run(move || Array::<T>::linspace(sv, tv, n, ep))) { Ok(e) => e, Err(v) => return v };
            let tol = 4.0 * ulp_scale((s as f64).abs().max((t as f64).abs())) * (T::EPS / f64::EPSILON);
            match seq_check(&e, cnt, &*f, tol, false, epb) { Ok(()) => okm(cnt), Err(d) => mism(format!("{} points", e.len()), d) }
        }
        "geomspace" | "logspace" => {
            let (s, t, n, ep) = (whole(a[0])?, whole(a[1])?, opt_usize(a[2])?, opt_bool(a[3])?);
            let (sv, tv) = (T::of_f(s as f64), T::of_f(t as f64));
            let (first, last, bf) = if op == "geomspace" { (sv.f(), tv.f(), 0.0) } else { let bf = opt_usize(a[4])?.unwrap_or(10) as f64; (bf.powf(sv.f()), bf.powf(tv.f()), bf) };
            let b = if op == "logspace" { opt_usize(a[4])? } else { None };
            let is_geo = op == "geomspace";
            let e = match seq_arr(try_run(move || if is_geo { Array::<T>::geomspace(sv, tv, n, ep) } else { Array::<T>::logspace(sv, tv, n, ep, b) })) { Ok(e) => e, Err(v) => return v };
            let (cnt, epb, f) = nat_geom(first, last, n, ep);
            if let Err(d) = pow_check(&e, cnt, &|i| Ok((f(i), "the harness-native formula first * ((last / first)^(1/d))^i".to_string())), first, last, epb) { return mism(format!("{} points", e.len()), d) }
            if !is_geo && T::FLOAT { if let Some((o, d)) = logspace_stmt_check(&e, sv.f(), tv.f(), bf, epb) { return mism(o, d) } }
            okm(cnt)
        }
        _ => None,
    }
}

/// `n_<op> <type> args…`: more than 2^20 elements; the driver answered `ok native`
fn exec_giant(op: &str, args: &[&str], expected: &str) -> Option<Verdict> {
    if expected != "ok native" { return Some(compare_default("harness: an `n_` line expects the driver to answer `ok native`".into(), expected)); }
    let (ty, a) = args.split_first()?;
    let t0 = std::time::Instant::now();
    let v = match *ty {
        "i32" => giant_p::<i32>(op, a), "i64" => giant_p::<i64>(op, a), "u8" => giant_p::<u8>(op, a), "f64" => giant_p::<f64>(op, a), "f32" => giant_p::<f32>(op, a), "u64" => giant_p::<u64>(op, a),
        "i8v" => giant_v::<i8>(op, a), "i16v" => giant_v::<i16>(op, a), "i32v" => giant_v::<i32>(op, a), "i64v" => giant_v::<i64>(op, a),
        "isizev" => giant_v::<isize>(op, a), "u8v" => giant_v::<u8>(op, a), "u16v" => giant_v::<u16>(op, a), "u32v" => giant_v::<u32>(op, a),
        "u64v" => giant_v::<u64>(op, a), "usizev" => giant_v::<usize>(op, a), "f32v" => giant_v::<f32>(op, a), "f64v" => giant_v::<f64>(op, a),
        _ => None,
    };
    GIANT.with(|c| c.set(c.get() + 1));
    GIANT_MS.with(|c| c.set(c.get() + t0.elapsed().as_millis() as u64));
    v
}

fn exec_report(args: &[&str], expected: &str) -> Option<Verdict> {
    if expected != "ok report" { return Some(compare_default("harness: a report line expects the driver to answer `ok report`".into(), expected)); }
    let (ok, none, seq, giant, ms, big) = (ORA_OK.with(|c| c.get()), ORA_NONE.with(|c| c.get()), SEQ_OK.with(|c| c.get()), GIANT.with(|c| c.get()), GIANT_MS.with(|c| c.get()), BIG_CHECKS.with(|c| c.get()));
    let text = format!("ok report: native reference = model on {ok} structural cases (no opinion {none}), native sequence formulas = model on {seq} cases, {giant} giant cases judged in place ({:.1} s), {big} big-division checks, {} integral linspace grids judged bit for bit", ms as f64 / 1000.0, GRID_EXACT.with(|c| c.get()));
    if args.first() == Some(&"final") && (ok < 1000 || seq < 300) {
        return Some(Verdict::Mismatch { observed: text, detail: "the native reference was relied upon without having been compared with the model on at least 1000 structural and 300 sequence cases of this run".into() });
    }
    Some(Verdict::Match(text))
}

thread_local! {
    /// the previous case of this thread (op, arguments, model answer, what the crate answered) — for the A–B–A discipline
    static PREV: std::cell::RefCell<Option<(String, Vec<String>, String, String)>> = const { std::cell::RefCell::new(None) };
    static SEQ: std::cell::Cell<u64> = const { std::cell::Cell::new(0) };
}
fn verdict_text(v: &Option<Verdict>) -> String {
    match v { None => "harness-error".into(), Some(Verdict::Match(o)) => format!("match {o}"), Some(Verdict::Open(o)) => format!("open {o}"), Some(Verdict::Mismatch { observed, .. }) => format!("mismatch {observed}") }
}

/// A–B–A: every third case B is followed by a re-run of the case A executed just before it; the crate must answer A exactly as it did
/// the first time (a memo / cache that survives a call makes the answer depend on the call in between).
fn exec(op: &str, args: &[&str], expected: &str) -> Option<Verdict> {
    // `VERIF_SLOW=<seconds>`: print the case lines that take longer to stderr (timing of the slowest cases)
    let t0 = std::time::Instant::now();
    let v = exec_timed(op, args, expected);
    if let Some(lim) = std::env::var("VERIF_SLOW").ok().and_then(|s| s.parse::<f64>().ok()) {
        let dt = t0.elapsed().as_secs_f64();
        if dt > lim { eprintln!("SLOW {dt:.3}s {op} {}", truncate(&args.join(" "), 200)); }
    }
    v
}

fn exec_timed(op: &str, args: &[&str], expected: &str) -> Option<Verdict> {
    // giant cases and report lines are not re-run (cost; the report text changes from call to call)
    if op.starts_with("n_") || op == "oracle_report" {
        PREV.with(|p| *p.borrow_mut() = None);
        return match op.strip_prefix("n_") { Some(gop) => exec_giant(gop, args, expected), None => exec_report(args, expected) };
    }
    let mut out = exec_case(op, args, expected);
    let seq = SEQ.with(|s| { let x = s.get() + 1; s.set(x); x });
    let prev = PREV.with(|p| p.borrow_mut().take());
    if let Some((pop, pargs, pexp, ptext)) = &prev {
        let differs = pop != op || pargs.iter().map(String::as_str).ne(args.iter().copied());
        if differs && seq % 3 == 0 && !matches!(out, Some(Verdict::Mismatch { .. }) | None) {
            let pa: Vec<&str> = pargs.iter().map(String::as_str).collect();
            let again = verdict_text(&exec_case(pop, &pa, pexp));
            if again != *ptext {
                out = Some(Verdict::Mismatch { observed: format!("A-B-A: `{} {}` answered `{}` before this case and `{}` after it", pop, truncate(&pa.join(" "), 300), truncate(ptext, 300), truncate(&again, 300)),
                                               detail: "the answer to a call must not depend on the calls made before it (hidden state)".into() });
            }
        }
    }
    // huge answers are not kept (the re-run would double their cost)
    let keep = expected.len() <= 20_000 && args.iter().map(|a| a.len()).sum::<usize>() <= 20_000;
    let text = verdict_text(&out);
    PREV.with(|p| *p.borrow_mut() = if keep { Some((op.to_string(), args.iter().map(|a| a.to_string()).collect(), expected.to_string(), text)) } else { None });
    out
}

fn exec_case(op: &str, args: &[&str], expected: &str) -> Option<Verdict> {
    let v = exec_case0(op, args, expected);
    // the native reference of the giant cases is compared with the model's full answer on every ordinary case
    if let (Some(Verdict::Match(_)) | Some(Verdict::Open(_)), Some((_, rest))) = (&v, args.split_first()) {
        if let Some(d) = validate_oracle(&op.replace("mi_", "m_"), rest, expected) {
            return Some(Verdict::Mismatch { observed: "ORACLE-VS-MODEL".into(), detail: format!("ORACLE-VS-MODEL {d} (harness defect: the native reference is not usable)") });
        }
    }
    v
}

fn exec_case0(op: &str, args: &[&str], expected: &str) -> Option<Verdict> {
    let (ty, rest) = args.split_first()?;
    match *ty {
        "i32" => run::<i32>(op, rest, expected),
        "i64" => run::<i64>(op, rest, expected),
        "u8" => run::<u8>(op, rest, expected),
        "f64" => run::<f64>(op, rest, expected),
        "f32" => run::<f32>(op, rest, expected),
        "u64" => run::<u64>(op, rest, expected),
        "i8v" => run_v::<i8>(op, rest, expected), "i16v" => run_v::<i16>(op, rest, expected), "i32v" => run_v::<i32>(op, rest, expected), "i64v" => run_v::<i64>(op, rest, expected),
        "isizev" => run_v::<isize>(op, rest, expected), "u8v" => run_v::<u8>(op, rest, expected), "u16v" => run_v::<u16>(op, rest, expected), "u32v" => run_v::<u32>(op, rest, expected),
        "u64v" => run_v::<u64>(op, rest, expected), "usizev" => run_v::<usize>(op, rest, expected), "f32v" => run_v::<f32>(op, rest, expected), "f64v" => run_v::<f64>(op, rest, expected),
        _ => None,
    }
}

// ------------------------------------------------------------------------------------------------ generator

fn opt_s<T: std::fmt::Display>(o: Option<T>) -> String { o.map_or("none".into(), |x| x.to_string()) }

// ------------------------------------------------------------------------------------------------ robustness streams

fn gen_streams(out: &mut dyn FnMut(String), rng: &mut Rng, thorough: bool) {
    let opt_k = |k: Option<isize>| k.map_or("none".to_string(), |x| x.to_string());
    // shapes beyond the exhaustive scope: every `big_shapes()` entry plus wide / tall / long-stack matrices
    let mut big: Vec<Vec<usize>> = big_shapes();
    big.extend([vec![130, 17], vec![17, 130], vec![300, 2, 2], vec![2, 2, 33, 9], vec![64, 64], vec![1, 257], vec![257, 1]]);
    let big_ks: [Option<isize>; 10] = [None, Some(-40), Some(-20), Some(-9), Some(-1), Some(0), Some(1), Some(8), Some(16), Some(69)];
    let mut zs = zero_shapes();
    zs.extend([vec![0, 2, 2], vec![2, 2, 0], vec![3, 0, 0], vec![2, 0, 3, 4], vec![0, 7], vec![17, 0]]);

    // ---- A. value classes, every numeric element type, bit-wise
    for ty in VTYPES {
        let hi = if thorough { 6usize } else { 4 };
        let kk: isize = if thorough { 7 } else { 5 };
        let ks: Vec<Option<isize>> = std::iter::once(None).chain((-kk..=kk).map(Some)).collect();
        for n in 0..=hi { for m in 0..=hi {
            for off in if thorough { vec![1i64, 4, 8] } else { vec![1i64, 4] } {
                // the offset shifts which palette value meets which coordinate
                if off != 1 && (n < 2 || m < 2) { continue }
                let a = tag_off(&[n, m], off);
                for k in &ks { out(format!("tril {ty} {a} {}", opt_k(*k))); out(format!("triu {ty} {a} {}", opt_k(*k))); }
                for k in -kk..kk { out(format!("tril_plus_triu {ty} {a} {k}")); }
                for k in &ks { out(format!("diag {ty} {a} {}", opt_k(*k))); }
            }
        } }
        for sh in [vec![2usize, 2, 3], vec![2, 3, 2], vec![3, 1, 2, 2], vec![2, 0, 2], vec![0, 2, 2], vec![2, 1, 1, 3, 3]] {
            let a = tag_off(&sh, 1);
            for k in -3isize..=3 { out(format!("tril {ty} {a} {k}")); out(format!("triu {ty} {a} {k}")); out(format!("tril_plus_triu {ty} {a} {k}")); }
        }
        for a in ["-:5".to_string(), tag_off(&[3], 1), tag_off(&[0], 1)] { out(format!("tril {ty} {a} none")); out(format!("triu {ty} {a} 1")); out(format!("tril_plus_triu {ty} {a} 0")); }
        for n in 0..=(hi + 7) {
            let v = tag_off(&[n], 1);
            for k in -3isize..=3 { out(format!("diag {ty} {v} {k}")); out(format!("diag_diag {ty} {v} {k}")); out(format!("diagflat {ty} {v} {k}")); }
            out(format!("diag {ty} {v} none")); out(format!("diagflat {ty} {v} none"));
        }
        for sh in [vec![2usize, 2], vec![2, 3], vec![2, 1, 2], vec![3, 4], vec![2, 2, 2]] { for k in -1isize..=1 { out(format!("diagflat {ty} {} {k}", tag_off(&sh, 1))); } }
        out(format!("diag {ty} {} none", tag_off(&[2, 2, 2], 1))); out(format!("diag {ty} -:5 none"));
        for z in &zs {
            let a = tag_off(z, 1);
            for op in ["tril", "triu", "diag", "diagflat"] { out(format!("{op} {ty} {a} none")); out(format!("{op} {ty} {a} 1")); out(format!("{op} {ty} {a} -2")); }
            out(format!("tril_plus_triu {ty} {a} 0"));
            out(format!("full_like {ty} {a} 3")); out(format!("zeros_like {ty} {a}")); out(format!("ones_like {ty} {a}"));
            out(format!("full {ty} {} 2", show_list(z))); out(format!("zeros {ty} {}", show_list(z))); out(format!("ones {ty} {}", show_list(z)));
        }
        // fills: every palette value as the fill value
        for sh in [vec![], vec![1usize], vec![3], vec![2, 3], vec![2, 2, 2], vec![7, 9], vec![300]] {
            let shs = show_list(&sh);
            for v in 0..=(if thorough { 40 } else { 13 }) { out(format!("full {ty} {shs} {v}")); out(format!("m_full {ty} {shs} {v}")); if !sh.is_empty() { out(format!("full_like {ty} {} {v}", tag_off(&sh, 2))); } }
            out(format!("zeros {ty} {shs}")); out(format!("ones {ty} {shs}"));
            if !sh.is_empty() { out(format!("zeros_like {ty} {}", tag_off(&sh, 1))); out(format!("ones_like {ty} {}", tag_off(&sh, 1))); }
        }
        for n in 0..=4usize { for m in [None, Some(0usize), Some(2), Some(5)] {
            for k in [None, Some(0usize), Some(1), Some(4)] { out(format!("eye {ty} {n} {} {}", opt_s(m), opt_s(k))); }
            for k in [None, Some(0isize), Some(1), Some(-1), Some(-4), Some(5)] { out(format!("tri {ty} {n} {} {}", opt_s(m), opt_s(k))); }
        } out(format!("identity {ty} {n}")); }
        out(format!("identity {ty} 17")); out(format!("eye {ty} 17 9 3")); out(format!("tri {ty} 9 17 -2"));
        for k in [isize::MAX, isize::MIN, isize::MIN + 1] {
            let a = tag_off(&[2, 3], 1);
            out(format!("tril {ty} {a} {k}")); out(format!("triu {ty} {a} {k}")); if k < isize::MAX { out(format!("tril_plus_triu {ty} {a} {k}")); }
            out(format!("diag {ty} {a} {k}")); out(format!("diag {ty} {} {k}", tag_off(&[2], 1)));
        }
        // sizes, on the types where a value class bites hardest (quick) / on every type (thorough)
        if thorough || ["i64v", "u64v", "f64v", "f32v", "u8v", "i8v", "usizev"].contains(&ty) {
            for sh in &big {
                let a = tag_off(sh, 1);
                if sh.len() >= 2 {
                    for k in &big_ks { out(format!("tril {ty} {a} {}", opt_k(*k))); out(format!("triu {ty} {a} {}", opt_k(*k))); }
                    for k in [-20isize, -1, 0, 7, 16] { out(format!("tril_plus_triu {ty} {a} {k}")); }
                    if sh.len() == 2 { for k in [None, Some(5isize), Some(-5), Some(16), Some(-39), Some(200)] { out(format!("diag {ty} {a} {}", opt_k(k))); } }
                } else {
                    out(format!("tril {ty} {a} 0"));
                    if sh[0] <= 100 { for k in [0isize, 3, -30] { out(format!("diag {ty} {a} {k}")); out(format!("diag_diag {ty} {a} {k}")); } }
                }
                if sh.iter().product::<usize>() <= 80 { out(format!("diagflat {ty} {a} -2")); }
                out(format!("full_like {ty} {a} 4")); out(format!("zeros_like {ty} {a}")); out(format!("ones_like {ty} {a}")); out(format!("full {ty} {} 7", show_list(sh)));
            }
            out(format!("identity {ty} 70")); out(format!("eye {ty} 70 70 3")); out(format!("eye {ty} 17 130 5")); out(format!("tri {ty} 130 17 4")); out(format!("tri {ty} 70 70 -3"));
        }
    }

    // ---- B. the four plain element types beyond the small scope
    for ty in TYPES {
        let fits = |sh: &Vec<usize>| ty != "u8" || sh.iter().product::<usize>() <= 250;   // plain u8 holds the tags themselves
        for sh in &big {
            let shs = show_list(sh);
            out(format!("zeros {ty} {shs}")); out(format!("ones {ty} {shs}")); out(format!("full {ty} {shs} 9")); out(format!("m_full {ty} {shs} 5")); out(format!("rand {ty} {shs}"));
            if (1..=3).contains(&sh.len()) { out(format!("m_zeros {ty} {shs}")); out(format!("m_ones {ty} {shs}")); out(format!("m_rand {ty} {shs}")); }
            out(format!("zeros_like {ty} {}", tag(sh))); out(format!("ones_like {ty} {}", tag(sh))); out(format!("full_like {ty} {} 6", tag(sh)));
            if !fits(sh) { continue }
            let a = tag_off(sh, 1);
            if sh.len() >= 2 {
                for k in &big_ks { out(format!("tril {ty} {a} {}", opt_k(*k))); out(format!("triu {ty} {a} {}", opt_k(*k))); }
                for k in [-20isize, -1, 0, 7, 16] { out(format!("tril_plus_triu {ty} {a} {k}")); }
                if sh.len() == 2 { for k in [None, Some(5isize), Some(-5), Some(16), Some(-39), Some(200)] { out(format!("diag {ty} {a} {}", opt_k(k))); } }
            } else {
                out(format!("tril {ty} {a} 0")); out(format!("triu {ty} {a} none"));
                if sh[0] <= 100 { for k in [0isize, 3, -30] { out(format!("diag {ty} {a} {k}")); out(format!("diag_diag {ty} {a} {k}")); out(format!("diagflat {ty} {a} {k}")); } }
            }
            if sh.iter().product::<usize>() <= 80 { out(format!("diagflat {ty} {a} 2")); }
        }
        for z in &zs {
            let (a, shs) = (tag_off(z, 1), show_list(z));
            for op in ["tril", "triu", "diag", "diagflat", "diag_diag"] { for k in ["none", "1", "-2"] { out(format!("{op} {ty} {a} {k}")); } }
            out(format!("tril_plus_triu {ty} {a} 0")); out(format!("vander {ty} {a} none none")); out(format!("vander {ty} {a} 2 true"));
            out(format!("zeros {ty} {shs}")); out(format!("ones {ty} {shs}")); out(format!("full {ty} {shs} 1")); out(format!("m_full {ty} {shs} 1")); out(format!("rand {ty} {shs}"));
            out(format!("zeros_like {ty} {a}")); out(format!("ones_like {ty} {a}")); out(format!("full_like {ty} {a} 2"));
            if (1..=3).contains(&z.len()) { out(format!("m_zeros {ty} {shs}")); out(format!("m_ones {ty} {shs}")); out(format!("m_rand {ty} {shs}")); }
        }
        for (n, m, k) in [(70usize, Some(70usize), 3i64), (17, Some(130), 5), (130, Some(17), 0), (70, None, 69), (70, Some(70), 70), (9, Some(300), 290), (64, Some(65), 1)] {
            out(format!("eye {ty} {n} {} {k}", opt_s(m))); out(format!("m_eye {ty} {n} {} {k}", opt_s(m.or(Some(n)))));
            for kk in [k as isize, -(k as isize), 0] { out(format!("tri {ty} {n} {} {kk}", opt_s(m))); }
        }
        for n in [17usize, 64, 70, 130] { out(format!("identity {ty} {n}")); out(format!("m_identity {ty} {n}")); }
        // vander on long vectors (values 0/1/2 keep the powers inside u8), long sequences
        for (len, cols) in [(17usize, 5usize), (70, 3), (300, 2), (1030, 2)] {
            let v: Vec<i64> = (0..len).map(|i| [1i64, 2, 0, 1, 2, 2][i % 6]).collect();
            for inc in ["none", "true", "false"] { out(format!("vander {ty} {}:{} {cols} {inc}", len, show_list(&v))); }
        }
        let (s0, s1) = if ty == "u8" { ("0", "200") } else { ("-3", "1000") };
        for n in [61usize, 64, 100, 257, 1030, 4100] { for e in ["none", "true", "false"] {
            out(format!("linspace {ty} {s0} {s1} {n} {e}")); out(format!("linspace {ty} 0 1 {n} {e}"));
            if n <= 1030 { out(format!("geomspace {ty} 1 200 {n} {e}")); out(format!("logspace {ty} 0 2 {n} {e} none")); out(format!("logspace {ty} 0 1 {n} {e} 2")); }
        } }
        if ty != "u8" { for (s, t, st) in [(0i64, 300i64, "1"), (-50, 1030, "1"), (0, 4100, "1"), (0, 4100, "3"), (5, 20000, "7"), (0, 70, "none")] { out(format!("arange {ty} {s} {t} {st}")); out(format!("m_arange {ty} {s} {t} {}", if st == "none" { "none" } else { st })); } }
        else { for (s, t, st) in [(0i64, 250i64, "1"), (3, 255, "2"), (0, 255, "none")] { out(format!("arange {ty} {s} {t} {st}")); } }
    }
    let _ = rng;
}


// ------------------------------------------------------------------------------------------------ robustness streams, part 2

/// decimal text of `m * 2^e` as the exact rational `n` or `n/d` (the driver reads arbitrary-size integers, the executor converts
/// with `big::ratio`): the only way magnitudes beyond an i64 cross the language boundary — never as floats
fn dy(m: i64, e: i32) -> String {
    fn dec_pow2(mut limbs: Vec<u32>, e: u32) -> String {
        // base 10^9, little endian
        for _ in 0..e { let mut carry = 0u64; for l in limbs.iter_mut() { let x = *l as u64 * 2 + carry; *l = (x % 1_000_000_000) as u32; carry = x / 1_000_000_000; } if carry > 0 { limbs.push(carry as u32); } }
        let mut s = format!("{}", limbs.last().unwrap());
        for l in limbs.iter().rev().skip(1) { s.push_str(&format!("{:09}", l)); }
        s
    }
    let limbs_of = |v: u64| -> Vec<u32> { let mut l = vec![]; let mut v = v; loop { l.push((v % 1_000_000_000) as u32); v /= 1_000_000_000; if v == 0 { break } } l };
    if m == 0 { return "0".into() }
    let (mut m, mut e) = (m, e);
    while e < 0 && m % 2 == 0 { m /= 2; e += 1; }
    let sign = if m < 0 { "-" } else { "" };
    if e >= 0 { format!("{sign}{}", dec_pow2(limbs_of(m.unsigned_abs()), e as u32)) }
    else { format!("{sign}{}/{}", m.unsigned_abs(), dec_pow2(vec![1], (-e) as u32)) }
}
fn pow10(k: u32) -> String { format!("1{}", "0".repeat(k as usize)) }
fn neg(s: &str) -> String { if s == "0" { s.into() } else if let Some(r) = s.strip_prefix('-') { r.into() } else { format!("-{s}") } }

/// the element types in an order in which every neighbour differs and integer -> float, narrow -> wide float, float -> integer all occur
const ROTATION: [&str; 11] = ["i32", "f64", "u8", "f64", "f32", "f64", "i64", "f32", "i32", "f64", "u8"];
const ROTATION_V: [&str; 12] = ["i64", "f64v", "u8", "f64", "i8v", "f32v", "i32", "u64v", "f32", "usizev", "f64", "i64v"];

fn gen_streams2(out: &mut dyn FnMut(String), rng: &mut Rng, thorough: bool) {
    let ends = ["none", "true", "false"];
    // ---- 6d. statics of a generic fn are shared by all element types: the SAME arguments through all element types back to back
    let counts = ["none", "0", "1", "2", "3", "4", "5", "7", "11", "31", "37", "49", "50", "64"];
    for (s, t) in [("0", "10"), ("0", "1"), ("2", "3"), ("1", "255"), ("0", "59"), ("10", "0"), ("3", "3"), ("0", "7"), ("5", "200")] {
        for n in counts { for e in ends { for ty in ROTATION { out(format!("linspace {ty} {s} {t} {n} {e}")); } } }
    }
    for (s, t) in [("1", "200"), ("1", "128"), ("2", "2"), ("200", "1"), ("0", "5"), ("3", "100"), ("5", "0")] {
        for n in ["none", "0", "1", "2", "3", "4", "5", "7", "11", "31", "50"] { for e in ends { for ty in ROTATION { out(format!("geomspace {ty} {s} {t} {n} {e}")); } } }
    }
    for (s, t) in [("0", "2"), ("1", "2"), ("0", "0"), ("2", "0")] { for b in ["none", "2", "3"] {
        for n in ["none", "0", "1", "2", "3", "4", "5", "11"] { for e in ends { for ty in ROTATION { out(format!("logspace {ty} {s} {t} {n} {e} {b}")); } } }
    } }
    for (s, t, st) in [("0", "10", "none"), ("0", "10", "3"), ("3", "50", "7"), ("0", "5", "0"), ("5", "0", "1"), ("0", "250", "1"), ("2", "2", "none"), ("0", "100", "12")] {
        for ty in ROTATION { out(format!("arange {ty} {s} {t} {st}")); }
        for ty in ROTATION { if st != "0" { out(format!("m_arange {ty} {s} {t} {st}")); } }
    }
    // the same count with other bounds, the same bounds with another count, directly after one another (a memo compared loosely)
    for ty in ["f64", "f32", "i32"] {
        for (a, b) in [(("0", "10", "4"), ("0", "10", "5")), (("0", "10", "4"), ("0", "11", "4")), (("0", "10", "4"), ("1", "10", "4")), (("1", "100", "3"), ("1", "100", "4")), (("1", "100", "3"), ("2", "100", "3"))] {
            for e in ends {
                for (s, t, n) in [a, b, a] { out(format!("linspace {ty} {s} {t} {n} {e}")); }
                for (s, t, n) in [a, b, a] { out(format!("geomspace {ty} {} {t} {n} {e}", if s == "0" { "1" } else { s })); }
                for (s, t, n) in [a, b, a] { out(format!("logspace {ty} {s} {} {n} {e} none", if t == "100" { "3" } else { t })); }
            }
        }
    }
    // structural constructors, plain and value-class types taking turns
    for (n, m, k) in [(3usize, Some(4usize), Some(1usize)), (4, None, None), (5, Some(3), Some(2)), (7, Some(9), Some(0)), (17, Some(16), Some(3))] {
        for ty in ROTATION_V { out(format!("eye {ty} {n} {} {}", opt_s(m), opt_s(k))); }
        for ty in ROTATION_V { out(format!("tri {ty} {n} {} {}", opt_s(m), opt_s(k.map(|x| x as isize - 1)))); }
        for ty in ROTATION_V { out(format!("identity {ty} {n}")); }
        for ty in ROTATION { out(format!("m_eye {ty} {n} {} {}", opt_s(m.or(Some(n))), opt_s(k.or(Some(0))))); out(format!("m_identity {ty} {n}")); }
    }
    for sh in [vec![3usize, 4], vec![2, 3, 3], vec![7, 9], vec![16, 17], vec![5], vec![2, 2, 2, 3]] {
        let (a, shs) = (tag_off(&sh, 1), show_list(&sh));
        for ty in ROTATION_V {
            out(format!("full {ty} {shs} 7")); out(format!("zeros {ty} {shs}")); out(format!("ones {ty} {shs}")); out(format!("full_like {ty} {a} 3")); out(format!("zeros_like {ty} {a}"));
            if ty != "u8" || sh.iter().product::<usize>() <= 250 {
                for k in ["none", "1", "-1"] { out(format!("tril {ty} {a} {k}")); out(format!("triu {ty} {a} {k}")); }
                out(format!("tril_plus_triu {ty} {a} 0"));
                if sh.len() <= 2 { out(format!("diag {ty} {a} 1")); out(format!("diag {ty} {a} none")); }
                if sh.len() == 1 { out(format!("diagflat {ty} {a} -1")); out(format!("diag_diag {ty} {a} 2")); }
            }
        }
        for ty in ROTATION { out(format!("rand {ty} {shs}")); out(format!("m_full {ty} {shs} 5")); if sh.len() <= 3 { out(format!("m_zeros {ty} {shs}")); out(format!("m_ones {ty} {shs}")); out(format!("m_rand {ty} {shs}")); } }
    }
    for ty in ROTATION { for inc in ["none", "true", "false"] { out(format!("vander {ty} 5:1,2,0,3,2 4 {inc}")); out(format!("vander {ty} 3:2,1,3 none {inc}")); } }

    // ---- 6c. a refused call directly followed by a valid one (and back)
    for ty in ["f64", "i32", "u8", "f32"] {
        for l in ["geomspace # 0 5 4 none", "geomspace # 1 5 4 none", "geomspace # 5 0 4 true", "geomspace # 5 1 4 true", "arange # 0 5 0", "arange # 0 5 1", "arange # 0 5 0", "arange # 0 6 2",
                  "tril # i3+1 none", "tril # i3,3+1 none", "triu # -:5 1", "triu # i2,3+1 1", "diag # i2,2,2+1 none", "diag # i2,2+1 none", "diag # -:5 none", "diag # i3+1 none",
                  "vander # i2,2+1 none none", "vander # 3:1,2,3 none none", "diag # i1+1 4294967296", "diag # i2+1 1", "geomspace # 0 0 3 none", "linspace # 0 4 3 none", "logspace # 0 2 3 none none"] {
            out(l.replace('#', ty));
        }
    }
    // ---- 6b. shapes / side pairs that collide under the weak polynomial hashes: A, B, A
    for (i, (sa, sb)) in collision_shape_pairs().into_iter().enumerate() {
        let tys: &[&str] = if thorough { &["i64", "f64v", "u8v", "f32"] } else if i % 2 == 0 { &["i64", "u8v"] } else { &["f64v", "i32"] };
        for ty in tys {
            for op in ["zeros", "ones", "rand"] { if op == "rand" && ty.ends_with('v') { continue } for s in [&sa, &sb, &sa] { out(format!("{op} {ty} {}", show_list(s))); } }
            for s in [&sa, &sb, &sa] { out(format!("full {ty} {} 9", show_list(s))); }
            for op in ["zeros_like", "ones_like"] { for s in [&sa, &sb, &sa] { out(format!("{op} {ty} {}", tag_off(s, 1))); } }
            for s in [&sa, &sb, &sa] { out(format!("full_like {ty} {} 4", tag_off(s, 1))); }
            for (op, k) in [("tril", "none"), ("triu", "1"), ("tril", "-1"), ("tril_plus_triu", "0"), ("triu", "none")] { for s in [&sa, &sb, &sa] { out(format!("{op} {ty} {} {k}", tag_off(s, 1))); } }
            if sa.len() == 2 {
                for k in ["none", "1", "-1"] { for s in [&sa, &sb, &sa] { out(format!("diag {ty} {} {k}", tag_off(s, 1))); } }
                for k in ["none", "0", "1"] { for s in [&sa, &sb, &sa] { out(format!("eye {ty} {} {} {k}", s[0], s[1])); } }
                for k in ["none", "-1", "2"] { for s in [&sa, &sb, &sa] { out(format!("tri {ty} {} {} {k}", s[0], s[1])); } }
            }
        }
    }
    // counts of a sequence colliding with (count, endpoint) packed into few bits: n and n + 2^8 / 2^16, same bounds
    for ty in ["f64", "i32"] { for n in [3usize, 4, 50] { for img in [n + 256, n + 65536] {
        for e in ends {
            for c in [n, img, n] { out(format!("linspace {ty} 0 10 {c} {e}")); }
            if img < 1000 { for c in [n, img, n] { out(format!("geomspace {ty} 1 200 {c} {e}")); out(format!("logspace {ty} 0 2 {c} {e} none")); } }
        }
        for c in [n, img, n] { out(format!("arange {ty} 0 {c} 1")); out(format!("identity {ty} {}", c.min(300))); }
    } } }

    // ---- 8. exact values: magnitudes beyond 2^53 … f64::MAX/2 and down to the subnormals, for the float element types
    // (integers stay inside their range: `N::from(f64)` saturates; the crate computes every sequence in f64)
    const MAXM: i64 = (1 << 53) - 1;          // f64::MAX = MAXM * 2^971
    const MAXM32: i64 = (1 << 24) - 1;        // f32::MAX = MAXM32 * 2^104
    let big64: Vec<String> = vec![dy(3, 60), dy(1, 62), dy(5, 100), dy(3, 125), dy(1, 127), dy(1, 128), dy(3, 128), dy(15, 128), pow10(39), format!("5{}", "0".repeat(39)), pow10(20), pow10(40),
                                  dy(5, 330), pow10(300), dy(3, 995), dy(MAXM, 970), dy(MAXM32, 104)];
    let tiny64: Vec<String> = vec![dy(1, -52), dy(1, -53), dy(3, -55), dy(3, -60), dy(5, -70), dy(1, -100), dy(7, -340), dy(3, -1000), dy(1, -1022), dy(5, -1070), dy(1, -1074),
                                   format!("1/{}", pow10(17)), format!("1/{}", pow10(20)), format!("1/{}", pow10(10)), format!("1/{}", pow10(30)), format!("1/{}", pow10(300))];
    let big32: Vec<String> = vec![dy(3, 60), dy(5, 100), dy(3, 125), dy(1, 127), dy(MAXM32, 103), dy(MAXM32, 104)];
    let tiny32: Vec<String> = vec![dy(1, -23), dy(1, -24), dy(3, -55), dy(5, -70), dy(3, -100), dy(1, -126)];
    let lin_counts: &[&str] = if thorough { &["none", "0", "1", "2", "3", "4", "5", "7", "11", "50", "64"] } else { &["none", "0", "1", "2", "3", "5", "11"] };
    for (ty, bigs, tinies) in [("f64", &big64, &tiny64), ("f32", &big32, &tiny32)] {
        let mut pairs: Vec<(String, String)> = vec![];
        for (i, b) in bigs.iter().enumerate() {
            pairs.push(("0".into(), b.clone())); pairs.push((b.clone(), "0".into())); pairs.push((b.clone(), "7".into())); pairs.push((neg(b), b.clone()));
            // the largest magnitudes only with partners of the same sign (stop - start must stay finite)
            for c in bigs.iter().skip(i + 1).take(3) { pairs.push((b.clone(), c.clone())); pairs.push((neg(c), neg(b))); pairs.push((c.clone(), b.clone())); }
        }
        // |stop - start| beyond f64::MAX is outside the statement (the step overflows): drop pairs of opposite sign at the very top
        let top = [dy(MAXM, 971)];
        pairs.retain(|(a, b)| !(top.contains(a) || top.contains(b)));
        for (i, t) in tinies.iter().enumerate() {
            pairs.push(("0".into(), t.clone())); pairs.push((t.clone(), "1".into())); pairs.push((neg(t), t.clone())); pairs.push((t.clone(), "0".into()));
            for c in tinies.iter().skip(i + 1).take(2) { pairs.push((t.clone(), c.clone())); pairs.push((neg(t), neg(c))); }
        }
        pairs.push((tinies[4].clone(), bigs[2].clone()));
        for (s, t) in &pairs { for n in lin_counts { for e in ends {
            // subnormal grids lose half a unit per step: few points there
            let sub = s.len() > 300 || t.len() > 300;
            if sub && !["0", "1", "2", "3", "5"].contains(n) { continue }
            out(format!("linspace {ty} {s} {t} {n} {e}"));
        } } }
        // geometric sequences: both bounds of one sign, tiny / huge / across the whole range; a zero bound is refused, a tiny one is not
        let mut gp: Vec<(String, String)> = vec![];
        for (i, t) in tinies.iter().enumerate() {
            gp.push((t.clone(), "1".into())); gp.push(("1".into(), t.clone())); gp.push((neg(t), "-3".into())); gp.push(("0".into(), t.clone())); gp.push((t.clone(), "0".into()));
            for c in tinies.iter().skip(i + 1).take(3) { gp.push((t.clone(), c.clone())); gp.push((neg(c), neg(t))); }
        }
        for (i, b) in bigs.iter().enumerate() {
            gp.push(("1".into(), b.clone())); gp.push((b.clone(), "3".into())); gp.push((neg(b), "-1".into()));
            for c in bigs.iter().skip(i + 1).take(2) { gp.push((b.clone(), c.clone())); gp.push((neg(c), neg(b))); }
        }
        gp.push((tinies[2].clone(), bigs[1].clone())); gp.push((neg(&tinies[3]), tinies[3].clone()));
        let geo_counts: &[&str] = if thorough { &["none", "0", "1", "2", "3", "4", "5", "7", "11", "50"] } else { &["none", "1", "2", "3", "4", "7"] };
        for (s, t) in &gp { for n in geo_counts { for e in ends { out(format!("geomspace {ty} {s} {t} {n} {e}")); } } }
        // logarithmic sequences: tiny exponents (values next to 1), exponents near the ends of the range
        let mut lp: Vec<(String, String)> = vec![("300".into(), "308".into()), ("-307".into(), "-300".into()), ("-150".into(), "150".into())];
        for (i, t) in tinies.iter().enumerate().take(if ty == "f64" { 16 } else { 6 }) {
            lp.push(("0".into(), t.clone())); lp.push((neg(t), t.clone())); lp.push((t.clone(), "2".into()));
            if let Some(c) = tinies.get(i + 1) { lp.push((t.clone(), c.clone())); }
        }
        if ty == "f32" { lp.retain(|(a, _)| a != "300" && a != "-307" && a != "-150"); lp.push(("30".into(), "38".into())); lp.push(("-37".into(), "-30".into())); lp.push(("-15".into(), "15".into())); }
        for (s, t) in &lp { for b in ["none", "2", "3"] { for n in ["none", "1", "2", "3", "5"] { for e in ends { out(format!("logspace {ty} {s} {t} {n} {e} {b}")); } } } }
    }
    // i64 beyond 2^53 (every value a multiple of a power of two, so it survives the f64 image exactly)
    for (s, t) in [(dy(3, 60), dy(1, 62)), (neg(&dy(1, 62)), dy(1, 62)), ("0".to_string(), dy(3, 60)), (dy(1, 54), dy(3, 54)), (dy(1, 62), dy(1, 54))] {
        for n in ["none", "0", "1", "2", "3", "5", "9"] { for e in ends { out(format!("linspace i64 {s} {t} {n} {e}")); out(format!("linspace f64 {s} {t} {n} {e}")); } }
        if !s.starts_with('-') && s != "0" { for n in ["1", "2", "3", "5"] { out(format!("geomspace i64 {s} {t} {n} none")); out(format!("geomspace f64 {s} {t} {n} none")); } }
    }
    // offsets that survive a narrowing cast as a small offset: c + 2^8, c + 2^16, c + 2^32 (and their negatives)
    for c in [0usize, 1, 2] { for img in narrowing_images(c) {
        for ty in ["i64", "f64v", "u8v"] {
            for sh in [vec![3usize, 4], vec![4, 3], vec![2, 3, 3]] {
                let a = tag_off(&sh, 1);
                for k in [img as i64, -(img as i64)] { out(format!("tril {ty} {a} {k}")); out(format!("triu {ty} {a} {k}")); out(format!("tril_plus_triu {ty} {a} {k}")); if sh.len() == 2 { out(format!("diag {ty} {a} {k}")); } }
            }
            out(format!("eye {ty} 3 4 {img}")); out(format!("eye {ty} 4 3 {img}")); out(format!("tri {ty} 3 4 {img}")); out(format!("tri {ty} 3 4 -{img}")); out(format!("tri {ty} 4 3 -{img}"));
        }
    } }
    // every trailing / leading side 1..300 (index arithmetic by a float reciprocal first fails at 49)
    let side_hi = if thorough { 300usize } else { 130 };
    for l in (1..=side_hi).chain([191usize, 211, 256, 257, 300]) {
        for (ty, k) in [("i64", (l as i64) / 3), ("f64v", -1), ("i64", 1 - (l as i64) / 2)] {
            out(format!("tril {ty} {} {k}", tag_off(&[3, l], 1))); out(format!("triu {ty} {} {k}", tag_off(&[l, 3], 1)));
        }
        out(format!("tril_plus_triu u8v {} 0", tag_off(&[2, 2, l], 1)));
        out(format!("diag i64 {} {}", tag_off(&[3, l], 1), l / 2)); out(format!("diag f64v {} -1", tag_off(&[l, 2], 1)));
        out(format!("eye i64 3 {l} {}", l / 2)); out(format!("eye i32 {l} 2 0")); out(format!("tri i64 2 {l} {}", l as i64 - 2)); out(format!("tri f64v {l} 3 -1"));
        if l <= 64 || l % 16 == 1 { out(format!("diag i64 {} 1", tag_off(&[l], 1))); out(format!("identity u8v {l}")); out(format!("vander i64 {} 3 none", tag_off(&[l], 0))); }
    }
    // counts exactly 31, 37, 49, 1000, 1001 and primes above 17
    for n in [19usize, 23, 29, 31, 37, 41, 43, 47, 49, 53, 97, 101, 251, 257, 1000, 1001, 1009] { for e in ends { for ty in ["f64", "i32", "f32"] {
        out(format!("linspace {ty} 0 1 {n} {e}")); out(format!("linspace {ty} -3 1000 {n} {e}")); out(format!("geomspace {ty} 1 200 {n} {e}")); out(format!("logspace {ty} 0 2 {n} {e} none"));
    } } out(format!("arange i64 0 {n} 1")); out(format!("arange f64 0 {} 2", 2 * n)); }

    // ---- 10. ranks 5..8
    for sh in [vec![1usize, 2, 1, 2, 1, 2, 3, 3], vec![2, 1, 1, 1, 2, 2, 3, 2], vec![2, 1, 2, 1, 3, 4], vec![1, 1, 1, 1, 1, 1, 1, 1], vec![2, 2, 2, 2, 2, 2, 2], vec![3, 1, 2, 2, 0, 2]] {
        let (a, shs) = (tag_off(&sh, 1), show_list(&sh));
        for ty in ["i64", "f64v", "u8v", "f32"] {
            if ty == "f32" && sh.iter().product::<usize>() > 250 { continue }
            for k in [-2isize, -1, 0, 1, 2] { out(format!("tril {ty} {a} {k}")); out(format!("triu {ty} {a} {k}")); out(format!("tril_plus_triu {ty} {a} {k}")); }
            out(format!("full {ty} {shs} 3")); out(format!("zeros {ty} {shs}")); out(format!("ones {ty} {shs}")); out(format!("full_like {ty} {a} 5")); out(format!("zeros_like {ty} {a}")); out(format!("ones_like {ty} {a}"));
            out(format!("diagflat {ty} {a} 1")); out(format!("diag {ty} {a} none"));
        }
        out(format!("rand f64 {shs}")); out(format!("m_full i32 {shs} 2"));
    }

    // ---- 7. huge results: 16 384 … 140 000 elements (the model driver is linear for every constructor)
    let mut huge = huge_shapes();
    huge.extend([vec![1500, 3, 3], vec![130, 127], vec![2, 3, 5001], vec![3, 33001], vec![33001, 3]]);
    for (i, sh) in huge.iter().enumerate() {
        let cnt: usize = sh.iter().product();
        if cnt > 100_000 && !thorough && i % 2 == 1 { continue }
        let (a, shs) = (tag_off(sh, 1), show_list(sh));
        let (r, c) = if sh.len() >= 2 { (sh[sh.len() - 2] as isize, sh[sh.len() - 1] as isize) } else { (1, 1) };
        for ty in ["i64", "f64v", "u8v", "f64"] {
            let lean = ty == "f64" || (ty == "u8v" && !thorough);
            out(format!("zeros {ty} {shs}")); out(format!("full {ty} {shs} 7")); out(format!("full_like {ty} {a} 4"));
            if !lean { out(format!("ones {ty} {shs}")); out(format!("zeros_like {ty} {a}")); out(format!("ones_like {ty} {a}")); out(format!("m_full {ty} {shs} 9")); }
            if ty == "f64" || ty == "i64" { out(format!("rand {ty} {shs}")); if sh.len() <= 3 { out(format!("m_zeros {ty} {shs}")); out(format!("m_ones {ty} {shs}")); } }
            if sh.len() >= 2 {
                let ks: Vec<isize> = if lean { vec![0, c - 2] } else { vec![0, 1, -1, c / 2, -(r / 2), c - 1, 1 - r, 69] };
                for k in &ks { out(format!("tril {ty} {a} {k}")); out(format!("triu {ty} {a} {k}")); }
                out(format!("tril {ty} {a} none")); out(format!("tril_plus_triu {ty} {a} {}", ks[ks.len() - 1]));
                if sh.len() == 2 { for k in [0isize, 1, -1, c / 2, 1 - r] { out(format!("diag {ty} {a} {k}")); } }
            } else { out(format!("tril {ty} {a} 0")); out(format!("triu {ty} {a} none")); }
        }
    }
    for ty in ["i64", "f64v", "u8v", "f64"] {
        for (n, m, k) in [(300usize, 301usize, 4usize), (130, 130, 0), (129, 131, 130), (2, 70000, 1), (70000, 2, 1), (2, 70000, 65537), (370, 370, 3)] {
            out(format!("eye {ty} {n} {m} {k}")); out(format!("tri {ty} {n} {m} {k}")); out(format!("tri {ty} {n} {m} -{k}"));
            if ty == "i64" || ty == "f64" { out(format!("m_eye {ty} {n} {m} {k}")); }
        }
        for n in [129usize, 300, 370] { out(format!("identity {ty} {n}")); out(format!("diag {ty} {} 0", tag_off(&[n], 1))); out(format!("diag {ty} {} -3", tag_off(&[n - 3], 1))); out(format!("diagflat {ty} {} 2", tag_off(&[n / 13, 13], 1))); }
        out(format!("diag_diag {ty} {} 1", tag_off(&[300], 1)));
    }
    for ty in ["i64", "f64", "i32", "f32"] {
        let v: Vec<i64> = (0..16385).map(|i| [1i64, 2, 0, 1, 2, 2, 3][i % 7]).collect();
        for inc in ["none", "true"] { out(format!("vander {ty} 16385:{} 3 {inc}", show_list(&v))); }
        out(format!("vander {ty} 70001:{} 2 false", show_list(&(0..70001).map(|i| [2i64, 1, 3][i % 3]).collect::<Vec<i64>>())));
        for n in [16385usize, 20011, 33001, 65537, 70001, 131073] { for e in ends {
            if n > 70001 && e != "none" { continue }
            out(format!("linspace {ty} 0 1 {n} {e}")); out(format!("linspace {ty} -3 1000 {n} {e}"));
            if n <= 33001 || (thorough && n <= 70001) { out(format!("geomspace {ty} 1 200 {n} {e}")); out(format!("logspace {ty} 0 2 {n} {e} none")); }
        } }
        if ty != "f32" { for (s, t, st) in [(0i64, 70001i64, "1"), (0, 140001, "2"), (5, 1000003, "7"), (-16385, 16385, "none"), (0, 131073, "1")] { out(format!("arange {ty} {s} {t} {st}")); out(format!("m_arange {ty} {s} {t} {}", st)); } }
    }
    let _ = rng;
}

// ------------------------------------------------------------------------------------------------ robustness streams, part 3

/// explicit array text `shape:values` from a value function
fn lit(sh: &[usize], f: impl Fn(usize) -> i64) -> String {
    let n: usize = sh.iter().product();
    format!("{}:{}", show_list(sh), show_list(&(0..n).map(&f).collect::<Vec<i64>>()))
}

fn gen_streams3(out0: &mut dyn FnMut(String), rng: &mut Rng, thorough: bool) {
    // giant lines are spelt `n_<op> <type> args…` on the wire (one statistics / replay bucket per operation)
    let out = &mut |l: String| out0(match l.strip_prefix("n ") { Some(r) => format!("n_{r}"), None => l });
    let ends = ["none", "true", "false"];
    // ---- (13) values related in a way random data never is
    // (a) every element == 0 but not bit-identical: +0.0 (tag 0) / -0.0 (palette tag 1) mixtures on the float types; all-zero sources on
    // integer types.  A shortcut for "all elements equal" / "nothing to mask" keeps -0.0 where the mask must write +0.0.
    let pats: [(&str, fn(usize) -> i64); 5] = [("all-neg", |_| 1), ("checker", |p| (p % 2) as i64), ("first-neg", |p| (p == 0) as i64), ("checker2", |p| ((p + 1) % 2) as i64), ("all-pos", |_| 0)];
    for sh in [vec![2usize, 2], vec![3, 4], vec![4, 3], vec![2, 3, 3], vec![1, 5], vec![5, 1], vec![7, 9], vec![6]] {
        for (name, f) in pats {
            let a = lit(&sh, f);
            for ty in ["f64v", "f32v", "i64v", "u8v"] {
                if !ty.starts_with('f') && name != "all-pos" && name != "checker" { continue }
                for k in ["none", "-1", "0", "1", "2"] {
                    out(format!("tril {ty} {a} {k}")); out(format!("triu {ty} {a} {k}"));
                    if sh.len() <= 2 { out(format!("diag {ty} {a} {k}")); }
                    if k != "2" { out(format!("diagflat {ty} {a} {k}")); }
                    if sh.len() == 1 { out(format!("diag_diag {ty} {a} {k}")); }
                }
                // (reassembly needs a source without the zero tag: at a +0.0 input both parts hold the input's bits)
                if name == "all-neg" { for k in [-1, 0, 1] { out(format!("tril_plus_triu {ty} {a} {k}")); } }
                out(format!("zeros_like {ty} {a}")); out(format!("ones_like {ty} {a}")); out(format!("full_like {ty} {a} 1")); out(format!("full_like {ty} {a} 0")); out(format!("full_like {ty} {a} 5"));
            }
        }
    }
    // (b) constant sources (every palette class as the constant), and a fill value equal to the source's first / every element
    let vt: Vec<&str> = if thorough { VTYPES.to_vec() } else { vec!["i64v", "f64v", "u8v", "i16v", "f32v", "usizev"] };
    for ty in &vt {
        for c in [1i64, 2, 4, 7, 10] {
            for sh in [vec![3usize, 4], vec![4, 3], vec![2, 3, 3], vec![5], vec![9, 7]] {
                let a = lit(&sh, |_| c);
                if sh.len() >= 2 { for k in ["none", "1", "-1", "-3"] { out(format!("tril {ty} {a} {k}")); out(format!("triu {ty} {a} {k}")); } out(format!("tril_plus_triu {ty} {a} 0")); out(format!("tril_plus_triu {ty} {a} -2")); }
                if sh.len() <= 2 { for k in ["none", "1", "-2"] { out(format!("diag {ty} {a} {k}")); } }
                out(format!("diagflat {ty} {a} 1"));
                if sh.len() == 1 { out(format!("diag_diag {ty} {a} -1")); }
                out(format!("full_like {ty} {a} {c}")); out(format!("full_like {ty} {a} {}", c + 1)); out(format!("zeros_like {ty} {a}")); out(format!("ones_like {ty} {a}"));
            }
        }
        for a in ["2,3:4,1,2,3,5,6", "2,3:1,1,1,1,1,4", "6:3,3,3,3,3,2", "2,2,2:7,7,7,7,7,7,7,1"] { for v in [4, 1, 3, 7] { out(format!("full_like {ty} {a} {v}")); } out(format!("zeros_like {ty} {a}")); out(format!("ones_like {ty} {a}")); }
        for sh in [vec![3usize, 4], vec![7], vec![2, 2, 2]] { for v in [0, 1, 2] { out(format!("full {ty} {} {v}", show_list(&sh))); } }
    }
    for ty in ["i32", "i64", "u8", "f64", "f32"] {
        for len in [1usize, 4, 7] { for c in [0i64, 1, 2] { for cols in ["none", "3", "5"] { for inc in ["none", "true", "false"] {
            out(format!("vander {ty} {} {cols} {inc}", lit(&[len], |_| c)));
        } } } }
    }
    // (c) sequences whose two bounds are equal (a constant sequence: step 0, ratio 1)
    for v in ["7", "200", "1", "0"] { for n in ["none", "0", "1", "2", "3", "4", "6"] { for e in ends { for ty in ROTATION {
        out(format!("linspace {ty} {v} {v} {n} {e}")); out(format!("geomspace {ty} {v} {v} {n} {e}"));
        if v.len() == 1 && v != "7" { out(format!("logspace {ty} {v} {v} {n} {e} none")); out(format!("logspace {ty} {v} {v} {n} {e} 2")); }
    } } } for ty in ROTATION { for st in ["none", "1", "3"] { out(format!("arange {ty} {v} {v} {st}")); } } }

    // ---- (15) offsets so large that offset * stride wraps modulo 2^64 back into range: k = mult * 2^64 / s + small for every
    // stride-like quantity s of the matrix (rows, columns, element count, columns + 1, rows + 1); the ends of the usize / isize ranges
    let two64: u128 = 1u128 << 64;
    for (n, m) in [(3usize, 4usize), (4, 3), (5, 5), (2, 8), (8, 2), (3, 5), (7, 3)] {
        let mut ks: Vec<u128> = vec![];
        for s in [n, m, n * m, m + 1, n + 1] { for mult in 1..=3u128 {
            let base = (two64 * mult + s as u128 - 1) / s as u128;
            for small in [0u128, 1, 2, m as u128] { ks.push(base + small); }
        } }
        ks.extend([u64::MAX as u128, u64::MAX as u128 - 1, u64::MAX as u128 - m as u128 + 1, 1u128 << 63, (1u128 << 63) + 1, (1u128 << 63) - 1, (1u128 << 63) - 2]);
        ks.sort(); ks.dedup();
        let a = tag_off(&[n, m], 1);
        for k in ks {
            if k <= u64::MAX as u128 { for ty in ["i64", "u8v"] { out(format!("eye {ty} {n} {m} {k}")); } out(format!("m_eye i32 {n} {m} {k}")); }
            if k <= i64::MAX as u128 {
                for sg in ["", "-"] { for ty in ["i64", "f64v"] {
                    out(format!("tri {ty} {n} {m} {sg}{k}")); out(format!("tril {ty} {a} {sg}{k}")); out(format!("triu {ty} {a} {sg}{k}")); out(format!("diag {ty} {a} {sg}{k}"));
                    if k < i64::MAX as u128 { out(format!("tril_plus_triu {ty} {a} {sg}{k}")); }
                } }
                out(format!("diag i64 {} {k}", tag_off(&[n], 1))); out(format!("diagflat i64 {a} -{k}"));
            }
        }
    }

    // ---- (11) more than 2^20 elements: `n <op> <type> args…`, judged in place by the harness-native reference
    let gts = ["i64v", "f64v", "u8v", "i16v", "f32v", "u32v", "usizev", "i8v"];
    let gs = giant_shapes();
    for (i, sh) in gs.iter().enumerate() {
        let (a, shs) = (tag_off(sh, 1), show_list(sh));
        let tys: Vec<&str> = if thorough { gts.to_vec() } else { vec![gts[i % 6], gts[(i + 3) % 6]] };
        for (j, ty) in tys.iter().enumerate() {
            // fills: one or two per (shape, type) in the quick tier, every one in the thorough tier
            let fills = [format!("full {ty} {shs} 9"), format!("zeros {ty} {shs}"), format!("ones {ty} {shs}"), format!("full_like {ty} {a} 4"), format!("zeros_like {ty} {a}"), format!("ones_like {ty} {a}"), format!("m_full {ty} {shs} 6"),
                         if sh.len() <= 3 { format!("m_zeros {ty} {shs}") } else { format!("zeros {ty} {shs}") }, if sh.len() <= 3 { format!("m_ones {ty} {shs}") } else { format!("ones {ty} {shs}") }];
            for (f, l) in fills.iter().enumerate() { if thorough || f == (i + 4 * j) % 9 { out(format!("n {l}")); } }
            if sh.len() >= 2 {
                let (r, c) = (sh[sh.len() - 2] as i64, sh[sh.len() - 1] as i64);
                // offsets through the last rows / columns (the corner block and the tails of a blocked path), the main diagonal, far outside
                let ks: Vec<i64> = if thorough { vec![0, 1, -1, c - 1, 1 - r, c - r, c - r + 1, c / 2, -(r / 2), c - 70, 70 - r, c + 5, -r - 5] } else if j == 0 { vec![c - r, 1 - r / 2] } else { vec![c - 3, 0] };
                for (x, k) in ks.iter().enumerate() {
                    if thorough || x == 0 { out(format!("n tril {ty} {a} {k}")); out(format!("n triu {ty} {a} {k}")); }
                    else { out(format!("n {} {ty} {a} {k}", if (i + j) % 2 == 0 { "tril" } else { "triu" })); }
                }
                if thorough || j == 0 { out(format!("n tril_plus_triu {ty} {a} {}", ks[0] - 1)); }
                if thorough { out(format!("n tril {ty} {a} none")); out(format!("n triu {ty} {a} none")); }
            }
            if sh.len() == 2 {
                let (r, c) = (sh[0] as i64, sh[1] as i64);
                let ks: Vec<i64> = if thorough { vec![0, 1, -1, c - 1, 1 - r, c - 2, 2 - r, c, -r] } else if j == 0 { vec![0, c - 2] } else { vec![2 - r, -1] };
                for k in ks { out(format!("n diag {ty} {a} {k}")); }
                if thorough || j == 0 { out(format!("n diag {ty} {a} none")); }
            }
        }
    }
    // results above 2^20 elements from small arguments: diag / diagflat of a vector (side > 1024), eye / tri / identity
    for (i, (len, k)) in [(1025usize, 0i64), (1020, -5), (1449, 1), (1030, 3), (1024, 1), (1100, -349)].into_iter().enumerate() {
        if !thorough && i >= 4 { continue }
        let tys: Vec<&str> = if thorough { gts.to_vec() } else { vec![gts[i % 6]] };
        for ty in tys {
            out(format!("n diag {ty} {} {k}", tag_off(&[len], 1)));
            if thorough || i == 0 { out(format!("n diag_diag {ty} {} {k}", tag_off(&[len], 1))); out(format!("n diagflat {ty} {} {k}", tag_off(&[len / 25, 25], 1))); }
        }
    }
    for (i, (n, m, k)) in [(1025usize, 1025usize, 0i64), (3, 400_001, 399_999), (400_001, 3, 1), (1031, 1033, 2), (2, 524_293, 524_291), (1500, 1400, 1399), (1449, 1449, 1448), (1050, 1000, 63)].into_iter().enumerate() {
        if !thorough && i >= 5 { continue }
        let tys: Vec<&str> = if thorough { gts.to_vec() } else { vec![gts[(i + 1) % 6]] };
        for ty in tys {
            out(format!("n eye {ty} {n} {m} {k}")); out(format!("n tri {ty} {n} {m} {k}")); out(format!("n tri {ty} {n} {m} {}", m as i64 - n as i64 - k));
            if thorough { out(format!("n m_eye {ty} {n} {m} {k}")); out(format!("n eye {ty} {n} {m} 0")); out(format!("n tri {ty} {n} {m} -{k}")); }
        }
    }
    for (i, n) in [1025usize, 1449, 1088].into_iter().enumerate() {
        if !thorough && i >= 2 { continue }
        let tys: Vec<&str> = if thorough { gts.to_vec() } else { vec![gts[(i + 2) % 6]] };
        for ty in tys { out(format!("n identity {ty} {n}")); if thorough || i == 0 { out(format!("n m_identity {ty} {n}")); } }
    }
    // vander, rand and the sequences on the plain element types
    let pts: Vec<&str> = if thorough { vec!["i64", "f64", "i32", "u8", "f32"] } else { vec!["i64", "f64"] };
    for ty in &pts {
        out(format!("n vander {ty} m3x350001 3 {}", if *ty == "i64" { "none" } else { "true" }));
        if thorough { out(format!("n vander {ty} m3x350001 3 false")); out(format!("n vander {ty} m2x209716 5 none")); out(format!("n vander {ty} m3x1048581 1 true")); }
        out(format!("n rand {ty} {}", show_list(&gs[if *ty == "i64" { 3 } else { 0 }])));
        if thorough { for sh in &gs { out(format!("n rand {ty} {}", show_list(sh))); } }
    }
    let counts: Vec<usize> = if thorough { vec![(1 << 20) + 5, (1 << 20) + 64, 1_200_003, 2_097_153] } else { vec![(1 << 20) + 5, 2_097_153] };
    for (i, n) in counts.iter().enumerate() {
        for ty in if thorough { vec!["f64", "i32", "f32", "u8", "i64"] } else { vec![["f64", "i32"][i % 2], "f32"] } {
            let (s, t) = if ty == "u8" { ("0", "200") } else { ("-3", "1000") };
            for e in if thorough { ends.to_vec() } else { vec![ends[i % 3], "false"] } {
                out(format!("n linspace {ty} {s} {t} {n} {e}"));
                if thorough { out(format!("n linspace {ty} 0 1 {n} {e}")); }
            }
        }
        for ty in if thorough { vec!["f64", "f32", "i32"] } else { vec!["f64"] } {
            let e = ends[(i + 1) % 3];
            out(format!("n geomspace {ty} 1 200 {n} {e}")); out(format!("n logspace {ty} 0 2 {n} {e} none"));
            if thorough { out(format!("n geomspace {ty} 200 3 {n} false")); out(format!("n logspace {ty} 0 5 {n} true 2")); }
        }
        for ty in if thorough { vec!["i64", "f64", "i32"] } else { vec![["i64", "f64"][i % 2]] } {
            out(format!("n arange {ty} 0 {} 1", n - 1)); out(format!("n m_arange {ty} 5 {} 7", 7 * n - 3));
            if thorough { out(format!("n arange {ty} -{n} {n} 2")); out(format!("n arange {ty} 0 {} none", n + 1)); }
        }
    }
    // lengths above 2^24 (a count / index converted through f32 is exact up to 16 777 216 and on every EVEN number up to 2^25: the
    // divisor num - endpoint resp. the term count is ODD here).  Narrow integer element types keep the memory small and, unlike an
    // f32 result, resolve a relative error of 2^-24 in the step (exact truncation at every whole-number crossing).
    out(format!("n linspace u8 0 200 {} none", (1 << 24) + 2)); out(format!("n linspace i32 -3 1000 {} false", (1 << 24) + 3));
    out(format!("n arange i32 0 {} 1", (1 << 24) + 2));
    if thorough {
        out(format!("n linspace i32 -3 1000 {} true", (1 << 24) + 4)); out(format!("n linspace u8 0 255 {} false", (1 << 24) + 5));
        out(format!("n geomspace f32 1 200 {} none", (1 << 24) + 2)); out(format!("n logspace f32 0 2 {} false none", (1 << 24) + 3));
        out(format!("n arange f32 0 {} 1", (1 << 24) + 2)); out(format!("n m_arange i32 3 {} 2", (1 << 25) + 9));
        out(format!("n zeros u8v {}", (1 << 24) + 3)); out(format!("n full u8v 3,{} 5", (1 << 23) / 3 * 2 + 1001)); out(format!("n tril u8v {} 4", tag_off(&[4099, 4099], 1))); out("n eye u8v 4099 4099 3".to_string());
    }
    let _ = rng;
}

// ------------------------------------------------------------------------------------------------ robustness streams, part 5 (round 5)

/// the exact decimal rational `n` / `n/d` of a finite f64 — the way a non-integer (or huge, or tiny) float crosses the language boundary
fn fx(v: f64) -> String {
    if v == 0.0 { return "0".into() }
    let bits = v.abs().to_bits();
    let (e, frac) = (((bits >> 52) & 0x7ff) as i32, (bits & ((1u64 << 52) - 1)) as i64);
    let (m, ex) = if e == 0 { (frac, -1074) } else { (frac | (1i64 << 52), e - 1075) };
    dy(if v < 0.0 { -m } else { m }, ex)
}
fn next_up(v: f64) -> f64 { f64::from_bits(v.to_bits() + 1) }       // (positive finite arguments only)
fn next_down(v: f64) -> f64 { f64::from_bits(v.to_bits() - 1) }

fn gen_streams5(out0: &mut dyn FnMut(String), rng: &mut Rng, thorough: bool) {
    let out = &mut |l: String| out0(match l.strip_prefix("n ") { Some(r) => format!("n_{r}"), None => l });
    let ends = ["none", "true", "false"];
    let p2 = |k: u32| 1i128 << k;
    let p10 = |k: u32| 10i128.pow(k);
    let lim = p2(53);
    // a whole number that the element type holds exactly (so that the model and the crate are given the same argument)
    let fits = |ty: &str, v: i128| -> bool {
        (v as f64) as i128 == v && match ty {
            "i64" => v >= i64::MIN as i128 && v <= i64::MAX as i128, "u64" => v >= 0 && v < p2(64), "i32" => v >= i32::MIN as i128 && v <= i32::MAX as i128,
            "u8" => (0..=255).contains(&v), "f32" => v.abs() < p2(120) && (v as f32) as i128 == v, _ => true }
    };
    const ALLT: [&str; 6] = ["i64", "f64", "u64", "i32", "f32", "u8"];
    let mut rot = 0usize;
    // `want` of the eligible element types, the 64-bit ones (i64 / f64 / u64) first, rotating
    let mut pick_types = |vals: &[i128], want: usize| -> Vec<&'static str> {
        rot += 1;
        let el: Vec<&'static str> = ALLT.iter().copied().filter(|ty| vals.iter().all(|&v| fits(ty, v))).collect();
        let wide: Vec<&'static str> = el.iter().copied().filter(|t| ["i64", "f64", "u64"].contains(t)).collect();
        let mut r: Vec<&'static str> = vec![];
        if !wide.is_empty() { r.push(wide[rot % wide.len()]); }
        for j in 0..el.len() { if r.len() >= want { break } let t = el[(rot + j) % el.len()]; if !r.contains(&t) { r.push(t); } }
        r
    };

    // ---- (21) band sweeps of the sequence constructors: whole-number start / stop / step of EVERY magnitude with a small count.
    // An offset i * step (or a bound, or a span) computed in a narrower integer or in f32 is right for every argument of the small
    // scope and wraps / rounds once it reaches 2^16, 2^24, 2^31, 2^32.  Everything here is a whole number below 2^53, so f64
    // arithmetic is exact and the model's exact answer is demanded bit for bit at every position.
    let mut steps: Vec<i128> = vec![1, 2, 3, 7, 10];
    for k in [8u32, 15, 16, 23, 24, 30, 31, 32, 33, 40, 47, 52] { steps.extend([p2(k) - 1, p2(k), p2(k) + 1]); }
    for k in [2u32, 3, 5, 6, 8, 9, 10, 12, 15] { steps.push(p10(k)); }
    steps.sort(); steps.dedup();
    let starts: Vec<i128> = vec![0, 1, -1, 7, 255, -256, 65535, -65537, p2(24) + 1, -p2(31), p2(31) - 1, p2(32) - 1, p2(32), -p2(32) - 1, p10(10), -p10(12), p2(52)];
    let base_n = [2usize, 3, 5, 6, 11, 17, 33, 60];
    // (a) linspace on integral grids: start, step, count -> stop
    for (si, &s) in starts.iter().enumerate() { for (di, &d0) in steps.iter().enumerate() { for (gi, sg) in [1i128, -1].into_iter().enumerate() {
        if !thorough && (si + di + gi) % 2 == 1 && !(d0 < p2(33) && d0 >= p2(22)) { continue }
        let d = d0 * sg;
        let mut ns: Vec<usize> = vec![base_n[(si + di) % 8], base_n[(si + 3 * di + 3 + gi) % 8]];
        // the first count at which the last offset (n - 1) * |step| reaches 2^16 / 2^24 / 2^31 / 2^32, and the count before it
        for th in [16u32, 24, 31, 32] {
            let need = (p2(th) + d0 - 1) / d0;
            if (1..=300).contains(&need) { ns.push(need as usize + 1); if need >= 2 { ns.push(need as usize); } }
        }
        ns.sort(); ns.dedup();
        for (ni, &n) in ns.iter().enumerate() {
            let e = ends[(si + di + ni) % 3];
            let ep = (e != "false") as i128;
            if n as i128 - ep < 1 { continue }
            let t = s + d * (n as i128 - ep);
            if s.abs() >= lim || t.abs() >= lim || (t - s).abs() >= lim { continue }
            for ty in pick_types(&[s, t], 2) { out(format!("linspace {ty} {s} {t} {n} {e}")); }
        }
    } } }
    // (b) linspace between every two members of the value pool {0, +-1, +-2^k, +-(2^k +- 1), +-10^k} (the step is a fraction in general:
    // exact first / last, interior within 4 ulp of the larger bound), incl. the exactly representable magnitudes beyond 2^53
    let mut pool: Vec<i128> = vec![0, 1, -1];
    for k in [8u32, 16, 24, 31, 32, 33, 40, 52] { for v in [p2(k) - 1, p2(k), p2(k) + 1] { pool.push(v); pool.push(-v); } }
    for k in [3u32, 6, 9, 10, 12, 15] { pool.push(p10(k)); pool.push(-p10(k)); }
    let mut wide_pool = pool.clone();
    for v in [p2(53), p2(54), p2(60), 3 * p2(60), p2(62), p10(18)] { wide_pool.push(v); wide_pool.push(-v); }
    let pair_n = ["2", "3", "4", "5", "7", "11", "none"];
    for (i, &s) in wide_pool.iter().enumerate() { for (j, &t) in wide_pool.iter().enumerate() {
        if s == t || (!thorough && (i * 7 + j * 3) % 2 == 1 && !((t - s).abs() >= p2(31) && (t - s).abs() < p2(40))) { continue }
        let n = pair_n[(i + 2 * j) % 7];
        let e = ends[(i + j) % 3];
        for ty in pick_types(&[s, t], 1) { out(format!("linspace {ty} {s} {t} {n} {e}")); }
    } }
    // (c) arange: every (start, stop, step) of pool x pool x steps with 1..300 terms
    let mut k3 = 0usize;
    for &s in &pool { for &t in &pool { for &d in &steps {
        let a = t + 1 - s;
        if a <= 0 { continue }
        let cnt = a / d;
        if !(1..=300).contains(&cnt) || a >= lim || s.abs() >= lim || t.abs() >= lim || (s + cnt * d).abs() >= lim { continue }
        k3 += 1;
        // the band in which a 32-bit offset wraps is kept whole, the rest is thinned out in the quick tier
        let band = a >= p2(31) && d < p2(33);
        if !thorough && !band && k3 % 3 != 0 { continue }
        let op = if k3 % 5 == 0 { "m_arange" } else { "arange" };
        for ty in pick_types(&[s, t, d], if band { 2 } else { 1 }) { out(format!("{op} {ty} {s} {t} {d}")); }
    } } }
    // (d) arange on grids: start, step, count -> stop = start + count * step - 1 (+ step - 1: the largest stop with the same count)
    for (si, &s) in starts.iter().enumerate() { for (di, &d) in steps.iter().enumerate() {
        let mut cs: Vec<i128> = vec![[1i128, 2, 3, 6, 17, 60][(si + di) % 6]];
        for th in [16u32, 24, 31, 32] {
            let need = (p2(th) + d - 1) / d;       // the first index whose offset reaches 2^th
            if (1..=300).contains(&need) { cs.push(need + 1); cs.push(need); }
        }
        cs.sort(); cs.dedup();
        for (ci, &c) in cs.iter().enumerate() {
            let t = s + c * d - 1 + if (si + di + ci) % 2 == 0 { 0 } else { d - 1 };
            if s.abs() >= lim || t.abs() + 1 >= lim || (t + 1 - s) >= lim { continue }
            for ty in pick_types(&[s, t, d], 1) { out(format!("arange {ty} {s} {t} {d}")); }
        }
    } }
    // (e) beyond 2^53 with exactly representable terms (multiples of 2^(k-3)): the count formula and the running sum stay exact
    for k in [53u32, 55, 60, 62] { for ty in ["i64", "f64", "u64"] {
        let (s, d) = (p2(k), p2(k - 3));
        out(format!("arange {ty} {s} {} {d}", s + 5 * d)); out(format!("arange {ty} 0 {} {d}", s)); out(format!("linspace {ty} {s} {} 6 none", s + 5 * d)); out(format!("linspace {ty} 0 {s} 9 true"));
        if ty != "u64" { out(format!("arange {ty} -{s} {} {d}", 3 * d)); out(format!("linspace {ty} -{s} {s} 5 none")); }
    } }
    // geometric / logarithmic sequences over the same spans (ratio 2 / 10 / 2^16 over more than 2^32)
    for ty in ["i64", "f64", "u64", "f32"] {
        for (s, t, n) in [(1i128, p2(40), 41usize), (1, p10(15), 16), (p2(31), p2(33), 3), (p2(16), p2(48), 3), (p10(9), p10(12), 4), (p2(52), 1, 53), (p2(32) + 1, p2(32) - 1, 2), (3, 3 * p2(34), 18)] {
            if !fits(ty, s) || !fits(ty, t) { continue }
            for e in ends { out(format!("geomspace {ty} {s} {t} {n} {e}")); }
        }
        for (s, t, n, b) in [(0, 40, 41, "2"), (0, 15, 16, "none"), (31, 33, 3, "2"), (32, 52, 6, "2"), (9, 12, 4, "none"), (0, 20, 6, "3")] { for e in ends { out(format!("logspace {ty} {s} {t} {n} {e} {b}")); } }
    }

    // ---- (16) dense boundary sweeps in the value pools of the float kernel (`powf` in logspace / geomspace / vander): ONE exact magic
    // value (an integral exponent, a mathematical constant as the base, a power of two next to the subnormal range) is enough for a
    // fast path to be wrong.  Judged bit for bit by the model's expression evaluated natively (and by the statement's own oracle).
    // (a) every integer-valued exponent -1100..=1100 (logspace computes base^start and base^stop), bases 2, 10, 3
    for k in -1100i64..=1100 {
        out(format!("logspace f64 {k} {} 2 false 2", k + 1));
        if k.abs() <= 330 || k % 7 == 0 { out(format!("logspace f64 {k} {} 2 false none", k + 1)); }
        if k.abs() <= 700 && k % 3 == 0 { out(format!("logspace f64 {} {k} 3 none 3", k - 2)); }
        if (-160..=140).contains(&k) { out(format!("logspace f32 {k} {} 2 false 2", k + 1)); }
        if (0..=62).contains(&k) { out(format!("logspace i64 {k} {k} 1 none 2")); out(format!("logspace u64 {k} {} 2 none 2", k + 1)); }
        // (b) every integer-valued bound of a geometric sequence (both of one sign)
        if k >= 1 { out(format!("geomspace f64 {k} {} 2 false", k + 1)); if k % 4 == 0 { out(format!("geomspace f64 {} {k} 3 none", k + 3)); } }
        if k <= -2 { out(format!("geomspace f64 {k} {} 2 false", k + 1)); }
    }
    // (c) the mathematical constants, their reciprocals and negatives, as bounds (the common ratio of `1 .. c` over one step is c itself)
    // and as exponents
    use std::f64::consts as fc;
    let consts = [fc::E, fc::PI, fc::LN_2, fc::LN_10, fc::LOG2_E, fc::LOG10_E, fc::LOG2_10, fc::LOG10_2, fc::SQRT_2, fc::FRAC_1_SQRT_2, fc::FRAC_PI_2, fc::FRAC_PI_3, fc::FRAC_PI_4,
                  fc::FRAC_PI_6, fc::FRAC_PI_8, fc::FRAC_1_PI, fc::FRAC_2_PI, fc::FRAC_2_SQRT_PI, fc::TAU, 0.5, 1.5, 0.1, 1.0 / 3.0];
    for c0 in consts { for c in [c0, 1.0 / c0] {
        let (x, x2, xn, one) = (fx(c), fx(c * c), fx(-c), "1");
        for n in ["2", "3", "4"] { for e in ["none", "false"] { out(format!("geomspace f64 {one} {x} {n} {e}")); } }
        out(format!("geomspace f64 {x} {one} 2 false")); out(format!("geomspace f64 {x} {x2} 2 false")); out(format!("geomspace f64 {x} {x2} 3 none")); out(format!("geomspace f64 -1 {xn} 3 false")); out(format!("geomspace f64 {xn} -1 2 true"));
        out(format!("geomspace f32 {one} {} 3 false", fx(c as f32 as f64)));
        for b in ["2", "none", "3"] { out(format!("logspace f64 0 {x} 2 none {b}")); out(format!("logspace f64 {x} {} 3 false {b}", fx(2.0 * c))); out(format!("logspace f64 {xn} {x} 3 none {b}")); }
    } }
    // (d) powers of two 2^k, k = -1074..=1023, with one ulp on each side, as bounds of a geometric sequence (the f64 exponent-range edges
    // — the smallest subnormal, MIN_POSITIVE, MAX — are the ends of this sweep)
    for k in -1074i32..=1023 {
        let v = if k >= -1022 { f64::from_bits(((k + 1023) as u64) << 52) } else { f64::from_bits(1u64 << (k + 1074)) };
        let x = fx(v);
        out(format!("geomspace f64 {x} 1 2 false")); out(format!("geomspace f64 1 {x} 3 false"));
        let up = next_up(v);
        if up.is_finite() { out(format!("geomspace f64 {} {}", if k % 2 == 0 { format!("{} 1 2", fx(up)) } else { format!("1 {} 3", fx(up)) }, "false")); }
        if k > -1074 { let dn = fx(next_down(v)); out(format!("geomspace f64 {} {}", if k % 2 == 0 { format!("1 {dn} 3") } else { format!("{dn} 1 2") }, "false")); }
    }
    for v in [f64::MAX, f64::MAX / 2.0, f64::MIN_POSITIVE, f64::EPSILON, 1.0 - f64::EPSILON / 2.0, 1.0 + f64::EPSILON] {
        let x = fx(v);
        for n in ["1", "2", "3"] { for e in ends { out(format!("geomspace f64 {x} 1 {n} {e}")); out(format!("geomspace f64 1 {x} {n} {e}")); out(format!("geomspace f64 -{x} -1 {n} {e}")); } }
    }
    // the f32 range: 2^k, k = -149..=127, with one f32 ulp on each side
    for k in -149i32..=127 {
        let v = if k >= -126 { f32::from_bits(((k + 127) as u32) << 23) } else { f32::from_bits(1u32 << (k + 149)) };
        out(format!("geomspace f32 {} 1 2 false", fx(v as f64))); out(format!("geomspace f32 1 {} 3 false", fx(v as f64)));
        let up = f32::from_bits(v.to_bits() + 1);
        if up.is_finite() { out(format!("geomspace f32 1 {} 2 false", fx(up as f64))); }
        if k > -149 { out(format!("geomspace f32 {} 1 3 false", fx(f32::from_bits(v.to_bits() - 1) as f64))); }
    }
    // (e) vander: every integer value -1100..=1100 as the base of a power (powers 0..5, all exact), powers of 2 / 3 / 7 / 10 up to 2^53
    let ints: Vec<i64> = (-1100..=1100).collect();
    for (ci, ch) in ints.chunks(50).enumerate() {
        let v = format!("{}:{}", ch.len(), show_list(ch));
        out(format!("vander i64 {v} 3 none")); out(format!("vander f64 {v} 6 {}", ["true", "false", "none"][ci % 3])); out(format!("vander i32 {v} 3 true")); out(format!("vander f32 {v} 2 none"));
    }
    for ty in ["i64", "f64", "u64"] {
        out(format!("vander {ty} 1:2 53 true")); out(format!("vander {ty} 1:2 53 none")); out(format!("vander {ty} 2:3,1 33 true")); out(format!("vander {ty} 3:10,0,1 16 false")); out(format!("vander {ty} 2:7,5 19 true"));
        let pw: Vec<i64> = (0..=26).map(|k| 1i64 << k).collect();
        out(format!("vander {ty} {}:{} 3 none", pw.len(), show_list(&pw)));
        if ty != "u64" { out(format!("vander {ty} 1:-2 53 none")); out(format!("vander {ty} 2:-3,-7 19 true")); out(format!("vander {ty} {}:{} 3 true", pw.len(), show_list(&pw.iter().map(|x| -x).collect::<Vec<_>>()))); }
    }
    out("vander u8 3:2,1,0 8 true".to_string()); out("vander u8 4:3,5,15,6 3 none".to_string()); out("vander i32 2:2,-2 31 true".to_string()); out("vander f32 2:2,-2 25 none".to_string());

    // ---- (19) the constructor macros with IMPURE argument expressions: each evaluated exactly once, in reading order
    for ty in ["i32", "i64", "u8", "f64", "f32", "u64"] {
        for sh in ["3", "2,3", "2,3,4", "0", "4,0,2", "1,1,7"] { for m in ["zeros", "ones", "rand"] { out(format!("mi_{m} {ty} {sh}")); } }
        for (sh, v) in [("2,3", 5), ("-", 7), ("4", 0), ("2,0", 1)] { out(format!("mi_full {ty} {sh} {v}")); }
        for l in ["3 none none", "0 none none", "1 none none", "6 none none", "3 5 none", "5 3 none", "0 4 none", "4 2 1", "2 2 0", "3 7 6", "3 3 3"] { out(format!("mi_eye {ty} {l}")); }
        for n in [0, 1, 4, 9] { out(format!("mi_identity {ty} {n}")); }
        for l in ["0 5 none", "2 11 3", "5 5 none", "0 9 2", "7 3 1", "0 200 100"] { out(format!("mi_arange {ty} {l}")); }
    }

    // ---- (20) results above 2^24 elements for the CHEAP constructors on a one-byte element type (a count taken through f32 is exact up to
    // 16 777 216): one or two cases per operation, judged in place by the harness-native reference
    let g24 = (1usize << 24) + 1;
    for l in [format!("zeros u8v {}", g24 + 2), format!("ones u8v 4097,4099"), format!("full u8v 3,{} 5", g24 / 3 + 2), format!("m_full u8v {g24} 6"), format!("m_zeros u8v 2,{}", (1 << 23) + 1), format!("m_ones u8v {}", g24 + 1),
              format!("full_like u8v {} 4", tag_off(&[2, (1 << 23) + 1], 1)), format!("zeros_like u8v {}", tag_off(&[g24], 1)), format!("ones_like u8v {}", tag_off(&[4099, 4099], 1)),
              "eye u8v 4099 4099 3".to_string(), "eye u8v 3 5592407 5592405".to_string(), "identity u8v 4097".to_string(), "tri u8v 4097 4099 -1".to_string(), "tri u8v 5592407 3 -5592405".to_string(),
              format!("tril u8v {} 4", tag_off(&[4099, 4099], 1)), format!("triu u8v {} -1", tag_off(&[2, 2897, 2897], 1)), format!("tril_plus_triu u8v {} 2", tag_off(&[4097, 4099], 1)),
              format!("diag u8v {} 0", tag_off(&[4097], 1)), format!("diag u8v {} 1", tag_off(&[4099, 4099], 1)), format!("diagflat u8v {} -1", tag_off(&[17, 241], 1)),
              "vander u8 m2x8388609 2 true".to_string(), format!("rand u8 {g24}"), format!("rand f32 2,{}", (1 << 23) + 1)] {
        out(format!("n {l}"));
    }
    if thorough {
        for l in [format!("zeros i8v 3,{}", g24 / 3 + 2), format!("full u8v {} 9", g24 + 4), format!("ones_like u8v {}", tag_off(&[g24 + 2], 1)), "m_eye u8v 4099 4099 3".to_string(), "m_identity u8v 4099".to_string(),
                  format!("triu u8v {} 7", tag_off(&[4099, 4099], 1)), format!("tril i8v {} -3", tag_off(&[3, 5592407], 1)), format!("diag u8v {} -2", tag_off(&[4097], 1)), format!("diag_diag u8v {} 1", tag_off(&[4097], 1)),
                  "vander u8 m2x5592407 3 none".to_string(), format!("rand u8 4097,4099")] {
            out(format!("n {l}"));
        }
    }
    let _ = rng;
}

/// the case stream with the two report lines of the native reference: one at the position of the last evidence sample, one at the end
fn gen(tier: &str, seed: u64, out: &mut dyn FnMut(String)) {
    let mut lines: Vec<String> = vec![];
    gen_all(tier, seed, &mut |l| lines.push(l));
    let stride = ((lines.len() + 2) / 12).max(1);
    lines.insert((11 * stride).min(lines.len()), "oracle_report".to_string());
    lines.push("oracle_report final".to_string());
    for l in lines { out(l); }
}

fn gen_all(tier: &str, seed: u64, out: &mut dyn FnMut(String)) {
    let thorough = tier == "thorough";
    let hi: usize = if thorough { 8 } else { 6 };          // matrix sides 0..=hi
    let koff: isize = if thorough { 9 } else { 7 };        // diagonal offsets -koff..=koff
    let max_count: usize = if thorough { 80 } else { 60 };
    let ks: Vec<Option<isize>> = std::iter::once(None).chain((-koff..=koff).map(Some)).collect();
    let sides: Vec<usize> = (0..=hi).collect();
    let opt_sides: Vec<Option<usize>> = std::iter::once(None).chain(sides.iter().copied().map(Some)).collect();

    // ---- corpus of past failures (found by this check on the pinned tree)
    for l in ["arange u8 0 5 0", "linspace u8 0 1 0 none", "geomspace u8 2 2 0 none", "logspace f64 0 3 0 true 2", "tril i32 i3+1 none", "triu i32 i3+1 1", "tril i32 i0,3+1 none", "tril i32 i3,0+1 0", "triu f64 i2,0,2+1 -1", "tril i32 -:5 none",
              // round-2 seeded change: masks through a multiplication (f64 round trip): kept i64 beyond 2^53, removed inf / NaN / -0.0
              "tril i64v i2,2+1 none", "triu f64v i2,2+1 none", "tril_plus_triu u64v i3,3+1 0", "tril f32v i2,3+2 0",
              // round-3 seeded changes: the same interval through two element types back to back (memo shared by all monomorphisations),
              // a start beyond 2^127, bounds below f64::EPSILON
              "linspace i32 0 10 4 none", "linspace f64 0 10 4 none", "linspace f32 0 10 4 none", "linspace f64 0 10 4 none"] { out(l.to_string()); }
    out(format!("linspace f64 {} {} 5 none", pow10(39), format!("5{}", "0".repeat(39))));
    // round-5 seeded changes: a span of 2^32 or more with a whole step below 2^32 (an offset i * step taken in 32 bits wraps)
    for l in ["linspace f64 0 10000000000 11 none", "linspace i64 0 10000000000 11 true", "linspace f64 10000000000 0 10 false", "linspace f64 -3000000000 3000000000 7 true",
              "arange i64 0 10000000000 1000000000", "arange f64 1 6000000000 1000000000", "arange i64 -3000000000 3000000000 500000000", "arange u64 4294967290 4294967300 1"] { out(l.to_string()); }
    out(format!("geomspace f64 1/{} 1/{} 3 none", pow10(20), pow10(10)));

    for ty in TYPES {
        let signed = ty != "u8";
        // ---- constant fills: every shape of rank <= 3 with sides 0..3, every matrix 0..hi x 0..hi
        let mut fill_shapes = shapes(0, 3, 0, 3);
        for &n in &sides { for &m in &sides { if n > 3 || m > 3 { fill_shapes.push(vec![n, m]); } } }
        for s in &fill_shapes {
            let sh = show_list(s);
            out(format!("zeros {ty} {sh}")); out(format!("ones {ty} {sh}"));
            for v in [0i64, 7, -3] { if v >= 0 || signed { out(format!("full {ty} {sh} {v}")); out(format!("full_like {ty} {} {v}", tag(s))); } }
            out(format!("zeros_like {ty} {}", tag(s))); out(format!("ones_like {ty} {}", tag(s)));
            out(format!("rand {ty} {sh}"));
            if (1..=3).contains(&s.len()) {
                out(format!("m_zeros {ty} {sh}")); out(format!("m_ones {ty} {sh}")); out(format!("m_rand {ty} {sh}"));
            }
            out(format!("m_full {ty} {sh} 5"));
        }
        // ---- eye / identity / tri
        for &n in &sides { for m in &opt_sides {
            for k in std::iter::once(None).chain((0..=koff as usize).map(Some)) {
                out(format!("eye {ty} {n} {} {}", opt_s(*m), opt_s(k)));
                if m.is_some() || k.is_none() { out(format!("m_eye {ty} {n} {} {}", opt_s(*m), opt_s(k))); }
            }
            for k in &ks { out(format!("tri {ty} {n} {} {}", opt_s(*m), opt_s(*k))); }
        } }
        for n in 0..=hi + 2 { out(format!("identity {ty} {n}")); out(format!("m_identity {ty} {n}")); }
        // ---- tril / triu: every matrix 0..hi x 0..hi, every offset; stacks of matrices; ranks 0 and 1
        for &n in &sides { for &m in &sides {
            let a = tag_off(&[n, m], 1);
            for k in &ks { out(format!("tril {ty} {a} {}", opt_s(*k))); out(format!("triu {ty} {a} {}", opt_s(*k))); }
            for k in -koff..koff { out(format!("tril_plus_triu {ty} {a} {k}")); }
        } }
        for s in shapes(3, 3, 0, 3).into_iter().chain(shapes(4, 4, 1, 2)) {
            let a = tag_off(&s, 1);
            for k in -3isize..=3 { out(format!("tril {ty} {a} {k}")); out(format!("triu {ty} {a} {k}")); out(format!("tril_plus_triu {ty} {a} {k}")); }
        }
        for n in 0..=3usize { for k in [None, Some(0isize), Some(1), Some(-1)] {
            out(format!("tril {ty} {} {}", tag_off(&[n], 1), opt_s(k))); out(format!("triu {ty} {} {}", tag_off(&[n], 1), opt_s(k)));
        } }
        out(format!("tril {ty} -:5 none")); out(format!("triu {ty} -:5 1"));
        // ---- diag / diagflat / diag∘diag
        for &n in &sides {
            let v = tag_off(&[n], 1);
            for k in &ks { out(format!("diag {ty} {v} {}", opt_s(*k))); out(format!("diag_diag {ty} {v} {}", opt_s(*k))); out(format!("diagflat {ty} {v} {}", opt_s(*k))); }
            for &m in &sides { let a = tag_off(&[n, m], 1); for k in &ks { out(format!("diag {ty} {a} {}", opt_s(*k))); } }
        }
        for s in shapes(2, 3, 0, 2) { for k in -2isize..=2 { out(format!("diagflat {ty} {} {k}", tag_off(&s, 1))); } }
        for s in [vec![2, 2, 2], vec![1, 1, 1, 1], vec![]] { out(format!("diag {ty} {} none", if s.is_empty() { "-:5".to_string() } else { tag_off(&s, 1) })); }
        // ---- extreme offsets (isize::MIN / MAX and neighbours): saturating arithmetic, checked diag side
        for k in [isize::MAX, isize::MAX - 1, isize::MIN, isize::MIN + 1] {
            for s in [vec![2usize, 3], vec![3, 2], vec![0, 2], vec![2, 2, 2]] {
                let a = tag_off(&s, 1);
                out(format!("tril {ty} {a} {k}")); out(format!("triu {ty} {a} {k}"));
                if k < isize::MAX { out(format!("tril_plus_triu {ty} {a} {k}")); }
                if s.len() == 2 { out(format!("diag {ty} {a} {k}")); out(format!("tri {ty} {} {} {k}", s[0], s[1])); }
            }
            for n in [0usize, 1, 3] { out(format!("diag {ty} {} {k}", tag_off(&[n], 1))); out(format!("diagflat {ty} {} {k}", tag_off(&[n], 1))); out(format!("diag_diag {ty} {} {k}", tag_off(&[n], 1))); }
        }
        // a side whose square overflows usize but which itself fits: 2^32 + small
        for k in [4294967296isize, -4294967296, 4294967295] { out(format!("diag {ty} {} {k}", tag_off(&[1], 1))); }
        // ---- vander: every length 0..6, every column count, both orders; values small enough for u8
        let vals: Vec<i64> = if signed { vec![-2, -1, 0, 1, 2, 3, -3, 2, 1] } else { vec![0, 1, 2, 3, 2, 1, 3, 0, 2] };
        for &n in &sides {
            let a = format!("{}:{}", n, show_list(&vals[..n]));
            for c in &opt_sides { if c.map_or(n, |x| x) <= 6 { for inc in [None, Some(true), Some(false)] { out(format!("vander {ty} {a} {} {}", opt_s(*c), opt_s(inc))); } } }
        }
        out(format!("vander {ty} {} none none", tag_off(&[2, 2], 1))); out(format!("vander {ty} -:5 none none"));
        // ---- arange: whole positive steps (the statement), then other steps the model also mirrors
        let starts: Vec<i64> = if signed { (-3..=6).collect() } else { (0..=6).collect() };
        let stops: Vec<i64> = if signed { (-4..=9).collect() } else { (0..=9).collect() };
        for &s in &starts { for &t in &stops {
            for st in [None, Some(1i64), Some(2), Some(3), Some(5), Some(12)] { out(format!("arange {ty} {s} {t} {}", opt_s(st))); }
            out(format!("m_arange {ty} {s} {t} none")); out(format!("m_arange {ty} {s} {t} 2"));
            if signed { for st in [-1i64, -2, -3] { out(format!("arange {ty} {s} {t} {st}")); } }
        } }
        out(format!("arange {ty} 0 5 0")); out(format!("arange {ty} 5 0 0"));
        if ty == "f64" {
            let qs = ["-3/2", "0", "1/4", "1/2", "2", "13/4", "7", "-5/4"];
            for s in qs { for t in qs { for st in ["none", "1", "2", "3", "1/2", "3/2", "1/4", "5/4", "-1/2"] { out(format!("arange f64 {s} {t} {st}")); } } }
        }
        // ---- linspace: every count 0..max_count, both endpoint settings (+ default)
        let lin_pairs: Vec<(&str, &str)> = match ty {
            "u8" => vec![("0", "10"), ("0", "1"), ("2", "3"), ("3", "3"), ("10", "0"), ("0", "59"), ("1", "255")],
            "f64" => vec![("0", "10"), ("0", "1"), ("2", "3"), ("3", "3"), ("10", "0"), ("-3/2", "9/4"), ("1/4", "1000"), ("-5", "5"), ("1", "-1/8")],
            _ => vec![("0", "10"), ("0", "1"), ("2", "3"), ("3", "3"), ("10", "0"), ("0", "59"), ("-5", "5"), ("-7", "-100"), ("1", "1000")],
        };
        for (s, t) in &lin_pairs { for n in 0..=max_count { for e in ["none", "true", "false"] { out(format!("linspace {ty} {s} {t} {n} {e}")); } } }
        for (s, t) in &lin_pairs { out(format!("linspace {ty} {s} {t} none none")); out(format!("linspace {ty} {s} {t} none false")); }
        // ---- geomspace
        let geo_pairs: Vec<(&str, &str)> = match ty {
            "u8" => vec![("1", "200"), ("1", "128"), ("2", "2"), ("200", "1"), ("0", "5"), ("5", "0"), ("0", "0")],
            "f64" => vec![("1", "1000"), ("1", "256"), ("2", "2"), ("1000", "1"), ("-1", "-1000"), ("1/2", "8"), ("1/4", "3/8"), ("0", "5"), ("5", "0"), ("0", "0")],
            _ => vec![("1", "1000"), ("1", "256"), ("2", "2"), ("1000", "1"), ("-1", "-1000"), ("3", "100000"), ("0", "5"), ("5", "0"), ("0", "0")],
        };
        for (s, t) in &geo_pairs { for n in 0..=max_count { for e in ["none", "true", "false"] { out(format!("geomspace {ty} {s} {t} {n} {e}")); } } }
        for (s, t) in &geo_pairs { out(format!("geomspace {ty} {s} {t} none none")); }
        // ---- logspace
        let log_pairs: Vec<(&str, &str)> = match ty {
            "u8" => vec![("0", "2"), ("1", "2"), ("0", "0"), ("2", "0")],
            "f64" => vec![("0", "3"), ("1", "2"), ("0", "0"), ("3", "0"), ("-1", "2"), ("1/2", "5/2"), ("-3/4", "-1/4")],
            _ => vec![("0", "3"), ("1", "2"), ("0", "0"), ("3", "0"), ("-1", "2"), ("0", "8")],
        };
        for (s, t) in &log_pairs { for b in ["none", "2", "10", "3"] { for n in 0..=max_count { for e in ["none", "true", "false"] { out(format!("logspace {ty} {s} {t} {n} {e} {b}")); } } } }
        for (s, t) in &log_pairs { out(format!("logspace {ty} {s} {t} none none none")); }
    }

    // ---- robustness streams: value classes on every numeric type (bit-wise), sizes beyond the small scope, zero-length axes
    let mut rng = Rng::new(seed ^ 0xC16);
    gen_streams(out, &mut rng, thorough);
    // ---- robustness streams, part 2: hidden state (types back to back, refused-then-valid, colliding shapes), extreme magnitudes,
    // exact lengths and offsets, ranks to 8, huge results
    gen_streams2(out, &mut rng, thorough);
    // ---- robustness streams, part 3: value relations (all-equal-not-identical, constant sources, equal bounds), offsets that wrap
    // modulo 2^64, results above 2^20 elements / sequences above 2^24 points through the harness-native reference (`n` lines)
    gen_streams3(out, &mut rng, thorough);
    // ---- robustness streams, part 5 (round 5): band sweeps of the sequence constructors (whole bounds / steps of every magnitude, small
    // counts, bit for bit), dense value pools for the `powf` kernel, impure macro arguments, results above 2^24 elements
    gen_streams5(out, &mut rng, thorough);
    // ---- seeded random stream beyond the exhaustive scope
    let n_rand = if thorough { 6000 } else { 1200 };
    for _ in 0..n_rand {
        let ty = *rng.pick(&TYPES);
        let signed = ty != "u8";
        match rng.below(12) {
            0 => { let (n, m) = (rng.below(14), rng.below(14)); out(format!("eye {ty} {n} {m} {}", rng.below(16))); }
            1 => { let (n, m) = (rng.below(14), rng.below(14)); out(format!("tri {ty} {n} {m} {}", rng.range(-15, 15))); }
            2 | 3 => {
                let r = 2 + rng.below(4);
                let mut s: Vec<usize> = (0..r).map(|_| 1 + rng.below(3)).collect();
                s[r - 1] = rng.below(12); s[r - 2] = rng.below(12);
                if s.iter().product::<usize>() > 250 { s[r - 1] = 3; s[r - 2] = 4; }
                // tags must stay below 256 for u8
                let mut lead = 0; while s.iter().product::<usize>() > 250 { s[lead] = 1; lead += 1; }
                let op = *rng.pick(&["tril", "triu", "tril_plus_triu"]);
                out(format!("{op} {ty} {} {}", tag_off(&s, 1), rng.range(-15, 15)));
            }
            4 => { let n = rng.below(20); out(format!("{} {ty} {} {}", rng.pick(&["diag", "diag_diag", "diagflat"]), tag_off(&[n], 1), rng.range(-12, 12))); }
            5 => { let (n, m) = (rng.below(14), rng.below(14)); out(format!("diag {ty} {} {}", tag_off(&[n, m], 1), rng.range(-15, 15))); }
            6 => {
                let n = rng.below(10); let c = rng.below(5);
                let v: Vec<i64> = (0..n).map(|_| if signed { rng.range(-3, 3) } else { rng.range(0, 3) }).collect();
                out(format!("vander {ty} {}:{} {} {}", n, show_list(&v), c, rng.pick(&["none", "true", "false"])));
            }
            7 => { let s = if signed { rng.range(-50, 50) } else { rng.range(0, 50) }; let t = if signed { rng.range(-60, 200) } else { rng.range(0, 200) }; out(format!("arange {ty} {s} {t} {}", rng.range(1, 40))); }
            8 => {
                let (s, t) = if signed { (rng.range(-100, 100), rng.range(-100, 100)) } else { (rng.range(0, 100), rng.range(0, 255)) };
                out(format!("linspace {ty} {s} {t} {} {}", rng.below(200), rng.pick(&["true", "false"])));
            }
            9 => { let (s, t) = (rng.range(1, 100), rng.range(1, 200)); out(format!("geomspace {ty} {s} {t} {} {}", 1 + rng.below(200), rng.pick(&["true", "false"]))); }
            10 => { let (s, t) = (rng.range(0, 2), rng.range(0, 2)); out(format!("logspace {ty} {s} {t} {} {} {}", 1 + rng.below(200), rng.pick(&["true", "false"]), rng.range(2, 12))); }
            _ => { let s = rng.shape(1, 4, 5); out(format!("rand {ty} {}", show_list(&s))); out(format!("full {ty} {} {}", show_list(&s), rng.range(0, 100))); }
        }
    }
}

/// non-trivial: the case builds (or reads) something with at least two elements — a matrix with both sides >= 2,
/// a sequence of >= 2 points, a fill of >= 2 elements
fn nontrivial(op: &str, args: &[&str]) -> bool {
    if op.starts_with("n_") { return true; }
    if args.len() < 2 { return false; }
    let a = &args[1..];
    let op = &op.replace("mi_", "m_")[..];
    let cnt = |s: &str| -> usize { if s.contains(':') || s.starts_with('i') { parse_arr_raw(s).0.iter().product() } else { parse_usize_list(s).iter().product() } };
    match op {
        "full" | "zeros" | "ones" | "rand" | "m_zeros" | "m_ones" | "m_rand" | "m_full" | "full_like" | "zeros_like" | "ones_like" => cnt(a[0]) >= 2,
        "eye" | "tri" | "m_eye" => { let n: usize = a[0].parse().unwrap_or(0); let m: usize = a[1].parse().unwrap_or(n); n >= 2 && m >= 2 }
        "identity" | "m_identity" => a[0].parse::<usize>().unwrap_or(0) >= 2,
        "tril" | "triu" | "tril_plus_triu" | "diag" => { let s = parse_arr_raw(a[0]).0; s.iter().filter(|&&d| d >= 2).count() >= 2 || (op == "diag" && s.len() == 1 && s[0] >= 2) }
        "diagflat" | "diag_diag" | "vander" => cnt(a[0]) >= 2,
        "arange" | "m_arange" => true,
        "linspace" | "geomspace" | "logspace" => a[2].parse::<usize>().map_or(true, |n| n >= 2),
        _ => false,
    }
}

fn main() {
    harness_main(Spec { prop: "C16", gen, exec, nontrivial, hang_secs: 30,
        rule: "exhaustive per element type (i32 i64 u8 f64): fills over every shape rank<=3 sides 0..3 and every matrix 0..6x0..6 (thorough 0..8); eye/tri/tril/triu/diag over every matrix side pair x every offset -7..7 (+default; eye 0..7 since k is usize); stacks of matrices rank 3-4, ranks 0/1 (refused); vander lengths 0..6 x columns 0..6 x both orders; arange starts x stops x whole steps 1,2,3,5,12 (+ negative and fractional steps on f64); linspace/geomspace/logspace counts 0..60 (thorough 0..80) x endpoint none/true/false x 4-10 (start,stop) pairs x bases; rand over every shape rank<=3 sides 0..3 + all matrices (>200 shapes); array_* macros in every arity; robustness streams: value-class types i8v..u64v isizev usizev f32v f64v (tags mapped to |x|>2^53, MIN/MAX, u8 255, -0.0, +-inf, NaN, subnormals; bit-wise comparison, masked positions exactly +0) for tril/triu/tril+triu/diag/diagflat/diag.diag/full/full_like/zeros/ones/*_like/eye/identity/tri over matrices 0..4x0..4 (thorough 0..6) x offsets, stacks, ranks 0/1, zero_shapes, extreme offsets; big_shapes (to 70x70, 130x17, 300x2x2) and zero_shapes for every structural constructor on the plain and the value-class types, eye/tri/identity to side 130, vander on 1030 values, linspace to 4100 points, geomspace/logspace to 1030, arange to 4100 terms; part-2 streams: the same arguments through the element types i32 f64 u8 f64 f32 f64 i64 f32 ... back to back (linspace/geomspace/logspace/arange/eye/tri/identity/fills/rand/macros/tril/triu/diag/vander), refused-then-valid calls, collision_shape_pairs A,B,A, counts n / n+2^8 / n+2^16, A-B-A re-run of the previous case on every third case; exact decimal rationals beyond i64 (driver in Rat, executor by a correctly rounded big-integer division validated against the hardware division on a seventh of the small rationals): linspace/geomspace/logspace with bounds 3*2^60 ... f64::MAX/2, 10^39, 10^300 and 2^-52 ... 2^-1074, 10^-17 ... 10^-300 on f64 and f32 scales on f32; offsets c+2^8, c+2^16, c+2^32; every side 1..130 (thorough 300); counts 19..1009; ranks 5..8; huge_shapes (16 384 ... 140 000 elements) for fills / masks / diag / eye / tri / vander, linspace to 131 073 points, arange to 142 858 terms; part-3 streams: all-equal-not-identical and constant sources, equal bounds, offsets k*2^64/s+small, results above 2^20 elements (n_ lines) judged in place by a harness-native reference validated against the model on every ordinary case; round-5 streams: band sweeps of linspace / arange / array_arange! (whole start / stop / step from {0, +-1, +-2^k, +-(2^k+-1), 10^k}, k to 52 resp. 15, every magnitude below 2^53 plus exact multiples of powers of two to 2^62, counts to 300 incl. the first count at which an offset reaches 2^16 / 2^24 / 2^31 / 2^32; i64 f64 u64 i32 f32 u8; integral linspace grids bit for bit), value pools of the powf kernel (integer exponents and bounds -1100..1100, mathematical constants with reciprocals and negatives, 2^k +- 1 ulp for k = -1074..1023 and the f32 analogue, vander of every integer -1100..1100 and of exact powers to 2^52), constructor macros with impure arguments (evaluated once, in order), one-byte results above 2^24 elements for every cheap constructor; then a seeded random stream (sides to 13, offsets to +-15, rank to 5, counts to 200). distinct = distinct case lines; non-trivial = result/operand with >= 2 elements (matrix with both sides >= 2, sequence with >= 2 points)" });
}
