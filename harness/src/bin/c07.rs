//! C07 — reshaping operations never reorder, drop or invent elements. Value protocol with tags; chains of operations.
//!
//! Every chain is executed on the i64 tag array through the Result receiver (`Ok(a).step().step()…`, the answer compared with
//! the model) AND through the plain-receiver twin of every step (`a.step()?` …), the two compared after EVERY step; then on nine
//! images of the tag array in other element types (u8, i8, u64 beyond 2^53, f64 with tag 0 = -0.0, f32 likewise, an f64 table of
//! special values compared bit-wise, bool, String, char), each through both receivers.
use arrharness::*;
use std::panic::{catch_unwind, AssertUnwindSafe};

/// ordered factorizations of n into exactly k factors >= 1
fn factorizations(n: usize, k: usize) -> Vec<Vec<usize>> {
    if k == 1 { return vec![vec![n]]; }
    let mut out = vec![];
    for d in 1..=n { if n % d == 0 { for mut rest in factorizations(n / d, k - 1) { rest.insert(0, d); out.push(rest); } } }
    out
}

/// tag array whose tag 0 (= -0.0 / the zero element in every image) sits in the middle instead of at flat position 0
fn centred(s: &[usize]) -> String { let n: usize = s.iter().product(); if n < 2 { tag(s) } else { tag_off(s, -((n / 2) as i64)) } }

/// a random chain of shape-changing steps starting (and ending) at shape `s` with `n > 0` elements
fn random_chain(rng: &mut Rng, s: &[usize], max_steps: usize) -> String {
    let n: usize = s.iter().product();
    let mut cur = s.to_vec(); let mut steps: Vec<String> = vec![];
    for _ in 0..(1 + rng.below(max_steps)) {
        match rng.below(6) {
            0 => { let k = 1 + rng.below(4); let f = factorizations(n, k); let t = rng.pick(&f).clone(); steps.push(format!("reshape:{}", show_list(&t))); cur = t; }
            1 => { steps.push("ravel".into()); cur = vec![n]; }
            2 => { let p = rng.below(cur.len() + 1); let neg = rng.below(2) == 0;
                   let spelled = if neg { p as isize - (cur.len() as isize + 1) } else { p as isize };
                   steps.push(format!("expand:{spelled}")); cur.insert(p, 1); }
            3 => { steps.push("squeeze:none".into()); cur.retain(|&d| d != 1); }
            4 => { if let Some(p) = cur.iter().position(|&d| d == 1) { let neg = rng.below(2) == 0;
                   steps.push(format!("squeeze:{}", if neg { p as isize - cur.len() as isize } else { p as isize })); cur.remove(p); } }
            _ => { let k = 1 + rng.below(3); steps.push(format!("atleast:{k}"));
                   cur = match (k, cur.len()) { (2, 0) => vec![1, 1], (2, 1) => vec![1, cur[0]], (3, 0) => vec![1, 1, 1], (3, 1) => vec![1, cur[0], 1], (3, 2) => vec![cur[0], cur[1], 1], _ => cur }; }
        }
    }
    steps.push(format!("reshape:{}", show_list(s)));
    steps.join("|")
}

/// round 5 (20): does a quotient of the two lengths computed in f32 differ from the exact one (rounded up, down, or the remainder test)?
fn f32_quotient_wrong(c: usize, l: usize) -> bool {
    let q = c as f32 / l as f32;
    (q.ceil() as usize) != c.div_ceil(l) || (q as usize) != c / l || ((c as f32 % l as f32) == 0.0) != (c % l == 0)
}
/// for a source of `l` elements: the first count above 2^24 for which `(count as f32 / l as f32).ceil()` gives too FEW whole copies,
/// the first for which the truncated f32 quotient is not the exact floor, the first for which the f32 remainder test `% == 0` lies
/// (each `None` if there is none up to 2^25 + 64)
fn f32_traps(l: usize) -> Vec<usize> {
    let mut found: [Option<usize>; 3] = [None; 3];
    let mut c = (1usize << 24) + 1;
    while c <= (1 << 25) + 64 && found.iter().any(|f| f.is_none()) {
        let q = c as f32 / l as f32;
        if found[0].is_none() && (q.ceil() as usize) < c.div_ceil(l) { found[0] = Some(c); }
        if found[1].is_none() && (q as usize) != c / l && found[0] != Some(c) { found[1] = Some(c); }
        if found[2].is_none() && ((c as f32 % l as f32) == 0.0) != (c % l == 0) && found[0] != Some(c) && found[1] != Some(c) { found[2] = Some(c); }
        c += 1;
        // far beyond the first few multiples nothing new turns up for the big lengths: stop scanning after 64 multiples
        if c > (1 << 24) + 64 * l.max(64) + 64 { break; }
    }
    (0..3).map(|k| found[k].unwrap_or((1 << 24) + 1 + 2 * k + 4 * (l % 3))).collect()
}

fn gen(tier: &str, seed: u64, out: &mut dyn FnMut(String)) {
    let thorough = tier == "thorough";
    let mut rng = Rng::new(seed);
    // corpus of past misses (seeded changes C07-r2-m1, -m2): one literal witness each; the classes follow in the streams below
    out("chain 3:10,20,30 resize:30,40".into());
    out("chain i0,0 squeeze:0".into());
    out("chain i0,3,0 squeeze:-1".into());

    let mut all = shapes(1, 4, 1, 3);
    all.extend(vec![vec![0], vec![2, 0], vec![1, 0, 3], vec![4], vec![5, 1], vec![1, 7, 1], vec![2, 2, 2, 2, 2]]);
    // stream 2 — zero-length axes: every zero shape goes through the whole exhaustive enumeration below
    for z in zero_shapes().into_iter().chain(vec![vec![0, 3, 0], vec![0, 1, 0, 2], vec![0, 0, 0], vec![1, 0, 1], vec![0, 1, 0], vec![1, 0, 0, 1], vec![3, 0]]) { if !all.contains(&z) { all.push(z); } }
    for s in &all {
        let a = tag(s); let n: usize = s.iter().product(); let nd = s.len() as isize;
        out(format!("chain {a} ravel"));
        out(format!("chain {a} -"));
        // every target shape of equal count with up to 4 axes (5 in thorough), then back
        if n > 0 { for k in 1..=(if thorough { 5 } else { 4 }) { for t in factorizations(n, k) {
            out(format!("chain {a} reshape:{}|reshape:{}", show_list(&t), show_list(s)));
        } } }
        // an empty array reshapes to every shape with a zero-length axis and to no other
        if n == 0 { for t in [vec![0], vec![0, 0], vec![0, 5], vec![3, 0], vec![1, 0, 1], vec![2, 0, 0, 2], vec![1], vec![1, 1], vec![]] {
            out(format!("chain {a} reshape:{}|reshape:{}", show_list(&t), show_list(s)));
        } }
        // counts that do not fit: refused
        for t in [vec![n + 1], vec![n, 2], vec![0], vec![]] { if t.iter().product::<usize>() != n { out(format!("chain {a} reshape:{}", show_list(&t))); } }
        for t in [vec![1usize], vec![2, 2], vec![n + 1], vec![2, n.max(1)], vec![3, 1, 2], vec![0], vec![n.max(1) * 2 + 1]] { out(format!("chain {a} resize:{}", show_list(&t))); }
        for t in [vec![0usize, 0], vec![2, 0], vec![0, 3], vec![]] { out(format!("chain {a} resize:{}", show_list(&t))); }
        for k in [0, 1, n.saturating_sub(1), n, n + 1, 2 * n + 1] { out(format!("chain {a} cycle_take:{k}")); }
        for k in 0..=4 { out(format!("chain {a} atleast:{k}")); }
        // expand_dims: every single position (valid range is -(nd+1)..=nd for one new axis), every pair, out of range
        for p in (-nd - 2)..=(nd + 1) { out(format!("chain {a} expand:{p}")); }
        for p in (-nd - 2)..=(nd + 1) { for q in (-nd - 2)..=(nd + 2) { if p != q { out(format!("chain {a} expand:{p},{q}")); } } }
        out(format!("chain {a} expand:0,0")); out(format!("chain {a} expand:0,1,2"));
        // squeeze
        out(format!("chain {a} squeeze:none"));
        for p in (-nd - 1)..=nd { out(format!("chain {a} squeeze:{p}")); }
        for p in -nd..nd { for q in -nd..nd { if p != q { out(format!("chain {a} squeeze:{p},{q}")); } } }
        // stream 5 — the same call twice, insert-then-remove at every position in both spellings, an error passed along the chain
        let c = centred(s);
        for st in ["ravel", "squeeze:none", "atleast:1", "atleast:2", "atleast:3", "expand:0", "expand:-1"] { out(format!("chain {c} {st}|{st}")); }
        for p in (-nd - 1)..=nd {
            let other = if p < 0 { p + nd + 1 } else { p - nd - 1 };
            out(format!("chain {c} expand:{p}|squeeze:{p}")); out(format!("chain {c} expand:{p}|squeeze:{other}"));
        }
        out(format!("chain {c} reshape:{}|ravel|squeeze:none", n + 1)); out(format!("chain {c} squeeze:{nd}|ravel")); out(format!("chain {c} atleast:4|ravel"));
        if n > 0 { out(format!("chain {c} resize:{}|reshape:2,{}|resize:{}", 2 * n, n, show_list(s))); }
    }
    // chains: random sequences that end in the original shape (so the whole chain must be the identity)
    let n_chain = if thorough { 20000 } else { 3000 };
    for _ in 0..n_chain {
        let s = rng.pick(&all).clone();
        let n: usize = s.iter().product(); if n == 0 { continue; }
        out(format!("chain {} {}", tag(&s), random_chain(&mut rng, &s, 8)));
    }
    // create with ndmin
    for s in shapes(1, 3, 1, 3) { let n: usize = s.iter().product(); for nd in ["none", "0", "1", "2", "3", "4", "5"] {
        out(format!("create {} {} {nd}", show_list(&(0..n as i64).collect::<Vec<_>>()), show_list(&s)));
    } }
    out("create 1,2,3 2,2 none".into()); out("create 1,2,3 2,2 3".into()); out("create - 0 2".into());

    // ------------------------------------------------------------------ stream 1 — sizes beyond the small scope
    let mut big = big_shapes();
    big.extend(vec![vec![255], vec![256], vec![257], vec![1023], vec![1024], vec![1025], vec![4096], vec![4097], vec![1, 9, 1], vec![1, 1, 300], vec![17, 1], vec![1, 1024, 1], vec![13, 10], vec![1, 4100]]);
    for s in &big {
        let (a, n, nd) = (centred(s), s.iter().product::<usize>(), s.len() as isize);
        out(format!("chain {a} ravel")); out(format!("chain {a} ravel|reshape:{}", show_list(s)));
        for k in 1..=4 { let f = factorizations(n, k); for _ in 0..(if thorough { 8 } else { 3 }) { let t = rng.pick(&f);
            out(format!("chain {a} reshape:{}|reshape:{}", show_list(t), show_list(s))); } }
        out(format!("chain {a} reshape:{}", n + 1)); out(format!("chain {a} reshape:{},2", n));
        for k in 0..=4 { out(format!("chain {a} atleast:{k}")); }
        for p in (-nd - 2)..=(nd + 1) { out(format!("chain {a} expand:{p}")); out(format!("chain {a} expand:{p}|squeeze:{p}")); }
        out(format!("chain {a} expand:0,-1")); out(format!("chain {a} expand:-1,1|squeeze:none|reshape:{}", show_list(s)));
        out(format!("chain {a} squeeze:none"));
        for p in -nd..nd { out(format!("chain {a} squeeze:{p}")); }
        for _ in 0..(if thorough { 12 } else { 3 }) { out(format!("chain {a} {}", random_chain(&mut rng, s, 6))); }
        out(format!("create {a} {} none", show_list(s))); out(format!("create {a} {} {}", show_list(s), nd + 2)); out(format!("create {a} {} 1", show_list(s)));
        out(format!("create {a} {} 3", n + 1));
    }
    for z in zero_shapes() { out(format!("create - {} none", show_list(&z))); out(format!("create - {} 4", show_list(&z))); out(format!("create 1 {} 2", show_list(&z))); }
    // resize / cycle_take: every source length class (dividing / not dividing 256, 1024, 4096; prime; just around the thresholds)
    // x targets just above 256, 512, 1024, 2048, 4096 (shapes of rank 1..3), and shrinking from big sources
    let mut lens: Vec<usize> = vec![1, 2, 3, 5, 6, 7, 8, 9, 10, 12, 15, 16, 17, 24, 27, 31, 33, 100, 255, 256, 257, 300, 1000, 1023, 1024, 1025, 1030, 4100];
    if thorough { lens.extend(11..=64); lens.extend(vec![127, 128, 129, 511, 512, 513, 2047, 2048, 2049, 4095, 4096, 4097]); lens.sort(); lens.dedup(); }
    let mut targets: Vec<Vec<usize>> = vec![vec![257], vec![513], vec![1025], vec![30, 40], vec![2049], vec![4097], vec![3, 7, 100], vec![70, 70], vec![1024], vec![2, 1024], vec![17, 16]];
    if thorough { targets.extend(vec![vec![8193], vec![2, 3, 4, 5, 2, 9], vec![1026], vec![4, 1025], vec![100, 100], vec![65, 64], vec![1, 1100, 1]]); }
    for &l in &lens {
        let srcs: Vec<Vec<usize>> = if l % 3 == 0 && l > 3 { vec![vec![l], vec![3, l / 3]] } else if l % 2 == 0 && l > 2 { vec![vec![l], vec![l / 2, 2]] } else { vec![vec![l]] };
        for (k, t) in targets.iter().enumerate() {
            let s = &srcs[k % srcs.len()];
            out(format!("chain {} resize:{}", centred(s), show_list(t)));
        }
        for n in [255usize, 256, 257, 1023, 1024, 1025, 2049, 4097, 5000] { if thorough || (n + l) % 3 != 0 { out(format!("chain {} cycle_take:{n}", centred(&srcs[0]))); } }
    }
    for s in &big { let n: usize = s.iter().product(); if n < 200 { continue; }
        for t in [vec![n - 1], vec![n / 2, 2], vec![1025.min(n)], vec![n + 1], vec![2, n], vec![3, 1, n / 2]] { out(format!("chain {} resize:{}", centred(s), show_list(&t))); }
        out(format!("chain {} cycle_take:{}", centred(s), n + 1025));
        out(format!("chain {} resize:2,{n}|reshape:{}|resize:{}", centred(s), 2 * n, show_list(s)));
    }

    // ================================================================== robustness streams, part 2
    let spell_in = |p: usize, rank: usize, neg: bool| -> isize { if neg { p as isize - rank as isize } else { p as isize } };
    // ---- (10) expand_dims with THREE or more axes: every 3-subset of the result's positions in every order (4 and 5 positions:
    //      sampled subsets and orders), mixed spellings; alone, and followed by the squeeze of exactly those positions (again in an
    //      unsorted order and mixed spelling), which must give the array back
    let exp_shapes: Vec<Vec<usize>> = if thorough { vec![vec![3], vec![2, 3], vec![1, 2], vec![2, 1, 3], vec![0, 2], vec![2, 2, 2, 2], vec![1], vec![5, 1], vec![4, 3, 2], vec![17, 16]] }
        else { vec![vec![3], vec![2, 3], vec![1, 2], vec![2, 1, 3], vec![0, 2], vec![2, 2, 2, 2]] };
    for s in &exp_shapes {
        let (a, nd) = (centred(s), s.len());
        for k in 3..=5usize {
            let r = nd + k;
            let mut subsets: Vec<Vec<usize>> = boxes(&vec![r; k]).into_iter().filter(|c| c.windows(2).all(|w| w[0] < w[1])).collect();
            if k > 3 { let keep = if thorough { 30 } else { 10 }; let mut pick = vec![]; for _ in 0..keep { pick.push(subsets[rng.below(subsets.len())].clone()); } subsets = pick; }
            for sub in &subsets {
                let perms: Vec<Vec<usize>> = if k == 3 { permutations(3) } else { let mut v: Vec<Vec<usize>> = (0..(if thorough { 8 } else { 4 })).map(|_| rng.perm(k)).collect(); v.push((0..k).rev().collect()); v };
                for p in perms {
                    let mask = rng.below(1 << k);
                    let ex: Vec<isize> = p.iter().enumerate().map(|(i, &j)| spell_in(sub[j], r, (mask >> i) & 1 == 1)).collect();
                    let q = rng.perm(k); let mask2 = rng.below(1 << k);
                    let sq: Vec<isize> = q.iter().enumerate().map(|(i, &j)| spell_in(sub[j], r, (mask2 >> i) & 1 == 1)).collect();
                    out(format!("chain {a} expand:{}", show_list(&ex)));
                    out(format!("chain {a} expand:{}|squeeze:{}", show_list(&ex), show_list(&sq)));
                }
            }
            // refused lists: a position beyond the result's rank, a repeated position (in two spellings)
            let r_i = r as isize;
            out(format!("chain {a} expand:{}", show_list(&[(r_i), 0, 1].iter().chain(vec![2isize; k - 3].iter()).copied().collect::<Vec<_>>())));
            out(format!("chain {a} expand:2,{},0{}", 2 - r_i, ",1".repeat(k - 3)));
            out(format!("chain {a} expand:{},1,0{}", r_i + 1, ",3".repeat(k - 3)));
            out(format!("chain {a} ravel"));
        }
    }
    // ---- (10) squeeze with 3..5 axes in unsorted order and mixed spellings on shapes rich in unit axes (+ a non-unit axis among them: refused)
    for s in [vec![1usize, 2, 1, 1, 3, 1], vec![1, 1, 1], vec![1, 1, 2, 1, 1], vec![2, 1, 1, 1], vec![1, 1, 1, 1, 1, 1, 2], vec![1, 0, 1, 1]] {
        let (a, nd) = (centred(&s), s.len());
        let units: Vec<usize> = (0..nd).filter(|&k| s[k] == 1).collect();
        for k in 3..=units.len().min(5) {
            for _ in 0..(if thorough { 40 } else { 12 }) {
                let p = rng.perm(units.len()); let mask = rng.below(1 << k);
                let ax: Vec<isize> = p[..k].iter().enumerate().map(|(i, &j)| spell_in(units[j], nd, (mask >> i) & 1 == 1)).collect();
                out(format!("chain {a} squeeze:{}", show_list(&ax)));
                out(format!("chain {a} squeeze:{}|expand:{}", show_list(&ax), show_list(&{ let mut v: Vec<isize> = p[..k].iter().map(|&j| units[j] as isize).collect(); v.reverse(); v })));
            }
            if let Some(non) = (0..nd).find(|&k| s[k] != 1) { out(format!("chain {a} squeeze:{},{},{}", units[units.len() - 1], non, units[0])); }
            out(format!("chain {a} squeeze:{},{},{}", units[1], units[0] as isize - nd as isize, units[0]));
        }
    }
    // ---- (10) Array::create with ndmin 0..=9 (and 12, 16) on ranks 0..=5 and on zero-length shapes
    for s in [vec![], vec![6usize], vec![2, 3], vec![1, 2, 3], vec![2, 1, 3, 1], vec![1, 1, 2, 3, 1], vec![0], vec![2, 0], vec![17, 16], vec![2, 2, 2, 2, 2, 2]] {
        let n: usize = s.iter().product();
        let els = show_list(&(0..n as i64).map(|t| t - 2).collect::<Vec<_>>());
        for nd in ["none", "0", "1", "2", "3", "4", "5", "6", "7", "8", "9", "12", "16"] { out(format!("create {els} {} {nd}", show_list(&s))); }
    }
    // ---- (10) ranks 6..8
    for (s, t) in [(vec![2usize, 3, 2, 2], vec![2usize, 1, 3, 2, 1, 2, 1, 1]), (vec![24], vec![1, 2, 1, 3, 1, 4, 1]), (vec![2, 2, 2, 2, 2, 2], vec![4, 1, 4, 1, 4, 1, 1, 1]), (vec![3, 5, 7], vec![1, 1, 3, 1, 5, 1, 7, 1])] {
        let a = centred(&s);
        out(format!("chain {a} reshape:{}", show_list(&t)));
        out(format!("chain {a} reshape:{}|squeeze:none|ravel|reshape:{}", show_list(&t), show_list(&s)));
        out(format!("chain {a} reshape:{}|squeeze:{}|reshape:{}", show_list(&t), show_list(&(0..t.len()).rev().filter(|&k| t[k] == 1).map(|k| k as isize - if k % 2 == 0 { t.len() as isize } else { 0 }).collect::<Vec<_>>()), show_list(&s)));
        out(format!("chain {a} expand:0,2,4,6,1|squeeze:none|reshape:{}", show_list(&s)));
        for k in 0..=4 { out(format!("chain {a} reshape:{}|atleast:{k}", show_list(&t))); }
        out(format!("create {a} {} 8", show_list(&t))); out(format!("create {a} {} 9", show_list(&t)));
    }
    // ---- (8) exact lengths: every axis length 1..=300
    for l in 1..=300usize {
        out(format!("chain {} reshape:{l},2|reshape:2,{l}", centred(&[2, l])));
        out(format!("chain {} resize:2,{}", centred(&[l]), l + 1));
        if thorough || l % 2 == 1 { out(format!("chain {} cycle_take:{}", centred(&[3, l]), 2 * l + 1)); out(format!("chain {} expand:1|squeeze:-2|ravel", centred(&[l, 3]))); }
    }
    // ---- (8) axis arguments and target lengths that survive a narrowing cast to u8 / u16 / u32 as legal ones: refused
    for s in [vec![3usize], vec![2, 3], vec![1, 2, 1], vec![1, 1]] {
        let (a, nd, n) = (tag(&s), s.len(), s.iter().product::<usize>());
        for c in 0..=nd { for big in narrowing_images(c) {
            out(format!("chain {a} expand:{big}")); out(format!("chain {a} expand:0,{big}")); out(format!("chain {a} expand:{}", -(big as isize) - 1));
            out(format!("chain {a} squeeze:{big}")); out(format!("chain {a} squeeze:{}", -(big as isize) - 1)); out(format!("chain {a} squeeze:none"));
        } }
        for big in narrowing_images(n) { out(format!("chain {a} reshape:{big}")); out(format!("chain {a} reshape:1,{big}")); out(format!("chain {a} ravel")); }
    }
    // ---- (6) hidden state: two chains back to back on a FRESH thread, A B A and then (another fresh thread) B A B (`aba`): the
    //      shape pairs that collide under the weak polynomial hashes (multipliers 31, 33, 37, 131, 257), pairs of equal count,
    //      a refused call directly followed by a valid one.  For a third of ALL chain lines the previous line is also re-executed.
    let mut pairs = collision_shape_pairs();
    pairs.extend(vec![(vec![2, 6], vec![3, 4]), (vec![4, 3], vec![3, 4]), (vec![1, 12], vec![12, 1]), (vec![2, 3, 4], vec![4, 3, 2]), (vec![2, 3], vec![2, 259]), (vec![3, 2], vec![259, 2]), (vec![12], vec![268]), (vec![7], vec![38])]);
    // the same shape with permuted values (a cache keyed by a fingerprint of the values)
    for s in [vec![2usize, 3], vec![12], vec![3, 1, 4], vec![2, 2, 2, 2]] {
        let n: usize = s.iter().product();
        let rev = format!("{}:{}", show_list(&s), show_list(&(0..n as i64).rev().collect::<Vec<_>>()));
        for st in ["ravel".to_string(), format!("resize:{}", 2 * n + 1), format!("reshape:{n}"), "expand:0,2,1|squeeze:none".to_string(), format!("cycle_take:{}", n + 3), "atleast:3".to_string()] {
            out(format!("aba {} {st} {rev} {st}", tag(&s)));
        }
    }
    for (pi, (sa, sb)) in pairs.iter().enumerate() {
        let (a, b) = (centred(sa), centred(sb));
        let (na, nb): (usize, usize) = (sa.iter().product(), sb.iter().product());
        let rev = |s: &Vec<usize>| { let mut r = s.clone(); r.reverse(); show_list(&r) };
        let variants: Vec<(String, String)> = vec![
            ("ravel".into(), "ravel".into()),
            (format!("reshape:{}", rev(sa)), format!("reshape:{}", rev(sb))),
            (format!("resize:{}", show_list(sb)), format!("resize:{}", show_list(sa))),
            ("expand:1|squeeze:1".into(), "expand:1|squeeze:1".into()),
            ("atleast:3".into(), "atleast:3".into()),
            ("squeeze:none".into(), "squeeze:none".into()),
            (format!("reshape:{}", na + 1), "ravel".into()),
            (format!("squeeze:{}", sa.len()), format!("resize:{},2", nb)),
            ("expand:0,-1,2".into(), "expand:0,-1,2".into()),
            (format!("cycle_take:{}", nb), format!("cycle_take:{}", na)),
        ];
        for (vi, (x, y)) in variants.iter().enumerate() {
            if !thorough && vi != pi % variants.len() && vi != (pi / 3 + 2) % variants.len() { continue; }
            out(format!("aba {a} {x} {b} {y}"));
        }
    }
    // ---- (7) huge targets and sources (16 384 .. 140 000 elements; bulk / block paths above 2^14, 2^15, 2^16 elements).
    //      resize / cycle_take from SMALL sources and reshape / ravel / expand / squeeze / atleast of huge arrays go through the model
    //      (linear there); resize / cycle_take FROM huge sources are judged by the native reference (`hchain`).
    let src_lens = [1usize, 2, 3, 5, 7, 9, 10, 12, 31, 100, 255, 257, 1000, 1030];
    let tgt: Vec<Vec<usize>> = vec![vec![300, 300], vec![65537], vec![2, 70000], vec![70000, 2], vec![131073], vec![257, 256], vec![65536], vec![256, 256], vec![140000], vec![66000], vec![5, 4, 10, 10, 10], vec![3, 30000]];
    for (li, &l) in src_lens.iter().enumerate() {
        let per = if thorough { 6 } else { 3 };
        for q in 0..per {
            let t = &tgt[(li * per + q * 5) % tgt.len()];
            let src: Vec<usize> = if l % 2 == 0 && l > 2 && q % 2 == 1 { vec![2, l / 2] } else { vec![l] };
            out(format!("chain {} resize:{}", centred(&src), show_list(t)));
        }
        out(format!("chain {} cycle_take:{}", centred(&[l]), [65537usize, 70001, 131073, 16385][li % 4]));
    }
    let big_src: Vec<Vec<usize>> = vec![vec![4100], vec![16385], vec![33000], vec![70000], vec![130, 130], vec![2, 70000], vec![300, 300]];
    let big_tgt: Vec<Vec<usize>> = vec![vec![300, 300], vec![70001], vec![2, 70001], vec![140001], vec![65537], vec![7], vec![100, 100], vec![299, 300], vec![3, 50000], vec![131073]];
    for (bi, s) in big_src.iter().enumerate() {
        let per = if thorough { 7 } else { 3 };
        for q in 0..per { out(format!("hchain {} resize:{}", centred(s), show_list(&big_tgt[(bi * 3 + q * 7) % big_tgt.len()]))); }
        out(format!("hchain {} cycle_take:{}", centred(s), [65537usize, 140000, 5, 16385 * 3 + 1][bi % 4]));
        out(format!("hchain {} resize:{}|ravel|resize:{}", centred(s), show_list(&big_tgt[bi % 4]), show_list(s)));
    }
    for (hi, s) in huge_shapes().iter().enumerate() {
        let (a, n, nd) = (centred(s), s.iter().product::<usize>(), s.len());
        out(format!("chain {a} ravel|reshape:{}", show_list(s)));
        let f = factorizations(n, 2 + hi % 3); let t = rng.pick(&f);
        out(format!("chain {a} reshape:{}|reshape:{}", show_list(t), show_list(s)));
        out(format!("chain {a} expand:{},0,{}|squeeze:none", nd as isize + 2, -2));
        out(format!("chain {a} expand:-1|squeeze:-1"));
        if thorough { out(format!("chain {a} atleast:3")); out(format!("chain {a} squeeze:none")); out(format!("chain {a} reshape:{}", n + 1)); out(format!("chain {a} ravel|expand:1,0|atleast:2")); }
    }

    // ================================================================== robustness streams, part 3
    // ---- (12) element layout: EVERY chain / create line above also runs on the 12-byte, 3-byte and 32-byte (not Copy) tuples and on
    //      one of nine further element sizes (exec: `layout_types!`).  Added here: lengths around the tile edges that
    //      64 / size_of::<T>() gives for those sizes (5, 7, 10, 12, 21, 32, 42, 63) for the copying steps, in every position
    let tl = [4usize, 5, 6, 7, 10, 11, 12, 13, 20, 21, 22, 31, 32, 33, 42, 43, 63, 64, 65];
    for (li, &l) in tl.iter().enumerate() {
        for (mi, &m) in tl.iter().enumerate() {
            if !thorough && (li + 2 * mi) % 4 != 0 { continue; }
            out(format!("chain {} resize:{}", centred(&[l]), m));
            out(format!("chain {} cycle_take:{}", centred(&[2, l]), 2 * l + m));
            if l * m <= 1400 { out(format!("chain {} resize:{m},{l}|ravel|reshape:{l},{m}", centred(&[l, m]))); }
        }
        out(format!("chain {} ravel|expand:0,-1|squeeze:none|atleast:3", centred(&[l, 3])));
        out(format!("chain {} resize:{}|resize:{}", centred(&[3, l]), 3 * l + 1, 3 * l - 1));
    }
    // ---- (13) values related in a way random data never is: constant / all-zero arrays (a "nothing to do" shortcut), and mixtures of
    //      tags that are `==` in the bit-wise compared f64 special image without being identical (0 / 5 are -0.0 / +0.0, 0 / 8 the same
    //      -0.0, 2 / 7 two NaNs, 5 / 13 the same +0.0) in the Thue–Morse arrangement; every step, accepted AND refused
    let tm = |k: usize| (k.count_ones() % 2) as usize;
    let mut vshapes: Vec<Vec<usize>> = vec![vec![1], vec![4], vec![2, 3], vec![1, 5], vec![2, 2], vec![3, 1, 3], vec![2, 3, 4], vec![1, 1, 6], vec![8, 9], vec![17, 16]];
    if thorough { vshapes.extend(vec![vec![64, 65], vec![1, 300, 1], vec![5, 5, 5, 5], vec![1030]]); }
    for s in &vshapes {
        let (nd, n) = (s.len() as isize, s.iter().product::<usize>());
        let spell_arr = |vals: Vec<i64>| format!("{}:{}", show_list(s), show_list(&vals));
        let mut arrs = vec![spell_arr(vec![7; n]), spell_arr(vec![0; n])];
        for (x, y) in [(0i64, 5i64), (0, 8), (2, 7), (5, 13)] { arrs.push(spell_arr((0..n).map(|k| if tm(k) == 0 { x } else { y }).collect())); }
        let f2 = factorizations(n, 2); let f3 = factorizations(n, 3);
        let unit = s.iter().position(|&d| d == 1);
        for a in &arrs {
            let mut steps: Vec<String> = vec!["ravel".into(), format!("reshape:{n}"), format!("reshape:{}", n + 1), format!("reshape:{},2", n), format!("reshape:{}|reshape:{}", show_list(&f2[f2.len() / 2]), show_list(s)),
                format!("reshape:{}", show_list(&f3[f3.len() / 2])), format!("resize:{}", n + 3), format!("resize:2,{n}"), format!("resize:{}", n.saturating_sub(1)), "resize:0".into(), "resize:3,0".into(),
                format!("cycle_take:{}", 2 * n + 1), format!("cycle_take:{}", n.saturating_sub(1)), "atleast:1".into(), "atleast:2".into(), "atleast:3".into(), "atleast:4".into(),
                "expand:0".into(), "expand:-1".into(), format!("expand:{},0", nd + 1), format!("expand:{}", nd + 1), format!("expand:{}", -nd - 2), "expand:0,0".into(),
                "squeeze:none".into(), "squeeze:0".into(), format!("squeeze:{}", nd - 1), format!("squeeze:{nd}"), "squeeze:0,0".into(),
                format!("resize:{}|reshape:2,{n}|resize:{}", 2 * n, show_list(s)), format!("expand:1|squeeze:1|ravel|reshape:{}", show_list(s))];
            if let Some(u) = unit { steps.push(format!("squeeze:{u}")); steps.push(format!("squeeze:{}", u as isize - nd)); steps.push(format!("squeeze:{u}|expand:{u}")); }
            for st in steps { out(format!("chain {a} {st}")); }
        }
        let n_i: Vec<i64> = (0..n).map(|k| if tm(k) == 0 { 0 } else { 5 }).collect();
        for ndmin in ["none", "0", "3", "5"] { out(format!("create {} {} {ndmin}", show_list(&vec![7i64; n]), show_list(s))); out(format!("create {} {} {ndmin}", show_list(&n_i), show_list(s))); }
        out(format!("create {} {},2 none", show_list(&vec![7i64; n]), n));
    }
    // ---- (15) axis arguments at the ends of the isize range and k * 2^64 / d + c (a sum or product with them wraps modulo 2^64 into
    //      the legal range): every one must be refused, and is directly followed by a valid call
    for s in [vec![3usize], vec![2, 3], vec![1, 2, 1], vec![1, 1], vec![2, 1, 3, 1]] {
        let (a, nd) = (tag(&s), s.len());
        let mut bads: Vec<isize> = vec![isize::MAX, isize::MAX - 1, isize::MIN, isize::MIN + 1, isize::MIN + nd as isize, isize::MIN + nd as isize + 1, isize::MIN + nd as isize + 2, 1 << 62, -(1 << 62)];
        for c in 0..=nd as isize { for d in [3isize, 4, 5, 6, 8, 12] { bads.push(((1i128 << 64) / d as i128) as isize + c); } bads.push(isize::MAX - c); bads.push(isize::MIN + (1 << 32) + c); }
        for bad in bads {
            out(format!("chain {a} expand:{bad}")); out(format!("chain {a} expand:0,{bad}")); out(format!("chain {a} expand:{bad},-1"));
            out(format!("chain {a} squeeze:{bad}")); out(format!("chain {a} squeeze:{bad},0")); out(format!("chain {a} expand:0|squeeze:0"));
        }
    }
    // ---- (15) target shapes whose product WRAPS modulo 2^64 onto the element count (k * d = count + j * 2^64): never of equal count,
    //      so reshape / create must not accept them (`wrap`: any refusal — an error or an overflow panic — is accepted, `ok` is not)
    for s in [vec![0usize], vec![6], vec![2, 3], vec![1], vec![4, 0], vec![12], vec![5, 7]] {
        let (a, n) = (tag(&s), s.iter().product::<usize>() as u128);
        let mut tg: Vec<Vec<usize>> = vec![];
        for d in [2u128, 3, 4, 5, 6, 7, 8, 12, 16, 1 << 16, 1 << 32, (1 << 32) + 1, 1 << 63] { for j in 1..d.min(8) {
            let tot = (j << 64) + n;
            if tot % d == 0 && tot / d < (1u128 << 64) { let k = (tot / d) as usize; tg.push(vec![k, d as usize]); tg.push(vec![d as usize, k]); tg.push(vec![1, k, 1, d as usize]); break; }
        } }
        if n == 0 { tg.extend(vec![vec![1 << 32, 1 << 32], vec![1 << 62, 2, 2], vec![1 << 16, 1 << 16, 1 << 16, 1 << 16], vec![1 << 63, 2]]); }
        for (ti, t) in tg.iter().enumerate() {
            out(format!("wrap {a} reshape:{}", show_list(t)));
            if thorough || ti % 3 == 0 { out(format!("wrap {a} ravel|reshape:{}|ravel", show_list(t))); out(format!("wrapcreate {a} {} none", show_list(t))); out(format!("wrapcreate {a} {} {}", show_list(t), t.len() + 2)); }
            out(format!("chain {a} ravel"));
        }
    }
    // ---- (11) giant: more than 2^20 elements (a blocked / tiled / bulk-copy path that only starts there and has a wrong tail or block
    //      start; `as f32` arithmetic on a count, exact up to 2^24 -> `giant8`).  Arrays are named `iota:SHAPE` and built by the harness.
    let mut giants = giant_shapes();
    giants.extend(vec![vec![1024, 1024], vec![1, 1_048_577], vec![1_048_583, 1], vec![1, 1025, 1, 1031], vec![128, 65, 129], vec![2, 2, 2, 131_073]]);
    if thorough { giants.extend(vec![vec![1_048_577], vec![33, 32, 31, 33], vec![3, 5, 7, 11, 13, 73], vec![2048, 1023], vec![1, 1, 2_000_003]]); }
    for (gi, s) in giants.iter().enumerate() {
        let (a, n, nd) = (format!("iota:{}", show_list(s)), s.iter().product::<usize>(), s.len() as isize);
        let f2 = factorizations(n, 2); let f3 = factorizations(n, 3);
        let other = &giants[(gi + 3) % giants.len()]; let other2 = &giants[(gi + 7) % giants.len()];
        let mut calls: Vec<String> = vec![
            format!("ravel|reshape:{}", show_list(s)),
            format!("reshape:{}|reshape:{}", show_list(&f2[f2.len() / 2]), show_list(s)),
            format!("resize:{}", show_list(other)),
            format!("cycle_take:{}", n + 5),
            format!("expand:1|squeeze:1"),
            format!("resize:{}", [n - 3, (1 << 20) + 1, 1 << 20, 7, 1000][gi % 5]),
            format!("reshape:{}|expand:-1,0|squeeze:0,-1|ravel", show_list(&f3[(f3.len() * 2) / 3])),
            "atleast:3".into(),
            format!("resize:{}|ravel|resize:{}", show_list(other2), show_list(s)),
            format!("cycle_take:{}", [(1usize << 20) + 1, 1 << 20, 2_100_001, 3][gi % 4]),
            "squeeze:none".into(),
            format!("expand:{},0,{}|squeeze:none", nd + 2, -2),
            format!("reshape:{}", n + 1), "ravel".into(),
            format!("squeeze:{}", if s[0] == 1 { 1 } else { 0 }), "expand:0|atleast:2".into(),
            format!("resize:2,{n}|reshape:{}|resize:{}", 2 * n, show_list(s)),
        ];
        if !thorough { let k = calls.len(); calls = if gi % 2 == 0 { vec![calls[gi % k].clone(), calls[(gi * 5 + 2) % k].clone()] } else { vec![calls[(gi * 5 + 2) % k].clone()] }; if gi % 5 == 0 { calls.push(format!("reshape:{}", n + 1)); calls.push("ravel".into()); } }
        // `giantw`: additionally on the 32-byte not-Copy tuple (a million Strings: two shapes in quick, every fourth call in thorough)
        for (ci, c) in calls.iter().enumerate() { let w = n <= 1_300_000 && if thorough { (gi + ci) % 4 == 0 } else { ci == 0 && (gi == 3 || gi == 12) }; out(format!("{} {a} {c}", if w { "giantw" } else { "giant" })); }
    }
    // giant TARGETS from small sources (lengths that do and do not divide 2^20, 64, the block sizes)
    let small_src: Vec<Vec<usize>> = vec![vec![7], vec![3, 5], vec![1000], vec![255], vec![64], vec![1], vec![65536], vec![2, 3, 7], vec![1 << 20], vec![1031, 1013]];
    let giant_tgt: Vec<Vec<usize>> = vec![vec![1031, 1033], vec![2, 3, 174_763], vec![(1 << 20) + 5], vec![1024, 1024], vec![17, 65536], vec![1 << 20 | 1], vec![3, 400_001], vec![2_097_153], vec![65, 129, 127], vec![1 << 20]];
    for (si, src) in small_src.iter().enumerate() {
        let per = if thorough { giant_tgt.len() } else { 1 };
        for q in 0..per { if thorough || si != 7 { out(format!("{} iota:{} resize:{}", if si == 4 && q == 0 { "giantw" } else { "giant" }, show_list(src), show_list(&giant_tgt[(si + q) % giant_tgt.len()]))); } }
        if thorough || si % 3 == 0 { out(format!("giant iota:{} cycle_take:{}", show_list(src), [(1usize << 20) + 5, 2_000_003, 1 << 20][si % 3])); }
    }
    for (s, nd) in [(vec![1031usize, 1033], "none"), (vec![2, 131_073, 4], "5"), (vec![(1 << 20) + 5], "3"), (vec![1024, 1024], "2")] { if thorough || nd != "2" { out(format!("gcreate iota:{} {nd}", show_list(&s))); } }
    // counts above 2^24 (u8 elements): a count or length that went through f32 is no longer exact
    let g8: Vec<(&str, &str)> = vec![("3", "resize:16777217"), ("16777219", "ravel|reshape:1,16777219|squeeze:0"), ("7", "cycle_take:16777221"), ("16777217", "resize:5,3"),
        ("4097,4099", "reshape:4099,4097|expand:1|atleast:3"), ("16777217", "cycle_take:16777225"), ("5,3", "resize:4097,4099"), ("16777217", "reshape:16777216"), ("33554433", "ravel|expand:0"), ("2", "resize:33554435")];
    for (gi, (a, st)) in g8.iter().enumerate() { if thorough || gi < 5 { out(format!("giant8 iota:{a} {st}")); } }

    // ================================================================== robustness streams, round 5
    // ---- (20) counts above 2^24 for the CHEAP operations, u8 elements, compared in place (`giant8`, ~0.1 - 0.4 s each).  A copy count, a
    //      quotient or a length that went through f32 is only wrong for SOME (count, source length) pairs above 2^24 (the rounded
    //      count must fall on or below the last whole multiple of the source length), so the pairs are SEARCHED here with the three
    //      float idioms (`f32_traps`): for every source length the first count above 2^24 whose ceil-quotient, floor-quotient and
    //      nearest-quotient in f32 differ from the exact ones, plus the plain 2^24 + 1 and 2^25 + 3; rank-1 targets for every length,
    //      rank 2 - 4 targets with the source lengths searched the other way round.
    let src8: Vec<usize> = if thorough { vec![1, 2, 3, 4, 5, 6, 7, 8, 9, 10, 12, 15, 16, 17, 31, 64, 100, 255, 256, 257, 1000, 1024, 4096, 4097, 65536, 65537, 1 << 20, (1 << 20) + 1, 1 << 24, (1 << 24) + 1, (1 << 24) + 3] }
        else { vec![1, 2, 3, 7, 256, 4096, 65537, (1 << 24) + 1] };
    let mut seen8: Vec<String> = vec![];
    let mut out8 = |line: String, out: &mut dyn FnMut(String)| { if !seen8.contains(&line) { seen8.push(line.clone()); out(line); } };
    for (li, &l) in src8.iter().enumerate() {
        let traps = f32_traps(l);
        let src = if l % 2 == 0 && l > 2 && li % 2 == 1 { format!("2,{}", l / 2) } else { l.to_string() };
        for (ti, &c) in traps.iter().enumerate() {
            // quick: the ceil trap through resize, the floor trap through cycle_take (and the other way round for every other length)
            let (rs, ct) = if thorough { (true, ti != 2 || li % 3 == 0) } else { (ti == li % 2, ti == 1 - li % 2) };
            if rs { out8(format!("giant8 iota:{src} resize:{c}"), out); }
            if ct { out8(format!("giant8 iota:{src} cycle_take:{c}"), out); }
        }
        if thorough || li % 4 == 0 { out8(format!("giant8 iota:{src} resize:{}", (1usize << 24) + 1), out); }
        if thorough && li % 3 == 0 { out8(format!("giant8 iota:{src} resize:{}", (1usize << 25) + 3), out); out8(format!("giant8 iota:{src} cycle_take:{}", (1usize << 25) + 1), out); }
    }
    let tgt8: Vec<Vec<usize>> = vec![vec![4097, 4097], vec![3, 5_592_407], vec![5_592_409, 3], vec![1, 16_777_217, 1], vec![2, 8_388_609], vec![8_388_609, 2], vec![3, 1, 5_592_407], vec![257, 255, 257], vec![2, 2, 2, 2_097_153], vec![4099, 4099], vec![3, 8_388_609], vec![5, 1_677_722, 3]];
    for (ti, t) in tgt8.iter().enumerate() {
        if !thorough && ti >= 3 { break; }
        let c: usize = t.iter().product();
        // source lengths for which this very count is an f32 trap: those that get too few whole copies from the ceil idiom first
        // (the smallest above 1, the largest below 70 000, in thorough one in between), else any of the three idioms
        let few: Vec<usize> = (2..70_000usize).filter(|&l| ((c as f32 / l as f32).ceil() as usize) < c.div_ceil(l)).collect();
        let bad: Vec<usize> = if few.is_empty() { (2..70_000usize).filter(|&l| f32_quotient_wrong(c, l)).collect() } else { few };
        let mut pick: Vec<usize> = vec![];
        if let Some(&b) = bad.last() { pick.push(b); }
        if let Some(&b) = bad.first() { if (thorough || ti % 2 == 1) && !pick.contains(&b) { pick.push(b); } }
        if thorough && bad.len() > 2 { pick.push(bad[bad.len() / 2]); }
        if pick.is_empty() { pick.push(2); }
        for l in pick { out8(format!("giant8 iota:{l} resize:{}", show_list(t)), out); }
    }
    // the structural steps on more than 2^24 elements (nothing is copied: one or two per operation; the refused ones cost nothing)
    let st8: Vec<(&str, &str)> = vec![("16777217", "reshape:4096,4096"), ("4097,4097", "reshape:16785408"), ("16777217", "atleast:2"), ("1,16777217", "squeeze:0|expand:0,-1"),
        ("16777217", "reshape:1,16777217,1|squeeze:none"), ("4097,4097", "ravel|atleast:3"), ("16777217", "reshape:16777218"), ("16777217,1", "squeeze:-1|atleast:3"), ("2,8388609", "expand:1,3,0|squeeze:3,0,1"),
        ("16777217", "cycle_take:16777216"), ("16777217", "resize:16777216"), ("16777218", "resize:16777217"), ("16777217", "resize:33554433"), ("16777219", "cycle_take:33554439")];
    for (gi, (a, st)) in st8.iter().enumerate() { if thorough || gi < 6 { out(format!("giant8 iota:{a} {st}")); } }
    // Array::create above 2^24 (u8): the shape as given, left-padded, and a count that equals the product only after an f32 rounding
    for (gi, (n, sh, nd)) in [("16777217", "16777217", "3"), ("16777217", "16777216", "none"), ("16785409", "4097,4097", "none"), ("16785408", "4097,4097", "2"), ("16777217", "1,16777217,1", "5"), ("16777216", "16777217", "none")].iter().enumerate() {
        if thorough || gi < 3 { out(format!("gcreate8 {n} {sh} {nd}")); }
    }
    // ---- (20) axis LENGTHS that f32 / f64 / u32 cannot hold, on EMPTY arrays (no memory needed, through the model): the shape must come
    //      back digit for digit from every step (no resize to a NON-zero huge count: a rewrite that allocates the target first aborts the
    //      whole process, which cannot be caught and would hide every other failing case of the run)
    for big in [(1usize << 24) + 1, (1 << 31) + 1, 1 << 32, (1 << 32) + 1, (1 << 53) + 1, (1 << 63) + 1, usize::MAX] {
        for a in [format!("i0,{big}"), format!("i{big},0"), format!("i1,0,{big}")] {
            for st in ["ravel".to_string(), "-".to_string(), "squeeze:none".to_string(), "expand:0".to_string(), "expand:-1,1|squeeze:-1,1".to_string(), "atleast:3".to_string(), format!("reshape:{big},0"), format!("reshape:0,{big}|reshape:0"), format!("reshape:{big}"),
                       format!("resize:0,{big}"), format!("resize:{big},0,1"), "cycle_take:3".to_string(), "squeeze:0".to_string(), "squeeze:-1".to_string()] {
                out(format!("chain {a} {st}"));
            }
        }
        out(format!("chain i0 reshape:0,{big}|expand:0|squeeze:0|reshape:{big},0"));
        out(format!("chain i2,0 resize:{big},0|ravel"));
        out(format!("create - 0,{big} none")); out(format!("create - {big},0 4")); out(format!("create 1 {big} none"));
    }
    // ---- (argument relations) resize / cycle_take targets RELATED to the source: the same shape, the reversed shape, the flat count, exact
    //      multiples and divisors of the count, the shape under a new leading / trailing axis, one axis doubled, count +- 1
    for s in &all {
        let n: usize = s.iter().product(); if n == 0 || s.is_empty() { continue; }
        let a = centred(s);
        let mut rel: Vec<Vec<usize>> = vec![s.clone(), s.iter().rev().copied().collect(), vec![n], vec![n, 1], vec![1, n], vec![2 * n], vec![3 * n], vec![n, n], vec![n, 2]];
        rel.push({ let mut t = vec![2]; t.extend_from_slice(s); t }); rel.push({ let mut t = s.clone(); t.push(2); t });
        rel.push({ let mut t = s.clone(); t[0] *= 2; t }); rel.push({ let mut t = s.clone(); *t.last_mut().unwrap() *= 3; t });
        if n % 2 == 0 { rel.push(vec![n / 2]); rel.push(vec![n / 2, 2]); } if n % 3 == 0 { rel.push(vec![n / 3]); }
        if n > 1 { rel.push(vec![n - 1]); rel.push(vec![2 * n - 1]); }
        rel.sort(); rel.dedup();
        for t in &rel { out(format!("chain {a} resize:{}", show_list(t))); }
        for k in [n, 2 * n, 3 * n, n * n, n / 2, 2 * n - 1, 2 * n + 1] { out(format!("chain {a} cycle_take:{k}")); }
        out(format!("chain {a} resize:{}|resize:{}", show_list(s), show_list(s)));
        out(format!("chain {a} cycle_take:{n}|reshape:{}", show_list(s)));
    }
    // ---- (value relations) sources that LOOK constant or periodic without being so: constant except the last / the first / the middle
    //      element, period 2 and period 3 with a broken last period, a palindrome; and sources whose elements all PRINT alike without
    //      being identical (the f64 / f32 special images map 2 / 7 to two NaNs, the print-alike images map 0 / 5 / 8 and 2 / 7 to
    //      different values with one Display form) as the WHOLE source (not only the Thue-Morse mixtures above): every ordering of two
    //      and three of them, through every copying step
    for s in [vec![2usize], vec![3], vec![4], vec![2, 2], vec![2, 3], vec![7], vec![3, 1, 3], vec![12], vec![2, 3, 4], vec![17, 16]] {
        let n: usize = s.iter().product();
        let spell_arr = |vals: Vec<i64>| format!("{}:{}", show_list(&s), show_list(&vals));
        let mut arrs: Vec<String> = vec![];
        arrs.push(spell_arr(vec![1; n]));   // every element is `T::one()` / prints "1" / is `true`
        arrs.push(spell_arr((0..n).map(|k| if k == n - 1 { 3 } else { 7 }).collect()));
        arrs.push(spell_arr((0..n).map(|k| if k == 0 { 3 } else { 7 }).collect()));
        arrs.push(spell_arr((0..n).map(|k| if k == n / 2 { 3 } else { 7 }).collect()));
        arrs.push(spell_arr((0..n).map(|k| if k == n - 1 && n > 2 { 9 } else { [1, 4][k % 2] }).collect()));
        arrs.push(spell_arr((0..n).map(|k| [1, 4, 6][k % 3]).collect()));
        arrs.push(spell_arr((0..n).map(|k| k.min(n - 1 - k) as i64 + 1).collect()));
        for (x, y, z) in [(2i64, 7i64, 2i64), (7, 2, 2), (0, 5, 8), (8, 0, 5), (5, 8, 0), (2, 7, 7), (0, 8, 8), (5, 0, 0), (13, 5, 8)] {
            arrs.push(spell_arr((0..n).map(|k| [x, y, z][k % 3]).collect()));
            if n <= 4 { arrs.push(spell_arr((0..n).map(|k| if k == n - 1 { y } else { x }).collect())); }
        }
        for a in &arrs {
            for st in [format!("resize:{}", n + 1), format!("resize:2,{n}"), format!("resize:{}", 3 * n + 2), format!("resize:{}", show_list(&s)), format!("resize:{}", n - 1), "resize:3,3".to_string(), "resize:0".to_string(),
                       format!("cycle_take:{}", 2 * n + 1), format!("cycle_take:{n}"), "cycle_take:1".to_string(), "ravel".to_string(), format!("reshape:{n}"), format!("reshape:{n},1"), "atleast:3".to_string(), "expand:0,-1".to_string(), "squeeze:none".to_string(),
                       format!("resize:{}|resize:{}", 2 * n + 1, show_list(&s))] {
                out(format!("chain {a} {st}"));
            }
            out(format!("create {} {} 3", a.split_once(':').unwrap().1, show_list(&s)));
        }
    }
    out("audit".into());
}

// ------------------------------------------------------------------------------------------------ executor

#[derive(Clone)]
enum Step { Ravel, Reshape(Vec<usize>), Resize(Vec<usize>), CycleTake(usize), Atleast(usize), Expand(Vec<isize>), Squeeze(Option<Vec<isize>>) }

impl Step {
    fn parse(step: &str) -> Option<Step> {
        let (name, arg) = step.split_once(':').unwrap_or((step, ""));
        Some(match name {
            "ravel" => Step::Ravel,
            "reshape" => Step::Reshape(parse_usize_list(arg)),
            "resize" => Step::Resize(parse_usize_list(arg)),
            "cycle_take" => Step::CycleTake(arg.parse().ok()?),
            "atleast" => Step::Atleast(arg.parse().ok()?),
            "expand" => Step::Expand(parse_isize_list(arg)),
            "squeeze" => Step::Squeeze(if arg == "none" { None } else { Some(parse_isize_list(arg)) }),
            _ => return None,
        })
    }
    /// the chained receiver: `impl ArrayManipulate<T> / ArrayAxis<T> for Result<Array<T>, ArrayError>`
    fn on_result<T: ArrayElement>(&self, r: &Result<Array<T>, ArrayError>) -> Result<Array<T>, ArrayError> {
        match self {
            Step::Ravel => r.ravel(),
            Step::Reshape(s) => r.reshape(s),
            Step::Resize(s) => r.resize(s),
            Step::CycleTake(n) => r.cycle_take(*n),
            Step::Atleast(n) => r.atleast(*n),
            Step::Expand(ax) => r.expand_dims(ax.clone()),
            Step::Squeeze(ax) => r.squeeze(ax.clone()),
        }
    }
    /// the plain-receiver twin
    fn on_array<T: ArrayElement>(&self, a: &Array<T>) -> Result<Array<T>, ArrayError> {
        match self {
            Step::Ravel => a.ravel(),
            Step::Reshape(s) => a.reshape(s),
            Step::Resize(s) => a.resize(s),
            Step::CycleTake(n) => a.cycle_take(*n),
            Step::Atleast(n) => a.atleast(*n),
            Step::Expand(ax) => a.expand_dims(ax.clone()),
            Step::Squeeze(ax) => a.squeeze(ax.clone()),
        }
    }
}

/// `Err(())` = the call panicked
type Out<T> = Result<Result<Array<T>, ArrayError>, ()>;

fn run<T: ArrayElement>(a: &Array<T>, steps: &[Step], chained: bool) -> Out<T> {
    catch_unwind(AssertUnwindSafe(|| {
        if chained { let mut r: Result<Array<T>, ArrayError> = Ok(a.clone()); for c in steps { r = c.on_result(&r); } r }
        else { let mut cur = a.clone(); for c in steps { match c.on_array(&cur) { Ok(x) => cur = x, Err(e) => return Err(e) } } Ok(cur) }
    })).map_err(|_| ())
}

fn class<T: ArrayElement>(o: &Out<T>) -> &'static str { match o { Err(()) => "panic", Ok(Err(_)) => "err", Ok(Ok(_)) => "ok" } }
fn text(o: &Out<i64>) -> String { match o { Err(()) => "panic".to_string(), Ok(r) => { if let Ok(x) = r { if !consistent(x) { return "ok INCONSISTENT".to_string(); } } res_arr(r) } } }

/// is `got` (element type `T`) the image of the canonical i64 result?
fn image_of<T: ArrayElement>(label: &str, recv: &str, got: &Out<T>, canon: &Out<i64>, from: &impl Fn(i64) -> T, same: &impl Fn(&T, &T) -> bool) -> Option<String> {
    if class(got) != class(canon) { return Some(format!("TYPE-DIVERGENCE {label}, {recv}: outcome class {} instead of {}", class(got), class(canon))); }
    if let (Ok(Ok(g)), Ok(Ok(c))) = (got, canon) {
        if !consistent(g) { return Some(format!("TYPE-DIVERGENCE {label}, {recv}: inconsistent array")); }
        let (gs, cs, ge, ce) = (g.get_shape().unwrap(), c.get_shape().unwrap(), g.get_elements().unwrap(), c.get_elements().unwrap());
        if gs != cs || ge.len() != ce.len() { return Some(format!("TYPE-DIVERGENCE {label}, {recv}: shape {} instead of {}", show_list(&gs), show_list(&cs))); }
        for p in 0..ge.len() { let want = from(ce[p]); if !same(&ge[p], &want) {
            return Some(format!("TYPE-DIVERGENCE {label}, {recv}: flat position {p} holds {:?} instead of {:?} (compared bit-wise for floats)", ge[p], want)); } }
    }
    None
}

/// the same chain on the image of the tag array in element type `T`, both receivers
fn image<T: ArrayElement>(label: &str, shape: &[usize], tags: &[i64], steps: &[Step], canon: &Out<i64>, from: impl Fn(i64) -> T, same: impl Fn(&T, &T) -> bool) -> Option<String> {
    image_on(&[true, false], label, shape, tags, steps, canon, from, same)
}
/// … on the listed receivers only (`true` = the `Ok(array)` receiver)
fn image_on<T: ArrayElement>(recs: &[bool], label: &str, shape: &[usize], tags: &[i64], steps: &[Step], canon: &Out<i64>, from: impl Fn(i64) -> T, same: impl Fn(&T, &T) -> bool) -> Option<String> {
    let a: Array<T> = Array::new(tags.iter().map(|&t| from(t)).collect(), shape.to_vec()).expect("harness: array literal");
    for &chained in recs {
        let recv = if chained { "Ok(array) receiver" } else { "plain receiver" };
        if let Some(d) = image_of(label, recv, &run(&a, steps, chained), canon, &from, &same) { return Some(d); }
    }
    None
}

/// `Array::create` on the image of the elements
fn image_create<T: ArrayElement>(label: &str, el: &[i64], sh: &[usize], nd: Option<usize>, canon: &Out<i64>, from: impl Fn(i64) -> T, same: impl Fn(&T, &T) -> bool) -> Option<String> {
    let elems: Vec<T> = el.iter().map(|&t| from(t)).collect();
    let got: Out<T> = catch_unwind(AssertUnwindSafe(|| Array::create(elems.clone(), sh.to_vec(), nd))).map_err(|_| ());
    image_of(label, "Array::create", &got, canon, &from, &same)
}

fn image_create_on<T: ArrayElement>(_recs: &[bool], label: &str, el: &[i64], sh: &[usize], nd: Option<usize>, canon: &Out<i64>, from: impl Fn(i64) -> T, same: impl Fn(&T, &T) -> bool) -> Option<String> {
    image_create(label, el, sh, nd, canon, from, same)
}

/// f64 value classes by tag: -0.0, +0.0, NaN, the smallest subnormal, infinities, ordinary values
fn special_f64(t: i64) -> f64 {
    match t.rem_euclid(8) { 0 => -0.0, 1 => t as f64, 2 => f64::NAN, 3 => -(t as f64) - 0.5, 4 => f64::from_bits(1), 5 => 0.0, 6 => f64::NEG_INFINITY, _ => f64::from_bits(0xFFF8_0000_0000_0001) }
}

/// the same value classes in f32 (two NaNs of different sign / payload at tags 2 and 7)
fn special_f32(t: i64) -> f32 {
    match t.rem_euclid(8) { 0 => -0.0, 1 => t as f32, 2 => f32::NAN, 3 => -(t as f32) - 0.5, 4 => f32::from_bits(1), 5 => 0.0, 6 => f32::NEG_INFINITY, _ => f32::from_bits(0xFFC0_0001) }
}
/// round 5 — PRINT-ALIKE images: different values with one and the same Display form (`(a, b, c, d)` split at another comma; `[x, y]`
/// as one string or as two).  Tags 0 / 5 / 8 (and 13 = the value of 0) share one printed form, tags 2 / 7 another; every other tag
/// prints differently.  An "are they all the same?" test made on the printed form takes such a source for a constant one.
type PA = Tuple2<String, String>;
type PL = List<String>;
/// a composite element that `is_nan()` (and is not `==` to itself) for tags 2 / 7, compared bit-wise
type TN = Tuple2<f64, i32>;
fn pa_class(t: i64) -> (String, usize) {
    match t.rem_euclid(16) { 0 | 13 => (format!("g{}", t.div_euclid(16)), 0), 5 => (format!("g{}", t.div_euclid(16)), 1), 8 => (format!("g{}", t.div_euclid(16)), 2),
        2 => (format!("h{}", t.div_euclid(16)), 0), 7 => (format!("h{}", t.div_euclid(16)), 1), _ => (format!("u{t}"), 0) }
}
fn tag_pa(t: i64) -> PA {
    let (w, split) = pa_class(t);
    match split { 0 => Tuple2(w, "b, c, d".to_string()), 1 => Tuple2(format!("{w}, b"), "c, d".to_string()), _ => Tuple2(format!("{w}, b, c"), "d".to_string()) }
}
fn tag_pl(t: i64) -> PL {
    let (w, split) = pa_class(t);
    match split { 0 => List(vec![w, "b".to_string(), "c".to_string()]), 1 => List(vec![format!("{w}, b"), "c".to_string()]), _ => List(vec![format!("{w}, b, c")]) }
}
/// the round-5 images on both receivers: f32 special values always, the two print-alike types when `$small`
macro_rules! round5_types {
    ($call:ident, $small:expr, $($pre:expr),*) => {{
        let small: bool = $small;
        None::<String>.or_else(|| $call("f32 special values", $($pre),*, special_f32, |x: &f32, y: &f32| x.to_bits() == y.to_bits()))
            .or_else(|| $call("Tuple2<f64,i32> with the f64 special values inside (bit-wise)", $($pre),*, |t: i64| Tuple2(special_f64(t), (t % 3) as i32), |x: &TN, y: &TN| x.0.to_bits() == y.0.to_bits() && x.1 == y.1))
            .or_else(|| if small { $call("Tuple2<String,String> print-alike values", $($pre),*, tag_pa, |x: &PA, y: &PA| x == y) } else { None })
            .or_else(|| if small { $call("List<String> print-alike values", $($pre),*, tag_pl, |x: &PL, y: &PL| x == y) } else { None })
    }};
}

/// … ONE of the four round-5 images on ONE receiver, chosen by `$pick` (for the plain tag arrays, whose elements never all print alike)
macro_rules! round5_one {
    ($call:ident, $pick:expr, $small:expr, $($pre:expr),*) => {{
        let recs: &[bool] = if ($pick >> 5) % 2 == 0 { &[true] } else { &[false] };
        match (($pick >> 3) % 4, $small) {
            (1, _) | (3, false) => $call(recs, "Tuple2<f64,i32> with the f64 special values inside (bit-wise)", $($pre),*, |t: i64| Tuple2(special_f64(t), (t % 3) as i32), |x: &TN, y: &TN| x.0.to_bits() == y.0.to_bits() && x.1 == y.1),
            (2, true) => $call(recs, "Tuple2<String,String> print-alike values", $($pre),*, tag_pa, |x: &PA, y: &PA| x == y),
            (3, true) => $call(recs, "List<String> print-alike values", $($pre),*, tag_pl, |x: &PL, y: &PL| x == y),
            _ => $call(recs, "f32 special values", $($pre),*, special_f32, |x: &f32, y: &f32| x.to_bits() == y.to_bits()),
        }
    }};
}

/// run `$f!(label, from, same)` for every image type until one reports a divergence
macro_rules! every_type {
    ($call:ident, $($pre:expr),*) => {
        None::<String>.or_else(|| $call("u8", $($pre),*, tag_u8, |x: &u8, y: &u8| x == y))
            .or_else(|| $call("f64 (tag 0 = -0.0)", $($pre),*, tag_f64z, |x: &f64, y: &f64| x.to_bits() == y.to_bits()))
            .or_else(|| $call("f64 special values", $($pre),*, special_f64, |x: &f64, y: &f64| x.to_bits() == y.to_bits()))
            .or_else(|| $call("f32 (tag 0 = -0.0)", $($pre),*, |t: i64| if t == 0 { -0.0f32 } else { t as f32 }, |x: &f32, y: &f32| x.to_bits() == y.to_bits()))
            .or_else(|| $call("i8", $($pre),*, tag_i8, |x: &i8, y: &i8| x == y))
            .or_else(|| $call("u64 above 2^53", $($pre),*, |t: i64| u64::MAX - (t.rem_euclid(1 << 40) as u64), |x: &u64, y: &u64| x == y))
            .or_else(|| $call("bool", $($pre),*, |t: i64| t.rem_euclid(2) == 1, |x: &bool, y: &bool| x == y))
            .or_else(|| $call("String", $($pre),*, |t: i64| t.to_string(), |x: &String, y: &String| x == y))
            .or_else(|| $call("char", $($pre),*, |t: i64| char::from_u32(0x30 + t.rem_euclid(0x700) as u32).unwrap_or('?'), |x: &char, y: &char| x == y))
    };
}

// part 3 (12) — element LAYOUT: 12-byte and 3-byte tuples (tiles of 64 / size_of::<T>() elements are not powers of two), a 32-byte
// not-Copy tuple (paths chosen by size_of::<T>() > 24), and one of nine further sizes (2, 5, 6, 9, 16, 20, 36, 40, 48 bytes) per case
type L2 = i16;
type L5 = Tuple2<T3b, Tuple2<u8, u8>>;
type L6 = Tuple3<i16, i16, i16>;
type L9 = Tuple3<T3b, T3b, T3b>;
type L16 = Tuple2<i64, u64>;
type L20 = Tuple2<T3, Tuple2<i32, i32>>;
type L36 = Tuple3<T3, T3, T3>;
type L40 = Tuple2<String, Tuple2<i64, i64>>;
type L48 = Tuple2<String, String>;
fn tag_l2(t: i64) -> L2 { (t as i16) ^ 0x2AAA }
fn tag_l5(t: i64) -> L5 { Tuple2(tag_t3b(t), Tuple2(tag_u8(t + 7), tag_u8(3 * t))) }
fn tag_l6(t: i64) -> L6 { Tuple3(t as i16, (t as i16).wrapping_neg(), (t as i16) ^ 0x155) }
fn tag_l9(t: i64) -> L9 { Tuple3(tag_t3b(t), tag_t3b(t + 1), tag_t3b(2 * t)) }
fn tag_l16(t: i64) -> L16 { Tuple2(t, u64::MAX - (t.rem_euclid(1 << 40) as u64)) }
fn tag_l20(t: i64) -> L20 { Tuple2(tag_t3(t), Tuple2(t as i32, !(t as i32))) }
fn tag_l36(t: i64) -> L36 { Tuple3(tag_t3(t), tag_t3(t + 1), tag_t3(-t)) }
fn tag_l40(t: i64) -> L40 { Tuple2(format!("w{t}"), Tuple2(t, -t)) }
fn tag_l48(t: i64) -> L48 { Tuple2(format!("a{t}"), format!("{t}b")) }
fn fnv(s: &str) -> u64 { s.bytes().fold(0xcbf29ce484222325u64, |h, b| (h ^ b as u64).wrapping_mul(0x100000001b3)) }

/// run `$call(receivers, label, …, from, same)` on the three odd-layout types of lib.rs and on one of the nine further sizes chosen by
/// `$pick`: the 12-byte tuple on both receivers, the others on one receiver (alternating with `$pick`); `$wide` = also the not-Copy ones
macro_rules! layout_types {
    ($call:ident, $pick:expr, $wide:expr, $($pre:expr),*) => {{
        let both: &[bool] = &[true, false];
        let one: &[bool] = if ($pick >> 7) % 2 == 0 { &[true] } else { &[false] };
        let other: &[bool] = if ($pick >> 7) % 2 == 0 { &[false] } else { &[true] };
        let wide: bool = $wide;
        None::<String>.or_else(|| $call(both, "Tuple3<i32,i32,i32> (12 bytes)", $($pre),*, tag_t3, |x: &T3, y: &T3| x == y))
            .or_else(|| $call(one, "Tuple3<u8,u8,u8> (3 bytes)", $($pre),*, tag_t3b, |x: &T3b, y: &T3b| x == y))
            .or_else(|| if wide { $call(other, "Tuple2<String,i32> (32 bytes, not Copy)", $($pre),*, tag_tw, |x: &TW, y: &TW| x == y) } else { None })
            .or_else(|| match ($pick % 9, wide) {
                (0, _) => $call(one, "i16 (2 bytes)", $($pre),*, tag_l2, |x: &L2, y: &L2| x == y),
                (1, _) => $call(one, "Tuple2<Tuple3<u8,u8,u8>,Tuple2<u8,u8>> (5 bytes)", $($pre),*, tag_l5, |x: &L5, y: &L5| x == y),
                (2, _) => $call(one, "Tuple3<i16,i16,i16> (6 bytes)", $($pre),*, tag_l6, |x: &L6, y: &L6| x == y),
                (3, _) => $call(one, "Tuple3 of three Tuple3<u8,u8,u8> (9 bytes)", $($pre),*, tag_l9, |x: &L9, y: &L9| x == y),
                (4, _) => $call(one, "Tuple2<i64,u64> (16 bytes)", $($pre),*, tag_l16, |x: &L16, y: &L16| x == y),
                (5, _) => $call(one, "Tuple2<Tuple3<i32,i32,i32>,Tuple2<i32,i32>> (20 bytes)", $($pre),*, tag_l20, |x: &L20, y: &L20| x == y),
                (6, _) | (7, false) => $call(one, "Tuple3 of three Tuple3<i32,i32,i32> (36 bytes)", $($pre),*, tag_l36, |x: &L36, y: &L36| x == y),
                (7, true) => $call(one, "Tuple2<String,Tuple2<i64,i64>> (40 bytes, not Copy)", $($pre),*, tag_l40, |x: &L40, y: &L40| x == y),
                (_, true) => $call(one, "Tuple2<String,String> (48 bytes, not Copy)", $($pre),*, tag_l48, |x: &L48, y: &L48| x == y),
                (_, false) => $call(one, "Tuple2<i64,u64> (16 bytes)", $($pre),*, tag_l16, |x: &L16, y: &L16| x == y),
            })
            .map(|d: String| d.replacen("TYPE-DIVERGENCE", "LAYOUT-DIVERGENCE", 1))
    }};
}

// ------------------------------------------------------------------------------------------------ native reference

/// `normalize_axis` as the crate's arithmetic does it: a still-negative sum is out of range (`None`)
fn norm_ax(ax: isize, add: usize) -> Option<usize> { if ax >= 0 { Some(ax as usize) } else { let v = ax as i128 + add as i128; if v < 0 { None } else { Some(v as usize) } } }
/// harness-native reference of the result SHAPE of atleast / expand_dims / squeeze, written from their documented meaning
/// (part 3; validated against the model on every chain of the run, like the element formulas below). `None` = refused
fn native_shape(cur: &[usize], st: &Step) -> Option<Vec<usize>> {
    let nd = cur.len();
    match st {
        Step::Atleast(n) => match (*n, nd) {
            (0, _) | (1, _) => Some(cur.to_vec()),
            (2, 0) => Some(vec![1, 1]), (2, 1) => Some(vec![1, cur[0]]),
            (3, 0) => Some(vec![1, 1, 1]), (3, 1) => Some(vec![1, cur[0], 1]), (3, 2) => Some(vec![cur[0], cur[1], 1]),
            (2, _) | (3, _) => Some(cur.to_vec()),
            _ => None,
        },
        Step::Expand(ax) => {
            // positions are positions of the RESULT (rank nd + k), inserted in ascending order
            let r = nd + ax.len();
            let mut pos: Vec<usize> = vec![];
            for &a in ax { pos.push(norm_ax(a, r)?); }
            pos.sort();
            let mut out = cur.to_vec();
            for (i, &p) in pos.iter().enumerate() { if p > nd + i { return None; } }
            for &p in &pos { out.insert(p, 1); }
            Some(out)
        }
        Step::Squeeze(None) => Some(cur.iter().copied().filter(|&d| d != 1).collect()),
        Step::Squeeze(Some(ax)) => {
            let mut pos: Vec<usize> = vec![];
            for &a in ax { let p = norm_ax(a, nd)?; if p >= nd || pos.contains(&p) || cur[p] != 1 { return None; } pos.push(p); }
            Some((0..nd).filter(|k| !pos.contains(k)).map(|k| cur[k]).collect())
        }
        _ => None,
    }
}
/// overflow-free product (a target whose true product does not fit 64 bits never equals a count)
fn product(t: &[usize]) -> Option<usize> { t.iter().try_fold(1usize, |a, &d| a.checked_mul(d)) }
/// harness-native reference for the four steps whose meaning is a one-line formula: resize (`out[i] = in[i mod len]`, then the target
/// shape), cycle_take (the same, flat), reshape (same elements, the count must fit), ravel.  `None` = the chain has another step.
fn native_chain(shape: &[usize], tags: &[i64], steps: &[Step]) -> Option<Result<(Vec<usize>, Vec<i64>), ()>> {
    let mut cur = (shape.to_vec(), tags.to_vec());
    let cycle = |e: &[i64], n: usize| -> Vec<i64> { if e.is_empty() { vec![] } else { (0..n).map(|i| e[i % e.len()]).collect() } };
    for st in steps {
        cur = match st {
            Step::Ravel => (vec![cur.1.len()], cur.1),
            Step::Reshape(t) => { if product(t) != Some(cur.1.len()) { return Some(Err(())); } (t.clone(), cur.1) }
            Step::Resize(t) => { let Some(n) = product(t) else { return Some(Err(())); }; let e = cycle(&cur.1, n); if n != e.len() { return Some(Err(())); } (t.clone(), e) }
            Step::CycleTake(n) => { let e = cycle(&cur.1, *n); (vec![e.len()], e) }
            _ => return None,
        };
    }
    Some(Ok(cur))
}
/// part 3 — the reference as a PLAN that needs no memory: the result shape, the element count, and the list of source lengths the flat
/// position is reduced by (`result[p] = source[(..((p mod m_k) mod m_k-1)..) mod m_1]`); covers all seven steps.  Validated against the
/// model's full answer on every `chain` case of the run, then used alone for the `giant` cases.  `Err(())` = the chain is refused.
struct Plan { shape: Vec<usize>, count: usize, moduli: Vec<usize> }
impl Plan { fn at(&self, p: usize) -> usize { self.moduli.iter().rev().fold(p, |q, &m| q % m) } }
fn native_plan(shape: &[usize], n0: usize, steps: &[Step]) -> Result<Plan, ()> {
    let mut pl = Plan { shape: shape.to_vec(), count: n0, moduli: vec![] };
    for st in steps {
        match st {
            Step::Ravel => pl.shape = vec![pl.count],
            Step::Reshape(t) => { if product(t) != Some(pl.count) { return Err(()); } pl.shape = t.clone(); }
            Step::Resize(t) => { let n = product(t).ok_or(())?; if pl.count == 0 { if n != 0 { return Err(()); } } else { pl.moduli.push(pl.count); pl.count = n; } pl.shape = t.clone(); }
            Step::CycleTake(n) => { if pl.count != 0 { pl.moduli.push(pl.count); pl.count = *n; } pl.shape = vec![pl.count]; }
            _ => pl.shape = native_shape(&pl.shape, st).ok_or(())?,
        }
    }
    Ok(pl)
}
/// `Array::create`: the count must fit the shape; the shape is left-padded with ones to rank `ndmin`
fn native_create(n: usize, sh: &[usize], nd: Option<usize>) -> Result<Vec<usize>, ()> {
    if product(sh) != Some(n) { return Err(()); }
    let mut out = vec![1; nd.unwrap_or(0).saturating_sub(sh.len())]; out.extend_from_slice(sh); Ok(out)
}
fn native_text(r: &Result<(Vec<usize>, Vec<i64>), ()>) -> String { match r { Ok((s, e)) => format!("ok {}:{}", show_list(s), show_list(e)), Err(()) => "err".to_string() } }
static ORACLE_VALIDATIONS: std::sync::atomic::AtomicUsize = std::sync::atomic::AtomicUsize::new(0);
static NATIVE_ONLY: std::sync::atomic::AtomicUsize = std::sync::atomic::AtomicUsize::new(0);
static SHAPE_VALIDATIONS: std::sync::atomic::AtomicUsize = std::sync::atomic::AtomicUsize::new(0);
static CREATE_VALIDATIONS: std::sync::atomic::AtomicUsize = std::sync::atomic::AtomicUsize::new(0);
static GIANT_ONLY: std::sync::atomic::AtomicUsize = std::sync::atomic::AtomicUsize::new(0);

// ------------------------------------------------------------------------------------------------ executor

fn parse_chain(text: &str) -> Option<Vec<Step>> {
    let mut steps: Vec<Step> = vec![];
    if text != "-" { for s in text.split('|') { if s.split_once(':').map_or(s, |x| x.0).is_empty() { return None; } steps.push(Step::parse(s)?); } }
    Some(steps)
}

/// what the real crate does with a chain: the text of the run through the Result receiver; a difference of the plain-receiver
/// twin after any step, or of another element type, is put in front (and then fails the comparison).
/// `all_types` = all nine images, otherwise u8 / f64(-0.0) / String.
fn observe(shape: &[usize], tags: &[i64], steps: &[Step], step_text: &str, all_types: bool) -> String {
    let a: Array<i64> = Array::new(tags.to_vec(), shape.to_vec()).expect("harness: array literal");
    let canon = run(&a, steps, true);
    let obs = text(&canon);
    // plain-receiver twin, compared after every step (a compensating pair of steps must not hide a difference)
    let mut div: Option<String> = None;
    for k in 1..=steps.len() {
        let (p, c) = (text(&run(&a, &steps[..k], false)), if k == steps.len() { obs.clone() } else { text(&run(&a, &steps[..k], true)) });
        if p != c { div = Some(format!("RECEIVER-DIVERGENCE after step {k} (`{}`): plain receiver gives `{}`, Ok(array) receiver `{}`", step_text.split('|').nth(k - 1).unwrap_or(""), truncate(&p, 300), truncate(&c, 300))); break; }
    }
    let div = div.or_else(|| if all_types { every_type!(image, shape, tags, steps, &canon) } else {
        None::<String>.or_else(|| image("u8", shape, tags, steps, &canon, tag_u8, |x: &u8, y: &u8| x == y))
            .or_else(|| image("f64 (tag 0 = -0.0)", shape, tags, steps, &canon, tag_f64z, |x: &f64, y: &f64| x.to_bits() == y.to_bits()))
            .or_else(|| image("String", shape, tags, steps, &canon, |t: i64| t.to_string(), |x: &String, y: &String| x == y)) });
    // part 3 (12): the odd-layout element types (every chain; the not-Copy ones up to 3000 elements, or when the answer is short)
    let pick = fnv(step_text).wrapping_add(tags.len() as u64);
    let out_len = match &canon { Ok(Ok(g)) => g.get_elements().map_or(0, |e| e.len()), _ => 0 };
    let div = div.or_else(|| layout_types!(image_on, pick, all_types && tags.len() <= 3000 && out_len <= 3000, shape, tags, steps, &canon));
    // round 5: f32 special values (NaN payloads) and the print-alike element types
    //          — all four on both receivers when the source is spelled value by value (the value-relation streams), one of them on one
    //          receiver (rotating with the line) for the plain tag arrays
    let plain_tags = tags.windows(2).all(|w| w[1] == w[0] + 1);
    let small = tags.len() <= 3000 && out_len <= 3000;
    let div = div.or_else(|| if !all_types { None } else if plain_tags { round5_one!(image_on, pick, small, shape, tags, steps, &canon) } else { round5_types!(image, small, shape, tags, steps, &canon) });
    match div { Some(d) => format!("{d}; i64 run: {}", truncate(&obs, 300)), None => obs }
}
/// compare a giant result IN PLACE with the native plan (shape, count, every element `from(plan.at(p))`); never formats the array.
/// `Some((observed, detail))` = disagreement, with the first differing flat position
fn giant_judge<T: ArrayElement>(label: &str, got: &Out<T>, plan: &Result<Plan, ()>, from: &impl Fn(i64) -> T, same: &impl Fn(&T, &T) -> bool) -> Option<(String, String)> {
    match (got, plan) {
        (Err(()), Err(())) => None, // a panic where the reference refuses: not an `ok` (the small cases compare the class with the model)
        (Err(()), Ok(pl)) => Some(("panic".into(), format!("{label}: the call panicked; the native plan says ok with shape {} ({} elements)", show_list(&pl.shape), pl.count))),
        (Ok(Err(_)), Err(())) => None,
        (Ok(Err(e)), Ok(pl)) => Some((format!("err {}", err_name(e)), format!("{label}: refused; the native plan says ok with shape {} ({} elements)", show_list(&pl.shape), pl.count))),
        (Ok(Ok(g)), Err(())) => Some((format!("ok shape {}", show_list(&g.get_shape().unwrap())), format!("{label}: accepted; the native plan says the call must be refused"))),
        (Ok(Ok(g)), Ok(pl)) => {
            let (gs, ge) = (g.get_shape().unwrap(), g.get_elements().unwrap());
            let head = format!("ok shape {} with {} elements", show_list(&gs), ge.len());
            if gs != pl.shape { return Some((head, format!("{label}: the native plan says shape {}", show_list(&pl.shape)))); }
            if ge.len() != pl.count { return Some((head, format!("{label}: the native plan says {} elements", pl.count))); }
            if !consistent(g) { return Some((head, format!("{label}: inconsistent array (len / ndim / is_empty disagree with the data)"))); }
            for p in 0..ge.len() { let want = from(pl.at(p) as i64); if !same(&ge[p], &want) {
                return Some((format!("{head}; flat position {p} holds {:?}", ge[p]), format!("{label}: first difference at flat position {p} of {}: expected {:?} (= source position {}), found {:?}", ge.len(), want, pl.at(p), ge[p]))); } }
            None
        }
    }
}
/// build the giant array with flat element k = `from(k)`, run the chain, judge in place
fn giant_check<T: ArrayElement>(label: &str, shape: &[usize], n: usize, steps: &[Step], chained: bool, plan: &Result<Plan, ()>, from: impl Fn(i64) -> T, same: impl Fn(&T, &T) -> bool) -> Option<(String, String)> {
    let a: Array<T> = Array::new((0..n as i64).map(&from).collect(), shape.to_vec()).expect("harness: giant array");
    let got = run(&a, steps, chained);
    drop(a);
    giant_judge(label, &got, plan, &from, &same)
}

thread_local! {
    /// A-B-A across case lines: the previous chain and its answer
    static PREV: std::cell::RefCell<Option<(String, Vec<usize>, Vec<i64>, Vec<Step>, String)>> = const { std::cell::RefCell::new(None) };
    static LINE_NO: std::cell::Cell<usize> = const { std::cell::Cell::new(0) };
}
fn mismatch(observed: String, detail: String) -> Option<Verdict> { Some(Verdict::Mismatch { observed, detail }) }
fn first_difference(obs: &str, want: &str) -> String {
    let at = obs.bytes().zip(want.bytes()).position(|(x, y)| x != y).unwrap_or(obs.len().min(want.len()));
    let lo = at.saturating_sub(40);
    format!("differs from the expected answer at byte {at}: real `…{}`, expected `…{}`", truncate(obs.get(lo..).unwrap_or(""), 120), truncate(want.get(lo..).unwrap_or(""), 120))
}

fn exec(op: &str, args: &[&str], expected: &str) -> Option<Verdict> {
    match op {
        "chain" => {
            if args.len() != 2 { return None; }
            let (shape, tags) = parse_arr_raw(args[0]);
            let steps = parse_chain(args[1])?;
            // the answer compared with the model first: the whole chain through the Result receiver (as before)
            let a = parse_arr_i64(args[0]);
            let first = text(&run(&a, &steps, true));
            if let Verdict::Mismatch { observed, detail } = compare_default(first.clone(), expected) { PREV.with(|p| *p.borrow_mut() = None); return Some(Verdict::Mismatch { observed, detail }); }
            // the native reference (resize / cycle_take / reshape / ravel chains) is validated against the model's answer
            if let Some(nat) = native_chain(&shape, &tags, &steps) {
                let ok = match class_of(expected) { "ok" => native_text(&nat) == expected, "err" => nat.is_err(), _ => true };
                if !ok { return mismatch(format!("ORACLE-DIVERGENCE native reference `{}`", truncate(&native_text(&nat), 300)), format!("the harness-native reference disagrees with the model, which says `{}`", truncate(expected, 300))); }
                ORACLE_VALIDATIONS.fetch_add(1, std::sync::atomic::Ordering::Relaxed);
            }
            // part 3: the memory-free PLAN (all seven steps; the only judge of the giant cases) against the model's full answer
            {
                let plan = native_plan(&shape, tags.len(), &steps);
                let ok = match (class_of(expected), &plan) {
                    ("ok", Ok(pl)) => format!("ok {}:{}", show_list(&pl.shape), show_list(&(0..pl.count).map(|q| tags[pl.at(q)]).collect::<Vec<_>>())) == expected,
                    ("err", Err(())) => true,
                    ("ok", Err(())) | ("err", Ok(_)) => false,
                    _ => true,
                };
                if !ok { return mismatch(format!("ORACLE-DIVERGENCE native plan: {}", match &plan { Ok(pl) => format!("shape {} count {} moduli {:?}", show_list(&pl.shape), pl.count, pl.moduli), Err(()) => "refused".into() }), format!("the harness-native plan (shape rules of atleast / expand_dims / squeeze, result[p] = source[p mod len]) disagrees with the model, which says `{}`", truncate(expected, 300))); }
                SHAPE_VALIDATIONS.fetch_add(1, std::sync::atomic::Ordering::Relaxed);
            }
            let n = tags.len();
            let v = compare_default(observe(&shape, &tags, &steps, args[1], n <= 20000 && expected.len() < 200_000), expected);
            if let Verdict::Mismatch { .. } = v { return Some(v); }
            // A-B-A across case lines: for a third of the lines the previous chain is executed again and must repeat its answer
            let no = LINE_NO.with(|c| { c.set(c.get() + 1); c.get() });
            let prev = PREV.with(|p| p.borrow_mut().take());
            if n <= 3000 && expected.len() < 40_000 && no % 3 != 0 { PREV.with(|p| *p.borrow_mut() = Some((format!("{} {}", args[0], args[1]), shape.clone(), tags.clone(), steps.clone(), first.clone()))); }
            if let Some((pl, ps, pt, pst, pans)) = prev {
                if no % 3 == 0 {
                    let pa: Array<i64> = Array::new(pt.clone(), ps.clone()).expect("harness: array literal");
                    let again = text(&run(&pa, &pst, true));
                    if again != pans { return mismatch(format!("STATE-DIVERGENCE re-run of the previous case: {}", truncate(&again, 400)), format!("A-B-A: the previous case `chain {}` executed again after this case answers differently; first `{}`", truncate(&pl, 200), truncate(&pans, 400))); }
                }
            }
            Some(v)
        }
        // wrap ARR steps / wrapcreate ARR shape ndmin — part 3 (15): a target whose product wraps modulo 2^64 onto the element count.  The
        // model refuses; the crate must not answer `ok` (an overflow panic of the checked build is a refusal as well: outcome left open)
        "wrap" | "wrapcreate" => {
            let obs = if op == "wrap" {
                if args.len() != 2 { return None; }
                let (a, steps) = (parse_arr_i64(args[0]), parse_chain(args[1])?);
                let (c, p) = (text(&run(&a, &steps, true)), text(&run(&a, &steps, false)));
                if class_of(&c) != class_of(&p) { return mismatch(format!("RECEIVER-DIVERGENCE plain receiver `{}`, Ok(array) receiver `{}`", truncate(&p, 200), truncate(&c, 200)), "the two receivers must agree".into()); }
                c
            } else {
                if args.len() != 3 { return None; }
                let (el, sh, nd) = (parse_arr_raw(args[0]).1, parse_usize_list(args[1]), parse_opt::<usize>(args[2]));
                text(&catch_unwind(AssertUnwindSafe(|| Array::create(el.clone(), sh.clone(), nd))).map_err(|_| ()))
            };
            if class_of(expected) != "err" { return Some(compare_default(obs, expected)); }
            Some(match class_of(&obs) { "err" => Verdict::Match(obs), "panic" => Verdict::Open(obs), _ => Verdict::Mismatch { observed: truncate(&obs, 300), detail: format!("a target shape whose product only equals the element count modulo 2^64 was accepted; the model says `{expected}`") } })
        }
        // hchain ARR steps: resize / cycle_take from a huge source, judged by the native reference alone
        "hchain" => {
            if args.len() != 2 { return None; }
            if expected != "ok native" { return Some(compare_default("harness: hchain expects the driver to answer `ok native`".into(), expected)); }
            let (shape, tags) = parse_arr_raw(args[0]);
            let steps = parse_chain(args[1])?;
            let want = native_text(&native_chain(&shape, &tags, &steps)?);
            NATIVE_ONLY.fetch_add(1, std::sync::atomic::Ordering::Relaxed);
            let obs = observe(&shape, &tags, &steps, args[1], false);
            if obs == want { return Some(Verdict::Match(format!("{} ({} bytes, equal to the native reference)", truncate(&obs, 60), obs.len()))); }
            if class_of(&obs) == "err" && want == "err" { return Some(Verdict::Match(obs)); }
            let d = first_difference(&obs, &want);
            mismatch(truncate(&obs, 400), d)
        }
        // aba ARRA stepsA ARRB stepsB: on a FRESH thread A, B, A; on another fresh thread B, A, B — every run judged by the model's answers
        "aba" => {
            if args.len() != 4 { return None; }
            let (ea, eb) = expected.split_once(" ; ")?;
            let ma = (parse_arr_raw(args[0]), parse_chain(args[1])?, args[1].to_string(), ea.to_string());
            let mb = (parse_arr_raw(args[2]), parse_chain(args[3])?, args[3].to_string(), eb.to_string());
            for first_a in [true, false] {
                let seq = if first_a { vec![("first", ma.clone()), ("second", mb.clone()), ("first", ma.clone())] } else { vec![("second", mb.clone()), ("first", ma.clone()), ("second", mb.clone())] };
                let res = std::thread::Builder::new().stack_size(64 << 20).spawn(move || {
                    for (pos, (which, (raw, steps, st_text, want))) in seq.iter().enumerate() {
                        let obs = observe(&raw.0, &raw.1, steps, st_text, false);
                        let same = obs == *want || (class_of(&obs) == "err" && class_of(want) == "err");
                        if !same { return Some((format!("run {} of the thread ({which} chain `{st_text}` on shape {}): {}", pos + 1, show_list(&raw.0), truncate(&obs, 500)), format!("model says `{}`", truncate(want, 500)))); }
                    }
                    None
                }).ok()?.join();
                match res {
                    Ok(None) => {}
                    Ok(Some((o, d))) => return mismatch(o, format!("back-to-back on a fresh thread in the order {}: {d}", if first_a { "first, second, first" } else { "second, first, second" })),
                    Err(_) => return None,
                }
            }
            Some(Verdict::Match(truncate(expected, 400)))
        }
        // part 3 (11): giant iota:SHAPE steps — more than 2^20 elements (giant8: more than 2^24, u8 only).  The array is built here from
        // the shape, the expected result is the native PLAN (validated against the model on every `chain` line), compared IN PLACE.
        "giant" | "giant8" | "giantw" => {
            if args.len() != 2 { return None; }
            if expected != "ok native" { return Some(compare_default("harness: giant expects the driver to answer `ok native`".into(), expected)); }
            let shape = parse_usize_list(args[0].strip_prefix("iota:")?);
            let n: usize = shape.iter().product();
            let steps = parse_chain(args[1])?;
            let plan = native_plan(&shape, n, &steps);
            GIANT_ONLY.fetch_add(1, std::sync::atomic::Ordering::Relaxed);
            let h = fnv(&format!("{} {}", args[0], args[1]));
            let mut ran = vec![];
            macro_rules! go { ($label:expr, $chained:expr, $from:expr, $same:expr) => {{
                if let Some((o, d)) = giant_check($label, &shape, n, &steps, $chained, &plan, $from, $same) { return mismatch(o, d); }
                ran.push($label);
            }}; }
            if op == "giant8" {
                go!(if h % 2 == 0 { "u8 image, Ok(array) receiver" } else { "u8 image, plain receiver" }, h % 2 == 0, tag_u8, |x: &u8, y: &u8| x == y);
            } else {
                go!("i64 tags, Ok(array) receiver", true, |t: i64| t, |x: &i64, y: &i64| x == y);
                go!("i64 tags, plain receiver", false, |t: i64| t, |x: &i64, y: &i64| x == y);
                go!("u8 image, Ok(array) receiver", true, tag_u8, |x: &u8, y: &u8| x == y);
                match h % 3 {
                    0 => go!("Tuple3<i32,i32,i32> (12 bytes) image, plain receiver", false, tag_t3, |x: &T3, y: &T3| x == y),
                    1 => go!("f64 image (tag 0 = -0.0, bit-wise), plain receiver", false, tag_f64z, |x: &f64, y: &f64| x.to_bits() == y.to_bits()),
                    _ => go!("Tuple3<u8,u8,u8> (3 bytes) image, Ok(array) receiver", true, tag_t3b, |x: &T3b, y: &T3b| x == y),
                }
                if op == "giantw" { go!("Tuple2<String,i32> (32 bytes, not Copy) image, plain receiver", false, tag_tw, |x: &TW, y: &TW| x == y); }
            }
            Some(Verdict::Match(match &plan {
                Ok(pl) => format!("ok shape {} ({} elements, every one equal in place to the native plan; runs: {})", show_list(&pl.shape), pl.count, ran.join(" / ")),
                Err(()) => format!("err (refused, as the native plan says; runs: {})", ran.join(" / ")) }))
        }
        // gcreate iota:SHAPE ndmin — Array::create on more than 2^20 elements
        "gcreate" => {
            if args.len() != 2 { return None; }
            if expected != "ok native" { return Some(compare_default("harness: gcreate expects the driver to answer `ok native`".into(), expected)); }
            let shape = parse_usize_list(args[0].strip_prefix("iota:")?);
            let n: usize = shape.iter().product();
            let nd: Option<usize> = parse_opt(args[1]);
            let plan = native_create(n, &shape, nd).map(|sh| Plan { shape: sh, count: n, moduli: vec![] });
            GIANT_ONLY.fetch_add(1, std::sync::atomic::Ordering::Relaxed);
            fn one<T: ArrayElement>(label: &str, shape: &[usize], n: usize, nd: Option<usize>, plan: &Result<Plan, ()>, from: impl Fn(i64) -> T, same: impl Fn(&T, &T) -> bool) -> Option<(String, String)> {
                let elems: Vec<T> = (0..n as i64).map(&from).collect();
                let got: Out<T> = catch_unwind(AssertUnwindSafe(|| Array::create(elems, shape.to_vec(), nd))).map_err(|_| ());
                giant_judge(label, &got, plan, &from, &same)
            }
            if let Some((o, d)) = one("i64 tags", &shape, n, nd, &plan, |t: i64| t, |x: &i64, y: &i64| x == y) { return mismatch(o, d); }
            if let Some((o, d)) = one("u8 image", &shape, n, nd, &plan, tag_u8, |x: &u8, y: &u8| x == y) { return mismatch(o, d); }
            if let Some((o, d)) = one("Tuple3<i32,i32,i32> (12 bytes) image", &shape, n, nd, &plan, tag_t3, |x: &T3, y: &T3| x == y) { return mismatch(o, d); }
            Some(Verdict::Match(match &plan { Ok(pl) => format!("ok shape {} ({} elements equal in place; i64, u8, 12-byte tuple)", show_list(&pl.shape), pl.count), Err(()) => "err".into() }))
        }
        // gcreate8 COUNT SHAPE ndmin — round 5 (20): Array::create on COUNT > 2^24 u8 elements (element k = tag k) under SHAPE, whose product may
        // differ from COUNT by an amount an f32 / f64 rounding swallows (then it must be refused)
        "gcreate8" => {
            if args.len() != 3 { return None; }
            if expected != "ok native" { return Some(compare_default("harness: gcreate8 expects the driver to answer `ok native`".into(), expected)); }
            let (n, shape, nd): (usize, Vec<usize>, Option<usize>) = (args[0].parse().ok()?, parse_usize_list(args[1]), parse_opt(args[2]));
            let plan = native_create(n, &shape, nd).map(|sh| Plan { shape: sh, count: n, moduli: vec![] });
            GIANT_ONLY.fetch_add(1, std::sync::atomic::Ordering::Relaxed);
            let elems: Vec<u8> = (0..n as i64).map(tag_u8).collect();
            let got: Out<u8> = catch_unwind(AssertUnwindSafe(|| Array::create(elems, shape.clone(), nd))).map_err(|_| ());
            if let Some((o, d)) = giant_judge("u8 image, Array::create", &got, &plan, &tag_u8, &|x: &u8, y: &u8| x == y) { return mismatch(o, d); }
            Some(Verdict::Match(match &plan { Ok(pl) => format!("ok shape {} ({} u8 elements equal in place)", show_list(&pl.shape), pl.count), Err(()) => "err (refused, as the native reference says)".into() }))
        }
        "audit" => {
            let ld = |c: &std::sync::atomic::AtomicUsize| c.load(std::sync::atomic::Ordering::Relaxed);
            let (v, h, sv, cv, g) = (ld(&ORACLE_VALIDATIONS), ld(&NATIVE_ONLY), ld(&SHAPE_VALIDATIONS), ld(&CREATE_VALIDATIONS), ld(&GIANT_ONLY));
            let t = format!("ok audit: native resize/cycle_take/reshape/ravel reference validated against the model on {v} chains of this run; {h} huge chains judged by it alone; native plan (all seven steps) validated on {sv} chains and native create on {cv} cases; {g} giant cases (> 2^20 elements) judged by them alone");
            if expected != "ok audit" { return Some(compare_default(t, expected)); }
            if h > 0 && v < 1000 { mismatch(t, "the native reference was used without having been validated against the model on at least 1000 smaller cases".into()) }
            else if g > 0 && (sv < 5000 || cv < 100) { mismatch(t, "the native plan / create reference judged giant cases without having been validated against the model on at least 5000 chains / 100 create cases".into()) }
            else { Some(Verdict::Match(t)) }
        }
        "create" => {
            let el = if args[0].starts_with('i') { parse_arr_raw(args[0]).1 } else { parse_i64_list(args[0]) }; let sh = parse_usize_list(args[1]); let nd: Option<usize> = parse_opt(args[2]);
            let canon: Out<i64> = catch_unwind(AssertUnwindSafe(|| Array::create(el.clone(), sh.clone(), nd))).map_err(|_| ());
            let obs = text(&canon);
            if let Verdict::Mismatch { observed, detail } = compare_default(obs.clone(), expected) { return Some(Verdict::Mismatch { observed, detail }); }
            {
                let nat = native_create(el.len(), &sh, nd);
                let ok = match (class_of(expected), &nat) { ("ok", Ok(t)) => format!("ok {}:{}", show_list(t), show_list(&el)) == expected, ("err", Err(())) => true, ("ok", _) | ("err", _) => false, _ => true };
                if !ok { return mismatch(format!("ORACLE-DIVERGENCE native create: {:?}", nat), format!("the harness-native reference of Array::create disagrees with the model, which says `{}`", truncate(expected, 300))); }
                CREATE_VALIDATIONS.fetch_add(1, std::sync::atomic::Ordering::Relaxed);
            }
            let div = every_type!(image_create, &el, &sh, nd, &canon).or_else(|| layout_types!(image_create_on, fnv(args[1]).wrapping_add(el.len() as u64), el.len() <= 3000, &el, &sh, nd, &canon))
                .or_else(|| round5_types!(image_create, el.len() <= 3000, &el, &sh, nd, &canon));
            Some(match div { Some(d) => compare_default(format!("{d}; i64 run: {}", truncate(&obs, 300)), expected), None => compare_default(obs, expected) })
        }
        _ => None,
    }
}

/// non-trivial: at least two elements and at least one step that changes the shape
fn nontrivial(op: &str, args: &[&str]) -> bool {
    if op == "create" { return args[2] != "none"; }
    if op == "audit" { return false; }
    if op == "gcreate" { return args[1] != "none"; }
    if op == "gcreate8" { return args[2] != "none"; }
    if op == "giant" || op == "giant8" || op == "giantw" { return args[1] != "-"; }
    parse_arr_raw(args[0]).1.len() >= 2 && args[1] != "-"
}

fn main() {
    harness_main(Spec { prop: "C07", gen, exec, nontrivial, hang_secs: 60,
        rule: "every shape rank<=4 len<=3 (+ 19 shapes with zero-length axes incl. [0,0],[0,3,0],[0,1,0,2]; unit-rich, rank 5): reshape to EVERY ordered factorization of the count into <=4 (5) axes and back (empty arrays: to every kind of empty / non-empty target), non-fitting counts, resize smaller/larger/empty, cycle_take, atleast 0..4, expand_dims at every single position and every ordered pair in -(nd+2)..nd+2, squeeze none / every axis +- / every pair, same step twice, expand-then-squeeze in both spellings, errors passed along a chain; seeded random chains (<=8 steps) that end in the original shape; create with ndmin 0..5. Sizes: big_shapes() + lengths around 256/1024/4096 (ravel, sampled factorizations and back, atleast, expand/squeeze at every position, random chains, create); resize from 28 (thorough ~90) source lengths (dividing and not dividing 256/1024/4096) to targets just above 256/512/1024/2048/4096 of rank 1-3, cycle_take up to 5000, shrinking from big sources. EVERY chain runs through the Result receiver (compared with the model) and through the plain-receiver twin of every step (compared after every step), then on the u8, i8, u64>2^53, f64(-0.0), f32(-0.0), f64 special values (bit-wise), bool, String, char images on both receivers. Tag arrays. PART 2: expand_dims with 3..5 axes (every 3-subset of the result positions in every order, sampled 4/5-subsets, mixed spellings) alone and followed by the squeeze of those positions (unsorted, mixed spellings); squeeze lists of 3..5 axes; create with ndmin 0..9,12,16 on ranks 0..6; ranks 6..8; every length 1..300 (reshape, resize, cycle_take, expand/squeeze); huge: resize from 14 small source lengths to targets of 20 000..140 000 elements (above and at 65 536) and reshape / ravel / expand / squeeze of huge_shapes() through the model; resize / cycle_take FROM sources of 4 100..140 000 elements (`hchain`) against the harness-native reference out[i] = in[i mod len], which is validated against the model on every smaller resize / cycle_take / reshape / ravel chain of the run (`audit` demands >= 1000 validations); hidden state: `aba` = two chains on a fresh thread A B A, then on another fresh thread B A B, over shape pairs colliding under weak polynomial hashes (multipliers 31,33,37,131,257), equal counts, and a refused call followed by a valid one; for a third of the chain lines the previous line is re-executed and must repeat its answer. PART 3: every line also on 12-, 3-, 32-byte (not Copy) tuples and one of nine further element sizes; constant / ==-but-not-identical value mixtures; isize-range and wrapping axis / shape arguments; giant iota arrays of 2^20..2.2e6 elements (and create on them) judged in place by the native plan, which is validated against the model on every chain line. ROUND 5: u8 arrays above 2^24 elements (up to 2^25+7): resize / cycle_take for (count, source length) pairs searched with the f32 ceil / floor / remainder idioms, rank 2-4 targets, ravel / reshape (accepted and refused-after-rounding) / atleast / expand / squeeze / create; axis lengths 2^24+1 .. 2^64-1 on empty arrays through the model; resize / cycle_take targets related to the source (same, reversed, multiples, divisors, +-1); sources that look constant / periodic or whose elements only print alike (NaN payloads in f64 / f32 / Tuple2<f64,i32>, print-alike Tuple2<String,String> and List<String> images on every line). non-trivial = >=2 elements and a non-empty chain" });
}
