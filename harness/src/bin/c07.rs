//! C07 — reshaping operations never reorder, drop or invent elements. Value protocol with tags; chains of operations.
use arrharness::*;

/// ordered factorizations of n into exactly k factors >= 1
fn factorizations(n: usize, k: usize) -> Vec<Vec<usize>> {
    if k == 1 { return vec![vec![n]]; }
    let mut out = vec![];
    for d in 1..=n { if n % d == 0 { for mut rest in factorizations(n / d, k - 1) { rest.insert(0, d); out.push(rest); } } }
    out
}

fn gen(tier: &str, seed: u64, out: &mut dyn FnMut(String)) {
    let thorough = tier == "thorough";
    let mut rng = Rng::new(seed);
    let mut all = shapes(1, 4, 1, 3);
    all.extend(vec![vec![0], vec![2, 0], vec![1, 0, 3], vec![4], vec![5, 1], vec![1, 7, 1], vec![2, 2, 2, 2, 2]]);
    for s in &all {
        let a = tag(s); let n: usize = s.iter().product(); let nd = s.len() as isize;
        out(format!("chain {a} ravel"));
        out(format!("chain {a} -"));
        // every target shape of equal count with up to 4 axes (5 in thorough), then back
        if n > 0 { for k in 1..=(if thorough { 5 } else { 4 }) { for t in factorizations(n, k) {
            out(format!("chain {a} reshape:{}|reshape:{}", show_list(&t), show_list(s)));
        } } }
        // counts that do not fit: refused
        for t in [vec![n + 1], vec![n, 2], vec![0], vec![]] { if t.iter().product::<usize>() != n { out(format!("chain {a} reshape:{}", show_list(&t))); } }
        for t in [vec![1usize], vec![2, 2], vec![n + 1], vec![2, n.max(1)], vec![3, 1, 2], vec![0], vec![n.max(1) * 2 + 1]] { out(format!("chain {a} resize:{}", show_list(&t))); }
        for k in [0, 1, n.saturating_sub(1), n, n + 1, 2 * n + 1] { out(format!("chain {a} cycle_take:{k}")); }
        for k in 0..=4 { out(format!("chain {a} atleast:{k}")); }
        // expand_dims: every single position (valid range is -(nd+1)..=nd for one new axis), every pair, out of range
        for p in (-nd - 2)..=(nd + 1) { out(format!("chain {a} expand:{p}")); }
        for p in (-nd - 2)..=(nd + 1) { for q in (-nd - 2)..=(nd + 2) { if p != q { out(format!("chain {a} expand:{p},{q}")); } } }
        out(format!("chain {a} expand:0,0")); out(format!("chain {a} expand:0,1,2"));
        // squeeze
        out(format!("chain {a} squeeze:none"));
        for p in (-nd - 1)..=nd { out(format!("chain {a} squeeze:{p}")); }
        for p in -nd..nd { for q in -nd..nd { if p != q { out(format!("chain {a} squeeze:{p},{q}")); } } }
    }
    // chains: random sequences that end in the original shape (so the whole chain must be the identity)
    let n_chain = if thorough { 20000 } else { 3000 };
    for _ in 0..n_chain {
        let s = rng.pick(&all).clone();
        let n: usize = s.iter().product(); if n == 0 { continue; }
        let mut cur = s.clone(); let mut steps: Vec<String> = vec![];
        for _ in 0..(1 + rng.below(8)) {
            match rng.below(6) {
                0 => { let k = 1 + rng.below(4); let f = factorizations(n, k); let t = rng.pick(&f).clone(); steps.push(format!("reshape:{}", show_list(&t))); cur = t; }
                1 => { steps.push("ravel".into()); cur = vec![n]; }
                2 => { let p = rng.below(cur.len() + 1); let neg = rng.below(2) == 0;
                       let spelled = if neg { p as isize - (cur.len() as isize + 1) } else { p as isize };
                       steps.push(format!("expand:{spelled}")); cur.insert(p, 1); }
                3 => { steps.push("squeeze:none".into()); cur.retain(|&d| d != 1); }
                4 => { if let Some(p) = cur.iter().position(|&d| d == 1) { let neg = rng.below(2) == 0;
                       steps.push(format!("squeeze:{}", if neg { p as isize - cur.len() as isize } else { p as isize })); cur.remove(p); } }
                _ => { let k = 1 + rng.below(3); steps.push(format!("atleast:{k}"));
                       cur = match (k, cur.len()) { (2, 0) => vec![1, 1], (2, 1) => vec![1, cur[0]], (3, 0) => vec![1, 1, 1], (3, 1) => vec![1, cur[0], 1], (3, 2) => vec![cur[0], cur[1], 1], _ => cur }; }
            }
        }
        steps.push(format!("reshape:{}", show_list(&s)));
        out(format!("chain {} {}", tag(&s), steps.join("|")));
    }
    // create with ndmin
    for s in shapes(1, 3, 1, 3) { let n: usize = s.iter().product(); for nd in ["none", "0", "1", "2", "3", "4", "5"] {
        out(format!("create {} {} {nd}", show_list(&(0..n as i64).collect::<Vec<_>>()), show_list(&s)));
    } }
    out("create 1,2,3 2,2 none".into()); out("create 1,2,3 2,2 3".into()); out("create - 0 2".into());
}

fn apply(r: Result<Array<i64>, ArrayError>, step: &str) -> Option<Result<Array<i64>, ArrayError>> {
    let (name, arg) = step.split_once(':').unwrap_or((step, ""));
    Some(match name {
        "ravel" => r.ravel(),
        "reshape" => r.reshape(&parse_usize_list(arg)),
        "resize" => r.resize(&parse_usize_list(arg)),
        "cycle_take" => r.cycle_take(arg.parse().ok()?),
        "atleast" => r.atleast(arg.parse().ok()?),
        "expand" => r.expand_dims(parse_isize_list(arg)),
        "squeeze" => r.squeeze(if arg == "none" { None } else { Some(parse_isize_list(arg)) }),
        _ => return None,
    })
}

fn exec(op: &str, args: &[&str], expected: &str) -> Option<Verdict> {
    match op {
        "chain" => {
            let a = parse_arr_i64(args[0]);
            let steps: Vec<&str> = if args[1] == "-" { vec![] } else { args[1].split('|').collect() };
            for s in &steps { if s.split_once(':').map_or(*s, |x| x.0).is_empty() { return None; } }
            let obs = guarded(|| { let mut r: Result<Array<i64>, ArrayError> = Ok(a.clone()); for s in &steps { r = apply(r, s).expect("bad step"); } 
                                   if let Ok(x) = &r { if !consistent(x) { return "ok INCONSISTENT".to_string(); } } res_arr(&r) });
            Some(compare_default(obs, expected))
        }
        "create" => {
            let el = parse_i64_list(args[0]); let sh = parse_usize_list(args[1]); let nd: Option<usize> = parse_opt(args[2]);
            Some(compare_default(guarded(|| res_arr(&Array::create(el.clone(), sh.clone(), nd))), expected))
        }
        _ => None,
    }
}

/// non-trivial: at least two elements and at least one step that changes the shape
fn nontrivial(op: &str, args: &[&str]) -> bool {
    if op == "create" { return args[2] != "none"; }
    parse_arr_raw(args[0]).1.len() >= 2 && args[1] != "-"
}

fn main() {
    harness_main(Spec { prop: "C07", gen, exec, nontrivial, hang_secs: 20,
        rule: "every shape rank<=4 len<=3 (+ empties, unit-rich, rank 5): reshape to EVERY ordered factorization of the count into <=4 (5) axes and back, non-fitting counts, resize smaller/larger, cycle_take, atleast 0..4, expand_dims at every single position and every ordered pair in -(nd+2)..nd+2, squeeze none / every axis +- / every pair; seeded random chains (<=8 steps, applied through the Result-receiver API) that end in the original shape; create with ndmin 0..5. Tag arrays. non-trivial = >=2 elements and a non-empty chain" });
}
