//! C19 — bit unpacking / packing are inverse; `BitOrder` spellings; `binary_repr` parses back.
//! Value protocol: bytes and bits are small integers; the model's answer is compared as text.
//!
//! Robustness streams (FRAMEWORK.md): EVERY unpack / pack / round-trip case is executed (a) on the plain `Array<u8>` receiver
//! (the compared answer), (b) a second time, (c) on `Ok(array)` through `impl ArrayBinaryBits for Result<Array<u8>, ArrayError>`
//! (the round trip fully chained: `Ok(a).unpack_bits(..).pack_bits(..)`), (d) with every other spelling of the same order
//! (absent / enum / `&str` / owned `String`; an unknown text in the other text type), receivers alternating; any divergence
//! fails the case.  `binary_repr` is called through `Array::<T>::binary_repr`, the `Result` receiver's associated function and
//! `Numeric::binary_repr`.  The generator adds byte arrays above 128 / 256 / 1024 / 4096 bytes flat and as lanes, bit arrays
//! around 128*8, 256*8, 1024*8 and 4096*8 bits, `big_shapes()`, `zero_shapes()` and seeded random big inputs.  The ops
//! `unpack_ref` / `pack_ref` / `roundtrip_ref` are the same real calls; the model answers them on the reference lane
//! semantics alone (the pipeline model of `apply_along_axis` needs ~2 s per 1000 bytes by axis).
//!
//! Part 2: `seq a / b / c` lines (several calls on one thread, hidden state between calls), an A-B-A re-run of the previous case
//! after every array case, and the ops `unpack_n` / `pack_n` / `roundtrip_n` for huge inputs: the model answers outcome class and
//! result shape, the values are compared with the harness-native coordinate reference below (`nat_unpack` / `nat_pack`), which is
//! compared with the full model answer on every other array case of the run (`oracle_report` lines carry the count).
//!
//! Part 3: giant inputs (`unpack_g` / `pack_g` / `roundtrip_g` on arrays named `shape:@pattern`, 2^20 .. 1.7 * 10^7 elements, built
//! here and compared IN PLACE with the structured answer of the same native reference; the driver answers the model's order / axis
//! checks and `native`, or the result shape for lanes up to 200 000 elements; `diff_result` is cross-checked against the text
//! comparison on the small cases), value relations (constant sources, equal-as-bits twins, palindromic / bit-reversed bytes,
//! Thue-Morse and periodic words) and count / axis values that wrap modulo 2^64 when multiplied by 8 (`robustness3`).
use arrharness::*;

// ------------------------------------------------------------------ protocol

fn hex(s: &str) -> String { s.bytes().map(|b| format!("{b:02x}")).collect() }
fn unhex(h: &str) -> Option<String> {
    if h.len() % 2 != 0 { return None; }
    let bytes: Option<Vec<u8>> = (0..h.len() / 2).map(|i| u8::from_str_radix(&h[2 * i..2 * i + 2], 16).ok()).collect();
    String::from_utf8(bytes?).ok()
}

enum Order { Absent, Enum(BitOrder), Str(String), Owned(String) }
fn parse_order(s: &str) -> Option<Order> {
    match s {
        "none" => Some(Order::Absent),
        "E:big" => Some(Order::Enum(BitOrder::Big)),
        "E:little" => Some(Order::Enum(BitOrder::Little)),
        _ => if let Some(h) = s.strip_prefix("S:") { unhex(h).map(Order::Str) }
             else if let Some(h) = s.strip_prefix("T:") { unhex(h).map(Order::Owned) } else { None },
    }
}

fn parse_bytes(s: &str) -> Option<Array<u8>> {
    let (sh, el) = s.split_once(':')?;
    let shape = parse_usize_list(sh);
    let elems: Vec<u8> = if el == "-" { vec![] } else { el.split(',').map(|x| x.parse::<u8>().ok()).collect::<Option<Vec<u8>>>()? };
    Some(Array::new(elems, shape).expect("harness: malformed array literal in case line"))
}
fn show_u8(r: &Result<Array<u8>, ArrayError>) -> String {
    match r {
        Ok(a) => if consistent(a) { format!("ok {}", show_arr(a)) } else { format!("inconsistent shape={:?} elements={}", a.get_shape().unwrap(), a.get_elements().unwrap().len()) },
        Err(e) => format!("err {}", err_name(e)),
    }
}

/// bind `$o` to the option in the caller's spelling (the type differs per arm) and evaluate `$call`
macro_rules! with_order { ($order:expr, |$o:ident| $call:expr) => { match $order {
    Order::Absent => { let $o = None::<BitOrder>; $call }
    Order::Enum(e) => { let $o = Some(*e); $call }
    Order::Str(t) => { let $o = Some(t.as_str()); $call }
    Order::Owned(t) => { let $o = Some(t.clone()); $call }
} } }

/// `chained` = the call goes through `impl ArrayBinaryBits for Result<Array<u8>, ArrayError>` on `Ok(array)`
fn unpack(a: &Array<u8>, chained: bool, axis: Option<isize>, count: Option<isize>, order: &Order) -> Result<Array<u8>, ArrayError> {
    if chained { let r: Result<Array<u8>, ArrayError> = Ok(a.clone()); with_order!(order, |o| r.unpack_bits(axis, count, o)) }
    else { with_order!(order, |o| a.unpack_bits(axis, count, o)) }
}
fn pack(a: &Array<u8>, chained: bool, axis: Option<isize>, order: &Order) -> Result<Array<u8>, ArrayError> {
    if chained { let r: Result<Array<u8>, ArrayError> = Ok(a.clone()); with_order!(order, |o| r.pack_bits(axis, o)) }
    else { with_order!(order, |o| a.pack_bits(axis, o)) }
}
fn roundtrip(a: &Array<u8>, chained: bool, axis: Option<isize>, order: &Order) -> Result<Array<u8>, ArrayError> {
    if chained {
        // fully chained: the packing call is made on the `Result` the unpacking call returned
        let r: Result<Array<u8>, ArrayError> = Ok(a.clone());
        let u = with_order!(order, |o| r.unpack_bits(axis, None, o));
        with_order!(order, |o| u.pack_bits(axis, o))
    } else {
        unpack(a, false, axis, None, order).and_then(|u| pack(&u, false, axis, order))
    }
}

/// the other spellings of the same option: absent/enum/&str/String for a recognised order, the other text type otherwise
fn respellings(order: &Order) -> Vec<(&'static str, Order)> {
    let resolved = match order {
        Order::Absent => Some(BitOrder::Big),
        Order::Enum(o) => Some(*o),
        Order::Str(t) | Order::Owned(t) => match t.as_str() { "big" => Some(BitOrder::Big), "little" => Some(BitOrder::Little), _ => None },
    };
    match resolved {
        Some(o) => {
            let word = if o == BitOrder::Big { "big" } else { "little" };
            let mut v = vec![("enum spelling", Order::Enum(o)), ("&str spelling", Order::Str(word.to_string())), ("String spelling", Order::Owned(word.to_string()))];
            if o == BitOrder::Big { v.push(("absent option", Order::Absent)); }
            v
        }
        None => match order {
            Order::Str(t) => vec![("String spelling of the same text", Order::Owned(t.clone()))],
            Order::Owned(t) => vec![("&str spelling of the same text", Order::Str(t.clone()))],
            _ => vec![],
        },
    }
}

/// run `f(chained, order)` on the plain receiver (the answer), again, chained, and with every other spelling on both receivers
/// (`salt` alternates which receiver takes which respelling, so that every pair is exercised across the run at half the cost)
fn all_ways(order: &Order, salt: usize, f: &dyn Fn(bool, &Order) -> Result<Array<u8>, ArrayError>) -> String { all_ways_w(order, salt, false, f) }
/// `light` (huge inputs, where one call of the crate takes 0.1 .. 3 s): the plain call as spelled and ONE more call, on the Result
/// receiver with another spelling of the order (rotating with `salt`)
fn all_ways_w(order: &Order, salt: usize, light: bool, f: &dyn Fn(bool, &Order) -> Result<Array<u8>, ArrayError>) -> String {
    let base = guarded(|| show_u8(&f(false, order)));
    let mut ways: Vec<(String, String)> = vec![];
    if light {
        let re = respellings(order);
        if re.is_empty() { ways.push(("the call on Ok(array) (Result receiver)".into(), guarded(|| show_u8(&f(true, order))))); }
        else { let (label, o) = &re[salt % re.len()]; ways.push((format!("{label}, Result receiver"), guarded(|| show_u8(&f(true, o))))); }
    } else {
        ways.push(("the same call a second time".into(), guarded(|| show_u8(&f(false, order)))));
        ways.push(("the call on Ok(array) (Result receiver)".into(), guarded(|| show_u8(&f(true, order)))));
        for (i, (label, o)) in respellings(order).into_iter().enumerate() {
            if (i + salt) % 2 == 0 { ways.push((format!("{label}, plain receiver"), guarded(|| show_u8(&f(false, &o))))); }
            else { ways.push((format!("{label}, Result receiver"), guarded(|| show_u8(&f(true, &o))))); }
        }
    }
    for (label, got) in ways {
        let same = got == base || (class_of(&got) == "err" && class_of(&base) == "err");
        if !same { return format!("DIVERGENCE {label} gives `{}`; the plain call as spelled gives `{}`", truncate(&got, 300), truncate(&base, 300)); }
    }
    base
}

macro_rules! repr_case { ($ty:ty, $uty:ty, $v:expr, $op:expr) => {{
    let v: $ty = $v.parse().ok()?;
    let text = guarded(|| {
        let t = Array::<$ty>::binary_repr(v);
        let via_result = <Result<Array<$ty>, ArrayError> as ArrayBinary<$ty>>::binary_repr(v);
        let via_numeric = Numeric::binary_repr(&v);
        if via_result != t { format!("DIVERGENCE the Result receiver's binary_repr gives `{via_result}`, Array::binary_repr `{t}`") }
        else if via_numeric != t { format!("DIVERGENCE Numeric::binary_repr gives `{via_numeric}`, Array::binary_repr `{t}`") }
        else { format!("ok {t}") }
    });
    if $op == "binary_repr" { text }
    else {
        // parse back natively: unsigned type of the same width, reinterpreted
        match text.strip_prefix("ok ") {
            Some(t) => match <$uty>::from_str_radix(t, 2) { Ok(u) => format!("ok {}", u as $ty), Err(_) => "err parse".to_string() },
            None => text,
        }
    }
}} }


// ------------------------------------------------------------------ harness-native reference (direct coordinate formulas)
//
// Bit `j` of the result lane is bit `j % 8` (counted from the most significant end for `big`, from the least significant end for
// `little`) of byte `j / 8` of the source lane; packing is the inverse with zero padding of the last group.  Position `(o, j, i)` of an
// array seen as outer x axis x inner is flat index `(o * len + j) * inner + i`.  The reference is compared with the full model answer
// on every unpack / pack / round-trip case of the run where it has an opinion (`oracle_report` carries the count); the huge cases
// (`*_n` ops) are compared with the reference alone, the model answering outcome class and result shape.

use std::sync::atomic::{AtomicUsize, Ordering as AtOrd};
static ORACLE_CHECKED: AtomicUsize = AtomicUsize::new(0);
static ORACLE_SILENT: AtomicUsize = AtomicUsize::new(0);
static ORACLE_ONLY: AtomicUsize = AtomicUsize::new(0);
static ABA_RERUNS: AtomicUsize = AtomicUsize::new(0);
static SEQ_MEMBERS: AtomicUsize = AtomicUsize::new(0);

fn nat_order(o: &Order) -> Result<bool, ()> {
    match o {
        Order::Absent | Order::Enum(BitOrder::Big) => Ok(false),
        Order::Enum(BitOrder::Little) => Ok(true),
        Order::Str(t) | Order::Owned(t) => match t.as_str() { "big" => Ok(false), "little" => Ok(true), _ => Err(()) },
    }
}
fn nat_axis(rank: usize, axis: Option<isize>) -> Result<Option<usize>, ()> {
    match axis {
        None => Ok(None),
        Some(ax) => { let n = if ax < 0 { ax.checked_add(rank as isize).ok_or(())? } else { ax }; if n < 0 || n as usize >= rank { Err(()) } else { Ok(Some(n as usize)) } }
    }
}
/// how many of the `bits` bits of a lane `count` keeps
fn nat_count(bits: usize, count: Option<isize>) -> Result<usize, ()> {
    match count {
        None => Ok(bits),
        Some(c) if c >= 0 => if c as usize > bits { Err(()) } else { Ok(c as usize) },
        Some(c) => { let t = c.unsigned_abs(); if t > bits { Err(()) } else { Ok(bits - t) } }
    }
}
fn bit_of(byte: u8, k: usize, little: bool) -> u8 { if little { (byte >> k) & 1 } else { (byte >> (7 - k)) & 1 } }
type NatAns = Option<Result<(Vec<usize>, Vec<u8>), ()>>;

/// `None` = no opinion (a count that leaves zero-length lanes)
fn nat_unpack(shape: &[usize], el: &[u8], axis: Option<isize>, count: Option<isize>, order: &Order) -> NatAns {
    let Ok(little) = nat_order(order) else { return Some(Err(())) };
    let Ok(ax) = nat_axis(shape.len(), axis) else { return Some(Err(())) };
    if el.is_empty() { return Some(Ok((vec![0], vec![]))); }
    match ax {
        None => match nat_count(8 * el.len(), count) {
            Err(()) => Some(Err(())),
            Ok(m) => Some(Ok((vec![m], (0..m).map(|p| bit_of(el[p / 8], p % 8, little)).collect()))),
        },
        Some(k) => {
            let (outer, n, inner) = (prod(&shape[..k]), shape[k], prod(&shape[k + 1..]));
            let m = match nat_count(8 * n, count) { Err(()) => return Some(Err(())), Ok(m) => m };
            if m == 0 { return None; }
            let mut out = vec![0u8; outer * m * inner];
            for o in 0..outer { for j in 0..m { for i in 0..inner { out[(o * m + j) * inner + i] = bit_of(el[(o * n + j / 8) * inner + i], j % 8, little); } } }
            let mut sh = shape.to_vec(); sh[k] = m;
            Some(Ok((sh, out)))
        }
    }
}
fn nat_pack(shape: &[usize], el: &[u8], axis: Option<isize>, order: &Order) -> NatAns {
    let Ok(little) = nat_order(order) else { return Some(Err(())) };
    let Ok(ax) = nat_axis(shape.len(), axis) else { return Some(Err(())) };
    if el.is_empty() { return Some(Ok((vec![0], vec![]))); }
    let place = |k: usize| if little { k } else { 7 - k };
    match ax {
        None => {
            let m = (el.len() + 7) / 8;
            let mut out = vec![0u8; m];
            for (p, v) in el.iter().enumerate() { if *v > 0 { out[p / 8] |= 1 << place(p % 8); } }
            Some(Ok((vec![m], out)))
        }
        Some(k) => {
            let (outer, n, inner) = (prod(&shape[..k]), shape[k], prod(&shape[k + 1..]));
            let m = (n + 7) / 8;
            let mut out = vec![0u8; outer * m * inner];
            for o in 0..outer { for j in 0..n { for i in 0..inner { if el[(o * n + j) * inner + i] > 0 { out[(o * m + j / 8) * inner + i] |= 1 << place(j % 8); } } } }
            let mut sh = shape.to_vec(); sh[k] = m;
            Some(Ok((sh, out)))
        }
    }
}
fn nat_text(a: NatAns) -> Option<String> {
    a.map(|r| match r { Ok((sh, el)) => format!("ok {}:{}", show_list(&sh), show_list(&el)), Err(()) => "err reference".to_string() })
}
fn base_op(op: &str) -> &str { op.strip_suffix("_ref").or_else(|| op.strip_suffix("_n")).or_else(|| op.strip_suffix("_g")).unwrap_or(op) }
fn parse_raw_bytes(s: &str) -> Option<(Vec<usize>, Vec<u8>)> {
    let (sh, el) = s.split_once(':')?;
    let elems: Vec<u8> = if el == "-" { vec![] } else { el.split(',').map(|x| x.parse::<u8>().ok()).collect::<Option<Vec<u8>>>()? };
    Some((parse_usize_list(sh), elems))
}
/// the reference's full answer to an unpack / pack / round-trip case line
fn native_answer(op: &str, args: &[&str]) -> Option<String> {
    let (shape, el) = parse_raw_bytes(args[0])?;
    let axis = parse_opt::<isize>(args[1]);
    match base_op(op) {
        "unpack" => nat_text(nat_unpack(&shape, &el, axis, parse_opt::<isize>(args[2]), &parse_order(args[3])?)),
        "pack" => nat_text(nat_pack(&shape, &el, axis, &parse_order(args[2])?)),
        "roundtrip" => {
            let order = parse_order(args[2])?;
            match nat_unpack(&shape, &el, axis, None, &order)? { Err(()) => Some("err reference".into()), Ok((sh, bits)) => nat_text(nat_pack(&sh, &bits, axis, &order)) }
        }
        _ => None,
    }
}
/// the plain-receiver call exactly as spelled, once (A-B-A re-runs and `seq` members)
fn plain_text(op: &str, args: &[&str]) -> Option<String> {
    let a = parse_bytes(args[0])?; let axis = parse_opt::<isize>(args[1]);
    Some(match base_op(op) {
        "unpack" => { let count = parse_opt::<isize>(args[2]); let order = parse_order(args[3])?; guarded(|| show_u8(&unpack(&a, false, axis, count, &order))) }
        "pack" => { let order = parse_order(args[2])?; guarded(|| show_u8(&pack(&a, false, axis, &order))) }
        "roundtrip" => { let order = parse_order(args[2])?; guarded(|| show_u8(&roundtrip(&a, false, axis, &order))) }
        _ => return None,
    })
}
fn is_array_op(op: &str) -> bool { matches!(base_op(op), "unpack" | "pack" | "roundtrip") }
/// what the round trip must return by the property itself
fn want_roundtrip(a: &str, axis: &str) -> String {
    if axis == "none" { let (sh, el) = a.split_once(':').unwrap(); format!("ok {}:{}", prod(&parse_usize_list(sh)), el) } else { format!("ok {a}") }
}

thread_local! {
    /// the previous (small) array case of this worker thread and the plain call's answer
    static PREV: std::cell::RefCell<Option<(String, Vec<String>, String)>> = const { std::cell::RefCell::new(None) };
}

/// `seq a / b / c`: the member calls are made one after the other (plain receiver, as spelled) and each is compared with the model
fn exec_seq(args: &[&str], expected: &str) -> Option<Verdict> {
    let members: Vec<&[&str]> = args.split(|t| *t == "/").collect();
    let answers: Vec<&str> = expected.split(" / ").collect();
    if members.len() != answers.len() { return None; }
    let mut obs = vec![];
    let mut bad: Option<String> = None;
    for (k, (m, e)) in members.iter().zip(&answers).enumerate() {
        let (op, a) = (m[0], &m[1..]);
        let got = plain_text(op, a)?;
        SEQ_MEMBERS.fetch_add(1, AtOrd::Relaxed);
        let agrees = got == *e || (class_of(&got) == "err" && class_of(e) == "err");
        let rt_broken = base_op(op) == "roundtrip" && !a[0].ends_with(":-") && class_of(&got) == "ok" && got != want_roundtrip(a[0], a[1]);
        if (!agrees || rt_broken) && bad.is_none() {
            bad = Some(format!("member {k} (`{}`) answers `{}`, the model says `{}`", truncate(&m.join(" "), 300), truncate(&got, 300), truncate(e, 300)));
        }
        obs.push(truncate(&got, 300));
    }
    let observed = obs.join(" / ");
    Some(match bad { Some(detail) => Verdict::Mismatch { observed, detail }, None => Verdict::Match(observed) })
}

fn exec(op: &str, args: &[&str], expected: &str) -> Option<Verdict> {
    match op {
        "seq" => { PREV.with(|p| *p.borrow_mut() = None); return exec_seq(args, expected); }
        "oracle_report" => {
            let (n, silent, only, aba, sq) = (ORACLE_CHECKED.load(AtOrd::Relaxed), ORACLE_SILENT.load(AtOrd::Relaxed), ORACLE_ONLY.load(AtOrd::Relaxed), ABA_RERUNS.load(AtOrd::Relaxed), SEQ_MEMBERS.load(AtOrd::Relaxed));
            let (gi, gs, dv) = (GIANT_CASES.load(AtOrd::Relaxed), GIANT_SHAPED.load(AtOrd::Relaxed), DIFF_VALIDATED.load(AtOrd::Relaxed));
            let text = format!("ok report: ref=model on {n} cases (no opinion {silent}); vs ref only: {only} huge, {gi} giant ({gs} with model shape); in-place compare x-checked on {dv}; {aba} A-B-A; {sq} seq members");
            if args.first() == Some(&"final") && n < 1000 { return Some(Verdict::Mismatch { observed: text, detail: "the reference was compared with the model on fewer than 1000 cases".into() }); }
            if args.first() == Some(&"final") && gi > 0 && dv < 1000 { return Some(Verdict::Mismatch { observed: text, detail: "the in-place comparison used for the giant cases was cross-checked on fewer than 1000 small cases".into() }); }
            return Some(Verdict::Match(text));
        }
        _ => {}
    }
    let giant = op.ends_with("_g");
    let mut v = if giant { exec_giant(op, args, expected)? } else { exec_single(op, args, expected)? };
    if !is_array_op(op) { return Some(v); }
    // A-B-A: after this case (B) the previous case (A) is called again and must answer what it answered before B
    let prev = PREV.with(|p| p.borrow_mut().take());
    if let Some((pop, pargs, ptext)) = prev {
        let pa: Vec<&str> = pargs.iter().map(String::as_str).collect();
        if let Some(again) = plain_text(&pop, &pa) {
            ABA_RERUNS.fetch_add(1, AtOrd::Relaxed);
            if again != ptext && !matches!(v, Verdict::Mismatch { .. }) {
                v = Verdict::Mismatch { observed: format!("STATE-DIVERGENCE `{pop} {}` called again after this case gives `{}`", truncate(&pargs.join(" "), 300), truncate(&again, 300)),
                                        detail: format!("before this case it gave `{}`; this case itself agrees with the model (`{}`)", truncate(&ptext, 300), truncate(expected, 200)) };
            }
        }
    }
    if args[0].len() <= 3000 && !giant {
        if let Verdict::Match(o) = &v { PREV.with(|p| *p.borrow_mut() = Some((op.to_string(), args.iter().map(|s| s.to_string()).collect(), o.clone()))); }
    }
    Some(v)
}

// ------------------------------------------------------------------ part 3: giant inputs (2^20 .. 1.7 * 10^7 elements)
//
// A giant array is named `shape:@pattern` in the case line and built here; results are never formatted: the crate's answer is
// compared IN PLACE (`diff_result`) with the structured answer of the same harness-native reference (`nat_unpack` / `nat_pack`)
// that every small case compares with the full model answer; only the first differing position is printed.  `diff_result` itself is
// cross-checked against the text comparison on the small cases (`DIFF_VALIDATED`).

static GIANT_CASES: AtomicUsize = AtomicUsize::new(0);
static GIANT_SHAPED: AtomicUsize = AtomicUsize::new(0);
static DIFF_VALIDATED: AtomicUsize = AtomicUsize::new(0);

fn mix(i: u64, salt: u64) -> u64 {
    let mut z = i.wrapping_add(salt).wrapping_mul(0x9E3779B97F4A7C15);
    z = (z ^ (z >> 30)).wrapping_mul(0xBF58476D1CE4E5B9);
    z = (z ^ (z >> 27)).wrapping_mul(0x94D049BB133111EB);
    z ^ (z >> 31)
}
/// deterministic data of a giant array: `p*` byte patterns, `b*` bit patterns (every pattern ends in non-zero entries, so that a lost
/// or zeroed tail is visible in the values and not only in the length)
fn giant_fill(pat: &str, n: usize) -> Option<Vec<u8>> {
    let mut v: Vec<u8> = match pat {
        "p0" => (0..n).map(|i| ((i * 7 + 3) % 256) as u8).collect(),
        "p1" => (0..n).map(|i| mix(i as u64, 0xB19) as u8).collect(),
        "p2" => (0..n).map(|i| [0x01u8, 0x80, 0xA5, 0x3C, 0xFE, 0x7F, 0x00, 0xFF, 0x10][i % 9]).collect(),
        "p3" => vec![0xFF; n],
        "b0" => (0..n).map(|i| (mix(i as u64, 0xB175) & 1) as u8).collect(),
        "b1" => (0..n).map(|i| ((i % 11 == 0) || (i % 7 == 3)) as u8).collect(),
        "b2" => (0..n).map(|i| [0u8, 0, 1, 1, 2, 7, 128, 255][(mix(i as u64, 0x2B) % 8) as usize]).collect(),
        "b3" => { let mut v = vec![0u8; n]; if n > 0 { v[0] = 1; } if n > 9 { v[n - 9] = 1; } v }
        "b4" => (0..n).map(|i| if i % 3 == 0 { 255 } else { 1 }).collect(),
        _ => return None,
    };
    if let Some(l) = v.last_mut() { if *l == 0 { *l = if pat.starts_with('b') { 1 } else { 0x81 }; } }
    Some(v)
}
/// `shape:@pattern` or `shape:@pattern+` (`+`: both receivers are called; otherwise one call, receivers alternating from case to case)
fn parse_giant(s: &str) -> Option<(Vec<usize>, Vec<u8>, bool)> {
    let (sh, pat) = s.split_once(":@")?;
    let (pat, both) = match pat.strip_suffix('+') { Some(p) => (p, true), None => (pat, false) };
    let shape = parse_usize_list(sh);
    if shape.is_empty() || prod(&shape) == 0 { return None; }
    let data = giant_fill(pat, prod(&shape))?;
    Some((shape, data, both))
}
type NatRes = Result<(Vec<usize>, Vec<u8>), ()>;
/// the crate's answer against the reference's structured answer, in place: `Ok(short description)` when they agree, otherwise the
/// first difference
fn diff_result(r: &Result<Array<u8>, ArrayError>, reference: &NatRes) -> Result<String, String> {
    match (r, reference) {
        (Err(e), Err(())) => Ok(format!("err {}", err_name(e))),
        (Err(e), Ok((sh, _))) => Err(format!("the crate answers err {} where the reference has an array of shape {}", err_name(e), show_list(sh))),
        (Ok(a), Err(())) => Err(format!("the crate answers an array of shape {} where the reference refuses", show_list(&a.get_shape().unwrap()))),
        (Ok(a), Ok((sh, el))) => {
            let (gs, ge) = (a.get_shape().unwrap(), a.get_elements().unwrap());
            if !consistent(a) { return Err(format!("inconsistent array: shape {} with {} elements", show_list(&gs), ge.len())); }
            if &gs != sh { return Err(format!("result shape {} ({} elements), the reference has shape {} ({} elements)", show_list(&gs), ge.len(), show_list(sh), el.len())); }
            if ge.len() != el.len() { return Err(format!("{} elements, the reference has {}", ge.len(), el.len())); }
            match (0..el.len()).find(|&p| ge[p] != el[p]) {
                Some(p) => Err(format!("first difference at flat position {p} of {}: {} where the reference has {}", el.len(), ge[p], el[p])),
                None => { let h = el.iter().fold(0xcbf29ce484222325u64, |h, b| (h ^ *b as u64).wrapping_mul(0x100000001b3)); Ok(format!("ok shape {} ({} elements, fnv {h:016x})", show_list(sh), el.len())) }
            }
        }
    }
}
/// the reference's structured answer to an unpack / pack / round-trip call (`None` = no opinion)
fn nat_structured(base: &str, shape: &[usize], el: &[u8], axis: Option<isize>, count: Option<isize>, order: &Order) -> Option<NatRes> {
    match base {
        "unpack" => nat_unpack(shape, el, axis, count, order),
        "pack" => nat_pack(shape, el, axis, order),
        "roundtrip" => match nat_unpack(shape, el, axis, None, order)? { Err(()) => Some(Err(())), Ok((sh, bits)) => nat_pack(&sh, &bits, axis, order) },
        _ => None,
    }
}
fn native_structured(op: &str, args: &[&str]) -> Option<NatRes> {
    let (shape, el) = parse_raw_bytes(args[0])?;
    let axis = parse_opt::<isize>(args[1]);
    let b = base_op(op);
    let (count, order) = if b == "unpack" { (parse_opt::<isize>(args[2]), parse_order(args[3])?) } else { (None, parse_order(args[2])?) };
    nat_structured(b, &shape, &el, axis, count, &order)
}
/// the plain-receiver call as spelled, once, as a value (`Err(())` = panic)
fn call_once(base: &str, a: &Array<u8>, chained: bool, axis: Option<isize>, count: Option<isize>, order: &Order) -> Result<Result<Array<u8>, ArrayError>, ()> {
    std::panic::catch_unwind(std::panic::AssertUnwindSafe(|| match base {
        "unpack" => unpack(a, chained, axis, count, order),
        "pack" => pack(a, chained, axis, order),
        _ => roundtrip(a, chained, axis, order),
    })).map_err(|_| ())
}
fn plain_result(op: &str, args: &[&str]) -> Option<Result<Result<Array<u8>, ArrayError>, ()>> {
    let a = parse_bytes(args[0])?; let axis = parse_opt::<isize>(args[1]);
    let b = base_op(op);
    let (count, order) = if b == "unpack" { (parse_opt::<isize>(args[2]), parse_order(args[3])?) } else { (None, parse_order(args[2])?) };
    Some(call_once(b, &a, false, axis, count, &order))
}

fn exec_giant(op: &str, args: &[&str], expected: &str) -> Option<Verdict> {
    let base = base_op(op);
    if !matches!(base, "unpack" | "pack" | "roundtrip") { return None; }
    let (shape, data, both) = parse_giant(args[0])?;
    let axis = parse_opt::<isize>(args[1]);
    let (count, order) = if base == "unpack" { (parse_opt::<isize>(args[2]), parse_order(args[3])?) } else { (None, parse_order(args[2])?) };
    let reference = nat_structured(base, &shape, &data, axis, count, &order)?;       // giant lines are only generated where the reference has an opinion
    // the model's part of the answer: `native` (order and axis accepted, nothing else said), an error, or the result shape
    let model_ok = match expected {
        "native" => true,
        e if class_of(e) == "err" => reference.is_err(),
        e => match e.strip_prefix("ok shape ") { Some(sh) => { GIANT_SHAPED.fetch_add(1, AtOrd::Relaxed); matches!(&reference, Ok((rs, _)) if show_list(rs) == sh) } None => false },
    };
    let ref_text = match &reference { Ok((sh, el)) => format!("ok shape {} ({} elements)", show_list(sh), el.len()), Err(()) => "err reference".to_string() };
    if !model_ok { return Some(Verdict::Mismatch { observed: "not run".into(), detail: format!("the harness-native reference (`{ref_text}`) and the model's answer `{expected}` disagree (reference or model defect)") }); }
    let a = Array::new(data.clone(), shape.clone()).expect("harness: giant array");
    // the plain call as spelled, then the Result receiver with another spelling of the same order (rotating)
    let mut ways: Vec<(String, bool, Order)> = vec![("the plain call as spelled".into(), false, clone_order(&order))];
    let mut re = respellings(&order);
    let salt = args[0].len() + args[1].len() + shape[0];
    if re.is_empty() { ways.push(("the call on Ok(array) (Result receiver)".into(), true, clone_order(&order))); }
    else { let (label, o) = re.swap_remove(salt % re.len()); ways.push((format!("{label}, Result receiver"), true, o)); }
    if !both { ways.remove(if (salt / 2) % 2 == 0 { 1 } else { 0 }); }
    let mut observed = String::new();
    for (k, (label, chained, o)) in ways.iter().enumerate() {
        let got = call_once(base, &a, *chained, axis, count, o);
        let judged = match &got { Ok(r) => diff_result(r, &reference), Err(()) => Err("panic".to_string()) };
        drop(got);
        match judged {
            Ok(text) => { if k == 0 { observed = if *chained { format!("{text} [{label}]") } else { text }; } }
            Err(d) => { return Some(Verdict::Mismatch { observed: format!("{label}: {d}"), detail: format!("the harness-native reference says `{ref_text}`; the model says `{expected}`") }); }
        }
    }
    // the property itself: the round trip returns the input bytes (and, by axis, the input shape)
    if base == "roundtrip" {
        if let Ok((sh, el)) = &reference {
            let want_shape = if axis.is_none() { vec![data.len()] } else { shape.clone() };
            if sh != &want_shape || el != &data { return Some(Verdict::Mismatch { observed, detail: "the reference's round trip is not the identity (reference defect)".into() }); }
        }
    }
    GIANT_CASES.fetch_add(1, AtOrd::Relaxed);
    Some(Verdict::Match(observed))
}
fn clone_order(o: &Order) -> Order { match o { Order::Absent => Order::Absent, Order::Enum(e) => Order::Enum(*e), Order::Str(t) => Order::Str(t.clone()), Order::Owned(t) => Order::Owned(t.clone()) } }

fn exec_single(op: &str, args: &[&str], expected: &str) -> Option<Verdict> {
    let observed = match op {
        "unpack" | "unpack_ref" | "unpack_n" => {
            let a = parse_bytes(args[0])?; let axis = parse_opt::<isize>(args[1]); let count = parse_opt::<isize>(args[2]);
            let order = parse_order(args[3])?;
            all_ways_w(&order, args[0].len() + args[1].len(), args[0].len() > 60_000, &|chained, o| unpack(&a, chained, axis, count, o))
        }
        "pack" | "pack_ref" | "pack_n" => {
            let a = parse_bytes(args[0])?; let axis = parse_opt::<isize>(args[1]); let order = parse_order(args[2])?;
            all_ways_w(&order, args[0].len() + args[1].len(), args[0].len() > 300_000, &|chained, o| pack(&a, chained, axis, o))
        }
        "roundtrip" | "roundtrip_ref" | "roundtrip_n" => {
            let a = parse_bytes(args[0])?; let axis = parse_opt::<isize>(args[1]); let order = parse_order(args[2])?;
            all_ways_w(&order, args[0].len() + args[1].len(), args[0].len() > 60_000, &|chained, o| roundtrip(&a, chained, axis, o))
        }
        "to_bit_order" => {
            let r = match parse_order(args[0])? {
                Order::Absent => return None,
                Order::Enum(o) => guarded(|| show_res(&o.to_bit_order(), |o| format!("{o:?}").to_lowercase())),
                Order::Str(s) => guarded(|| show_res(&s.as_str().to_bit_order(), |o| format!("{o:?}").to_lowercase())),
                Order::Owned(s) => guarded(|| show_res(&s.clone().to_bit_order(), |o| format!("{o:?}").to_lowercase())),
            };
            r
        }
        "binary_repr" | "repr_parse" => match args[0] {
            "u8" => repr_case!(u8, u8, args[1], op), "u16" => repr_case!(u16, u16, args[1], op),
            "u32" => repr_case!(u32, u32, args[1], op), "u64" => repr_case!(u64, u64, args[1], op),
            "usize" => repr_case!(usize, usize, args[1], op),
            "i8" => repr_case!(i8, u8, args[1], op), "i16" => repr_case!(i16, u16, args[1], op),
            "i32" => repr_case!(i32, u32, args[1], op), "i64" => repr_case!(i64, u64, args[1], op),
            "isize" => repr_case!(isize, usize, args[1], op),
            "bool" => {
                let v = match args[1] { "0" => false, "1" => true, _ => return None };
                let text = guarded(|| {
                    let t = Array::<bool>::binary_repr(v);
                    let via_result = <Result<Array<bool>, ArrayError> as ArrayBinary<bool>>::binary_repr(v);
                    let via_numeric = Numeric::binary_repr(&v);
                    if via_result != t || via_numeric != t { format!("DIVERGENCE binary_repr entry points disagree: `{t}` / `{via_result}` / `{via_numeric}`") } else { format!("ok {t}") }
                });
                if op == "binary_repr" { text } else {
                    match text.strip_prefix("ok ") { Some(t) => match u8::from_str_radix(t, 2) { Ok(u) if u < 2 => format!("ok {u}"), _ => "err parse".to_string() }, None => text }
                }
            }
            _ => return None,
        },
        _ => return None,
    };
    // the harness-native reference: compared with the model wherever it has an opinion; the huge `*_n` cases are compared with it alone
    let mut reference_answer: Option<String> = None;
    if is_array_op(op) {
        let reference = native_answer(op, args);
        if op.ends_with("_n") {
            let r = reference?;      // `*_n` lines are only generated where the reference has an opinion
            let shape_ok = match expected.strip_prefix("ok shape ") {
                Some(sh) => r.strip_prefix("ok ").and_then(|b| b.split_once(':')).map_or(false, |(s, _)| s == sh),
                None => class_of(expected) == "err" && class_of(&r) == "err",
            };
            if !shape_ok { return Some(Verdict::Mismatch { detail: format!("the harness-native reference (`{}`) and the model's outcome / shape answer `{expected}` disagree (reference or model defect)", truncate(&r, 200)), observed }); }
            ORACLE_ONLY.fetch_add(1, AtOrd::Relaxed);
            reference_answer = Some(r);
        } else if let Some(r) = reference {
            if r != expected && !(class_of(&r) == "err" && class_of(expected) == "err") {
                return Some(Verdict::Mismatch { detail: format!("the harness-native reference says `{}` but the model `{}` (reference or model defect)", truncate(&r, 300), truncate(expected, 300)), observed });
            }
            ORACLE_CHECKED.fetch_add(1, AtOrd::Relaxed);
            // part 3: the in-place comparison used for the giant cases, cross-checked here against the text comparison.  The same
            // plain call once more, judged by `diff_result` against the reference's structured answer: it must say "equal" exactly
            // when the observed text equals the reference text (every 7th case and every 2nd case above 200 bytes of array text)
            let tick = ORACLE_CHECKED.load(AtOrd::Relaxed);
            if ((args[0].len() > 200 && tick % 2 == 0) || tick % 7 == 0) && !observed.starts_with("DIVERGENCE") {
                if let (Some(structured), Some(res)) = (native_structured(op, args), plain_result(op, args)) {
                    let text_equal = observed == r || (class_of(&observed) == "err" && class_of(&r) == "err");
                    let in_place = match &res { Ok(x) => diff_result(x, &structured), Err(()) => Err("panic".to_string()) };
                    if in_place.is_ok() != text_equal {
                        return Some(Verdict::Mismatch { detail: format!("harness self-check: the in-place comparison says {:?} but the text comparison with the reference `{}` says equal={text_equal}", in_place, truncate(&r, 200)), observed });
                    }
                    DIFF_VALIDATED.fetch_add(1, AtOrd::Relaxed);
                }
            }
        } else { ORACLE_SILENT.fetch_add(1, AtOrd::Relaxed); }
    }
    // the property itself, independent of the model: the round trip returns the input
    // (by axis: bytes and shape; flat form: the bytes in flat order as a 1-D array)
    // (an empty input is answered by `Array::empty()` — shape [0] — in both operations; the theorems exclude zero-length axes,
    //  so there only the model's answer is compared)
    let empty_input = args[0].ends_with(":-");
    if base_op(op) == "roundtrip" && is_array_op(op) && !empty_input && class_of(&observed) == "ok" && observed != want_roundtrip(args[0], args[1]) {
        return Some(Verdict::Mismatch { detail: format!("pack_bits(unpack_bits(a)) is not a; model says `{}`", truncate(expected, 300)), observed });
    }
    if op == "repr_parse" && class_of(&observed) == "ok" && observed != format!("ok {}", args[1]) {
        return Some(Verdict::Mismatch { detail: format!("binary_repr does not parse back; model says `{expected}`"), observed });
    }
    if let Some(r) = reference_answer {
        return Some(if observed == r || (class_of(&observed) == "err" && class_of(&r) == "err") { Verdict::Match(observed) }
                    else { Verdict::Mismatch { detail: format!("the harness-native reference says `{}`; the model says `{expected}`", truncate(&r, 400)), observed } });
    }
    Some(compare_default(observed, expected))
}

// ------------------------------------------------------------------ generator

fn arr(shape: &[usize], vals: &[u8]) -> String { format!("{}:{}", show_list(shape), show_list(vals)) }
fn prod(s: &[usize]) -> usize { s.iter().product() }
const ORDERS_BIG: [&str; 4] = ["none", "E:big", "S:626967", "T:626967"];
const ORDERS_LITTLE: [&str; 3] = ["E:little", "S:6c6974746c65", "T:6c6974746c65"];

/// `none`, every axis, and its negative spelling
fn axes_of(rank: usize, k: usize) -> Vec<String> {
    let mut v = vec!["none".to_string()];
    for ax in 0..rank { v.push(if (ax + k) % 2 == 0 { ax.to_string() } else { (ax as isize - rank as isize).to_string() }); }
    v
}


// ------------------------------------------------------------------ robustness streams (sizes, lanes, thresholds)

/// the model's pipeline form of `apply_along_axis` is affordable up to this many elements by axis; above it the `_ref` ops
const PIPE_MAX: usize = 300;
/// `wide` = this call site may use the pipeline model up to PIPE_MAX elements (otherwise up to 150: ~0.2 s of model time per case above)
fn opname_w(base: &str, elems: usize, axis: &str, wide: bool) -> String {
    if axis != "none" && elems > (if wide { PIPE_MAX } else { 150 }) { format!("{base}_ref") } else { base.to_string() }
}
fn fill(kind: usize, n: usize, fx: &mut Rng) -> Vec<u8> {
    match kind % 3 {
        0 => (0..n).map(|i| ((i * 7 + 3) % 256) as u8).collect(),      // every byte value once n >= 256, asymmetric neighbours
        1 => (0..n).map(|_| fx.below(256) as u8).collect(),
        _ => (0..n).map(|i| [0x01u8, 0x80, 0xA5, 0x3C, 0xFE, 0x7F, 0x00, 0xFF, 0x10][i % 9]).collect(),   // period 9: never aligned with 8-byte groups
    }
}
fn bits_fill(kind: usize, n: usize, fx: &mut Rng) -> Vec<u8> {
    match kind % 4 {
        0 => (0..n).map(|_| fx.below(2) as u8).collect(),
        1 => (0..n).map(|i| ((i % 11 == 0) || (i % 7 == 3)) as u8).collect(),
        2 => (0..n).map(|_| *fx.pick(&[0u8, 0, 1, 1, 2, 7, 128, 255])).collect(),     // values > 1 count as set bits
        _ => { let mut v = vec![0u8; n]; v[n - 1] = 1; v[0] = 1; if n > 9 { v[n - 9] = 1; } v }
    }
}

fn robustness(thorough: bool, seed: u64, out: &mut dyn FnMut(String)) {
    let mut fx = Rng::new(0xB19);
    let mut k = 0usize;
    let spell = |little: bool, k: usize| if little { ORDERS_LITTLE[k % 3] } else { ORDERS_BIG[k % 4] };

    // (R1.a) flat byte arrays above 128 / 256 / 1024 / 4096 bytes, byte counts divisible by 8 and not; rank 1 also by axis
    let mut sizes: Vec<usize> = vec![8, 9, 16, 17, 64, 100, 120, 127, 128, 129, 135, 136, 144, 255, 256, 257, 264, 300, 512, 520, 1023, 1024, 1030, 1032, 2048, 2056, 4096, 4100];
    if thorough { sizes.extend([4104, 1016, 1040, 1536, 2047, 3000, 4095, 4097, 4112, 5000, 8192, 8200]); }
    for &n in &sizes {
        for little in [true, false] {
            k += 1;
            if n > 1100 && !little && (!thorough || n >= 8000) { continue; }
            let a = arr(&[n], &fill(k, n, &mut fx));
            out(format!("roundtrip {a} none {}", spell(little, k)));
            if n <= 1100 || thorough { out(format!("unpack {a} none none {}", spell(little, k + 1))); }
            if n <= 1100 || (thorough && little && n <= 5000 && n % 4 == 0) {
                let ax = if k % 2 == 0 { "0" } else { "-1" };
                out(format!("{} {a} {ax} {}", opname_w("roundtrip", n, ax, thorough || (little && [128, 136, 256, 264].contains(&n))), spell(little, k + 2)));
            }
            // the count argument on a long input: around the full length and around the 64-bit word boundaries
            if n == 128 || n == 264 || n == 1024 {
                let b = 8 * n as isize;
                for c in [b, b - 1, b + 1, b - 64, -1, -63, -64, -65, -b, -b - 1, 1, 63, 64, 65] { out(format!("unpack {a} none {c} {}", spell(little, k))); }
            }
        }
    }
    // (R1.b) the same lengths as LANES on every axis position
    let mut lanes: Vec<usize> = vec![128, 129, 135, 136, 144, 200, 256, 264, 512, 520, 1024, 1032];
    if thorough { lanes.extend([127, 160, 248, 272, 1016, 1040, 2048]); }
    for &l in &lanes {
        let mut forms: Vec<(Vec<usize>, isize)> = vec![(vec![2, l], 1), (vec![l, 2], 0), (vec![1, l], -1)];
        if l <= 600 || (thorough && l < 2048) { forms.extend([(vec![2, l], -1), (vec![l, 2], -2), (vec![l, 1], 0)]); }
        if l <= 300 { forms.extend([(vec![2, l, 2], 1), (vec![3, l], 1), (vec![l, 3], -2)]); }
        for (sh, ax) in forms {
            k += 1;
            let n = prod(&sh);
            let a = arr(&sh, &fill(k, n, &mut fx));
            let axs = ax.to_string();
            for little in [true, false] {
                if !little && (k % 3 != 0 || l >= 1024) && (!thorough || l >= 2048) { continue; }
                let wide = thorough || (little && l == 128 && sh.len() == 2 && sh.contains(&2));
                out(format!("{} {a} {axs} {}", opname_w("roundtrip", n, &axs, wide), spell(little, k)));
                if k % 2 == 0 && (l < 1024 || (thorough && l < 2048)) { out(format!("{} {a} {axs} none {}", opname_w("unpack", n, &axs, thorough), spell(little, k + 1))); }
            }
            // the other axis of the same array (short lanes) and the flat form
            if sh.len() == 2 && k % 4 == 0 && (l < 1024 || (thorough && l < 2048)) {
                let other = (1 - (ax + 2) % 2).to_string();
                out(format!("{} {a} {other} {}", opname_w("roundtrip", n, &other, thorough), spell(true, k)));
                out(format!("roundtrip {a} none {}", spell(true, k + 1)));
            }
        }
    }
    // lanes above 4096 bytes (reference lane semantics; ~2 s of model time each)
    let huge: Vec<(Vec<usize>, isize)> = if thorough { vec![(vec![1, 4104], 1), (vec![4096, 1], -2), (vec![2, 4096], -1), (vec![4100, 2], 0)] }
                                         else { vec![(vec![1, 4104], 1)] };
    for (sh, ax) in huge {
        k += 1;
        let a = arr(&sh, &fill(k, prod(&sh), &mut fx));
        out(format!("roundtrip_ref {a} {ax} {}", spell(true, k)));
        if thorough && prod(&sh) < 4200 { out(format!("roundtrip_ref {a} {ax} {}", spell(false, k))); }
    }
    // (R1.c) bit arrays around 128*8, 256*8, 1024*8, 4096*8 bits: flat, both orders, bits and values > 1
    let mut blens: Vec<usize> = vec![];
    for c in [1024usize, 2048, 8192] { blens.extend(c - 7..=c + 8); }
    blens.extend([504, 512, 520, 1088, 4096, 4100, 16384, 16385, 32767, 32768]);
    if thorough { blens.extend(32761..=32766); blens.extend(32769..=32776); blens.extend([65536, 65537]); blens.extend(4089..=4104); }
    for &len in &blens {
        for little in [true, false] {
            k += 1;
            if len > 10000 && !little && (!thorough || len % 8 != 0 || len > 40000) { continue; }
            let a = arr(&[len], &bits_fill(k, len, &mut fx));
            out(format!("pack {a} none {}", spell(little, k)));
            if len <= 9000 && k % 3 == 0 { let ax = if k % 2 == 0 { "0" } else { "-1" }; out(format!("{} {a} {ax} {}", opname_w("pack", len, ax, thorough), spell(little, k + 1))); }
        }
    }
    // ... and as lanes
    for len in [1024usize, 1031, 1032, 1088, 2048, 8192, 8200] {
        for (sh, ax) in [(vec![2, len], 1isize), (vec![len, 2], 0), (vec![len, 1], -2)] {
            k += 1;
            if len >= 8192 && sh[1] == 2 && !thorough { continue; }
            let n = prod(&sh);
            let a = arr(&sh, &bits_fill(k, n, &mut fx));
            out(format!("pack_ref {a} {ax} {}", spell(true, k)));
            if (k % 2 == 0 && len < 8192) || thorough { out(format!("pack_ref {a} {ax} {}", spell(false, k))); }
        }
    }
    if thorough {
        let a = arr(&[1, 32776], &bits_fill(0, 32776, &mut fx));
        out(format!("pack_ref {a} 1 {}", spell(true, k)));
        let a = arr(&[32768, 2], &bits_fill(0, 65536, &mut fx)); out(format!("pack_ref {a} 0 {}", spell(true, k + 1)));
    }

    // (R2) big_shapes(): axis lengths 7..17 in every position, element counts > 256 / 1024 / 4096; every axis and the flat form
    for sh in big_shapes() {
        let n = prod(&sh);
        let r = sh.len();
        k += 1;
        let a = arr(&sh, &fill(k, n, &mut fx));
        let flat_done = r == 1 && sizes.contains(&n);      // already in (R1.a)
        if !flat_done && (n <= 4200 || thorough) { out(format!("roundtrip {a} none {}", spell(true, k))); }
        if !flat_done && (n <= 2100 || thorough) { out(format!("roundtrip {a} none {}", spell(false, k))); }
        if n <= 1100 { out(format!("unpack {a} none none {}", spell(k % 2 == 0, k + 1))); }
        for ax in 0..r {
            let axs = if (ax + k) % 2 == 0 { ax.to_string() } else { (ax as isize - r as isize).to_string() };
            if n > 2100 && !thorough { continue; }      // quick: above 2100 elements by axis only the single 4104-byte lane of (R1.b)
            for little in [true, false] {
                if !little && !thorough && (n > 2100 || ax != k % r) { continue; }
                out(format!("{} {a} {axs} {}", opname_w("roundtrip", n, &axs, thorough || (little && ax == k % r)), spell(little, k + ax)));
            }
            if n <= 1300 { out(format!("{} {a} {axs} {} {}", opname_w("unpack", n, &axs, thorough), ["none", "-3", "11", "-8"][(k + ax) % 4], spell((k + ax) % 2 == 0, k))); }
            // thorough tier: the crate-pipeline model as well on the medium shapes
            if n > PIPE_MAX && n <= 1300 && thorough { out(format!("roundtrip {a} {axs} {}", spell(true, k + 1))); }
        }
        // bits of the same shape packed along every axis (lane lengths 7..17: one and two groups with padding)
        let b = arr(&sh, &bits_fill(k, n, &mut fx));
        out(format!("pack {b} none {}", spell(k % 2 == 0, k)));
        for ax in 0..r { if n <= 2100 || thorough || ax == k % r { out(format!("{} {b} {ax} {}", opname_w("pack", n, "0", thorough), spell((k + ax) % 2 == 1, k + ax))); } }
    }
    // the crate-pipeline model once on a lane above 2048 bytes (~10 s of model time)
    if thorough { let a = arr(&[2056], &fill(1, 2056, &mut fx)); out(format!("roundtrip {a} 0 E:little")); }

    // (R3) zero-length axes
    for sh in zero_shapes() {
        let a = arr(&sh, &[]);
        for ax in ["none", "0", "1", "2", "-1", "-3", "5"] {
            for o in ["none", "E:little", "T:6c6974746c65", "S:626f67757300"] {
                out(format!("unpack {a} {ax} none {o}"));
                out(format!("pack {a} {ax} {o}"));
                out(format!("roundtrip {a} {ax} {o}"));
            }
            for c in ["0", "3", "-3"] { out(format!("unpack {a} {ax} {c} E:big")); }
        }
    }

    // (R-seeded) random big inputs from the run's seed
    let mut rng = Rng::new(seed ^ 0x5EED_B19);
    let n_big = if thorough { 60 } else { 14 };
    let all_orders: Vec<&str> = ORDERS_BIG.iter().chain(ORDERS_LITTLE.iter()).copied().collect();
    for i in 0..n_big {
        let o = *rng.pick(&all_orders);
        match i % 4 {
            0 => { let n = 100 + rng.below(1200); let v: Vec<u8> = (0..n).map(|_| rng.below(256) as u8).collect(); out(format!("roundtrip {} none {o}", arr(&[n], &v))); }
            1 => {
                let l = 120 + rng.below(200); let m = 1 + rng.below(3);
                let (sh, ax) = if rng.below(2) == 0 { (vec![m, l], 1) } else { (vec![l, m], 0) };
                let v: Vec<u8> = (0..prod(&sh)).map(|_| rng.below(256) as u8).collect();
                out(format!("{} {} {ax} {o}", opname_w("roundtrip", prod(&sh), "0", false), arr(&sh, &v)));
            }
            2 => { let n = 1000 + rng.below(8000); let v: Vec<u8> = (0..n).map(|_| rng.below(2) as u8).collect(); out(format!("pack {} none {o}", arr(&[n], &v))); }
            _ => {
                let sh = vec![7 + rng.below(11), 7 + rng.below(11), 1 + rng.below(3)];
                let v: Vec<u8> = (0..prod(&sh)).map(|_| rng.below(256) as u8).collect();
                let ax = rng.range(-3, 2);
                out(format!("{} {} {ax} {o}", opname_w("roundtrip", prod(&sh), "0", false), arr(&sh, &v)));
            }
        }
    }
}


// ------------------------------------------------------------------ robustness streams, part 2 (hidden state, huge sizes, exact lengths)

/// rows (each of length l) laid out as the array [l, rows.len()] (the rows become the lanes along axis 0)
fn transposed(rows: &[Vec<u8>]) -> Vec<u8> {
    let l = rows[0].len();
    let mut v = Vec::with_capacity(l * rows.len());
    for j in 0..l { for r in rows { v.push(r[j]); } }
    v
}
fn bits_big(bytes: &[u8]) -> Vec<u8> { bytes.iter().flat_map(|b| (0..8).map(move |k| (b >> (7 - k)) & 1)).collect() }

/// a lane and variants of it that share a long suffix / prefix with it, or its multiset / sum / xor of values: a memo keyed by a weak
/// fingerprint of the lane (last or first 8 bytes, a checksum, length and order only) hands the wrong lane's answer to one of them
fn lane_family(l: usize, fx: &mut Rng, bits: bool) -> Vec<Vec<u8>> {
    let mut base: Vec<u8> = (0..l).map(|_| if bits { fx.below(2) as u8 } else { fx.below(256) as u8 }).collect();
    if bits { base[0] = 1; base[1] = 0; if l > 2 { base[2] = 1; } } else { base[1] = base[0] ^ 0x33; }
    let var = |f: &dyn Fn(&mut Vec<u8>)| { let mut v = base.clone(); f(&mut v); v };
    let flip = |x: &mut u8| { *x = if bits { 1 - (*x).min(1) } else { *x ^ 0x5A } };
    let early = var(&|v| flip(&mut v[0]));
    let early2 = var(&|v| flip(&mut v[l.saturating_sub(9)]));
    let late = var(&|v| flip(&mut v[l - 1]));
    let late2 = var(&|v| flip(&mut v[8.min(l - 1)]));
    let swap = var(&|v| v.swap(0, 1));
    let mut fam = vec![base.clone(), early, base.clone(), early2, late, base.clone(), late2, swap];
    if bits {
        fam.push(var(&|v| for x in v.iter_mut() { if *x > 0 { *x = 255; } }));      // the same bits spelled with other non-zero values
        fam.push(var(&|v| { v.rotate_left(1); }));
    } else {
        fam.push(var(&|v| { v[0] = v[0].wrapping_add(1); v[1] = v[1].wrapping_sub(1); }));   // same sum
        fam.push(var(&|v| { v[0] ^= 0x10; v[2.min(l - 1)] ^= 0x10; }));                    // same xor
        fam.push(var(&|v| v.reverse()));
    }
    fam.push(base);
    fam
}

fn robustness2(thorough: bool, seed: u64, out: &mut dyn FnMut(String)) {
    let mut fx = Rng::new(0xB193);
    let spell = |little: bool, k: usize| if little { ORDERS_LITTLE[k % 3] } else { ORDERS_BIG[k % 4] };
    let mut k = 0usize;

    // (H1) hidden state inside ONE call: consecutive lanes that share a long suffix / prefix (lane lengths 9..40 and longer)
    let lens: Vec<usize> = if thorough { (9..=40).chain([48, 64, 100, 129, 300]).collect() } else { vec![9, 10, 11, 12, 13, 15, 16, 17, 20, 24, 25, 31, 32, 33, 40, 64, 129] };
    for &l in &lens {
        let fam = lane_family(l, &mut fx, false);
        let r = fam.len();
        let rows: Vec<u8> = fam.concat();
        let cols = transposed(&fam);
        let bit_rows: Vec<Vec<u8>> = fam.iter().map(|b| bits_big(b)).collect();
        for little in [false, true] {
            k += 1;
            let (a, t) = (arr(&[r, l], &rows), arr(&[l, r], &cols));
            out(format!("{} {a} 1 none {}", opname_w("unpack", r * l, "1", false), spell(little, k)));
            out(format!("{} {t} 0 none {}", opname_w("unpack", r * l, "0", false), spell(little, k + 1)));
            out(format!("{} {a} -1 {}", opname_w("roundtrip", r * l, "1", false), spell(little, k + 2)));
            out(format!("{} {t} -2 {}", opname_w("roundtrip", r * l, "0", false), spell(little, k + 3)));
            if l <= 40 { out(format!("{} {a} 1 {} {}", opname_w("unpack", r * l, "1", false), [-3isize, 11, -8, 7][k % 4], spell(little, k))); }
            if l <= 40 || little {
                out(format!("{} {} 1 {}", opname_w("pack", r * l * 8, "1", false), arr(&[r, 8 * l], &bit_rows.concat()), spell(little, k)));
                if l <= 40 { out(format!("{} {} 0 {}", opname_w("pack", r * l * 8, "0", false), arr(&[8 * l, r], &transposed(&bit_rows)), spell(little, k + 1))); }
            }
        }
        // lanes of l BITS
        let bf = lane_family(l, &mut fx, true);
        let br = bf.len();
        for little in [false, true] {
            k += 1;
            out(format!("{} {} 1 {}", opname_w("pack", br * l, "1", false), arr(&[br, l], &bf.concat()), spell(little, k)));
            out(format!("{} {} -2 {}", opname_w("pack", br * l, "0", false), arr(&[l, br], &transposed(&bf)), spell(little, k + 1)));
        }
        // (H2) hidden state between CALLS: the same lanes as consecutive flat calls on one thread
        if l <= 64 || thorough {
            for little in [false, true] {
                k += 1;
                let o = spell(little, k);
                out(format!("seq {}", fam.iter().map(|b| format!("unpack {} none none {o}", arr(&[l], b))).collect::<Vec<_>>().join(" / ")));
                out(format!("seq {}", fam.iter().map(|b| format!("roundtrip {} none {o}", arr(&[l], b))).collect::<Vec<_>>().join(" / ")));
                out(format!("seq {}", bf.iter().map(|b| format!("pack {} none {o}", arr(&[l], b))).collect::<Vec<_>>().join(" / ")));
                if l <= 24 { out(format!("seq {}", bit_rows.iter().map(|b| format!("pack {} none {o}", arr(&[8 * l], b))).collect::<Vec<_>>().join(" / "))); }
                // one lane per call through the axis form
                out(format!("seq {}", fam.iter().enumerate().map(|(i, b)| if i % 2 == 0 { format!("unpack {} 1 none {o}", arr(&[1, l], b)) } else { format!("unpack {} 0 none {o}", arr(&[l, 1], b)) }).collect::<Vec<_>>().join(" / ")));
            }
            // the same array: another order, another count, another shape in between
            let a = &fam[0];
            let (b, l8) = (bits_big(a), 8 * l);
            out(format!("seq unpack {0} none none E:big / unpack {0} none none E:little / unpack {0} none none none / unpack {0} none none S:6c6974746c65 / unpack {0} none none T:626967", arr(&[l], a)));
            out(format!("seq pack {0} none E:big / pack {0} none E:little / pack {0} none none / pack {0} none T:6c6974746c65 / pack {0} none S:626967", arr(&[l8], &b)));
            out(format!("seq unpack {0} none none none / unpack {0} none -3 none / unpack {0} none 5 none / unpack {0} none none none / unpack {0} none {1} none / unpack {0} none -{1} none / unpack {0} none none none", arr(&[l], a), 8 * l + 1));
            out(format!("seq unpack {} 0 none none / unpack {} 1 none none / unpack {} 0 none none / unpack {} 1 none none / unpack {} none none none", arr(&[l], a), arr(&[1, l], a), arr(&[l, 1], a), arr(&[l, 1], a), arr(&[l, 1], a)));
            // (H4) refused calls directly followed by accepted ones on the same array
            out(format!("seq unpack {0} 5 none none / unpack {0} 0 none none / unpack {0} none none S:626f677573 / unpack {0} none none S:626967 / unpack {0} none -{1} none / unpack {0} none -3 none / pack {0} -2 none / pack {0} -1 none / pack {0} none T:4c6974746c65 / pack {0} none T:6c6974746c65 / roundtrip {0} 1 none / roundtrip {0} 0 none",
                        arr(&[l], a), 8 * l + 1));
        }
    }
    // (H3) shapes that collide under h*m+dim (lib collision_shape_pairs), back to back in both orders on one thread
    let pairs = collision_shape_pairs();
    for (i, (sa, sb)) in pairs.iter().enumerate() {
        if !thorough && i % 3 != (seed as usize) % 3 && prod(sb) > 150 { continue; }
        k += 1;
        let (na, nb) = (prod(sa), prod(sb));
        let (a, b) = (arr(sa, &fill(k, na, &mut fx)), arr(sb, &fill(k + 1, nb, &mut fx)));
        let (ba, bb) = (arr(sa, &bits_fill(k, na, &mut fx)), arr(sb, &bits_fill(k + 1, nb, &mut fx)));
        let r = sa.len();
        let ax = [(k % r) as isize, (k % r) as isize - r as isize][k % 2];
        let o = spell(k % 2 == 0, k);
        let u = |x: &str, n: usize| format!("{} {x} {ax} none {o}", opname_w("unpack", n, "0", false));
        let p = |x: &str, n: usize| format!("{} {x} {ax} {o}", opname_w("pack", n, "0", false));
        out(format!("seq {} / {} / {} / {}", u(&a, na), u(&b, nb), u(&a, na), u(&b, nb)));
        out(format!("seq {} / {} / {} / {}", p(&bb, nb), p(&ba, na), p(&bb, nb), p(&ba, na)));
        if i % 2 == 0 { out(format!("seq unpack {a} none none {o} / unpack {b} none none {o} / roundtrip {a} none {o} / roundtrip {b} none {o} / pack {ba} none {o} / pack {bb} none {o} / pack {ba} none {o}")); }
    }

    // (7) huge sizes.  Flat packing of 65 528 .. 1 120 000 bits (blocks of 2^16 - 1 bits are not byte aligned), flat round trips of
    //     8 191 .. 140 000 bytes, lanes of 8 192 .. 70 000 bytes, lib huge_shapes() along every axis.  `*_n`: values against the
    //     harness-native reference; a few cases at the thresholds with the full model answer.
    let mut pack_bits_n: Vec<usize> = (65528..=65545).collect();
    pack_bits_n.extend([131063, 131064, 131070, 131071, 131072, 131073, 131080, 196605, 196608, 262143, 262145, 560000, 1120000]);
    for &n in &pack_bits_n {
        for little in [true, false] {
            k += 1;
            if !little && n % 4 != 0 && !thorough { continue; }
            out(format!("pack_n {} none {}", arr(&[n], &bits_fill(k, n, &mut fx)), spell(little, k)));
        }
    }
    out(format!("pack {} none {}", arr(&[65537], &bits_fill(0, 65537, &mut fx)), spell(true, 1)));       // full model answer (~3 s)
    if thorough { out(format!("pack {} none {}", arr(&[65535], &bits_fill(1, 65535, &mut fx)), spell(false, 1))); }
    let mut rt_n: Vec<usize> = vec![8191, 8192, 8193, 8200, 16383, 16384, 16385, 33000, 70000, 140000];
    if thorough { rt_n.extend([8199, 12288, 24576, 32768, 65535, 65536, 65537]); }
    for &n in &rt_n {
        for little in [true, false] {
            k += 1;
            let a = arr(&[n], &fill(k, n, &mut fx));
            out(format!("roundtrip_n {a} none {}", spell(little, k)));
            if little { out(format!("unpack {a} none none {}", spell(k % 2 == 0, k))); }            // flat unpacking: the model is linear
            if n <= 16385 && little { out(format!("roundtrip_n {a} {} {}", [0, -1][k % 2], spell(false, k))); }
        }
    }
    if thorough { out(format!("roundtrip {} none {}", arr(&[8193], &fill(1, 8193, &mut fx)), spell(true, 2))); }        // full model answer (~3 s)
    let mut lanes_n: Vec<(Vec<usize>, isize)> = vec![(vec![1, 8192], 1), (vec![8192, 1], 0), (vec![2, 8193], -1), (vec![8200, 2], 0), (vec![3, 8192, 1], 1)];
    if thorough { lanes_n.extend(vec![(vec![1, 16384], -1), (vec![2, 8192, 2], 1), (vec![65536, 1], 0), (vec![1, 65537], 1), (vec![33000, 3], 0)]); }
    for (sh, ax) in &lanes_n {
        k += 1;
        let n = prod(sh);
        let a = arr(sh, &fill(k, n, &mut fx));
        out(format!("roundtrip_n {a} {ax} {}", spell(true, k)));
        out(format!("unpack_n {a} {ax} none {}", spell(false, k)));
        if n <= 20000 || thorough { out(format!("unpack_n {a} {ax} {} {}", [-5isize, 65529, -65529, 17][k % 4], spell(true, k + 1))); }
        // the bit lanes of 8 x that length are reached through the round trip; bit lanes of the same length directly
        out(format!("pack_n {} {ax} {}", arr(sh, &bits_fill(k, n, &mut fx)), spell(k % 2 == 0, k)));
    }
    // every axis of the huge shapes (and the threshold 2^14 in ranks 2..4): unpacking, the round trip, packing
    let mut hs = huge_shapes();
    hs.extend(vec![vec![128, 128], vec![1, 130, 130], vec![16384, 1], vec![1, 16384], vec![2, 8192], vec![4, 64, 64], vec![2, 2, 64, 64], vec![127, 129], vec![1, 1, 16385], vec![3, 5462]]);
    if !thorough { hs.retain(|s| ![vec![300, 300], vec![5, 4, 10, 10, 10], vec![2, 2, 64, 64], vec![1, 1, 16385], vec![3, 5462], vec![70000]].contains(s)); }
    for sh in &hs {
        let (n, r) = (prod(sh), sh.len());
        k += 1;
        let a = arr(sh, &fill(k, n, &mut fx));
        let b = arr(sh, &bits_fill(k, n, &mut fx));
        for ax in 0..r {
            let lane = sh[ax];
            if r == 1 && rt_n.contains(&n) { continue; }
            if n / lane > 5000 && !(thorough && n / lane <= 20000) { continue; }       // the crate itself is quadratic in the number of lanes (0.2 s per call at 16 384 lanes, 3 s at 70 000)
            let axs = if (ax + k) % 2 == 0 { ax.to_string() } else { (ax as isize - r as isize).to_string() };
            let little = (ax + k) % 2 == 0;
            out(format!("unpack_n {a} {axs} none {}", spell(little, k + ax)));
            if thorough || ax == 0 || ax == k % r { out(format!("roundtrip_n {a} {axs} {}", spell(!little, k + ax))); }
            if thorough || ax == (k + 1) % r { out(format!("pack_n {b} {axs} {}", spell(little, k + ax + 1))); }
            // the model itself (reference lane semantics, ~0.5 s each) at the 2^14 threshold
            if [(vec![128, 128], 0), (vec![1, 130, 130], 1), (vec![130, 130], 1)].contains(&(sh.clone(), ax)) || (thorough && lane <= 300 && n <= 17000 && n / lane <= 300) { out(format!("unpack_ref {a} {axs} none {}", spell(!little, k))); }
        }
        if r > 1 { out(format!("roundtrip_n {a} none {}", spell(true, k))); if thorough || n < 40000 { out(format!("pack_n {b} none {}", spell(false, k))); } }
    }

    // (8) exact lengths: every axis length 1..300 in a non-leading position (short lanes: model; long lanes: reference), the lengths
    //     31 / 37 / 49 / 1000 / 1001 and primes above 17 flat and as lanes
    for l in 1..=300usize {
        k += 1;
        let little = k % 2 == 0;
        let a2 = arr(&[2, l], &fill(k, 2 * l, &mut fx));
        let selected = l <= 40 || [49, 64, 97, 100, 127, 128, 129, 255, 256, 257, 300].contains(&l);
        out(format!("unpack_ref {a2} 0 none {}", spell(little, k)));                                         // lanes of 2 bytes, inner length l
        out(format!("{} {a2} 1 {}", if selected { "roundtrip_ref" } else { "roundtrip_n" }, spell(!little, k)));      // lanes of l bytes
        out(format!("{} {} 1 {}", if selected || l % 7 == 0 { "pack_ref" } else { "pack_n" }, arr(&[3, l], &bits_fill(k, 3 * l, &mut fx)), spell(little, k + 1)));
        if l % 3 == k % 3 || selected { out(format!("{} {} 1 none {}", if l <= 40 { "unpack_ref" } else { "unpack_n" }, arr(&[2, l, 2], &fill(k + 1, 4 * l, &mut fx)), spell(!little, k + 1))); }
        if thorough || l % 5 == 0 { out(format!("pack_n {} -2 {}", arr(&[2, l, 3], &bits_fill(k + 2, 6 * l, &mut fx)), spell(little, k))); }
    }
    for n in [19usize, 23, 29, 31, 37, 41, 43, 47, 49, 53, 97, 101, 251, 257, 1000, 1001] {
        for little in [true, false] {
            k += 1;
            let a = arr(&[n], &fill(k, n, &mut fx));
            out(format!("roundtrip {a} none {}", spell(little, k)));
            out(format!("pack {} none {}", arr(&[n], &bits_fill(k, n, &mut fx)), spell(little, k)));
            if little { out(format!("roundtrip_ref {} {} {}", arr(&[n, 2], &fill(k, 2 * n, &mut fx)), [0, -2][k % 2], spell(k % 2 == 0, k))); }
            else { out(format!("roundtrip_ref {} {} {}", arr(&[2, n], &fill(k, 2 * n, &mut fx)), [1, -1][k % 2], spell(k % 2 == 0, k))); }
        }
    }
    // (8) values that survive a narrowing cast: axis / count = c + 2^8, c + 2^16, c + 2^32 (and negated) must be refused like any other
    //     out-of-range value
    for (sh, cs) in [(vec![3usize], vec![0usize, 5, 24]), (vec![2, 2], vec![0, 1, 16]), (vec![2, 1, 3], vec![1, 2, 8])] {
        let n = prod(&sh);
        let a = arr(&sh, &fill(3, n, &mut fx));
        let b = arr(&sh, &bits_fill(3, n, &mut fx));
        for &c in &cs {
            for im in narrowing_images(c) {
                for v in [im as i128, -(im as i128), -(im as i128) - 1] {
                    out(format!("unpack {a} {v} none none")); out(format!("pack {b} {v} E:little")); out(format!("roundtrip {a} {v} none"));
                    out(format!("unpack {a} none {v} none")); out(format!("unpack {a} 0 {v} E:little")); out(format!("unpack {a} -1 {v} none"));
                }
            }
        }
    }
    // (10) counts above 65 536 on long inputs
    {
        let n = 8200usize;
        let a = arr(&[n], &fill(5, n, &mut fx));
        for c in [65535isize, 65536, 65537, 65599, 65600, 65601, -1, -63, -65535, -65536, -65537, -65599, -65600, -65601] { k += 1; out(format!("unpack {a} none {c} {}", spell(k % 2 == 0, k))); }
    }
    // (10) ranks 5..8: reference lane semantics of the model (its pipeline form is tied on ranks <= 4)
    let mut high: Vec<Vec<usize>> = vec![vec![2, 2, 2, 2, 2], vec![1, 2, 1, 2, 1, 3], vec![2, 1, 1, 2, 2, 1, 2], vec![2, 2, 1, 1, 2, 1, 1, 2], vec![3, 1, 2, 1, 9], vec![1, 1, 1, 1, 1, 1, 1, 9]];
    if thorough { high.extend(vec![vec![2, 2, 2, 2, 2, 2], vec![2, 2, 2, 2, 2, 2, 2], vec![2, 2, 2, 2, 2, 2, 2, 2], vec![2, 3, 1, 3, 2, 1, 2], vec![1, 2, 3, 1, 2, 3, 1, 2]]); }
    for sh in &high {
        let (n, r) = (prod(sh), sh.len());
        k += 1;
        let a = arr(sh, &fill(k, n, &mut fx));
        let b = arr(sh, &bits_fill(k, n, &mut fx));
        out(format!("roundtrip {a} none {}", spell(true, k)));
        for ax in 0..r {
            let axs = if (ax + k) % 2 == 0 { ax.to_string() } else { (ax as isize - r as isize).to_string() };
            out(format!("roundtrip_ref {a} {axs} {}", spell((ax + k) % 2 == 0, k)));
            out(format!("unpack_ref {a} {axs} {} {}", ["none", "-3", "5"][(ax + k) % 3], spell((ax + k) % 2 == 1, k)));
            out(format!("pack_ref {b} {axs} {}", spell((ax + k) % 2 == 0, k + 1)));
        }
        for ax in [r as isize, -(r as isize) - 1] { out(format!("unpack_ref {a} {ax} none none")); out(format!("pack_ref {b} {ax} none")); }
    }
}

// ------------------------------------------------------------------ robustness streams, part 3 (giant sizes, value relations, wrapping coordinates)

fn thue_morse(n: usize) -> Vec<u8> { (0..n).map(|i| (i.count_ones() % 2) as u8).collect() }
fn rev8(b: u8) -> u8 { b.reverse_bits() }

fn robustness3(thorough: bool, seed: u64, out: &mut dyn FnMut(String)) {
    let spell = |little: bool, k: usize| if little { ORDERS_LITTLE[k % 3] } else { ORDERS_BIG[k % 4] };
    let mut fx = Rng::new(0xB194);
    let mut k = 0usize;
    let g = |sh: &[usize], pat: &str, both: bool| format!("{}:@{pat}{}", show_list(sh), if both { "+" } else { "" });
    const M: usize = 1 << 20;

    // (11.a) flat packing above 2^20 / 2^21 / 2^23 / 2^24 BITS: final groups of 1..7 bits, lengths that f32 cannot represent
    //        (2^24 + odd: the nearest f32 is even; 2^24+1 and 2^24+9 round DOWN, 2^24+3 and 2^24+7 round up)
    let mut pf: Vec<usize> = vec![M + 1, M + 7, 2 * M + 9, 8 * M + 1, 16 * M + 1, 16 * M + 9, 16 * M + 3];
    if thorough { pf.extend([M - 1, M, M + 8, M + 64, M + 65, 2 * M + 1, 3 * M + 5, 4 * M + 3, 8 * M + 8, 12 * M + 11]); pf.extend(16 * M - 7..=16 * M + 17); pf.extend([16 * M + 25, 16 * M + 33, 17 * M + 1]); pf.sort(); pf.dedup(); }
    for &n in &pf {
        k += 1;
        let pats = ["b0", "b3", "b1", "b2", "b4"];
        out(format!("pack_g {} none {}", g(&[n], pats[k % 5], n == 16 * M + 1 || (thorough && (n < 16 * M - 7 || n > 16 * M + 17))), spell(k % 2 == 0, k)));
        if thorough && n % 8 == 1 { out(format!("pack_g {} none {}", g(&[n], pats[(k + 1) % 5], true), spell(k % 2 == 1, k))); }
    }
    // (11.b) the same lengths as LANES (ranks 2..4; first / middle / last axis; extents that are / are not multiples of 64)
    let mut pl: Vec<(Vec<usize>, isize)> = vec![(vec![1, 16 * M + 1], 1), (vec![2, M + 7], -1), (vec![M + 9, 2], 0)];
    if thorough { pl.extend(vec![(vec![16 * M + 9, 1], 0), (vec![1, 16 * M + 9, 1], 1), (vec![2, 8 * M + 1], 1), (vec![1, 2, M + 64, 1], 2), (vec![3, M + 1], -1), (vec![M + 65, 3], -2), (vec![1, 1, 1, 16 * M + 1], -1), (vec![2, 4 * M + 3, 2], 1)]); }
    for (sh, ax) in &pl {
        k += 1;
        out(format!("pack_g {} {ax} {}", g(sh, ["b0", "b1", "b2", "b3"][k % 4], false), spell(k % 2 == 0, k)));      // one call (~1.5 s at 2^24 bits by axis)
    }
    // (11.c) flat unpacking above 2^20 / 2^21 BYTES (2^23 / 2^24 bits), byte counts that are / are not multiples of 2^20 and of 64; the
    //        count argument at lengths f32 cannot represent, around the full length, and refused
    let mut uf: Vec<(usize, &str)> = vec![(M + 1, "none"), (M + 5, "none"), (M + 64, "-3"), (2 * M + 1, "none"), (2 * M + 3, "16777217"), (2 * M + 3, "-7")];
    if thorough {
        uf.extend([(M - 1, "none"), (M, "none"), (M + M / 2 + 3, "none"), (2 * M, "none"), (3 * M + 7, "none"), (2 * M + 3, "16777225"), (2 * M + 3, "-15"), (2 * M + 3, "16777219"), (2 * M + 3, "16777239"),
                   (2 * M + 3, "16777240"), (2 * M + 3, "16777241"), (2 * M + 3, "-16777240"), (2 * M + 3, "-16777241"), (M + 5, "8388647"), (M + 5, "8388649"), (M + 5, "-8388647"), (M + 5, "1"), (M + 5, "0"), (M + 5, "8388609")]);
    }
    for (n, c) in &uf {
        k += 1;
        out(format!("unpack_g {} none {c} {}", g(&[*n], ["p0", "p1", "p2", "p3"][k % 4], thorough), spell(k % 2 == 0, k)));
    }
    // a flat call on arrays of rank 2..4 (the flat form ravels)
    let mut ur: Vec<Vec<usize>> = vec![vec![3, 349_527]];
    if thorough { ur.extend(vec![vec![1025, 1, 1023], vec![2, 3, 5, 34_953], vec![M + 3, 1]]); }
    for sh in &ur { k += 1; out(format!("unpack_g {} none none {}", g(sh, "p1", thorough), spell(k % 2 == 0, k))); out(format!("roundtrip_g {} none {}", g(sh, "p0", false), spell(k % 2 == 1, k))); }
    // (11.d) unpacking lanes above 2^20 bytes
    let mut ul: Vec<(Vec<usize>, isize, &str)> = vec![(vec![1, M + 5], 1, "none"), (vec![M + 3, 1], 0, "none")];
    if thorough { ul.extend(vec![(vec![2, M + 7], -1, "-5"), (vec![M + 64, 2], 0, "none"), (vec![1, 2, M + 5, 1], 2, "none"), (vec![2, M + 1, 1], -2, "8388609"), (vec![1, 2 * M + 3], 1, "16777217"), (vec![2 * M + 1, 1], -2, "none")]); }
    for (sh, ax, c) in &ul {
        k += 1;
        out(format!("unpack_g {} {ax} {c} {}", g(sh, ["p0", "p1", "p2", "p3"][k % 4], false), spell(k % 2 == 0, k)));
    }
    // (11.e) the round trip at giant sizes, flat and by axis (the packing half sees 2^23 + 40 .. 2^24 + 8 bits)
    let mut rt: Vec<(Vec<usize>, &str)> = vec![(vec![M + 5], "none"), (vec![2 * M + 1], "none")];
    if thorough { rt.extend(vec![(vec![1, M + 5], "-1"), (vec![M + 1, 1], "0"), (vec![2, M + 3], "1"), (vec![M + M / 2 + 1], "none"), (vec![1, 1, M + 65], "2")]); }
    for (sh, ax) in &rt {
        k += 1;
        out(format!("roundtrip_g {} {ax} {}", g(sh, ["p0", "p1", "p3"][k % 3], thorough && *ax == "none"), spell(k % 2 == 0, k)));
    }
    // (11.f) lib giant_shapes() and rank-4 shapes above 2^20 elements along every axis with at most 17 000 lanes (the crate's
    //        apply_along_axis is quadratic in the number of lanes); the quick tier rotates through them with the seed
    let mut gs = giant_shapes();
    gs.extend(vec![vec![2, 3, 64, 2731], vec![1, 2, 524_289, 1], vec![4, 16, 129, 128]]);
    let mut slot = 0usize;
    for sh in &gs {
        let (n, r) = (prod(sh), sh.len());
        for ax in 0..r {
            if n / sh[ax] > 17_000 { continue; }
            k += 1; slot += 1;
            let axs = if k % 2 == 0 { ax.to_string() } else { (ax as isize - r as isize).to_string() };
            let mine = thorough || slot % 5 == (seed as usize) % 5;
            if mine { out(format!("unpack_g {} {axs} {} {}", g(sh, ["p0", "p1", "p2"][k % 3], false), if k % 3 == 0 { "-3" } else { "none" }, spell(k % 2 == 0, k))); }
            if thorough || slot % 3 == (seed as usize) % 3 { out(format!("pack_g {} {axs} {}", g(sh, ["b0", "b1", "b2", "b4"][k % 4], thorough && n / sh[ax] <= 5000), spell(k % 2 == 1, k))); }
            if thorough && n / sh[ax] <= 100 { out(format!("roundtrip_g {} {axs} {}", g(sh, "p1", false), spell(k % 2 == 1, k + 1))); }
        }
    }
    // refused giant calls (the checks come before any work)
    out(format!("unpack_g {} 1 none none", g(&[M + 5], "p0", true)));
    out(format!("pack_g {} none S:4c6974746c65", g(&[M + 5], "b0", true)));
    out(format!("unpack_g {} none {} none", g(&[M + 5], "p0", true), 8 * (M + 5) + 1));
    out(format!("unpack_g {} -1 -{} E:little", g(&[2, M + 5], "p0", thorough), 8 * (M + 5) + 1));

    // (13) values related in a way random data never is
    // constant sources (every accepted value of a set / clear bit), flat and as lanes
    for v in [0u8, 1, 2, 128, 255] {
        for l in [1usize, 7, 8, 9, 16, 17, 63, 64, 65, 1024, 1025] {
            k += 1;
            out(format!("pack {} none {}", arr(&[l], &vec![v; l]), spell(k % 2 == 0, k)));
            if [8, 9, 64, 65].contains(&l) {
                out(format!("{} {} 1 {}", opname_w("pack", 2 * l, "1", false), arr(&[2, l], &vec![v; 2 * l]), spell(k % 2 == 1, k)));
                out(format!("{} {} 0 {}", opname_w("pack", 3 * l, "0", false), arr(&[l, 3], &vec![v; 3 * l]), spell(k % 2 == 0, k + 1)));
            }
        }
    }
    for v in [0x00u8, 0xFF, 0x80, 0x01, 0xAA, 0x55, 0x0F, 0xF0, 0x81, 0x18, 0xE7] {
        for l in [1usize, 2, 8, 9, 64, 65, 1024, 1025] {
            k += 1;
            if l > 1000 && !thorough && ![0x00u8, 0xFF, 0x01].contains(&v) { continue; }      // ~80 ms of model time each
            let a = arr(&[l], &vec![v; l]);
            out(format!("roundtrip {a} none {}", spell(k % 2 == 0, k)));
            out(format!("unpack {a} none {} {}", ["none", "-1", "9"][k % 3], spell(k % 2 == 1, k)));
            if l == 9 || l == 65 { out(format!("roundtrip {} 1 {}", arr(&[2, l], &vec![v; 2 * l]), spell(k % 2 == 0, k + 1))); out(format!("unpack {} 0 none {}", arr(&[l, 2], &vec![v; 2 * l]), spell(k % 2 == 1, k + 1))); }
        }
    }
    // the same bits spelled with different non-zero values (equal as bits, not identical), back to back and as neighbouring lanes
    for l in [9usize, 17, 64, 65, 1024, 1031] {
        k += 1;
        let base = bits_fill(0, l, &mut fx);
        let twins: Vec<Vec<u8>> = vec![base.clone(), base.iter().map(|b| b * 255).collect(), base.iter().map(|b| b * 2).collect(), base.iter().map(|b| b * 128).collect(),
                                       base.iter().enumerate().map(|(i, b)| b * [1u8, 3, 64, 200, 255][i % 5]).collect(), base.clone()];
        for little in [false, true] {
            let o = spell(little, k);
            out(format!("seq {}", twins.iter().map(|t| format!("pack {} none {o}", arr(&[l], t))).collect::<Vec<_>>().join(" / ")));
            out(format!("{} {} 1 {o}", opname_w("pack", twins.len() * l, "1", false), arr(&[twins.len(), l], &twins.concat())));
            out(format!("{} {} 0 {o}", opname_w("pack", twins.len() * l, "0", false), arr(&[l, twins.len()], &transposed(&twins))));
        }
    }
    // palindromic bytes (both orders unpack alike) next to their neighbours, and an array next to its bit-reversed twin in the other order
    for l in [3usize, 9, 16, 65, 257] {
        k += 1;
        let pal: Vec<u8> = (0..l).map(|i| [0x81u8, 0x18, 0x99, 0xC3, 0xE7, 0x00, 0xFF, 0x5A, 0xA5, 0x66][i % 10]).collect();
        let any: Vec<u8> = fill(1, l, &mut fx);
        let twin: Vec<u8> = any.iter().map(|b| rev8(*b)).collect();
        let (p, a, t) = (arr(&[l], &pal), arr(&[l], &any), arr(&[l], &twin));
        out(format!("seq unpack {p} none none E:big / unpack {p} none none E:little / unpack {a} none none E:big / unpack {t} none none E:little / unpack {a} none none E:little / unpack {t} none none E:big / roundtrip {p} none E:little / roundtrip {t} none S:626967"));
        out(format!("{} {} 1 none E:little", opname_w("unpack", 3 * l, "1", false), arr(&[3, l], &[pal.clone(), any.clone(), twin.clone()].concat())));
        out(format!("{} {} 1 E:little", opname_w("roundtrip", 3 * l, "1", false), arr(&[3, l], &[any.clone(), twin.clone(), pal.clone()].concat())));
    }
    // periodic / self-similar patterns: Thue-Morse bits and their complement, words of period 7 / 8 / 9 / 64, bytes of period 8 / 64 / 1024
    for l in [64usize, 1024, 1031, 4096, 4101] {
        k += 1;
        let tm = thue_morse(l);
        let co: Vec<u8> = tm.iter().map(|b| 1 - b).collect();
        for little in [false, true] {
            let o = spell(little, k);
            out(format!("seq pack {} none {o} / pack {} none {o} / pack {} none {o}", arr(&[l], &tm), arr(&[l], &co), arr(&[l], &tm)));
            if l <= 1031 {
                out(format!("pack_ref {} 1 {o}", arr(&[2, l], &[tm.clone(), co.clone()].concat())));
                out(format!("pack_ref {} 0 {o}", arr(&[l, 2], &transposed(&[tm.clone(), co.clone()]))));
            }
        }
        for per in [7usize, 8, 9, 64] {
            let w: Vec<u8> = (0..l).map(|i| ((i % per) * 5 % 3 == 0) as u8).collect();
            out(format!("pack {} none {}", arr(&[l], &w), spell(per % 2 == 0, k)));
        }
    }
    for (l, per) in [(1024usize, 8usize), (1030, 8), (1030, 64), (2056, 1024), (4100, 1024)] {
        k += 1;
        if l > 4000 && !thorough { continue; }
        let v: Vec<u8> = (0..l).map(|i| ((i % per) * 37 % 251) as u8 ^ 0x80).collect();
        out(format!("roundtrip {} none {}", arr(&[l], &v), spell(k % 2 == 0, k)));
        out(format!("unpack {} none -5 {}", arr(&[l], &v), spell(k % 2 == 1, k)));
    }

    // (15) counts and axes whose product with 8 (bits per byte) / with the rank wraps modulo 2^64 into the accepted range:
    //      k * 2^61 + c, k * 2^60 + c, the isize limits
    for (sh, cs) in [(vec![3usize], vec![0i128, 5, 24]), (vec![2, 2], vec![1, 16]), (vec![2, 1, 3], vec![2, 8])] {
        let n = prod(&sh);
        let a = arr(&sh, &fill(4, n, &mut fx));
        let b = arr(&sh, &bits_fill(1, n, &mut fx));
        let mut vals: Vec<i128> = vec![i64::MAX as i128, i64::MIN as i128, i64::MIN as i128 + 1, i64::MAX as i128 - 1, (1i128 << 63) - 8, -(1i128 << 63) + 8];
        for &c in &cs { for kk in [1i128, 2, 3] { for e in [60u32, 61, 62] { let v = kk * (1i128 << e) + c; vals.extend([v, -v, -v - 1]); } } }
        vals.retain(|v| *v >= i64::MIN as i128 && *v <= i64::MAX as i128); vals.sort(); vals.dedup();
        for v in vals {
            out(format!("unpack {a} none {v} none")); out(format!("unpack {a} 0 {v} E:little")); out(format!("unpack {a} -1 {v} none"));
            out(format!("unpack {a} {v} none none")); out(format!("pack {b} {v} E:little")); out(format!("roundtrip {a} {v} none"));
        }
    }
}

fn gen(tier: &str, seed: u64, out: &mut dyn FnMut(String)) {
    let mut buf: Vec<String> = vec![];
    gen_all(tier, seed, &mut |l| buf.push(l));
    // two bookkeeping lines: how often the harness-native reference was compared with the model.  The first one sits where the
    // summary of lib.rs takes its last sample (so that the count shows up in the evidence), the second one closes the run.
    let stride = ((buf.len() + 2) / 12).max(1);
    let at = (11 * stride).min(buf.len());
    buf.insert(at, "oracle_report".to_string());
    buf.push("oracle_report final".to_string());
    for l in buf { out(l); }
}

fn gen_all(tier: &str, seed: u64, out: &mut dyn FnMut(String)) {
    let thorough = tier == "thorough";
    // (i) corpus
    for l in ["unpack 3:2,3,5 none -3 none", "unpack 1:255 none -1 E:little", "unpack 2,2:1,2,3,4 1 -2 none",
              "unpack 3:2,3,5 none -25 none", "pack 3,8:0,0,0,0,0,0,1,0,0,0,0,0,0,0,1,1,0,0,0,0,0,1,0,1 0 none",
              "roundtrip 2,9:1,10,20,30,40,50,60,70,80,2,10,20,30,40,50,60,70,80 1 S:626967",
              "seq unpack 9:1,10,20,30,40,50,60,70,80 none none none / unpack 9:2,10,20,30,40,50,60,70,80 none none none"] { out(l.to_string()); }

    // (ii.a) every byte value, alone, in every order spelling
    for b in 0..=255u8 {
        for o in ORDERS_BIG.iter().chain(ORDERS_LITTLE.iter()) {
            out(format!("unpack 1:{b} none none {o}"));
            out(format!("roundtrip 1:{b} none {o}"));
            out(format!("roundtrip 1:{b} 0 {o}"));
        }
    }
    // (ii.b) every shape of rank <= 3, len <= 3, filled so that every byte value occurs in every shape;
    //        every axis (both spellings) and the flat form, both orders (spelling rotates)
    let mut k = 0usize;
    let mut scope = shapes(1, 3, 1, 3);
    // beyond the stated rank: rank 4 (the repaired `apply_along_axis` arm)
    scope.extend(if thorough { shapes(4, 4, 1, 2) } else { vec![vec![2, 1, 2, 2], vec![1, 2, 2, 1], vec![2, 2, 2, 2]] });
    if thorough { scope.extend(vec![vec![2, 3, 1, 2], vec![3, 2, 2, 3], vec![1, 3, 3, 2]]); }
    for s in scope {
        let n = prod(&s);
        let fills = (256 + n - 1) / n;
        for f in 0..fills {
            let vals: Vec<u8> = (0..n).map(|i| ((f * n + i) % 256) as u8).collect();
            let a = arr(&s, &vals);
            for ax in axes_of(s.len(), k) {
                k += 1;
                let (ob, ol) = (ORDERS_BIG[k % 4], ORDERS_LITTLE[k % 3]);
                for o in [ob, ol] {
                    out(format!("unpack {a} {ax} none {o}"));
                    out(format!("roundtrip {a} {ax} {o}"));
                }
            }
        }
    }
    // (ii.c) packing bit arrays of every length 1..40 (flat), incl. values > 1 that count as set bits
    let mut fx = Rng::new(0xC19);
    for len in 1..=40usize {
        let mut pats: Vec<Vec<u8>> = vec![vec![0; len], vec![1; len], (0..len).map(|i| (i % 2) as u8).collect(), (0..len).map(|i| ((i + 1) % 2) as u8).collect()];
        for p in 0..len { let mut v = vec![0u8; len]; v[p] = 1; pats.push(v); }
        for _ in 0..4 { pats.push((0..len).map(|_| fx.below(2) as u8).collect()); }
        pats.push((0..len).map(|_| *fx.pick(&[0u8, 1, 2, 7, 128, 255])).collect());
        for v in pats {
            for o in ["none", "E:little", "S:626967", "T:6c6974746c65"] { out(format!("pack {len}:{} none {o}", show_list(&v))); }
            out(format!("pack {len}:{} 0 E:big", show_list(&v)));
            out(format!("pack {len}:{} -1 E:little", show_list(&v)));
        }
    }
    // (ii.d) packing along every axis: lanes of length L on each axis position
    let lens: Vec<usize> = if thorough { (1..=40).collect() } else { vec![1, 2, 7, 8, 9, 15, 16, 17, 24, 33, 40] };
    for &l in &lens {
        for s in [vec![l, 2], vec![2, l], vec![2, l, 2], vec![l, 1, 3], vec![1, 2, l]] {
            let vals: Vec<u8> = (0..prod(&s)).map(|_| fx.below(2) as u8).collect();
            for ax in axes_of(s.len(), l) {
                out(format!("pack {} {ax} E:big", arr(&s, &vals)));
                out(format!("pack {} {ax} S:6c6974746c65", arr(&s, &vals)));
            }
        }
    }
    // (ii.e) the `count` argument: every value from "more than all bits" negative to positive, flat and by axis
    for s in [vec![1], vec![2], vec![3]] {
        let n = prod(&s) as isize;
        let vals: Vec<u8> = (0..prod(&s)).map(|i| [0xA5u8, 0x3C, 0x01][i]).collect();
        for c in -(8 * n + 2)..=(8 * n + 2) {
            for o in ["none", "E:little"] { out(format!("unpack {} none {c} {o}", arr(&s, &vals))); }
            out(format!("unpack {} 0 {c} E:big", arr(&s, &vals)));
        }
    }
    for s in [vec![2, 2], vec![1, 3], vec![2, 1, 2]] {
        let vals: Vec<u8> = (0..prod(&s)).map(|_| fx.below(256) as u8).collect();
        for ax in axes_of(s.len(), 0) {
            for c in [-30isize, -17, -16, -9, -8, -7, -1, 0, 1, 7, 8, 9, 15, 16, 17, 24, 25] {
                out(format!("unpack {} {ax} {c} E:big", arr(&s, &vals)));
                out(format!("unpack {} {ax} {c} S:6c6974746c65", arr(&s, &vals)));
            }
        }
    }
    // (ii.f) `BitOrder` spellings
    for w in ["big", "little", "Big", "BIG", "Little", "LITTLE", "", " ", " big", "big ", "bigg", "bi", "b", "l", "litle", "littl", "little\n", "err", "msb", "0", "b\u{ed}g"] {
        for p in ["S", "T"] {
            out(format!("to_bit_order {p}:{}", hex(w)));
            out(format!("unpack 2:3,200 none none {p}:{}", hex(w)));
            out(format!("pack 3:1,0,1 none {p}:{}", hex(w)));
            out(format!("pack 2,3:1,0,1,1,1,0 1 {p}:{}", hex(w)));
            out(format!("unpack 0:- none none {p}:{}", hex(w)));
        }
    }
    out("to_bit_order E:big".into()); out("to_bit_order E:little".into());
    // (iv) malformed: axis out of range, empty arrays
    for s in shapes(1, 3, 1, 2) {
        let vals: Vec<u8> = (0..prod(&s)).map(|i| (37 * i + 11) as u8).collect();
        let r = s.len() as isize;
        for ax in [r, r + 1, -r - 1, -r - 2, 100, -100] {
            out(format!("unpack {} {ax} none none", arr(&s, &vals)));
            out(format!("pack {} {ax} none", arr(&s, &vals)));
        }
    }
    for s in [vec![0], vec![0, 2], vec![2, 0]] {
        for ax in ["none", "0", "1", "5"] {
            out(format!("unpack {} {ax} none none", arr(&s, &[])));
            out(format!("pack {} {ax} E:little", arr(&s, &[])));
            out(format!("unpack {} {ax} -3 none", arr(&s, &[])));
        }
    }
    robustness(thorough, seed, out);
    robustness2(thorough, seed, out);
    robustness3(thorough, seed, out);
    // (ii.g) binary_repr
    for ty in ["u8", "i8"] {
        let (lo, hi) = if ty == "u8" { (0i64, 255) } else { (-128, 127) };
        for v in lo..=hi { out(format!("binary_repr {ty} {v}")); out(format!("repr_parse {ty} {v}")); }
    }
    out("binary_repr bool 0".into()); out("binary_repr bool 1".into()); out("repr_parse bool 0".into()); out("repr_parse bool 1".into());
    let step = if thorough { 1 } else { 97 };
    let mut v = -32768i64; while v <= 32767 { out(format!("binary_repr i16 {v}")); out(format!("repr_parse i16 {v}")); v += step; }
    let mut v = 0i64; while v <= 65535 { out(format!("binary_repr u16 {v}")); out(format!("repr_parse u16 {v}")); v += step; }
    for (ty, lo, hi) in [("i32", i32::MIN as i128, i32::MAX as i128), ("u32", 0, u32::MAX as i128), ("i64", i64::MIN as i128, i64::MAX as i128),
                         ("isize", i64::MIN as i128, i64::MAX as i128), ("u64", 0, u64::MAX as i128), ("usize", 0, u64::MAX as i128), ("i16", -32768, 32767), ("u16", 0, 65535)] {
        let mut vs: Vec<i128> = vec![lo, lo + 1, lo + 2, hi, hi - 1, hi - 2, 0, 1, 2, 3, -1, -2, -3];
        for e in 0..64 { let p = 1i128 << e; vs.extend([p - 1, p, p + 1, -p - 1, -p, -p + 1]); }
        vs.retain(|v| lo <= *v && *v <= hi); vs.sort(); vs.dedup();
        for v in vs { out(format!("binary_repr {ty} {v}")); out(format!("repr_parse {ty} {v}")); }
    }

    // values beyond 2^53 (where an f64 round trip loses bits) and next to the type limits, every 64-bit type
    for ty in ["i64", "isize", "u64", "usize"] {
        let signed = ty.starts_with('i');
        let hi: i128 = if signed { i64::MAX as i128 } else { u64::MAX as i128 };
        let lo: i128 = if signed { i64::MIN as i128 } else { 0 };
        let mut vs: Vec<i128> = vec![];
        for d in 0..=6i128 { vs.extend([(1i128 << 53) + d, (1i128 << 53) - d, -(1i128 << 53) - d, -(1i128 << 53) + d, hi - d, lo + d, (1i128 << 62) + d, (1i128 << 63) + d, (1i128 << 63) - d, (1i128 << 54) + 2 * d + 1]); }
        vs.extend([1234567890123456789, -1234567890123456789, 9007199254740993, 18014398509481985, 0x5555_5555_5555_5555, 0xAAAA_AAAA_AAAA_AAAAu64 as i128, 0x0123_4567_89AB_CDEF, 0xFEDC_BA98_7654_3211u64 as i128]);
        vs.retain(|v| lo <= *v && *v <= hi); vs.sort(); vs.dedup();
        for v in vs { out(format!("binary_repr {ty} {v}")); out(format!("repr_parse {ty} {v}")); }
    }
    // seeded full-range values of every integer type
    let mut rr = Rng::new(seed ^ 0xB1_0B5);
    let n_repr = if thorough { 1500 } else { 150 };
    for (ty, lo, hi) in [("i8", -128i128, 127i128), ("u8", 0, 255), ("i16", -32768, 32767), ("u16", 0, 65535), ("i32", i32::MIN as i128, i32::MAX as i128), ("u32", 0, u32::MAX as i128),
                         ("i64", i64::MIN as i128, i64::MAX as i128), ("isize", i64::MIN as i128, i64::MAX as i128), ("u64", 0, u64::MAX as i128), ("usize", 0, u64::MAX as i128)] {
        for i in 0..n_repr {
            let span = (hi - lo + 1) as u128;
            let mut v = lo + ((((rr.next() as u128) << 64) | rr.next() as u128) % span) as i128;
            if i % 3 == 0 { let e = rr.below(64) as u32; v = (v >> e).clamp(lo, hi); }    // every magnitude, not only the top bits
            out(format!("binary_repr {ty} {v}")); out(format!("repr_parse {ty} {v}"));
        }
    }

    // (iii) seeded random stream: rank <= 3, len <= 5, random bytes / bits, any axis / order / count
    let mut rng = Rng::new(seed);
    let n_rand = if thorough { 20000 } else { 2500 };
    let all_orders: Vec<&str> = ORDERS_BIG.iter().chain(ORDERS_LITTLE.iter()).copied().collect();
    for i in 0..n_rand {
        let s = if i % 5 == 4 { rng.shape(4, 4, 3) } else { rng.shape(1, 3, 5) };
        let n = prod(&s);
        let r = s.len() as i64;
        let ax = if rng.below(4) == 0 { "none".to_string() } else { rng.range(-r, r - 1).to_string() };
        let o = *rng.pick(&all_orders);
        let bytes: Vec<u8> = (0..n).map(|_| rng.below(256) as u8).collect();
        out(format!("roundtrip {} {ax} {o}", arr(&s, &bytes)));
        match i % 3 {
            0 => out(format!("unpack {} {ax} none {o}", arr(&s, &bytes))),
            1 => {
                let lane = if ax == "none" { n } else { let a: i64 = ax.parse().unwrap(); s[((a + r) % r) as usize] } as i64;
                let c = rng.range(-8 * lane - 3, 8 * lane + 3);
                out(format!("unpack {} {ax} {c} {o}", arr(&s, &bytes)));
            }
            _ => {
                let mut t = s.clone();
                let j = rng.below(t.len()); t[j] = 1 + rng.below(20);
                let bits: Vec<u8> = (0..prod(&t)).map(|_| if rng.below(10) == 0 { rng.below(256) as u8 } else { rng.below(2) as u8 }).collect();
                out(format!("pack {} {ax} {o}", arr(&t, &bits)));
            }
        }
    }
}

/// non-trivial: an array with at least two elements; a number of magnitude >= 2; every spelling case
fn nontrivial(op: &str, args: &[&str]) -> bool {
    match op {
        "unpack" | "pack" | "roundtrip" | "unpack_ref" | "pack_ref" | "roundtrip_ref" | "unpack_n" | "pack_n" | "roundtrip_n" => args[0].split_once(':').map_or(false, |(_, e)| e.contains(',')),
        "unpack_g" | "pack_g" | "roundtrip_g" => true,
        "seq" => args.len() > 1 && args[1].split_once(':').map_or(false, |(_, e)| e.contains(',')),
        "oracle_report" => false,
        "binary_repr" | "repr_parse" => args[1] != "0" && args[1] != "1" && args[1] != "-1",
        _ => true,
    }
}

fn main() {
    harness_main(Spec { prop: "C19", gen, exec, nontrivial, hang_secs: 90,
        rule: "exhaustive: all 256 byte values alone x 7 order spellings (absent, enum, &str, String); every shape rank<=3 len<=3 (+ rank-4 shapes: 3 in quick, all of len<=2 and three of len<=3 in thorough) filled so that every byte value occurs, x flat form and every axis (positive and negative spelling) x both orders, unpack and pack(unpack); bit arrays of every length 1..40 (single-bit, constant, alternating, random, values>1) flat and as lanes on every axis position; count from -(8n+2) to 8n+2 flat and selected counts by axis; 21 spellings of the order option as &str and String; out-of-range axes; empty arrays; binary_repr + parse-back for all u8/i8 (all u16/i16 in thorough), boundaries and powers of two +-1 for the wider types; + seeded random arrays rank<=3 len<=5 and rank 4 len<=3 (lane length <=20 for pack). distinct = distinct case lines; non-trivial = array with >=2 elements / |number|>=2. ROBUSTNESS STREAMS: flat byte arrays of 8..4100 bytes (thorough ..8200; around 128/256/1024/2048/4096, byte counts divisible by 8 and not) x both orders, round trip + unpack + count around the length and the 64-bit word boundaries; the same lengths as lanes on every axis position of rank-2/3 arrays (lanes 128..1032 bytes, one lane of 4104 bytes; thorough ..4100x2); bit arrays of 1017..1032, 2041..2056, 8185..8200 bits and 504..32768 bits (thorough ..65537) flat and as lanes, bits and values>1; lib big_shapes() (axis lengths 7..17 in every position, >256/>1024/>4096 elements) flat and along every axis (one axis above 2100 elements), bytes and bits; lib zero_shapes() x 7 axes x 4 order spellings x unpack/pack/round trip/count; seeded random big arrays. By axis above 150 elements (thorough 300; selected cases up to 300 / 2056) the model answers on the reference lane semantics alone (ops *_ref) because the pipeline model of apply_along_axis is quadratic. EVERY unpack/pack/round-trip case is run on the plain receiver (compared), a second time, on Ok(array) through the Result receiver (round trip fully chained), and with every other spelling of the same order (absent/enum/&str/String), receivers alternating; binary_repr through Array::binary_repr, the Result receiver's associated function and Numeric::binary_repr, incl. values around 2^53, 2^62, 2^63, the type limits and seeded full-range values of all ten integer types. PART 2: hidden state - lane families of 9..40 (64, 129; thorough 9..300) bytes / bits sharing a long suffix / prefix / multiset / sum / xor with their neighbour as consecutive lanes of one call (rows and columns, unpack / count / pack / round trip) and as consecutive calls (`seq` lines: several calls on one thread, each compared with the model), order / count / shape changed in between, refused-then-accepted calls, lib collision_shape_pairs back to back in both orders, and an A-B-A re-run of the previous case after EVERY unpack / pack / round-trip case (STATE-DIVERGENCE). Huge: flat packing of 65 528 .. 1 120 000 bits, flat round trips of 8 191 .. 140 000 bytes, lanes of 8 192 .. 8 200 bytes (thorough .. 65 537), every axis (up to 5 000 lanes; the crate is quadratic in the lane count) of lib huge_shapes and of rank 2..4 shapes at 2^14 elements: ops *_n - the model answers outcome class and result shape, the values are compared with a harness-native coordinate reference which is itself compared with the full model answer on every other unpack / pack / round-trip case of the run where it has an opinion (count in the oracle_report sample; the run fails below 1000); full model answers at the thresholds (pack of 65 537 bits, unpack_ref [128,128] / [1,130,130] / [130,130]). Exact lengths: every axis length 1..300 in last and middle position, 31 / 37 / 49 / 1000 / 1001, primes 19..257; axis and count c + 2^8 / 2^16 / 2^32 and negatives; counts around +-65 536; ranks 5..8 along every axis. PART 3: giant arrays `shape:@pattern` (2^20 .. 1.7*10^7 elements, built by the harness, compared in place with the native reference; ops *_g - the model answers its order / axis checks and `native`, or the result shape by axis for lanes <= 200 000): flat packing of 2^20+1 .. 2^24+9 bits (thorough every length 2^24-7 .. 2^24+17, up to 17*2^20+1), the same as lanes, flat unpacking of 2^20+1 .. 2^21+3 bytes with counts at 2^24+1 / -7 / -3 (thorough more lengths and counts), lanes of 2^20+3 / 2^20+5 bytes, flat round trips of 2^20+5 / 2^21+1 bytes, lib giant_shapes and rank-4 shapes along every axis with <= 17 000 lanes (quick: seed-rotated share), refused giant calls; the in-place comparison cross-checked against the text comparison on every 7th small case (the run fails below 1000); value relations: constant bit / byte sources of 1..1025 entries flat and as lanes, the same bits spelled with different non-zero values back to back and as neighbouring lanes, palindromic and bit-reversed bytes across the two orders, Thue-Morse words and complements, words of period 7/8/9/64, bytes of period 8/64/1024; count / axis k*2^60+c, k*2^61+c, k*2^62+c, negatives and the isize limits" });
}
