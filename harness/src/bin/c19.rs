//! C19 — bit unpacking / packing are inverse; `BitOrder` spellings; `binary_repr` parses back.
//! Value protocol: bytes and bits are small integers; the model's answer is compared as text.
use arrharness::*;

// ------------------------------------------------------------------ protocol

fn hex(s: &str) -> String { s.bytes().map(|b| format!("{b:02x}")).collect() }
fn unhex(h: &str) -> Option<String> {
    if h.len() % 2 != 0 { return None; }
    let bytes: Option<Vec<u8>> = (0..h.len() / 2).map(|i| u8::from_str_radix(&h[2 * i..2 * i + 2], 16).ok()).collect();
    String::from_utf8(bytes?).ok()
}

enum Order { Absent, Enum(BitOrder), Str(String), Owned(String) }
fn parse_order(s: &str) -> Option<Order> {
    match s {
        "none" => Some(Order::Absent),
        "E:big" => Some(Order::Enum(BitOrder::Big)),
        "E:little" => Some(Order::Enum(BitOrder::Little)),
        _ => if let Some(h) = s.strip_prefix("S:") { unhex(h).map(Order::Str) }
             else if let Some(h) = s.strip_prefix("T:") { unhex(h).map(Order::Owned) } else { None },
    }
}

fn parse_bytes(s: &str) -> Option<Array<u8>> {
    let (sh, el) = s.split_once(':')?;
    let shape = parse_usize_list(sh);
    let elems: Vec<u8> = if el == "-" { vec![] } else { el.split(',').map(|x| x.parse::<u8>().ok()).collect::<Option<Vec<u8>>>()? };
    Some(Array::new(elems, shape).expect("harness: malformed array literal in case line"))
}
fn show_u8(r: &Result<Array<u8>, ArrayError>) -> String {
    match r {
        Ok(a) => if consistent(a) { format!("ok {}", show_arr(a)) } else { format!("inconsistent shape={:?} elements={}", a.get_shape().unwrap(), a.get_elements().unwrap().len()) },
        Err(e) => format!("err {}", err_name(e)),
    }
}

fn unpack(a: &Array<u8>, axis: Option<isize>, count: Option<isize>, order: &Order) -> Result<Array<u8>, ArrayError> {
    match order {
        Order::Absent => a.unpack_bits(axis, count, None::<BitOrder>),
        Order::Enum(o) => a.unpack_bits(axis, count, Some(*o)),
        Order::Str(s) => a.unpack_bits(axis, count, Some(s.as_str())),
        Order::Owned(s) => a.unpack_bits(axis, count, Some(s.clone())),
    }
}
fn pack(a: &Array<u8>, axis: Option<isize>, order: &Order) -> Result<Array<u8>, ArrayError> {
    match order {
        Order::Absent => a.pack_bits(axis, None::<BitOrder>),
        Order::Enum(o) => a.pack_bits(axis, Some(*o)),
        Order::Str(s) => a.pack_bits(axis, Some(s.as_str())),
        Order::Owned(s) => a.pack_bits(axis, Some(s.clone())),
    }
}

macro_rules! repr_case { ($ty:ty, $uty:ty, $v:expr, $op:expr) => {{
    let v: $ty = $v.parse().ok()?;
    let text = guarded(|| format!("ok {}", Array::<$ty>::binary_repr(v)));
    if $op == "binary_repr" { text }
    else {
        // parse back natively: unsigned type of the same width, reinterpreted
        match text.strip_prefix("ok ") {
            Some(t) => match <$uty>::from_str_radix(t, 2) { Ok(u) => format!("ok {}", u as $ty), Err(_) => "err parse".to_string() },
            None => text,
        }
    }
}} }

fn exec(op: &str, args: &[&str], expected: &str) -> Option<Verdict> {
    let observed = match op {
        "unpack" => {
            let a = parse_bytes(args[0])?; let axis = parse_opt::<isize>(args[1]); let count = parse_opt::<isize>(args[2]);
            let order = parse_order(args[3])?;
            guarded(|| show_u8(&unpack(&a, axis, count, &order)))
        }
        "pack" => {
            let a = parse_bytes(args[0])?; let axis = parse_opt::<isize>(args[1]); let order = parse_order(args[2])?;
            guarded(|| show_u8(&pack(&a, axis, &order)))
        }
        "roundtrip" => {
            let a = parse_bytes(args[0])?; let axis = parse_opt::<isize>(args[1]); let order = parse_order(args[2])?;
            guarded(|| show_u8(&unpack(&a, axis, None, &order).and_then(|u| pack(&u, axis, &order))))
        }
        "to_bit_order" => {
            let r = match parse_order(args[0])? {
                Order::Absent => return None,
                Order::Enum(o) => guarded(|| show_res(&o.to_bit_order(), |o| format!("{o:?}").to_lowercase())),
                Order::Str(s) => guarded(|| show_res(&s.as_str().to_bit_order(), |o| format!("{o:?}").to_lowercase())),
                Order::Owned(s) => guarded(|| show_res(&s.clone().to_bit_order(), |o| format!("{o:?}").to_lowercase())),
            };
            r
        }
        "binary_repr" | "repr_parse" => match args[0] {
            "u8" => repr_case!(u8, u8, args[1], op), "u16" => repr_case!(u16, u16, args[1], op),
            "u32" => repr_case!(u32, u32, args[1], op), "u64" => repr_case!(u64, u64, args[1], op),
            "usize" => repr_case!(usize, usize, args[1], op),
            "i8" => repr_case!(i8, u8, args[1], op), "i16" => repr_case!(i16, u16, args[1], op),
            "i32" => repr_case!(i32, u32, args[1], op), "i64" => repr_case!(i64, u64, args[1], op),
            "isize" => repr_case!(isize, usize, args[1], op),
            "bool" => {
                let v = match args[1] { "0" => false, "1" => true, _ => return None };
                let text = guarded(|| format!("ok {}", Array::<bool>::binary_repr(v)));
                if op == "binary_repr" { text } else {
                    match text.strip_prefix("ok ") { Some(t) => match u8::from_str_radix(t, 2) { Ok(u) if u < 2 => format!("ok {u}"), _ => "err parse".to_string() }, None => text }
                }
            }
            _ => return None,
        },
        _ => return None,
    };
    // the property itself, independent of the model: the round trip returns the input
    // (by axis: bytes and shape; flat form: the bytes in flat order as a 1-D array)
    let want_rt = |a: &str| if args[1] == "none" { let (sh, el) = a.split_once(':').unwrap(); format!("ok {}:{}", prod(&parse_usize_list(sh)), el) } else { format!("ok {a}") };
    if op == "roundtrip" && class_of(&observed) == "ok" && observed != want_rt(args[0]) {
        return Some(Verdict::Mismatch { detail: format!("pack_bits(unpack_bits(a)) is not a; model says `{}`", truncate(expected, 300)), observed });
    }
    if op == "repr_parse" && class_of(&observed) == "ok" && observed != format!("ok {}", args[1]) {
        return Some(Verdict::Mismatch { detail: format!("binary_repr does not parse back; model says `{expected}`"), observed });
    }
    Some(compare_default(observed, expected))
}

// ------------------------------------------------------------------ generator

fn arr(shape: &[usize], vals: &[u8]) -> String { format!("{}:{}", show_list(shape), show_list(vals)) }
fn prod(s: &[usize]) -> usize { s.iter().product() }
const ORDERS_BIG: [&str; 4] = ["none", "E:big", "S:626967", "T:626967"];
const ORDERS_LITTLE: [&str; 3] = ["E:little", "S:6c6974746c65", "T:6c6974746c65"];

/// `none`, every axis, and its negative spelling
fn axes_of(rank: usize, k: usize) -> Vec<String> {
    let mut v = vec!["none".to_string()];
    for ax in 0..rank { v.push(if (ax + k) % 2 == 0 { ax.to_string() } else { (ax as isize - rank as isize).to_string() }); }
    v
}

fn gen(tier: &str, seed: u64, out: &mut dyn FnMut(String)) {
    let thorough = tier == "thorough";
    // (i) corpus
    for l in ["unpack 3:2,3,5 none -3 none", "unpack 1:255 none -1 E:little", "unpack 2,2:1,2,3,4 1 -2 none",
              "unpack 3:2,3,5 none -25 none", "pack 3,8:0,0,0,0,0,0,1,0,0,0,0,0,0,0,1,1,0,0,0,0,0,1,0,1 0 none"] { out(l.to_string()); }

    // (ii.a) every byte value, alone, in every order spelling
    for b in 0..=255u8 {
        for o in ORDERS_BIG.iter().chain(ORDERS_LITTLE.iter()) {
            out(format!("unpack 1:{b} none none {o}"));
            out(format!("roundtrip 1:{b} none {o}"));
            out(format!("roundtrip 1:{b} 0 {o}"));
        }
    }
    // (ii.b) every shape of rank <= 3, len <= 3, filled so that every byte value occurs in every shape;
    //        every axis (both spellings) and the flat form, both orders (spelling rotates)
    let mut k = 0usize;
    let mut scope = shapes(1, 3, 1, 3);
    // beyond the stated rank: rank 4 (the repaired `apply_along_axis` arm)
    scope.extend(if thorough { shapes(4, 4, 1, 2) } else { vec![vec![2, 1, 2, 2], vec![1, 2, 2, 1], vec![2, 2, 2, 2]] });
    if thorough { scope.extend(vec![vec![2, 3, 1, 2], vec![3, 2, 2, 3], vec![1, 3, 3, 2]]); }
    for s in scope {
        let n = prod(&s);
        let fills = (256 + n - 1) / n;
        for f in 0..fills {
            let vals: Vec<u8> = (0..n).map(|i| ((f * n + i) % 256) as u8).collect();
            let a = arr(&s, &vals);
            for ax in axes_of(s.len(), k) {
                k += 1;
                let (ob, ol) = (ORDERS_BIG[k % 4], ORDERS_LITTLE[k % 3]);
                for o in [ob, ol] {
                    out(format!("unpack {a} {ax} none {o}"));
                    out(format!("roundtrip {a} {ax} {o}"));
                }
            }
        }
    }
    // (ii.c) packing bit arrays of every length 1..40 (flat), incl. values > 1 that count as set bits
    let mut fx = Rng::new(0xC19);
    for len in 1..=40usize {
        let mut pats: Vec<Vec<u8>> = vec![vec![0; len], vec![1; len], (0..len).map(|i| (i % 2) as u8).collect(), (0..len).map(|i| ((i + 1) % 2) as u8).collect()];
        for p in 0..len { let mut v = vec![0u8; len]; v[p] = 1; pats.push(v); }
        for _ in 0..4 { pats.push((0..len).map(|_| fx.below(2) as u8).collect()); }
        pats.push((0..len).map(|_| *fx.pick(&[0u8, 1, 2, 7, 128, 255])).collect());
        for v in pats {
            for o in ["none", "E:little", "S:626967", "T:6c6974746c65"] { out(format!("pack {len}:{} none {o}", show_list(&v))); }
            out(format!("pack {len}:{} 0 E:big", show_list(&v)));
            out(format!("pack {len}:{} -1 E:little", show_list(&v)));
        }
    }
    // (ii.d) packing along every axis: lanes of length L on each axis position
    let lens: Vec<usize> = if thorough { (1..=40).collect() } else { vec![1, 2, 7, 8, 9, 15, 16, 17, 24, 33, 40] };
    for &l in &lens {
        for s in [vec![l, 2], vec![2, l], vec![2, l, 2], vec![l, 1, 3], vec![1, 2, l]] {
            let vals: Vec<u8> = (0..prod(&s)).map(|_| fx.below(2) as u8).collect();
            for ax in axes_of(s.len(), l) {
                out(format!("pack {} {ax} E:big", arr(&s, &vals)));
                out(format!("pack {} {ax} S:6c6974746c65", arr(&s, &vals)));
            }
        }
    }
    // (ii.e) the `count` argument: every value from "more than all bits" negative to positive, flat and by axis
    for s in [vec![1], vec![2], vec![3]] {
        let n = prod(&s) as isize;
        let vals: Vec<u8> = (0..prod(&s)).map(|i| [0xA5u8, 0x3C, 0x01][i]).collect();
        for c in -(8 * n + 2)..=(8 * n + 2) {
            for o in ["none", "E:little"] { out(format!("unpack {} none {c} {o}", arr(&s, &vals))); }
            out(format!("unpack {} 0 {c} E:big", arr(&s, &vals)));
        }
    }
    for s in [vec![2, 2], vec![1, 3], vec![2, 1, 2]] {
        let vals: Vec<u8> = (0..prod(&s)).map(|_| fx.below(256) as u8).collect();
        for ax in axes_of(s.len(), 0) {
            for c in [-30isize, -17, -16, -9, -8, -7, -1, 0, 1, 7, 8, 9, 15, 16, 17, 24, 25] {
                out(format!("unpack {} {ax} {c} E:big", arr(&s, &vals)));
                out(format!("unpack {} {ax} {c} S:6c6974746c65", arr(&s, &vals)));
            }
        }
    }
    // (ii.f) `BitOrder` spellings
    for w in ["big", "little", "Big", "BIG", "Little", "LITTLE", "", " ", " big", "big ", "bigg", "bi", "b", "l", "litle", "littl", "little\n", "err", "msb", "0", "b\u{ed}g"] {
        for p in ["S", "T"] {
            out(format!("to_bit_order {p}:{}", hex(w)));
            out(format!("unpack 2:3,200 none none {p}:{}", hex(w)));
            out(format!("pack 3:1,0,1 none {p}:{}", hex(w)));
            out(format!("pack 2,3:1,0,1,1,1,0 1 {p}:{}", hex(w)));
            out(format!("unpack 0:- none none {p}:{}", hex(w)));
        }
    }
    out("to_bit_order E:big".into()); out("to_bit_order E:little".into());
    // (iv) malformed: axis out of range, empty arrays
    for s in shapes(1, 3, 1, 2) {
        let vals: Vec<u8> = (0..prod(&s)).map(|i| (37 * i + 11) as u8).collect();
        let r = s.len() as isize;
        for ax in [r, r + 1, -r - 1, -r - 2, 100, -100] {
            out(format!("unpack {} {ax} none none", arr(&s, &vals)));
            out(format!("pack {} {ax} none", arr(&s, &vals)));
        }
    }
    for s in [vec![0], vec![0, 2], vec![2, 0]] {
        for ax in ["none", "0", "1", "5"] {
            out(format!("unpack {} {ax} none none", arr(&s, &[])));
            out(format!("pack {} {ax} E:little", arr(&s, &[])));
            out(format!("unpack {} {ax} -3 none", arr(&s, &[])));
        }
    }
    // (ii.g) binary_repr
    for ty in ["u8", "i8"] {
        let (lo, hi) = if ty == "u8" { (0i64, 255) } else { (-128, 127) };
        for v in lo..=hi { out(format!("binary_repr {ty} {v}")); out(format!("repr_parse {ty} {v}")); }
    }
    out("binary_repr bool 0".into()); out("binary_repr bool 1".into()); out("repr_parse bool 0".into()); out("repr_parse bool 1".into());
    let step = if thorough { 1 } else { 97 };
    let mut v = -32768i64; while v <= 32767 { out(format!("binary_repr i16 {v}")); out(format!("repr_parse i16 {v}")); v += step; }
    let mut v = 0i64; while v <= 65535 { out(format!("binary_repr u16 {v}")); out(format!("repr_parse u16 {v}")); v += step; }
    for (ty, lo, hi) in [("i32", i32::MIN as i128, i32::MAX as i128), ("u32", 0, u32::MAX as i128), ("i64", i64::MIN as i128, i64::MAX as i128),
                         ("isize", i64::MIN as i128, i64::MAX as i128), ("u64", 0, u64::MAX as i128), ("usize", 0, u64::MAX as i128), ("i16", -32768, 32767), ("u16", 0, 65535)] {
        let mut vs: Vec<i128> = vec![lo, lo + 1, lo + 2, hi, hi - 1, hi - 2, 0, 1, 2, 3, -1, -2, -3];
        for e in 0..64 { let p = 1i128 << e; vs.extend([p - 1, p, p + 1, -p - 1, -p, -p + 1]); }
        vs.retain(|v| lo <= *v && *v <= hi); vs.sort(); vs.dedup();
        for v in vs { out(format!("binary_repr {ty} {v}")); out(format!("repr_parse {ty} {v}")); }
    }

    // (iii) seeded random stream: rank <= 3, len <= 5, random bytes / bits, any axis / order / count
    let mut rng = Rng::new(seed);
    let n_rand = if thorough { 20000 } else { 2500 };
    let all_orders: Vec<&str> = ORDERS_BIG.iter().chain(ORDERS_LITTLE.iter()).copied().collect();
    for i in 0..n_rand {
        let s = if i % 5 == 4 { rng.shape(4, 4, 3) } else { rng.shape(1, 3, 5) };
        let n = prod(&s);
        let r = s.len() as i64;
        let ax = if rng.below(4) == 0 { "none".to_string() } else { rng.range(-r, r - 1).to_string() };
        let o = *rng.pick(&all_orders);
        let bytes: Vec<u8> = (0..n).map(|_| rng.below(256) as u8).collect();
        out(format!("roundtrip {} {ax} {o}", arr(&s, &bytes)));
        match i % 3 {
            0 => out(format!("unpack {} {ax} none {o}", arr(&s, &bytes))),
            1 => {
                let lane = if ax == "none" { n } else { let a: i64 = ax.parse().unwrap(); s[((a + r) % r) as usize] } as i64;
                let c = rng.range(-8 * lane - 3, 8 * lane + 3);
                out(format!("unpack {} {ax} {c} {o}", arr(&s, &bytes)));
            }
            _ => {
                let mut t = s.clone();
                let j = rng.below(t.len()); t[j] = 1 + rng.below(20);
                let bits: Vec<u8> = (0..prod(&t)).map(|_| if rng.below(10) == 0 { rng.below(256) as u8 } else { rng.below(2) as u8 }).collect();
                out(format!("pack {} {ax} {o}", arr(&t, &bits)));
            }
        }
    }
}

/// non-trivial: an array with at least two elements; a number of magnitude >= 2; every spelling case
fn nontrivial(op: &str, args: &[&str]) -> bool {
    match op {
        "unpack" | "pack" | "roundtrip" => args[0].split_once(':').map_or(false, |(_, e)| e.contains(',')),
        "binary_repr" | "repr_parse" => args[1] != "0" && args[1] != "1" && args[1] != "-1",
        _ => true,
    }
}

fn main() {
    harness_main(Spec { prop: "C19", gen, exec, nontrivial, hang_secs: 20,
        rule: "exhaustive: all 256 byte values alone x 7 order spellings (absent, enum, &str, String); every shape rank<=3 len<=3 (+ rank-4 shapes: 3 in quick, all of len<=2 and three of len<=3 in thorough) filled so that every byte value occurs, x flat form and every axis (positive and negative spelling) x both orders, unpack and pack(unpack); bit arrays of every length 1..40 (single-bit, constant, alternating, random, values>1) flat and as lanes on every axis position; count from -(8n+2) to 8n+2 flat and selected counts by axis; 21 spellings of the order option as &str and String; out-of-range axes; empty arrays; binary_repr + parse-back for all u8/i8 (all u16/i16 in thorough), boundaries and powers of two +-1 for the wider types; + seeded random arrays rank<=3 len<=5 and rank 4 len<=3 (lane length <=20 for pack). distinct = distinct case lines; non-trivial = array with >=2 elements / |number|>=2" });
}
