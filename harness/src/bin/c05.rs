//! C05 — one-operand functions and closure iteration keep shape, order, multiplicity.
//!
//! (a) closures: a counter-stamping closure records (call#, position passed, element) and answers a function of the
//!     call number; transcript = result + log, compared with the model's `StateM` trace.
//! (b) ~45 one-operand math ops x element types x shapes x value classes: the model answers shape + which input position
//!     feeds each output position; `out[p] == f_native(in[src[p]])` is evaluated here, bit-exactly (NaN canonicalised),
//!     with `f_native` the f64 method / formula named in the op's body.
//! (c) frexp / ldexp / ldexp(frexp(x)) on IEEE-754 bit patterns (integers cross the boundary, never float text);
//!     the model computes over exact rationals.  frexp(±inf) runs under the watchdog.
//!
//! Robustness streams (FRAMEWORK.md): closures on `big_shapes()` (> 256 / 1024 / 4096 elements: the enumerating variants with
//! closures depending on the passed index AND on the number of earlier calls) and `zero_shapes()`, each closure case also on the
//! `f64` (tag 0 = -0.0, bit-wise), `u8` and `String` images of the array (the iteration code is generic);  every one-operand op
//! on THREE receivers (plain `a.op()`, `Ok(a).op()` through `impl … for Result<Array<N>, ArrayError>` — bit-identical — and
//! `Err(_)`, which must stay an error), on i8 i16 i32 i64 u8 u16 u32 u64 f32 f64 with values at the limits of every type,
//! beyond 2^53 / 2^63, subnormal, -0.0 (native kernel with the harness's OWN casts, not the crate's to_f64/from_f64), on big and
//! zero-length shapes; frexp / ldexp / recombination on the three receivers and on long arrays.
use arrharness::*;

// ------------------------------------------------------------------ closures

#[derive(Clone, Copy)]
struct Clo { a: i64, b: i64, c: i64, m: i64, t: i64 }
impl Clo {
    fn parse(s: &str) -> Option<Clo> {
        let v = parse_i64_list(s);
        if v.len() != 5 || v[3] <= 0 { return None; }
        Some(Clo { a: v[0], b: v[1], c: v[2], m: v[3], t: v[4] })
    }
    fn val(&self, k: i64, idx: Option<usize>, v: i64) -> i64 { self.a * k + self.b * v + self.c + idx.map_or(0, |i| 1000 * i as i64) }
    fn acc(&self, k: i64, idx: Option<usize>, v: i64) -> bool { self.val(k, idx, v).rem_euclid(self.m) < self.t }
    fn opt(&self, k: i64, idx: Option<usize>, v: i64) -> Option<i64> { if self.acc(k, idx, v) { Some(self.val(k, idx, v) + 7) } else { None } }
    fn step(&self, k: i64, acc: i64, v: i64) -> i64 { (acc * 31 + self.b * v + self.a * k + self.c).rem_euclid(1_000_003) }
}

type Log = Vec<(i64, Option<usize>, i64)>;
fn show_log(l: &Log) -> String {
    if l.is_empty() { return "-".into(); }
    l.iter().map(|(k, i, v)| format!("{}/{}/{}", k, i.map_or("_".to_string(), |x| x.to_string()), v)).collect::<Vec<_>>().join(";")
}

/// element types for the (value-blind) iteration code: the i64 tags themselves, f64 with tag 0 = -0.0 (bit-wise), u8 (only for
/// arrays whose tags all fit 0..=250) and String (a non-Copy element)
trait Tag: ArrayElement + 'static {
    const NAME: &'static str;
    fn of(t: i64) -> Option<Self>;
    fn num(&self) -> i64;
    /// the element as tag text; a float that is not bit-identical to the image of its tag is made visible
    fn back(&self) -> String { self.num().to_string() }
}
impl Tag for i64 { const NAME: &'static str = "i64"; fn of(t: i64) -> Option<i64> { Some(t) } fn num(&self) -> i64 { *self } }
impl Tag for u8 { const NAME: &'static str = "u8"; fn of(t: i64) -> Option<u8> { if (0..=250).contains(&t) { Some(t as u8) } else { None } } fn num(&self) -> i64 { *self as i64 } }
impl Tag for String { const NAME: &'static str = "String"; fn of(t: i64) -> Option<String> { Some(t.to_string()) } fn num(&self) -> i64 { self.parse().unwrap_or(i64::MIN) } }
impl Tag for f64 {
    const NAME: &'static str = "f64";
    fn of(t: i64) -> Option<f64> { if t.abs() < (1 << 53) { Some(tag_f64z(t)) } else { None } }
    fn num(&self) -> i64 { *self as i64 }
    fn back(&self) -> String { let t = *self as i64; if self.to_bits() == tag_f64z(t).to_bits() { t.to_string() } else { format!("{:?}(bits {:#x})", self, self.to_bits()) } }
}

fn show_tag_arr<T: Tag>(a: &Array<T>) -> String {
    format!("{}:{}", show_list(&a.get_shape().unwrap()), show_list(&a.get_elements().unwrap().iter().map(Tag::back).collect::<Vec<_>>()))
}

/// transcript (result + call log) of one closure operation on the `T` image of the tag array; `None` = a tag has no `T` image
fn closure_on<T: Tag>(op: &str, raw: &(Vec<usize>, Vec<i64>), p: Clo, init: i64) -> Option<String> {
    let elems: Vec<T> = raw.1.iter().map(|&t| T::of(t)).collect::<Option<Vec<T>>>()?;
    let a: Array<T> = Array::new(elems, raw.0.clone()).expect("harness: malformed array literal in case line");
    let mut k: i64 = 0;
    let mut log: Log = vec![];
    let op = op.to_string();
    Some(guarded(move || {
        let head = match op.as_str() {
            "map" => res_arr(&a.map(|v| { let v = v.num(); let r = p.val(k, None, v); log.push((k, None, v)); k += 1; r })),
            "map_e" => res_arr(&a.map_e(|i, v| { let v = v.num(); let r = p.val(k, Some(i), v); log.push((k, Some(i), v)); k += 1; r })),
            "filter" => show_res(&a.filter(|v| { let v = v.num(); let r = p.acc(k, None, v); log.push((k, None, v)); k += 1; r }), show_tag_arr),
            "filter_e" => show_res(&a.filter_e(|i, v| { let v = v.num(); let r = p.acc(k, Some(i), v); log.push((k, Some(i), v)); k += 1; r }), show_tag_arr),
            "filter_map" => res_arr(&a.filter_map(|v| { let v = v.num(); let r = p.opt(k, None, v); log.push((k, None, v)); k += 1; r })),
            "filter_map_e" => res_arr(&a.filter_map_e(|i, v| { let v = v.num(); let r = p.opt(k, Some(i), v); log.push((k, Some(i), v)); k += 1; r })),
            "fold" => show_res(&a.fold(init, |&acc, v| { let v = v.num(); let r = p.step(k, acc, v); log.push((k, None, v)); k += 1; r }), |v| v.to_string()),
            "for_each" => show_res(&a.for_each(|v| { log.push((k, None, v.num())); k += 1; }), |_| "unit".to_string()),
            "for_each_e" => show_res(&a.for_each_e(|i, v| { log.push((k, Some(i), v.num())); k += 1; }), |_| "unit".to_string()),
            "into_iter" => { let v: Vec<String> = a.into_iter().map(|x| x.back()).collect(); format!("ok {}", show_list(&v)) }
            "into_iter_ref" => { let mut v: Vec<String> = vec![]; for x in &a { v.push(x.back()); } format!("ok {}", show_list(&v)) }
            _ => unreachable!(),
        };
        if op.starts_with("into_iter") { head } else { format!("{}|{}", head, show_log(&log)) }
    }))
}

/// the i64 transcript; the same call on the other element types must give the same transcript
fn exec_closure(op: &str, args: &[&str]) -> Option<String> {
    let raw = parse_arr_raw(args[0]);
    if raw.0.iter().product::<usize>() != raw.1.len() { return None; }
    let (p, init) = if op.starts_with("into_iter") { (Clo { a: 0, b: 0, c: 0, m: 1, t: 0 }, 0) } else {
        (Clo::parse(args.get(1)?)?, if op == "fold" { args.get(2)?.parse().ok()? } else { 0 }) };
    let base = closure_on::<i64>(op, &raw, p, init)?;
    for (name, other) in [(<f64 as Tag>::NAME, closure_on::<f64>(op, &raw, p, init)), (<u8 as Tag>::NAME, closure_on::<u8>(op, &raw, p, init)), (<String as Tag>::NAME, closure_on::<String>(op, &raw, p, init))] {
        if let Some(t) = other { if t != base { return Some(format!("TYPE-DIVERGENCE on Array<{name}>: {}; on Array<i64>: {}", truncate(&t, 400), truncate(&base, 400))); } }
    }
    Some(base)
}

// ------------------------------------------------------------------ unary math ops

const NAN_BITS: u64 = 0x7ff8_0000_0000_0000;
fn canon(x: f64) -> u64 { if x.is_nan() { NAN_BITS } else { x.to_bits() } }

/// bit-exact comparison key of an element
trait Key { fn key(&self) -> u64; }
impl Key for f64 { fn key(&self) -> u64 { canon(*self) } }
impl Key for f32 { fn key(&self) -> u64 { if self.is_nan() { NAN_BITS } else { self.to_bits() as u64 } } }
impl Key for bool { fn key(&self) -> u64 { *self as u64 } }
macro_rules! key_int { ($($t:ty),*) => { $(impl Key for $t { fn key(&self) -> u64 { *self as i64 as u64 } })* } }
key_int!(i8, i16, i32, i64, isize, u8, u16, u32, u64);

const F64_DOM: &[f64] = &[0.5, -0.5, 1.0, -1.0, 2.5, -2.5, 0.1, 3.0, 10.0, 100.7, -7.3, 1e-5, 0.999, 0.25, 6.283185307179586, 42.0, -0.75];
const F64_EDGE: &[f64] = &[0.0, -0.0, 1.0, -1.0, f64::MIN_POSITIVE, 5e-324, f64::MAX, f64::MIN, 1e308, 709.78, 710.0, -745.2, 0.9999999999999999,
    1.0000000000000002, 1.5, -1.5, 0.49999999999999994, 4503599627370496.5, 9007199254740992.0, -9007199254740993.0, 1e-320, 8.0, 8.000000000000002, 2147483648.0, -2147483649.0, 1e19];
const F64_SPEC: &[f64] = &[f64::NAN, f64::INFINITY, f64::NEG_INFINITY, 1.0, -2.0];
const I32_VALS: &[i32] = &[0, 1, -1, 2, -2, 7, -7, 100, -100, i32::MAX, i32::MIN, 46340, 20, 3, -3, 90, 180, 1000000];
/// robustness class `lim`: around 2^63 / 2^64 / f32::MAX / 2^53 / 2^52 / 2^31 / 2^24, halves next to the integer limits of every
/// narrow type, f64 and f32 subnormals, both zeros
const F64_LIM: &[f64] = &[9223372036854775808.0, -9223372036854775808.0, 18446744073709551616.0, 1e19, -1e19, 9.3e18, -9.3e18, 3.4028234663852886e38, -3.4028234663852886e38, 3.5e38,
    9007199254740994.0, 9007199254740991.0, 4503599627370496.5, -4503599627370496.5, 2147483647.5, 2147483648.5, -2147483648.5, 16777217.0, 1e-40, -1e-40, 1.401298464324817e-45, 5e-324, -5e-324,
    2.225073858507201e-308, -0.0, 0.0, 1000000000000000.4, 127.5, -128.5, 255.5, 32767.5, -32768.5, 65535.5, 4294967295.5, -0.4, 0.6, 1e300, -1e300, 88.8, 89.0, 11.1, -1e-17];
/// small values for the integer element types (every type keeps the ones it can hold)
const INT_DOM: &[i128] = &[0, 1, -1, 2, -2, 7, -7, 100, -100, 3, -3, 20, 90, 45, 10, 5, -5, 12, 64, 11];
fn int_lim(min: i128, max: i128) -> Vec<i128> {
    let mut v = vec![max, min, max - 1, min + 1, max / 2, max / 2 + 1, min / 2, 0, 1, -1, 127, 128, -128, -129, 255, 256, 181, 182, 32767, 32768, -32768, -32769, 65535, 65536, 46340, 46341,
        2147483647, 2147483648, -2147483648, -2147483649, 4294967295, 4294967296, 16777217, (1 << 53) - 1, 1 << 53, (1 << 53) + 1, (1 << 53) + 3, -((1 << 53) + 1), (1 << 62) + 1, 1 << 63, (1 << 63) + 1, 3 << 62, 3037000500, 2642246, 2642245];
    v.retain(|x| *x >= min && *x <= max);
    v
}

fn f64_value(cls: &str, j: usize) -> f64 {
    match cls {
        "dom" => F64_DOM[j % F64_DOM.len()],
        "edge" => F64_EDGE[j % F64_EDGE.len()],
        "spec" => F64_SPEC[j % F64_SPEC.len()],
        "lim" => F64_LIM[j % F64_LIM.len()],
        _ => { let n = F64_DOM.len() + F64_EDGE.len() + F64_SPEC.len(); let j = j % n;
               if j < F64_DOM.len() { F64_DOM[j] } else if j < F64_DOM.len() + F64_EDGE.len() { F64_EDGE[j - F64_DOM.len()] } else { F64_SPEC[j - F64_DOM.len() - F64_EDGE.len()] } }
    }
}

/// which receiver the operation is called on
#[derive(Clone, Copy, PartialEq)]
enum Recv { Plain, Chained, ErrRecv }
fn ok_of<N: Numeric>(a: &Array<N>) -> Result<Array<N>, ArrayError> { Ok(a.clone()) }
fn err_of<N: Numeric>(_a: &Array<N>) -> Result<Array<N>, ArrayError> { Err(ArrayError::NotImplemented) }
/// evaluate `$body` with `$r` bound to `&Array<N>`, to `&Ok(array)` or to `&Err(_)`
macro_rules! on_recv {
    ($recv:expr, $a:expr, |$r:ident| $body:expr) => {
        match $recv {
            Recv::Plain => { let $r = $a; $body }
            Recv::Chained => { let tmp = ok_of($a); let $r = &tmp; $body }
            Recv::ErrRecv => { let tmp = err_of($a); let $r = &tmp; $body }
        }
    };
}

type Keys = Result<(Vec<usize>, Vec<u64>), String>;
fn keys<T: ArrayElement + Key>(r: Result<Array<T>, ArrayError>) -> Keys {
    match r {
        Ok(arr) => {
            if !consistent(&arr) { return Err("inconsistent".to_string()); }
            Ok((arr.get_shape().unwrap(), arr.get_elements().unwrap().iter().map(Key::key).collect()))
        }
        Err(e) => Err(format!("err {}", err_name(&e))),
    }
}

trait Elem: Numeric + Key + 'static {
    fn value(cls: &str, j: usize) -> Self;
    // the harness's own casts and predicates (the crate's to_f64 / from_f64 / is_inf / max / bitwise_not are NOT used by the oracle)
    fn f(self) -> f64;
    fn t(v: f64) -> Self;
    fn nan(self) -> bool { false }
    fn inf(self) -> bool { false }
    fn maxv() -> Self;
    fn bnot(self) -> Self;
    /// ops of traits bounded by `NumericOps` (trigonometric.rs, special.rs) or `Floating` (floating.rs); `None` = not defined for this type
    fn call_extra(_op: &str, _a: &Array<Self>, _recv: Recv) -> Option<Keys> { None }
}
fn numops_on<N: NumericOps + Key, R: ArrayTrigonometric<N> + ArrayMathSpecial<N>>(r: &R, op: &str) -> Option<Keys> {
    Some(match op {
        "sin" => keys(r.sin()), "cos" => keys(r.cos()), "tan" => keys(r.tan()),
        "asin" => keys(r.asin()), "acos" => keys(r.acos()), "atan" => keys(r.atan()),
        "degrees" => keys(r.degrees()), "rad2deg" => keys(r.rad2deg()), "radians" => keys(r.radians()), "deg2rad" => keys(r.deg2rad()),
        "i0" => keys(r.i0()), "sinc" => keys(r.sinc()),
        _ => return None,
    })
}
fn floating_on<N: Floating + Key, R: ArrayFloating<N>>(r: &R, op: &str) -> Option<Keys> {
    Some(match op { "signbit" => keys(r.signbit()), "spacing" => keys(r.spacing()), _ => return None })
}
macro_rules! elem_int {
    ($t:ty, numops) => { elem_int!(@imp $t, fn call_extra(op: &str, a: &Array<Self>, recv: Recv) -> Option<Keys> { on_recv!(recv, a, |r| numops_on(r, op)) }); };
    ($t:ty, plain) => { elem_int!(@imp $t, ); };
    (@imp $t:ty, $($extra:tt)*) => {
        impl Elem for $t {
            fn value(cls: &str, j: usize) -> Self {
                let pick = |l: &[i128]| -> Self { let v: Vec<$t> = l.iter().filter_map(|x| <$t>::try_from(*x).ok()).collect(); v[j % v.len()] };
                if cls == "lim" { pick(&int_lim(<$t>::MIN as i128, <$t>::MAX as i128)) } else { pick(INT_DOM) }
            }
            fn f(self) -> f64 { self as f64 }
            fn t(v: f64) -> Self { v as $t }
            fn maxv() -> Self { <$t>::MAX }
            fn bnot(self) -> Self { !self }
            $($extra)*
        }
    };
}
elem_int!(i8, numops); elem_int!(i16, numops); elem_int!(i64, numops);
elem_int!(u8, plain); elem_int!(u16, plain); elem_int!(u32, plain); elem_int!(u64, plain);
impl Elem for i32 {
    // (the original stream ignores the class for i32)
    fn value(cls: &str, j: usize) -> i32 { if cls == "lim" { let v = int_lim(i32::MIN as i128, i32::MAX as i128); v[j % v.len()] as i32 } else { I32_VALS[j % I32_VALS.len()] } }
    fn f(self) -> f64 { self as f64 }
    fn t(v: f64) -> Self { v as i32 }
    fn maxv() -> Self { i32::MAX }
    fn bnot(self) -> Self { !self }
    fn call_extra(op: &str, a: &Array<Self>, recv: Recv) -> Option<Keys> { on_recv!(recv, a, |r| numops_on(r, op)) }
}
macro_rules! elem_float {
    ($t:ty, $ti:ty) => {
        impl Elem for $t {
            fn value(cls: &str, j: usize) -> Self { f64_value(cls, j) as $t }
            fn f(self) -> f64 { self as f64 }
            fn t(v: f64) -> Self { v as $t }
            fn nan(self) -> bool { self != self }
            fn inf(self) -> bool { self == <$t>::INFINITY || self == <$t>::NEG_INFINITY }
            fn maxv() -> Self { <$t>::MAX }
            fn bnot(self) -> Self { !(self as $ti) as $t }
            fn call_extra(op: &str, a: &Array<Self>, recv: Recv) -> Option<Keys> {
                match op { "signbit" | "spacing" => on_recv!(recv, a, |r| floating_on(r, op)), _ => on_recv!(recv, a, |r| numops_on(r, op)) }
            }
        }
    };
}
elem_float!(f64, i128);
elem_float!(f32, i64);

const OPS_ALL: &[&str] = &["fix", "trunc", "floor", "ceil", "rint", "round0", "round2", "around1",
    "exp", "exp2", "exp_m1", "log", "log2", "log10", "log_1p",
    "sin", "cos", "tan", "asin", "acos", "atan", "degrees", "rad2deg", "radians", "deg2rad",
    "sinh", "cosh", "tanh", "asinh", "acosh", "atanh",
    "sqrt", "cbrt", "square", "absolute", "abs", "fabs", "sign", "nan_to_num", "i0", "sinc"];
const OPS_FLOAT: &[&str] = &["signbit", "spacing"];
/// one-operand ops of arithmetic.rs / binary.rs (same `self.map(..)` pattern; their Result-receiver forwarders sit next to the two-operand ones)
const OPS_MORE: &[&str] = &["reciprocal", "negative", "positive", "bitwise_not", "invert"];
/// ops whose trait is bounded by `NumericOps` (i8 i16 i32 i64 f32 f64)
const OPS_NUMOPS: &[&str] = &["sin", "cos", "tan", "asin", "acos", "atan", "degrees", "rad2deg", "radians", "deg2rad", "i0", "sinc"];
const ALL_TYPES: &[&str] = &["f64", "f32", "i32", "i8", "i16", "i64", "u8", "u16", "u32", "u64"];
fn op_defined(op: &str, ty: &str) -> bool {
    if OPS_FLOAT.contains(&op) { return ty == "f64" || ty == "f32"; }
    if OPS_NUMOPS.contains(&op) { return !ty.starts_with('u'); }
    true
}

fn round_native<N: Elem>(x: N, d: i32) -> N {
    let multiplier = 10_f64.powi(d);
    N::t((x.f() * multiplier).round() / multiplier)
}

/// the scalar kernel named in the op's body, evaluated natively with the harness's own casts: key of `f(x)`
fn native<N: Elem>(op: &str, x: N) -> u64 {
    let f = x.f();
    let zero = N::t(0.0);
    let n = |y: f64| -> u64 { N::t(y).key() };
    match op {
        "fix" => if x >= zero { n(f.floor()) } else { n(f.ceil()) },
        "trunc" => n(f.trunc()), "floor" => n(f.floor()), "ceil" => n(f.ceil()),
        "rint" | "round0" => round_native(x, 0).key(),
        "round2" => round_native(x, 2).key(),
        "around1" => round_native(x, 1).key(),
        "exp" => n(f.exp()), "exp2" => n(f.exp2()), "exp_m1" => n(f.exp_m1()),
        // log = logn(single(N::from(e))): the base goes through the element type
        "log" => n(f.log(N::t(std::f64::consts::E).f())),
        "log2" => n(f.log2()), "log10" => n(f.log10()), "log_1p" => n(f.ln_1p()),
        "sin" => n(f.sin()), "cos" => n(f.cos()), "tan" => n(f.tan()),
        "asin" => n(f.asin()), "acos" => n(f.acos()), "atan" => n(f.atan()),
        "degrees" | "rad2deg" => n(f.to_degrees()), "radians" | "deg2rad" => n(f.to_radians()),
        "sinh" => n(f.sinh()), "cosh" => n(f.cosh()), "tanh" => n(f.tanh()),
        "asinh" => n(f.asinh()), "acosh" => n(f.acosh()), "atanh" => n(f.atanh()),
        "sqrt" => n(f.sqrt()), "cbrt" => n(f.cbrt()), "square" => n(f.powi(2)),
        "absolute" | "abs" | "fabs" => n(f.abs()),
        "sign" => (if x < zero { -1isize } else { 1isize }).key(),
        "nan_to_num" => (if x.nan() { zero } else if x.inf() { N::maxv() } else { x }).key(),
        // i0 is a 60-coefficient Chebyshev kernel private to the crate: the oracle applies the same op to the one-element array
        "i0" => match N::call_extra("i0", &Array::single(x).unwrap(), Recv::Plain) { Some(Ok((_, k))) if k.len() == 1 => k[0], _ => panic!("native: i0 on a one-element array") },
        "sinc" => { let y = std::f64::consts::PI * if x == zero { 1.0e-20 } else { f }; n(y.sin() / y) }
        "signbit" => f.is_sign_negative().key(),
        "spacing" => { let bits = f.to_bits(); let next = if f.is_sign_negative() { bits - 1 } else { bits + 1 }; n(f64::from_bits(next) - f) }
        "reciprocal" => n(f.recip()), "negative" => n(-f), "positive" => x.key(),
        "bitwise_not" | "invert" => x.bnot().key(),
        _ => panic!("native: unknown op {op}"),
    }
}

/// the ops of the traits bounded by `Numeric` only, on either receiver
fn unary_on<N: Elem, R>(r: &R, op: &str) -> Option<Keys>
where R: ArrayRounding<N> + ArrayExpLog<N> + ArrayHyperbolic<N> + ArrayMathMisc<N> + ArrayArithmetic<N> + ArrayBinary<N> {
    Some(match op {
        "fix" => keys(r.fix()), "trunc" => keys(r.trunc()), "floor" => keys(r.floor()), "ceil" => keys(r.ceil()),
        "rint" => keys(r.rint()),
        "round0" => keys(r.round(&Array::single(0).unwrap())),
        "round2" => keys(r.round(&Array::single(2).unwrap())),
        "around1" => keys(r.around(&Array::single(1).unwrap())),
        "exp" => keys(r.exp()), "exp2" => keys(r.exp2()), "exp_m1" => keys(r.exp_m1()),
        "log" => keys(r.log()), "log2" => keys(r.log2()), "log10" => keys(r.log10()), "log_1p" => keys(r.log_1p()),
        "sinh" => keys(r.sinh()), "cosh" => keys(r.cosh()), "tanh" => keys(r.tanh()),
        "asinh" => keys(r.asinh()), "acosh" => keys(r.acosh()), "atanh" => keys(r.atanh()),
        "sqrt" => keys(r.sqrt()), "cbrt" => keys(r.cbrt()), "square" => keys(r.square()),
        "absolute" => keys(r.absolute()), "abs" => keys(r.abs()), "fabs" => keys(r.fabs()),
        "sign" => keys(r.sign()), "nan_to_num" => keys(r.nan_to_num()),
        "reciprocal" => keys(r.reciprocal()), "negative" => keys(r.negative()), "positive" => keys(r.positive()),
        "bitwise_not" => keys(r.bitwise_not()), "invert" => keys(r.invert()),
        _ => return None,
    })
}

/// run the real op on the given receiver; Ok((shape, keys)) or the outcome text
fn real_unary<N: Elem>(op: &str, a: &Array<N>, recv: Recv) -> Keys {
    let out = std::panic::catch_unwind(std::panic::AssertUnwindSafe(|| {
        match on_recv!(recv, a, |r| unary_on(r, op)) { Some(k) => k, None => N::call_extra(op, a, recv).unwrap_or_else(|| Err("bad-op".to_string())) }
    }));
    match out { Ok(r) => r, Err(_) => Err("panic".to_string()) }
}

fn build<N: Elem>(shape: &[usize], cls: &str, off: usize) -> Array<N> {
    let n: usize = shape.iter().product();
    Array::new((0..n).map(|p| N::value(cls, p + off)).collect(), shape.to_vec()).expect("harness: build")
}

/// compare the real result with (model structure) x (native kernel)
fn judge<N: Elem>(op: &str, a: &Array<N>, real: Keys, expected: &str) -> Option<Verdict> {
    let (shape, keys) = match real {
        Ok(x) => x,
        Err(s) => { if s == "bad-op" { return None; } return Some(compare_default(s, expected)); }
    };
    // expected: "ok SHAPE:IDX"
    let body = match expected.strip_prefix("ok ") { Some(b) => b, None => return Some(compare_default(format!("ok {}:…", show_list(&shape)), expected)) };
    let (msh, midx) = body.split_once(':')?;
    let (msh, midx) = (parse_usize_list(msh), parse_usize_list(midx));
    let input = a.get_elements().unwrap();
    if shape != msh {
        return Some(Verdict::Mismatch { observed: format!("ok shape {}", show_list(&shape)), detail: format!("result shape {:?}, the model (map keeps the receiver's shape) says {:?}", shape, msh) });
    }
    if keys.len() != midx.len() {
        return Some(Verdict::Mismatch { observed: format!("ok {} elements", keys.len()), detail: format!("model says {} elements", midx.len()) });
    }
    for p in 0..keys.len() {
        let want = native(op, input[midx[p]]);
        if keys[p] != want {
            return Some(Verdict::Mismatch { observed: format!("ok {}: out[{}] = bits {:#x}", show_list(&shape), p, keys[p]),
                detail: format!("position {p}: expected {op}(in[{}]) = bits {:#x} (input {}), got bits {:#x}", midx[p], want, input[midx[p]], keys[p]) });
        }
    }
    Some(Verdict::Match(expected.to_string()))
}

/// ops that reach their elements through the broadcasting layer (`broadcast` / `broadcast_h2` / `zip` against a one-element
/// or equal-shape operand) instead of `map`.  `is_broadcastable` refuses zero-length axes by design (`dim == 0` arm), so
/// on arrays without elements these ops answer `Err(BroadcastShapeMismatch)` where the `map`-based ops answer the empty
/// array.  Whether a zero-length operand is stretchable is C03's question; C05 leaves that region open (not compared).
const OPS_BROADCAST_ROUTED: &[&str] = &["rint", "round0", "round2", "around1", "log"];

fn open_if_empty(v: Option<Verdict>, n: usize) -> Option<Verdict> {
    match v {
        Some(Verdict::Mismatch { observed, .. }) if n == 0 && class_of(&observed) == "err" => Some(Verdict::Open(observed)),
        other => other,
    }
}

fn exec_unary(args: &[&str], expected: &str) -> Option<Verdict> {
    let n: usize = parse_usize_list(args[2]).iter().product();
    let v = exec_unary_inner(args, expected);
    if OPS_BROADCAST_ROUTED.contains(&args[0]) { open_if_empty(v, n) } else { v }
}

fn show_keys(k: &Keys) -> String {
    match k { Ok((s, v)) => format!("ok {}:{}", show_list(s), truncate(&v.iter().map(|b| format!("{b:#x}")).collect::<Vec<_>>().join(","), 300)), Err(e) => e.clone() }
}

/// plain receiver against model x native kernel; then `Ok(a).op()` must be bit-identical to `a.op()` and `Err(_).op()` an error
fn run_unary<N: Elem>(op: &str, shape: &[usize], cls: &str, off: usize, expected: &str) -> Option<Verdict> {
    let a = build::<N>(shape, cls, off);
    let plain = real_unary(op, &a, Recv::Plain);
    let v = judge(op, &a, plain.clone(), expected)?;
    if let Verdict::Mismatch { .. } = v { return Some(v); }
    let chained = real_unary(op, &a, Recv::Chained);
    let same = match (&plain, &chained) { (Ok(x), Ok(y)) => x == y, (Err(x), Err(y)) => class_of(x) == class_of(y), _ => false };
    if !same {
        let at = match (&plain, &chained) { (Ok(x), Ok(y)) if x.0 == y.0 && x.1.len() == y.1.len() => (0..x.1.len()).find(|&p| x.1[p] != y.1[p]).map_or(String::new(), |p| format!(" (first difference at flat position {p}: input {}, chained bits {:#x}, plain bits {:#x})", a.get_elements().unwrap()[p], y.1[p], x.1[p])), _ => String::new() };
        return Some(Verdict::Mismatch { observed: format!("RECEIVER-DIVERGENCE chained: {}", show_keys(&chained)),
            detail: format!("the call on `Ok(array)` (impl for Result<Array<N>, ArrayError>) differs from the plain call, which gives `{}`{at}", show_keys(&plain)) });
    }
    let on_err = real_unary(op, &a, Recv::ErrRecv);
    if !matches!(&on_err, Err(e) if class_of(e) == "err") {
        return Some(Verdict::Mismatch { observed: format!("RECEIVER-DIVERGENCE on Err(_): {}", show_keys(&on_err)), detail: "the call on an `Err(_)` receiver must return the error".into() });
    }
    Some(v)
}

fn exec_unary_inner(args: &[&str], expected: &str) -> Option<Verdict> {
    let (op, ty, shape, cls) = (args[0], args[1], parse_usize_list(args[2]), args[3]);
    let off: usize = args[4].parse().ok()?;
    if !OPS_ALL.contains(&op) && !OPS_FLOAT.contains(&op) && !OPS_MORE.contains(&op) { return None; }
    if !op_defined(op, ty) { return None; }
    match ty {
        "f64" => run_unary::<f64>(op, &shape, cls, off, expected), "f32" => run_unary::<f32>(op, &shape, cls, off, expected),
        "i8" => run_unary::<i8>(op, &shape, cls, off, expected), "i16" => run_unary::<i16>(op, &shape, cls, off, expected),
        "i32" => run_unary::<i32>(op, &shape, cls, off, expected), "i64" => run_unary::<i64>(op, &shape, cls, off, expected),
        "u8" => run_unary::<u8>(op, &shape, cls, off, expected), "u16" => run_unary::<u16>(op, &shape, cls, off, expected),
        "u32" => run_unary::<u32>(op, &shape, cls, off, expected), "u64" => run_unary::<u64>(op, &shape, cls, off, expected),
        _ => None,
    }
}

// ------------------------------------------------------------------ frexp / ldexp

fn parse_bits_arr(s: &str) -> Option<(Vec<usize>, Vec<u64>)> {
    let (sh, el) = s.split_once(':')?;
    let shape = parse_usize_list(sh);
    let bits: Vec<u64> = if el == "-" { vec![] } else { el.split(',').map(|x| x.parse::<u64>().ok()).collect::<Option<Vec<_>>>()? };
    Some((shape, bits))
}
fn show_bits_arr(shape: &[usize], v: &[f64]) -> String { format!("{}:{}", show_list(shape), show_list(&v.iter().map(|x| canon(*x)).collect::<Vec<_>>())) }

fn exec_float(op: &str, args: &[&str], expected: &str) -> Option<Verdict> {
    let ty = args[0];
    let (shape, bits) = parse_bits_arr(args[1])?;
    let vals: Vec<f64> = bits.iter().map(|b| f64::from_bits(*b)).collect();
    fn widen<N: Numeric>(a: &Array<N>) -> Vec<f64> { a.get_elements().unwrap().iter().map(|x| x.to_f64()).collect() }
    fn float_on<N: Floating, R: ArrayFloating<N>>(r: &R, op: &str, exps: &Option<Array<i32>>) -> String {
        match op {
            "frexp" => show_res(&r.frexp(), |(m, e)| format!("{};{}", show_bits_arr(&m.get_shape().unwrap(), &widen(m)), show_arr(e))),
            "ldexp" => show_res(&r.ldexp(exps.as_ref().unwrap()), |r| show_bits_arr(&r.get_shape().unwrap(), &widen(r))),
            "roundtrip" => match r.frexp() {
                // the mantissa array goes back in on the same kind of receiver
                Ok((m, e)) => show_res(&m.ldexp(&e), |r| show_bits_arr(&r.get_shape().unwrap(), &widen(r))),
                Err(e) => format!("err {}", err_name(&e)),
            },
            _ => "bad-op".to_string(),
        }
    }
    /// plain receiver, then the same call on `Ok(array)` (must give the same text) and on `Err(_)` (must be an error)
    fn run<N: Floating>(op: &str, shape: &[usize], vals: &[f64], exps: Option<Array<i32>>) -> String {
        let a: Array<N> = Array::new(vals.iter().map(|x| N::from(*x)).collect(), shape.to_vec()).expect("harness: float array");
        let plain = float_on(&a, op, &exps);
        if plain == "bad-op" { return plain; }
        let chained = guarded(|| { let r = ok_of(&a); let t = float_on(&r, op, &exps);
            if op == "roundtrip" { if let Ok((m, e)) = r.frexp() { return show_res(&Ok(m).ldexp(&e), |r| show_bits_arr(&r.get_shape().unwrap(), &widen(r))); } }
            t });
        if chained != plain { return format!("RECEIVER-DIVERGENCE the call on `Ok(array)` gives `{}`, the plain call `{}`", truncate(&chained, 400), truncate(&plain, 400)); }
        let on_err = guarded(|| float_on(&err_of(&a), op, &exps));
        if class_of(&on_err) != "err" { return format!("RECEIVER-DIVERGENCE the call on an `Err(_)` receiver gives `{}`", truncate(&on_err, 300)); }
        plain
    }
    let exps = if op == "ldexp" {
        let (es, ev) = parse_arr_raw(args[2]);
        Some(Array::new(ev.into_iter().map(|x| x as i32).collect::<Vec<i32>>(), es).ok()?)
    } else { None };
    let (op2, shape2, vals2) = (op.to_string(), shape.clone(), vals.clone());
    let observed = match ty {
        "f64" => guarded(move || run::<f64>(&op2, &shape2, &vals2, exps)),
        "f32" => guarded(move || run::<f32>(&op2, &shape2, &vals2, exps)),
        _ => return None,
    };
    if observed == "bad-op" { return None; }
    // the property itself, independent of the model: the recombined value IS the original value
    if op == "roundtrip" {
        if let Some(body) = observed.strip_prefix("ok ") {
            if let Some((osh, obits)) = parse_bits_arr(body) {
                let same = osh == shape && obits.len() == vals.len() && obits.iter().zip(&vals).all(|(o, v)| { let o = f64::from_bits(*o); o == *v || (o.is_nan() && v.is_nan()) });
                if !same { return Some(Verdict::Mismatch { observed, detail: "ldexp(frexp(x)) differs from x (shape or value)".to_string() }); }
            }
        }
    }
    Some(compare_default(observed, expected))
}

// ------------------------------------------------------------------ exec

fn exec(op: &str, args: &[&str], expected: &str) -> Option<Verdict> {
    match op {
        "map" | "map_e" | "filter" | "filter_e" | "filter_map" | "filter_map_e" | "fold" | "for_each" | "for_each_e" =>
            Some(compare_default(exec_closure(op, args)?, expected)),
        "into_iter" | "into_iter_ref" => Some(compare_default(exec_closure(op, args)?, expected)),
        "collect" => { let l = parse_i64_list(args[0]); Some(compare_default(guarded(|| { let a: Array<i64> = l.into_iter().collect(); format!("ok {}", show_arr(&a)) }), expected)) }
        "zip" => {
            let (a, b) = (parse_arr_i64(args[0]), parse_arr_i64(args[1]));
            let n = a.len().unwrap();
            open_if_empty(Some(compare_default(guarded(|| show_res(&a.zip(&b), |z| format!("{}:{}", show_list(&z.get_shape().unwrap()),
                show_list(&z.get_elements().unwrap().iter().map(|t| format!("{}/{}", t.0, t.1)).collect::<Vec<_>>())))), expected)), n)
        }
        "unary" => exec_unary(args, expected),
        "frexp" => exec_float(op, args, expected),
        // ldexp pairs the mantissas with the exponents through `zip`, i.e. through the broadcasting layer, which refuses zero-length
        // axes by design: the same open region as `zip` / rint / round / log on arrays without elements (C03's question)
        "ldexp" | "roundtrip" => { let n = parse_bits_arr(args.get(1)?)?.1.len(); open_if_empty(exec_float(op, args, expected), n) }
        _ => None,
    }
}

// ------------------------------------------------------------------ gen

fn bits_of(x: f64) -> u64 { x.to_bits() }

/// finite non-zero doubles: subnormals, powers of two and their neighbours, extremes, integers, random patterns
fn float_pool(rng: &mut Rng, thorough: bool) -> Vec<u64> {
    let mut v: Vec<u64> = vec![];
    let step = if thorough { 1 } else { 37 };
    let mut k: i32 = -1074;
    while k <= 1023 {
        // 2^k, its two neighbours, and the negatives
        let p: u64 = if k >= -1022 { ((k + 1023) as u64) << 52 } else { 1u64 << (k + 1074) };
        for b in [p, p + 1, p.wrapping_sub(1)] { if b != 0 && (b >> 52) < 2047 { v.push(b); v.push(b | (1 << 63)); } }
        k += step;
    }
    for x in [f64::MAX, f64::MIN_POSITIVE, 5e-324, 2.225073858507201e-308, 1.0, 0.5, 0.75, 3.0, 0.1, 1e300, 1e-300, 123456789.0, 0.9999999999999999, 1.0000000000000002] {
        v.push(bits_of(x)); v.push(bits_of(-x));
    }
    let n_rand = if thorough { 4000 } else { 400 };
    for _ in 0..n_rand {
        let ex = rng.below(2047) as u64;            // 0 (subnormal) ..= 2046
        let fr = rng.next() & ((1u64 << 52) - 1);
        let fr = match rng.below(4) { 0 => fr, 1 => fr & 0xff, 2 => fr & !0xffff_ffff, _ => fr | 1 };
        let b = ((rng.below(2) as u64) << 63) | (ex << 52) | fr;
        if b & !(1u64 << 63) != 0 { v.push(b); }
    }
    v
}

fn gen(tier: &str, seed: u64, out: &mut dyn FnMut(String)) {
    let thorough = tier == "thorough";
    let mut rng = Rng::new(seed);          // the random streams
    let mut det = Rng::new(0xC05);         // fixed filler for the enumerated part (does not depend on the seed)
    // ---- corpus of past failures (pinned tree): see the end of the stream for the frexp(±inf) cases (they hang; kept last so
    //      that the leaked spinning workers live as briefly as possible)
    out("unary rint f64 2,3 dom 0".to_string());
    out("unary log f64 2,3 dom 0".to_string());
    out("unary round2 f64 3,2 dom 1".to_string());

    // ---- (a) closures: exhaustive over shapes rank<=4 len<=3 (+ zero-length), several closures
    let mut shapes_all = shapes(1, 4, 1, 3);
    shapes_all.extend(vec![vec![0], vec![0, 2], vec![2, 0], vec![1, 0, 3]]);
    let mut clos: Vec<String> = vec!["3,5,1,7,3".into(), "1,0,0,2,1".into(), "7,11,2,5,2".into()];
    if thorough { clos.extend(["0,1,0,3,1".to_string(), "2,3,1,4,4".into(), "5,1,3,4,0".into(), "13,7,5,11,6".into(), "1,1,1,2,1".into()]); }
    let cl_ops = ["map", "map_e", "filter", "filter_e", "filter_map", "filter_map_e", "fold", "for_each", "for_each_e"];
    for s in &shapes_all {
        let n: usize = s.iter().product();
        let mut arrs = vec![tag(s), tag_off(s, 17)];
        // repeated and negative values: multiplicity must be kept
        let reps: Vec<i64> = (0..n).map(|_| det.range(-3, 3)).collect();
        arrs.push(format!("{}:{}", show_list(s), show_list(&reps)));
        let same: Vec<i64> = vec![5; n];
        arrs.push(format!("{}:{}", show_list(s), show_list(&same)));
        for a in &arrs {
            for c in &clos {
                for op in cl_ops {
                    if (op == "for_each" || op == "for_each_e") && c != &clos[0] { continue; }
                    if op == "fold" { out(format!("fold {a} {c} {}", det.range(0, 50))); } else { out(format!("{op} {a} {c}")); }
                }
            }
            out(format!("into_iter {a}"));
            out(format!("into_iter_ref {a}"));
        }
        out(format!("zip {} {}", arrs[0], tag_off(s, 1000)));
        out(format!("zip {} {}", arrs[2], arrs[1]));
        out(format!("collect {}", show_list(&reps)));
    }
    // ---- beyond the scope: rank 5, longer axes
    let n_rand = if thorough { 150 } else { 25 };
    for _ in 0..n_rand {
        let mut s = rng.shape(1, 5, 6);
        while s.iter().product::<usize>() > 1500 { s.pop(); }
        let c = format!("{},{},{},{},{}", rng.range(0, 20), rng.range(0, 20), rng.range(0, 9), rng.range(1, 12), rng.range(0, 12));
        let a = if rng.below(2) == 0 { tag_off(&s, rng.range(0, 100)) } else {
            let n: usize = s.iter().product(); format!("{}:{}", show_list(&s), show_list(&(0..n).map(|_| rng.range(-9, 9)).collect::<Vec<_>>())) };
        for op in cl_ops { if op == "fold" { out(format!("fold {a} {c} {}", rng.range(0, 50))); } else { out(format!("{op} {a} {c}")); } }
        out(format!("into_iter {a}"));
    }

    // ---- (b) unary math ops x types x shapes x value classes
    let ushapes: Vec<Vec<usize>> = if thorough { let mut v = shapes(1, 4, 1, 3); v.extend(vec![vec![0], vec![2, 0], vec![5, 7], vec![2, 2, 2, 2, 2]]); v }
        else { let mut v = shapes(1, 4, 1, 2); v.extend(vec![vec![3], vec![2, 3], vec![3, 2], vec![3, 1, 2], vec![2, 3, 2], vec![3, 3, 3], vec![2, 1, 3, 2], vec![3, 2, 1, 3], vec![0], vec![5, 7]]); v };
    let classes = ["dom", "edge", "spec", "mix"];
    for (si, s) in ushapes.iter().enumerate() {
        for (oi, op) in OPS_ALL.iter().chain(OPS_FLOAT.iter()).enumerate() {
            for ty in ["f64", "f32", "i32"] {
                if ty == "i32" && OPS_FLOAT.contains(op) { continue; }
                if thorough {
                    for cls in classes { if ty == "i32" && cls != "dom" { continue; } out(format!("unary {op} {ty} {} {cls} {}", show_list(s), det.below(50))); }
                } else {
                    // quick: every op x type x shape once, the value class rotating so that each op meets each class on many shapes
                    let cls = if ty == "i32" { "dom" } else { classes[(si + oi) % 4] };
                    out(format!("unary {op} {ty} {} {cls} {}", show_list(s), (si * 7 + oi) % 50));
                }
            }
        }
    }

    // ---- (c) frexp / ldexp on bit patterns
    let pool = float_pool(&mut rng, thorough);
    let fshapes: Vec<Vec<usize>> = vec![vec![1], vec![4], vec![2, 3], vec![3, 1, 2], vec![2, 2, 1, 2], vec![7], vec![3, 3]];
    let mut i = 0usize; let mut si = 0usize;
    while i < pool.len() {
        let s = &fshapes[si % fshapes.len()]; si += 1;
        let n: usize = s.iter().product();
        let chunk: Vec<u64> = (0..n).map(|j| pool[(i + j) % pool.len()]).collect();
        i += n;
        let body = format!("{}:{}", show_list(s), show_list(&chunk));
        out(format!("frexp f64 {body}"));
        out(format!("roundtrip f64 {body}"));
    }
    // zero (both signs), NaN: terminate on the pinned tree as well
    let zeros = format!("2,2:{},{},{},{}", bits_of(0.0), bits_of(-0.0), bits_of(1.5), bits_of(f64::NAN));
    out(format!("frexp f64 {zeros}")); out(format!("roundtrip f64 {zeros}"));
    out(format!("frexp f64 1:{}", bits_of(f64::NAN))); out(format!("roundtrip f64 1:{}", bits_of(f64::NAN)));
    out("frexp f64 0:-".to_string());
    // f32: values that are exactly representable in f32 (incl. f32 subnormals)
    let n32 = if thorough { 600 } else { 80 };
    let mut f32vals: Vec<f32> = vec![1.0, -1.0, 0.75, f32::MAX, f32::MIN_POSITIVE, 1e-45, -1e-45, 3.0e-39, 0.1, 16777216.0];
    for _ in 0..n32 { let b = (rng.next() as u32) & 0xffff_ffff; let x = f32::from_bits(b); if x.is_finite() && x != 0.0 { f32vals.push(x); } }
    for ch in f32vals.chunks(4) {
        let body = format!("{}:{}", ch.len(), show_list(&ch.iter().map(|x| bits_of(*x as f64)).collect::<Vec<_>>()));
        out(format!("frexp f32 {body}")); out(format!("roundtrip f32 {body}"));
    }
    // ldexp alone, exact cases: 53-bit mantissa, moderate exponents, result stays normal
    let n_ld = if thorough { 1500 } else { 200 };
    for _ in 0..n_ld {
        let s = &fshapes[rng.below(fshapes.len())];
        let n: usize = s.iter().product();
        let xs: Vec<u64> = (0..n).map(|_| { let ex = (1023 + rng.range(-300, 300)) as u64; ((rng.below(2) as u64) << 63) | (ex << 52) | (rng.next() & ((1u64 << 52) - 1)) }).collect();
        let es: Vec<i64> = (0..n).map(|_| match rng.below(5) { 0 => 0, 1 => rng.range(-3, 3), _ => rng.range(-300, 300) }).collect();
        out(format!("ldexp f64 {}:{} {}:{}", show_list(s), show_list(&xs), show_list(s), show_list(&es)));
    }
    out(format!("ldexp f64 4:{},{},{},{} 4:5,-5,7,0", bits_of(0.0), bits_of(f64::INFINITY), bits_of(f64::NAN), bits_of(f64::NEG_INFINITY)));
    for _ in 0..(n_ld / 10) {
        let xs: Vec<u64> = (0..3).map(|_| bits_of(f32::from_bits(((rng.below(2) as u32) << 31) | (((127 + rng.range(-20, 20)) as u32) << 23) | ((rng.next() as u32) & 0x7f_ffff)) as f64)).collect();
        let es: Vec<i64> = (0..3).map(|_| rng.range(-60, 60)).collect();
        out(format!("ldexp f32 3:{} 3:{}", show_list(&xs), show_list(&es)));
    }

    // ---- "malformed" stream: C05's operations have no refusing inputs of their own (closures cannot fail, zip with unequal
    //      shapes belongs to C03); the degenerate inputs are the empty / zero-length arrays, enumerated above.

    // ================= robustness streams (FRAMEWORK.md)
    let mut rx = Rng::new(seed ^ 0xC05_0002);
    let bigs = big_shapes();
    let zeros = zero_shapes();
    // ---- (a') closures beyond the small scope: every big shape (axis lengths 7..17, > 256 / 1024 / 4096 elements) and every
    //      zero-length shape x every closure op; the closures' answers depend on the passed index (1000*i), on the number of earlier
    //      calls (a*k) and on the element; every case also runs on the f64(-0.0) / u8 / String images (exec_closure)
    let big_clos: [&str; 3] = ["3,5,1,7,3", "7,11,2,5,2", "1,0,0,2,1"];
    for (si, s) in bigs.iter().chain(zeros.iter()).enumerate() {
        let n: usize = s.iter().product();
        // element patterns: tags, tags shifted, small repeated values (u8-representable: 0..=250 only when the tags are)
        let reps: Vec<i64> = (0..n).map(|_| det.range(0, 9)).collect();
        let arrs = [tag(s), tag_off(s, 17), format!("{}:{}", show_list(s), show_list(&reps))];
        let n_clo = if thorough { 3 } else if n > 1100 { 1 } else { 2 };
        for (ai, a) in arrs.iter().enumerate() {
            if !thorough && n > 1100 && ai != si % 3 { continue; }
            for c in &big_clos[(si % 3)..].iter().chain(big_clos[..(si % 3)].iter()).take(n_clo).collect::<Vec<_>>() {
                for op in cl_ops { if op == "fold" { out(format!("fold {a} {c} {}", det.range(0, 50))); } else { out(format!("{op} {a} {c}")); } }
            }
            out(format!("into_iter {a}"));
            out(format!("into_iter_ref {a}"));
        }
        out(format!("zip {} {}", arrs[0], tag_off(s, 1000)));
        out(format!("zip {} {}", arrs[2], arrs[1]));
        out(format!("collect {}", show_list(&reps)));
    }
    // random closures on random long shapes (index- and history-dependent by construction of Clo.val)
    for _ in 0..(if thorough { 60 } else { 12 }) {
        let s: Vec<usize> = match rx.below(3) { 0 => vec![257 + rx.below(900)], 1 => vec![7 + rx.below(11), 7 + rx.below(11), 1 + rx.below(4)], _ => vec![2 + rx.below(3), 1, 40 + rx.below(60), 2 + rx.below(3)] };
        let c = format!("{},{},{},{},{}", rx.range(1, 20), rx.range(0, 20), rx.range(0, 9), rx.range(2, 12), rx.range(1, 11));
        let a = tag_off(&s, rx.range(0, 100));
        for op in ["map_e", "filter_e", "filter_map_e", "for_each_e", "map", "filter", "fold"] { if op == "fold" { out(format!("fold {a} {c} {}", rx.range(0, 50))); } else { out(format!("{op} {a} {c}")); } }
    }

    // ---- (b') one-operand ops: every op on every element type it is defined for (i8 i16 i32 i64 u8 u16 u32 u64 f32 f64), value
    //      classes dom / lim (limits of the type, beyond 2^53 / 2^63, subnormals, -0.0) (+ edge / spec / mix for the floats); every
    //      `unary` case — also those of the original stream — runs on the plain, the Ok(_) and the Err(_) receiver
    let all_ops: Vec<&str> = OPS_ALL.iter().chain(OPS_FLOAT.iter()).chain(OPS_MORE.iter()).copied().collect();
    let rshapes: Vec<Vec<usize>> = if thorough { let mut v = shapes(1, 3, 1, 3); v.extend(vec![vec![2, 1, 3, 2], vec![5, 7], vec![0]]); v }
        else { vec![vec![1], vec![3], vec![7], vec![2, 3], vec![3, 1], vec![1, 2, 2], vec![3, 2, 3], vec![2, 1, 3, 2], vec![5, 9], vec![0]] };
    for (si, s) in rshapes.iter().enumerate() {
        for (oi, op) in all_ops.iter().enumerate() {
            for (ti, ty) in ALL_TYPES.iter().enumerate() {
                if !op_defined(op, ty) { continue; }
                let float = *ty == "f64" || *ty == "f32";
                let original = OPS_ALL.contains(op) || OPS_FLOAT.contains(op);
                let mut classes: Vec<&str> = vec!["lim"];
                // (dom for the original ops on f64 / f32 / i32 is the original stream)
                if !(original && ti < 3) { classes.push("dom"); }
                if float && !original { classes.extend(["edge", "spec", "mix"]); }
                for (ci, cls) in classes.iter().enumerate() {
                    if !thorough && classes.len() > 2 && (si + oi + ci) % 2 == 1 { continue; }
                    out(format!("unary {op} {ty} {} {cls} {}", show_list(s), (si * 7 + oi * 3 + ti + ci) % 60));
                }
            }
        }
    }
    //      sizes and zero-length axes: big_shapes() / zero_shapes() x every op; quick: two element types in rotation, thorough: all
    //      (for > 1100 elements: three in rotation)
    for (si, s) in bigs.iter().chain(zeros.iter()).enumerate() {
        let n: usize = s.iter().product();
        for (oi, op) in all_ops.iter().enumerate() {
            let tys: Vec<&str> = ALL_TYPES.iter().filter(|ty| op_defined(op, ty)).copied().collect();
            for (ti, ty) in tys.iter().enumerate() {
                let pick = if thorough { n <= 1100 || (si + oi) % tys.len() == ti || (si + oi + 1) % tys.len() == ti || (si + oi + 4) % tys.len() == ti }
                    else { (si + oi) % tys.len() == ti || (si + 2 * oi + 3) % tys.len() == ti };
                if !pick { continue; }
                let float = *ty == "f64" || *ty == "f32";
                let cls = if float { ["dom", "lim", "edge", "mix", "spec"][(si + oi + ti) % 5] } else { ["dom", "lim"][(si + oi + ti) % 2] };
                out(format!("unary {op} {ty} {} {cls} {}", show_list(s), (si + oi * 5 + ti) % 60));
            }
        }
    }

    // ---- (c') frexp / ldexp / recombination on long and zero-length arrays (every case runs on the three receivers)
    let long_shapes: Vec<Vec<usize>> = if thorough { vec![vec![300], vec![17, 16], vec![1030], vec![9, 9], vec![2, 3, 4, 5, 2], vec![16, 17], vec![4, 4, 4, 4], vec![8, 3], vec![40, 30], vec![4100]] }
        else { vec![vec![300], vec![17, 16], vec![1030], vec![9, 9], vec![2, 3, 4, 5, 2]] };
    let mut pi = 0usize;
    for s in &long_shapes {
        let n: usize = s.iter().product();
        let chunk: Vec<u64> = (0..n).map(|j| pool[(pi + j * 7) % pool.len()]).collect();
        pi += n;
        let body = format!("{}:{}", show_list(s), show_list(&chunk));
        out(format!("frexp f64 {body}"));
        out(format!("roundtrip f64 {body}"));
        let xs: Vec<u64> = (0..n).map(|_| { let ex = (1023 + rx.range(-300, 300)) as u64; ((rx.below(2) as u64) << 63) | (ex << 52) | (rx.next() & ((1u64 << 52) - 1)) }).collect();
        let es: Vec<i64> = (0..n).map(|_| match rx.below(5) { 0 => 0, 1 => rx.range(-3, 3), _ => rx.range(-300, 300) }).collect();
        out(format!("ldexp f64 {}:{} {}:{}", show_list(s), show_list(&xs), show_list(s), show_list(&es)));
        // f32: exactly representable values
        let f32s: Vec<u64> = (0..n).map(|_| bits_of(f32::from_bits(((rx.below(2) as u32) << 31) | (((127 + rx.range(-100, 100)) as u32) << 23) | ((rx.next() as u32) & 0x7f_ffff)) as f64)).collect();
        let body32 = format!("{}:{}", show_list(s), show_list(&f32s));
        out(format!("frexp f32 {body32}")); out(format!("roundtrip f32 {body32}"));
    }
    // every binary64 subnormal exponent and the top binade, in long lanes (the normalisation loops run longest there)
    {
        let sub: Vec<u64> = (0..52).flat_map(|k| [1u64 << k, (1u64 << k) | 1, (1u64 << 63) | (1u64 << k), (1u64 << (k + 1)) - 1]).collect();
        let top: Vec<u64> = (0..64).map(|k| (2046u64 << 52) | (rx.next() & ((1u64 << 52) - 1)) | ((k as u64 % 2) << 63)).collect();
        for (name, v) in [("sub", sub), ("top", top)] {
            let _ = name;
            let body = format!("{}:{}", v.len(), show_list(&v));
            out(format!("frexp f64 {body}")); out(format!("roundtrip f64 {body}"));
        }
    }
    for z in &zeros {
        out(format!("frexp f64 {}:-", show_list(z)));
        out(format!("roundtrip f64 {}:-", show_list(z)));
        out(format!("frexp f32 {}:-", show_list(z)));
        out(format!("ldexp f64 {}:- {}:-", show_list(z), show_list(z)));
    }

    // ---- corpus: frexp(±inf) — never returns on the pinned tree (watchdog -> `hang`)
    out(format!("frexp f64 1:{}", bits_of(f64::INFINITY)));
    out(format!("frexp f64 1:{}", bits_of(f64::NEG_INFINITY)));
    out(format!("frexp f32 1:{}", bits_of(f64::INFINITY)));
    out(format!("frexp f64 2,2:{},{},{},{}", bits_of(1.0), bits_of(f64::INFINITY), bits_of(3.0), bits_of(f64::NEG_INFINITY)));
    out(format!("roundtrip f64 2:{},{}", bits_of(f64::NEG_INFINITY), bits_of(f64::INFINITY)));
}

/// non-trivial: closure / iteration / unary cases on arrays with at least two elements (order and position observable);
/// float cases containing at least one finite non-zero value
fn nontrivial(op: &str, args: &[&str]) -> bool {
    match op {
        "unary" => parse_usize_list(args[2]).iter().product::<usize>() >= 2,
        "frexp" | "ldexp" | "roundtrip" => parse_bits_arr(args[1]).map_or(false, |(_, b)| b.iter().any(|x| { let v = f64::from_bits(*x); v.is_finite() && v != 0.0 })),
        "collect" => parse_i64_list(args[0]).len() >= 2,
        _ => parse_arr_raw(args[0]).1.len() >= 2,
    }
}

fn main() {
    harness_main(Spec { prop: "C05", gen, exec, nontrivial, hang_secs: 5,
        rule: "closures (map, map_e, filter, filter_e, filter_map(_e), fold, for_each(_e), into_iter x2, collect, same-shape zip): exhaustive over every shape rank<=4 len<=3 (+ zero-length) x 4 element patterns (tags, offset tags, repeated/negative, constant) x 3 (quick) / 8 (thorough) counter-stamping closures, + seeded random rank<=5 len<=6; \
unary math: 43 ops x {f64,f32,i32} x shapes (rank<=4 len<=2 + selected, quick; all rank<=4 len<=3, thorough) x value classes dom/edge/spec(NaN,+-inf)/mix, out[p] == native kernel of in[src[p]] bit-exact; \
frexp/ldexp/ldexp(frexp): bit patterns of all powers of two 2^-1074..2^1023 (every 37th in quick) with both neighbours and signs, extremes, subnormals, random patterns, f32-representable values, +-0, NaN, +-inf under a 5 s watchdog. \
ROBUSTNESS STREAMS: closures on every big_shapes() entry (axis lengths 7..17, > 256 / 1024 / 4096 elements) and zero_shapes() entry x the 9 closure ops x 1-3 stamping closures whose answer depends on the passed index, on the number of earlier calls and on the element, + random long shapes; every closure / into_iter case also on the f64 (tag 0 = -0.0, bit-wise), u8 and String images of the array (same transcript required); unary: 48 ops (the 43 + reciprocal, negative, positive, bitwise_not, invert) x i8,i16,i32,i64,u8,u16,u32,u64,f32,f64 (where defined) x classes dom/lim (limits of the type, beyond 2^53 / 2^63, subnormals, -0.0), native kernel with the harness own casts, on small, big and zero-length shapes; EVERY unary / frexp / ldexp / roundtrip case on three receivers - a.op(), Ok(a).op() (bit-identical) and Err(_).op() (must stay an error); frexp/ldexp/roundtrip on arrays of 81..1030 (thorough 4100) elements, all subnormal exponents, the top binade, zero-length shapes. \
distinct = distinct case lines; non-trivial = array with >= 2 elements (closure/unary) or containing a finite non-zero value (float ops)" });
}
