//! C05 — one-operand functions and closure iteration keep shape, order, multiplicity.
//!
//! (a) closures: a counter-stamping closure records (call#, position passed, element) and answers a function of the
//!     call number; transcript = result + log, compared with the model's `StateM` trace.
//! (b) ~45 one-operand math ops x element types x shapes x value classes: the model answers shape + which input position
//!     feeds each output position; `out[p] == f_native(in[src[p]])` is evaluated here, bit-exactly (NaN canonicalised),
//!     with `f_native` the f64 method / formula named in the op's body.
//! (c) frexp / ldexp / ldexp(frexp(x)) on IEEE-754 bit patterns (integers cross the boundary, never float text);
//!     the model computes over exact rationals.  frexp(±inf) runs under the watchdog.
use arrharness::*;

// ------------------------------------------------------------------ closures

#[derive(Clone, Copy)]
struct Clo { a: i64, b: i64, c: i64, m: i64, t: i64 }
impl Clo {
    fn parse(s: &str) -> Option<Clo> {
        let v = parse_i64_list(s);
        if v.len() != 5 || v[3] <= 0 { return None; }
        Some(Clo { a: v[0], b: v[1], c: v[2], m: v[3], t: v[4] })
    }
    fn val(&self, k: i64, idx: Option<usize>, v: i64) -> i64 { self.a * k + self.b * v + self.c + idx.map_or(0, |i| 1000 * i as i64) }
    fn acc(&self, k: i64, idx: Option<usize>, v: i64) -> bool { self.val(k, idx, v).rem_euclid(self.m) < self.t }
    fn opt(&self, k: i64, idx: Option<usize>, v: i64) -> Option<i64> { if self.acc(k, idx, v) { Some(self.val(k, idx, v) + 7) } else { None } }
    fn step(&self, k: i64, acc: i64, v: i64) -> i64 { (acc * 31 + self.b * v + self.a * k + self.c).rem_euclid(1_000_003) }
}

type Log = Vec<(i64, Option<usize>, i64)>;
fn show_log(l: &Log) -> String {
    if l.is_empty() { return "-".into(); }
    l.iter().map(|(k, i, v)| format!("{}/{}/{}", k, i.map_or("_".to_string(), |x| x.to_string()), v)).collect::<Vec<_>>().join(";")
}

fn exec_closure(op: &str, args: &[&str]) -> Option<String> {
    let a = parse_arr_i64(args[0]);
    let p = Clo::parse(args.get(1)?)?;
    let mut k: i64 = 0;
    let mut log: Log = vec![];
    Some(guarded(move || {
        let head = match op {
            "map" => res_arr(&a.map(|&v| { let r = p.val(k, None, v); log.push((k, None, v)); k += 1; r })),
            "map_e" => res_arr(&a.map_e(|i, &v| { let r = p.val(k, Some(i), v); log.push((k, Some(i), v)); k += 1; r })),
            "filter" => res_arr(&a.filter(|&v| { let r = p.acc(k, None, v); log.push((k, None, v)); k += 1; r })),
            "filter_e" => res_arr(&a.filter_e(|i, &v| { let r = p.acc(k, Some(i), v); log.push((k, Some(i), v)); k += 1; r })),
            "filter_map" => res_arr(&a.filter_map(|&v| { let r = p.opt(k, None, v); log.push((k, None, v)); k += 1; r })),
            "filter_map_e" => res_arr(&a.filter_map_e(|i, &v| { let r = p.opt(k, Some(i), v); log.push((k, Some(i), v)); k += 1; r })),
            "fold" => {
                let init: i64 = args[2].parse().unwrap();
                show_res(&a.fold(init, |&acc, &v| { let r = p.step(k, acc, v); log.push((k, None, v)); k += 1; r }), |v| v.to_string())
            }
            "for_each" => show_res(&a.for_each(|&v| { log.push((k, None, v)); k += 1; }), |_| "unit".to_string()),
            "for_each_e" => show_res(&a.for_each_e(|i, &v| { log.push((k, Some(i), v)); k += 1; }), |_| "unit".to_string()),
            _ => unreachable!(),
        };
        format!("{}|{}", head, show_log(&log))
    }))
}

// ------------------------------------------------------------------ unary math ops

const NAN_BITS: u64 = 0x7ff8_0000_0000_0000;
fn canon(x: f64) -> u64 { if x.is_nan() { NAN_BITS } else { x.to_bits() } }

/// bit-exact comparison key of an element
trait Key { fn key(&self) -> u64; }
impl Key for f64 { fn key(&self) -> u64 { canon(*self) } }
impl Key for f32 { fn key(&self) -> u64 { if self.is_nan() { NAN_BITS } else { self.to_bits() as u64 } } }
impl Key for i32 { fn key(&self) -> u64 { *self as i64 as u64 } }
impl Key for isize { fn key(&self) -> u64 { *self as i64 as u64 } }
impl Key for bool { fn key(&self) -> u64 { *self as u64 } }

const F64_DOM: &[f64] = &[0.5, -0.5, 1.0, -1.0, 2.5, -2.5, 0.1, 3.0, 10.0, 100.7, -7.3, 1e-5, 0.999, 0.25, 6.283185307179586, 42.0, -0.75];
const F64_EDGE: &[f64] = &[0.0, -0.0, 1.0, -1.0, f64::MIN_POSITIVE, 5e-324, f64::MAX, f64::MIN, 1e308, 709.78, 710.0, -745.2, 0.9999999999999999,
    1.0000000000000002, 1.5, -1.5, 0.49999999999999994, 4503599627370496.5, 9007199254740992.0, -9007199254740993.0, 1e-320, 8.0, 8.000000000000002, 2147483648.0, -2147483649.0, 1e19];
const F64_SPEC: &[f64] = &[f64::NAN, f64::INFINITY, f64::NEG_INFINITY, 1.0, -2.0];
const I32_VALS: &[i32] = &[0, 1, -1, 2, -2, 7, -7, 100, -100, i32::MAX, i32::MIN, 46340, 20, 3, -3, 90, 180, 1000000];

fn f64_value(cls: &str, j: usize) -> f64 {
    match cls {
        "dom" => F64_DOM[j % F64_DOM.len()],
        "edge" => F64_EDGE[j % F64_EDGE.len()],
        "spec" => F64_SPEC[j % F64_SPEC.len()],
        _ => { let n = F64_DOM.len() + F64_EDGE.len() + F64_SPEC.len(); let j = j % n;
               if j < F64_DOM.len() { F64_DOM[j] } else if j < F64_DOM.len() + F64_EDGE.len() { F64_EDGE[j - F64_DOM.len()] } else { F64_SPEC[j - F64_DOM.len() - F64_EDGE.len()] } }
    }
}

trait Elem: NumericOps + Key { fn value(cls: &str, j: usize) -> Self; }
impl Elem for f64 { fn value(cls: &str, j: usize) -> f64 { f64_value(cls, j) } }
impl Elem for f32 { fn value(cls: &str, j: usize) -> f32 { f64_value(cls, j) as f32 } }
impl Elem for i32 { fn value(_cls: &str, j: usize) -> i32 { I32_VALS[j % I32_VALS.len()] } }

const OPS_ALL: &[&str] = &["fix", "trunc", "floor", "ceil", "rint", "round0", "round2", "around1",
    "exp", "exp2", "exp_m1", "log", "log2", "log10", "log_1p",
    "sin", "cos", "tan", "asin", "acos", "atan", "degrees", "rad2deg", "radians", "deg2rad",
    "sinh", "cosh", "tanh", "asinh", "acosh", "atanh",
    "sqrt", "cbrt", "square", "absolute", "abs", "fabs", "sign", "nan_to_num", "i0", "sinc"];
const OPS_FLOAT: &[&str] = &["signbit", "spacing"];

fn round_native<N: Numeric>(x: N, d: isize) -> N {
    let multiplier = 10_f64.powi(d as i32);
    N::from((x.to_f64() * multiplier).round() / multiplier)
}

/// the scalar kernel named in the op's body, evaluated natively: key of `f(x)`
fn native<N: Elem>(op: &str, x: N) -> u64 {
    let f = x.to_f64();
    let n = |y: f64| -> u64 { N::from(y).key() };
    match op {
        "fix" => if x >= N::zero() { n(f.floor()) } else { n(f.ceil()) },
        "trunc" => n(f.trunc()), "floor" => n(f.floor()), "ceil" => n(f.ceil()),
        "rint" | "round0" => round_native(x, 0).key(),
        "round2" => round_native(x, 2).key(),
        "around1" => round_native(x, 1).key(),
        "exp" => n(f.exp()), "exp2" => n(f.exp2()), "exp_m1" => n(f.exp_m1()),
        "log" => n(f.log(N::from(std::f64::consts::E).to_f64())),
        "log2" => n(f.log2()), "log10" => n(f.log10()), "log_1p" => n(f.ln_1p()),
        "sin" => n(f.sin()), "cos" => n(f.cos()), "tan" => n(f.tan()),
        "asin" => n(f.asin()), "acos" => n(f.acos()), "atan" => n(f.atan()),
        "degrees" | "rad2deg" => n(f.to_degrees()), "radians" | "deg2rad" => n(f.to_radians()),
        "sinh" => n(f.sinh()), "cosh" => n(f.cosh()), "tanh" => n(f.tanh()),
        "asinh" => n(f.asinh()), "acosh" => n(f.acosh()), "atanh" => n(f.atanh()),
        "sqrt" => n(f.sqrt()), "cbrt" => n(f.cbrt()), "square" => n(f.powi(2)),
        "absolute" | "abs" | "fabs" => n(f.abs()),
        "sign" => (if x < N::zero() { -1isize } else { 1isize }).key(),
        "nan_to_num" => (if ArrayElement::is_nan(&x) { N::zero() } else if x.is_inf() { Numeric::max(&x) } else { x }).key(),
        // i0 is a 60-coefficient Chebyshev kernel private to the crate: the oracle applies the same op to the one-element array
        "i0" => Array::single(x).i0().unwrap().get_elements().unwrap()[0].key(),
        "sinc" => { let y = std::f64::consts::PI * if x == N::zero() { 1.0e-20 } else { f }; n(y.sin() / y) }
        "signbit" => f.is_sign_negative().key(),
        "spacing" => { let bits = f.to_bits(); let next = if f.is_sign_negative() { bits - 1 } else { bits + 1 }; n(f64::from_bits(next) - f) }
        _ => panic!("native: unknown op {op}"),
    }
}

/// run the real op; Ok((shape, keys)) or the outcome text
fn real_unary<N: Elem>(op: &str, a: &Array<N>) -> Result<(Vec<usize>, Vec<u64>), String> {
    fn keys<T: ArrayElement + Key>(r: Result<Array<T>, ArrayError>) -> Result<(Vec<usize>, Vec<u64>), String> {
        match r {
            Ok(arr) => {
                if !consistent(&arr) { return Err("inconsistent".to_string()); }
                Ok((arr.get_shape().unwrap(), arr.get_elements().unwrap().iter().map(Key::key).collect()))
            }
            Err(e) => Err(format!("err {}", err_name(&e))),
        }
    }
    let a2 = a.clone();
    let op2 = op.to_string();
    let out = std::panic::catch_unwind(std::panic::AssertUnwindSafe(move || {
        let a = &a2;
        match op2.as_str() {
            "fix" => keys(a.fix()), "trunc" => keys(a.trunc()), "floor" => keys(a.floor()), "ceil" => keys(a.ceil()),
            "rint" => keys(a.rint()),
            "round0" => keys(a.round(&Array::single(0).unwrap())),
            "round2" => keys(a.round(&Array::single(2).unwrap())),
            "around1" => keys(a.around(&Array::single(1).unwrap())),
            "exp" => keys(a.exp()), "exp2" => keys(a.exp2()), "exp_m1" => keys(a.exp_m1()),
            "log" => keys(a.log()), "log2" => keys(a.log2()), "log10" => keys(a.log10()), "log_1p" => keys(a.log_1p()),
            "sin" => keys(a.sin()), "cos" => keys(a.cos()), "tan" => keys(a.tan()),
            "asin" => keys(a.asin()), "acos" => keys(a.acos()), "atan" => keys(a.atan()),
            "degrees" => keys(a.degrees()), "rad2deg" => keys(a.rad2deg()), "radians" => keys(a.radians()), "deg2rad" => keys(a.deg2rad()),
            "sinh" => keys(a.sinh()), "cosh" => keys(a.cosh()), "tanh" => keys(a.tanh()),
            "asinh" => keys(a.asinh()), "acosh" => keys(a.acosh()), "atanh" => keys(a.atanh()),
            "sqrt" => keys(a.sqrt()), "cbrt" => keys(a.cbrt()), "square" => keys(a.square()),
            "absolute" => keys(a.absolute()), "abs" => keys(a.abs()), "fabs" => keys(a.fabs()),
            "sign" => keys(a.sign()), "nan_to_num" => keys(a.nan_to_num()),
            "i0" => keys(a.i0()), "sinc" => keys(a.sinc()),
            _ => Err("bad-op".to_string()),
        }
    }));
    match out { Ok(r) => r, Err(_) => Err("panic".to_string()) }
}

fn real_unary_float<N: Elem + Floating>(op: &str, a: &Array<N>) -> Result<(Vec<usize>, Vec<u64>), String> {
    let a2 = a.clone();
    let op2 = op.to_string();
    let out = std::panic::catch_unwind(std::panic::AssertUnwindSafe(move || -> Result<(Vec<usize>, Vec<u64>), String> {
        match op2.as_str() {
            "signbit" => a2.signbit().map(|r| (r.get_shape().unwrap(), r.get_elements().unwrap().iter().map(Key::key).collect())).map_err(|e| format!("err {}", err_name(&e))),
            "spacing" => a2.spacing().map(|r| (r.get_shape().unwrap(), r.get_elements().unwrap().iter().map(Key::key).collect())).map_err(|e| format!("err {}", err_name(&e))),
            _ => Err("bad-op".to_string()),
        }
    }));
    match out { Ok(r) => r, Err(_) => Err("panic".to_string()) }
}

fn build<N: Elem>(shape: &[usize], cls: &str, off: usize) -> Array<N> {
    let n: usize = shape.iter().product();
    Array::new((0..n).map(|p| N::value(cls, p + off)).collect(), shape.to_vec()).expect("harness: build")
}

/// compare the real result with (model structure) x (native kernel)
fn judge<N: Elem>(op: &str, a: &Array<N>, real: Result<(Vec<usize>, Vec<u64>), String>, expected: &str) -> Option<Verdict> {
    let (shape, keys) = match real {
        Ok(x) => x,
        Err(s) => { if s == "bad-op" { return None; } return Some(compare_default(s, expected)); }
    };
    // expected: "ok SHAPE:IDX"
    let body = match expected.strip_prefix("ok ") { Some(b) => b, None => return Some(compare_default(format!("ok {}:…", show_list(&shape)), expected)) };
    let (msh, midx) = body.split_once(':')?;
    let (msh, midx) = (parse_usize_list(msh), parse_usize_list(midx));
    let input = a.get_elements().unwrap();
    if shape != msh {
        return Some(Verdict::Mismatch { observed: format!("ok shape {}", show_list(&shape)), detail: format!("result shape {:?}, the model (map keeps the receiver's shape) says {:?}", shape, msh) });
    }
    if keys.len() != midx.len() {
        return Some(Verdict::Mismatch { observed: format!("ok {} elements", keys.len()), detail: format!("model says {} elements", midx.len()) });
    }
    for p in 0..keys.len() {
        let want = native(op, input[midx[p]]);
        if keys[p] != want {
            return Some(Verdict::Mismatch { observed: format!("ok {}: out[{}] = bits {:#x}", show_list(&shape), p, keys[p]),
                detail: format!("position {p}: expected {op}(in[{}]) = bits {:#x} (input {}), got bits {:#x}", midx[p], want, input[midx[p]], keys[p]) });
        }
    }
    Some(Verdict::Match(expected.to_string()))
}

/// ops that reach their elements through the broadcasting layer (`broadcast` / `broadcast_h2` / `zip` against a one-element
/// or equal-shape operand) instead of `map`.  `is_broadcastable` refuses zero-length axes by design (`dim == 0` arm), so
/// on arrays without elements these ops answer `Err(BroadcastShapeMismatch)` where the `map`-based ops answer the empty
/// array.  Whether a zero-length operand is stretchable is C03's question; C05 leaves that region open (not compared).
const OPS_BROADCAST_ROUTED: &[&str] = &["rint", "round0", "round2", "around1", "log"];

fn open_if_empty(v: Option<Verdict>, n: usize) -> Option<Verdict> {
    match v {
        Some(Verdict::Mismatch { observed, .. }) if n == 0 && class_of(&observed) == "err" => Some(Verdict::Open(observed)),
        other => other,
    }
}

fn exec_unary(args: &[&str], expected: &str) -> Option<Verdict> {
    let n: usize = parse_usize_list(args[2]).iter().product();
    let v = exec_unary_inner(args, expected);
    if OPS_BROADCAST_ROUTED.contains(&args[0]) { open_if_empty(v, n) } else { v }
}

fn exec_unary_inner(args: &[&str], expected: &str) -> Option<Verdict> {
    let (op, ty, shape, cls) = (args[0], args[1], parse_usize_list(args[2]), args[3]);
    let off: usize = args[4].parse().ok()?;
    let float_op = OPS_FLOAT.contains(&op);
    match (ty, float_op) {
        ("f64", false) => { let a = build::<f64>(&shape, cls, off); let r = real_unary(op, &a); judge(op, &a, r, expected) }
        ("f32", false) => { let a = build::<f32>(&shape, cls, off); let r = real_unary(op, &a); judge(op, &a, r, expected) }
        ("i32", false) => { let a = build::<i32>(&shape, cls, off); let r = real_unary(op, &a); judge(op, &a, r, expected) }
        ("f64", true) => { let a = build::<f64>(&shape, cls, off); let r = real_unary_float(op, &a); judge(op, &a, r, expected) }
        ("f32", true) => { let a = build::<f32>(&shape, cls, off); let r = real_unary_float(op, &a); judge(op, &a, r, expected) }
        _ => None,
    }
}

// ------------------------------------------------------------------ frexp / ldexp

fn parse_bits_arr(s: &str) -> Option<(Vec<usize>, Vec<u64>)> {
    let (sh, el) = s.split_once(':')?;
    let shape = parse_usize_list(sh);
    let bits: Vec<u64> = if el == "-" { vec![] } else { el.split(',').map(|x| x.parse::<u64>().ok()).collect::<Option<Vec<_>>>()? };
    Some((shape, bits))
}
fn show_bits_arr(shape: &[usize], v: &[f64]) -> String { format!("{}:{}", show_list(shape), show_list(&v.iter().map(|x| canon(*x)).collect::<Vec<_>>())) }

fn exec_float(op: &str, args: &[&str], expected: &str) -> Option<Verdict> {
    let ty = args[0];
    let (shape, bits) = parse_bits_arr(args[1])?;
    let vals: Vec<f64> = bits.iter().map(|b| f64::from_bits(*b)).collect();
    fn widen<N: Numeric>(a: &Array<N>) -> Vec<f64> { a.get_elements().unwrap().iter().map(|x| x.to_f64()).collect() }
    fn run<N: Floating>(op: &str, shape: &[usize], vals: &[f64], exps: Option<Array<i32>>) -> String {
        let a: Array<N> = Array::new(vals.iter().map(|x| N::from(*x)).collect(), shape.to_vec()).expect("harness: float array");
        match op {
            "frexp" => show_res(&a.frexp(), |(m, e)| format!("{};{}", show_bits_arr(&m.get_shape().unwrap(), &widen(m)), show_arr(e))),
            "ldexp" => show_res(&a.ldexp(&exps.unwrap()), |r| show_bits_arr(&r.get_shape().unwrap(), &widen(r))),
            "roundtrip" => match a.frexp() {
                Ok((m, e)) => show_res(&m.ldexp(&e), |r| show_bits_arr(&r.get_shape().unwrap(), &widen(r))),
                Err(e) => format!("err {}", err_name(&e)),
            },
            _ => "bad-op".to_string(),
        }
    }
    let exps = if op == "ldexp" {
        let (es, ev) = parse_arr_raw(args[2]);
        Some(Array::new(ev.into_iter().map(|x| x as i32).collect::<Vec<i32>>(), es).ok()?)
    } else { None };
    let (op2, shape2, vals2) = (op.to_string(), shape.clone(), vals.clone());
    let observed = match ty {
        "f64" => guarded(move || run::<f64>(&op2, &shape2, &vals2, exps)),
        "f32" => guarded(move || run::<f32>(&op2, &shape2, &vals2, exps)),
        _ => return None,
    };
    if observed == "bad-op" { return None; }
    // the property itself, independent of the model: the recombined value IS the original value
    if op == "roundtrip" {
        if let Some(body) = observed.strip_prefix("ok ") {
            if let Some((osh, obits)) = parse_bits_arr(body) {
                let same = osh == shape && obits.len() == vals.len() && obits.iter().zip(&vals).all(|(o, v)| { let o = f64::from_bits(*o); o == *v || (o.is_nan() && v.is_nan()) });
                if !same { return Some(Verdict::Mismatch { observed, detail: "ldexp(frexp(x)) differs from x (shape or value)".to_string() }); }
            }
        }
    }
    Some(compare_default(observed, expected))
}

// ------------------------------------------------------------------ exec

fn exec(op: &str, args: &[&str], expected: &str) -> Option<Verdict> {
    match op {
        "map" | "map_e" | "filter" | "filter_e" | "filter_map" | "filter_map_e" | "fold" | "for_each" | "for_each_e" =>
            Some(compare_default(exec_closure(op, args)?, expected)),
        "into_iter" => { let a = parse_arr_i64(args[0]); Some(compare_default(guarded(|| { let v: Vec<i64> = a.into_iter().collect(); format!("ok {}", show_list(&v)) }), expected)) }
        "into_iter_ref" => { let a = parse_arr_i64(args[0]); Some(compare_default(guarded(|| { let mut v: Vec<i64> = vec![]; for x in &a { v.push(*x); } format!("ok {}", show_list(&v)) }), expected)) }
        "collect" => { let l = parse_i64_list(args[0]); Some(compare_default(guarded(|| { let a: Array<i64> = l.into_iter().collect(); format!("ok {}", show_arr(&a)) }), expected)) }
        "zip" => {
            let (a, b) = (parse_arr_i64(args[0]), parse_arr_i64(args[1]));
            let n = a.len().unwrap();
            open_if_empty(Some(compare_default(guarded(|| show_res(&a.zip(&b), |z| format!("{}:{}", show_list(&z.get_shape().unwrap()),
                show_list(&z.get_elements().unwrap().iter().map(|t| format!("{}/{}", t.0, t.1)).collect::<Vec<_>>())))), expected)), n)
        }
        "unary" => exec_unary(args, expected),
        "frexp" | "ldexp" | "roundtrip" => exec_float(op, args, expected),
        _ => None,
    }
}

// ------------------------------------------------------------------ gen

fn bits_of(x: f64) -> u64 { x.to_bits() }

/// finite non-zero doubles: subnormals, powers of two and their neighbours, extremes, integers, random patterns
fn float_pool(rng: &mut Rng, thorough: bool) -> Vec<u64> {
    let mut v: Vec<u64> = vec![];
    let step = if thorough { 1 } else { 37 };
    let mut k: i32 = -1074;
    while k <= 1023 {
        // 2^k, its two neighbours, and the negatives
        let p: u64 = if k >= -1022 { ((k + 1023) as u64) << 52 } else { 1u64 << (k + 1074) };
        for b in [p, p + 1, p.wrapping_sub(1)] { if b != 0 && (b >> 52) < 2047 { v.push(b); v.push(b | (1 << 63)); } }
        k += step;
    }
    for x in [f64::MAX, f64::MIN_POSITIVE, 5e-324, 2.225073858507201e-308, 1.0, 0.5, 0.75, 3.0, 0.1, 1e300, 1e-300, 123456789.0, 0.9999999999999999, 1.0000000000000002] {
        v.push(bits_of(x)); v.push(bits_of(-x));
    }
    let n_rand = if thorough { 4000 } else { 400 };
    for _ in 0..n_rand {
        let ex = rng.below(2047) as u64;            // 0 (subnormal) ..= 2046
        let fr = rng.next() & ((1u64 << 52) - 1);
        let fr = match rng.below(4) { 0 => fr, 1 => fr & 0xff, 2 => fr & !0xffff_ffff, _ => fr | 1 };
        let b = ((rng.below(2) as u64) << 63) | (ex << 52) | fr;
        if b & !(1u64 << 63) != 0 { v.push(b); }
    }
    v
}

fn gen(tier: &str, seed: u64, out: &mut dyn FnMut(String)) {
    let thorough = tier == "thorough";
    let mut rng = Rng::new(seed);          // the random streams
    let mut det = Rng::new(0xC05);         // fixed filler for the enumerated part (does not depend on the seed)
    // ---- corpus of past failures (pinned tree): see the end of the stream for the frexp(±inf) cases (they hang; kept last so
    //      that the leaked spinning workers live as briefly as possible)
    out("unary rint f64 2,3 dom 0".to_string());
    out("unary log f64 2,3 dom 0".to_string());
    out("unary round2 f64 3,2 dom 1".to_string());

    // ---- (a) closures: exhaustive over shapes rank<=4 len<=3 (+ zero-length), several closures
    let mut shapes_all = shapes(1, 4, 1, 3);
    shapes_all.extend(vec![vec![0], vec![0, 2], vec![2, 0], vec![1, 0, 3]]);
    let mut clos: Vec<String> = vec!["3,5,1,7,3".into(), "1,0,0,2,1".into(), "7,11,2,5,2".into()];
    if thorough { clos.extend(["0,1,0,3,1".to_string(), "2,3,1,4,4".into(), "5,1,3,4,0".into(), "13,7,5,11,6".into(), "1,1,1,2,1".into()]); }
    let cl_ops = ["map", "map_e", "filter", "filter_e", "filter_map", "filter_map_e", "fold", "for_each", "for_each_e"];
    for s in &shapes_all {
        let n: usize = s.iter().product();
        let mut arrs = vec![tag(s), tag_off(s, 17)];
        // repeated and negative values: multiplicity must be kept
        let reps: Vec<i64> = (0..n).map(|_| det.range(-3, 3)).collect();
        arrs.push(format!("{}:{}", show_list(s), show_list(&reps)));
        let same: Vec<i64> = vec![5; n];
        arrs.push(format!("{}:{}", show_list(s), show_list(&same)));
        for a in &arrs {
            for c in &clos {
                for op in cl_ops {
                    if (op == "for_each" || op == "for_each_e") && c != &clos[0] { continue; }
                    if op == "fold" { out(format!("fold {a} {c} {}", det.range(0, 50))); } else { out(format!("{op} {a} {c}")); }
                }
            }
            out(format!("into_iter {a}"));
            out(format!("into_iter_ref {a}"));
        }
        out(format!("zip {} {}", arrs[0], tag_off(s, 1000)));
        out(format!("zip {} {}", arrs[2], arrs[1]));
        out(format!("collect {}", show_list(&reps)));
    }
    // ---- beyond the scope: rank 5, longer axes
    let n_rand = if thorough { 150 } else { 25 };
    for _ in 0..n_rand {
        let mut s = rng.shape(1, 5, 6);
        while s.iter().product::<usize>() > 1500 { s.pop(); }
        let c = format!("{},{},{},{},{}", rng.range(0, 20), rng.range(0, 20), rng.range(0, 9), rng.range(1, 12), rng.range(0, 12));
        let a = if rng.below(2) == 0 { tag_off(&s, rng.range(0, 100)) } else {
            let n: usize = s.iter().product(); format!("{}:{}", show_list(&s), show_list(&(0..n).map(|_| rng.range(-9, 9)).collect::<Vec<_>>())) };
        for op in cl_ops { if op == "fold" { out(format!("fold {a} {c} {}", rng.range(0, 50))); } else { out(format!("{op} {a} {c}")); } }
        out(format!("into_iter {a}"));
    }

    // ---- (b) unary math ops x types x shapes x value classes
    let ushapes: Vec<Vec<usize>> = if thorough { let mut v = shapes(1, 4, 1, 3); v.extend(vec![vec![0], vec![2, 0], vec![5, 7], vec![2, 2, 2, 2, 2]]); v }
        else { let mut v = shapes(1, 4, 1, 2); v.extend(vec![vec![3], vec![2, 3], vec![3, 2], vec![3, 1, 2], vec![2, 3, 2], vec![3, 3, 3], vec![2, 1, 3, 2], vec![3, 2, 1, 3], vec![0], vec![5, 7]]); v };
    let classes = ["dom", "edge", "spec", "mix"];
    for (si, s) in ushapes.iter().enumerate() {
        for (oi, op) in OPS_ALL.iter().chain(OPS_FLOAT.iter()).enumerate() {
            for ty in ["f64", "f32", "i32"] {
                if ty == "i32" && OPS_FLOAT.contains(op) { continue; }
                if thorough {
                    for cls in classes { if ty == "i32" && cls != "dom" { continue; } out(format!("unary {op} {ty} {} {cls} {}", show_list(s), det.below(50))); }
                } else {
                    // quick: every op x type x shape once, the value class rotating so that each op meets each class on many shapes
                    let cls = if ty == "i32" { "dom" } else { classes[(si + oi) % 4] };
                    out(format!("unary {op} {ty} {} {cls} {}", show_list(s), (si * 7 + oi) % 50));
                }
            }
        }
    }

    // ---- (c) frexp / ldexp on bit patterns
    let pool = float_pool(&mut rng, thorough);
    let fshapes: Vec<Vec<usize>> = vec![vec![1], vec![4], vec![2, 3], vec![3, 1, 2], vec![2, 2, 1, 2], vec![7], vec![3, 3]];
    let mut i = 0usize; let mut si = 0usize;
    while i < pool.len() {
        let s = &fshapes[si % fshapes.len()]; si += 1;
        let n: usize = s.iter().product();
        let chunk: Vec<u64> = (0..n).map(|j| pool[(i + j) % pool.len()]).collect();
        i += n;
        let body = format!("{}:{}", show_list(s), show_list(&chunk));
        out(format!("frexp f64 {body}"));
        out(format!("roundtrip f64 {body}"));
    }
    // zero (both signs), NaN: terminate on the pinned tree as well
    let zeros = format!("2,2:{},{},{},{}", bits_of(0.0), bits_of(-0.0), bits_of(1.5), bits_of(f64::NAN));
    out(format!("frexp f64 {zeros}")); out(format!("roundtrip f64 {zeros}"));
    out(format!("frexp f64 1:{}", bits_of(f64::NAN))); out(format!("roundtrip f64 1:{}", bits_of(f64::NAN)));
    out("frexp f64 0:-".to_string());
    // f32: values that are exactly representable in f32 (incl. f32 subnormals)
    let n32 = if thorough { 600 } else { 80 };
    let mut f32vals: Vec<f32> = vec![1.0, -1.0, 0.75, f32::MAX, f32::MIN_POSITIVE, 1e-45, -1e-45, 3.0e-39, 0.1, 16777216.0];
    for _ in 0..n32 { let b = (rng.next() as u32) & 0xffff_ffff; let x = f32::from_bits(b); if x.is_finite() && x != 0.0 { f32vals.push(x); } }
    for ch in f32vals.chunks(4) {
        let body = format!("{}:{}", ch.len(), show_list(&ch.iter().map(|x| bits_of(*x as f64)).collect::<Vec<_>>()));
        out(format!("frexp f32 {body}")); out(format!("roundtrip f32 {body}"));
    }
    // ldexp alone, exact cases: 53-bit mantissa, moderate exponents, result stays normal
    let n_ld = if thorough { 1500 } else { 200 };
    for _ in 0..n_ld {
        let s = &fshapes[rng.below(fshapes.len())];
        let n: usize = s.iter().product();
        let xs: Vec<u64> = (0..n).map(|_| { let ex = (1023 + rng.range(-300, 300)) as u64; ((rng.below(2) as u64) << 63) | (ex << 52) | (rng.next() & ((1u64 << 52) - 1)) }).collect();
        let es: Vec<i64> = (0..n).map(|_| match rng.below(5) { 0 => 0, 1 => rng.range(-3, 3), _ => rng.range(-300, 300) }).collect();
        out(format!("ldexp f64 {}:{} {}:{}", show_list(s), show_list(&xs), show_list(s), show_list(&es)));
    }
    out(format!("ldexp f64 4:{},{},{},{} 4:5,-5,7,0", bits_of(0.0), bits_of(f64::INFINITY), bits_of(f64::NAN), bits_of(f64::NEG_INFINITY)));
    for _ in 0..(n_ld / 10) {
        let xs: Vec<u64> = (0..3).map(|_| bits_of(f32::from_bits(((rng.below(2) as u32) << 31) | (((127 + rng.range(-20, 20)) as u32) << 23) | ((rng.next() as u32) & 0x7f_ffff)) as f64)).collect();
        let es: Vec<i64> = (0..3).map(|_| rng.range(-60, 60)).collect();
        out(format!("ldexp f32 3:{} 3:{}", show_list(&xs), show_list(&es)));
    }

    // ---- "malformed" stream: C05's operations have no refusing inputs of their own (closures cannot fail, zip with unequal
    //      shapes belongs to C03); the degenerate inputs are the empty / zero-length arrays, enumerated above.

    // ---- corpus: frexp(±inf) — never returns on the pinned tree (watchdog -> `hang`)
    out(format!("frexp f64 1:{}", bits_of(f64::INFINITY)));
    out(format!("frexp f64 1:{}", bits_of(f64::NEG_INFINITY)));
    out(format!("frexp f32 1:{}", bits_of(f64::INFINITY)));
    out(format!("frexp f64 2,2:{},{},{},{}", bits_of(1.0), bits_of(f64::INFINITY), bits_of(3.0), bits_of(f64::NEG_INFINITY)));
    out(format!("roundtrip f64 2:{},{}", bits_of(f64::NEG_INFINITY), bits_of(f64::INFINITY)));
}

/// non-trivial: closure / iteration / unary cases on arrays with at least two elements (order and position observable);
/// float cases containing at least one finite non-zero value
fn nontrivial(op: &str, args: &[&str]) -> bool {
    match op {
        "unary" => parse_usize_list(args[2]).iter().product::<usize>() >= 2,
        "frexp" | "ldexp" | "roundtrip" => parse_bits_arr(args[1]).map_or(false, |(_, b)| b.iter().any(|x| { let v = f64::from_bits(*x); v.is_finite() && v != 0.0 })),
        "collect" => parse_i64_list(args[0]).len() >= 2,
        _ => parse_arr_raw(args[0]).1.len() >= 2,
    }
}

fn main() {
    harness_main(Spec { prop: "C05", gen, exec, nontrivial, hang_secs: 5,
        rule: "closures (map, map_e, filter, filter_e, filter_map(_e), fold, for_each(_e), into_iter x2, collect, same-shape zip): exhaustive over every shape rank<=4 len<=3 (+ zero-length) x 4 element patterns (tags, offset tags, repeated/negative, constant) x 3 (quick) / 8 (thorough) counter-stamping closures, + seeded random rank<=5 len<=6; \
unary math: 43 ops x {f64,f32,i32} x shapes (rank<=4 len<=2 + selected, quick; all rank<=4 len<=3, thorough) x value classes dom/edge/spec(NaN,+-inf)/mix, out[p] == native kernel of in[src[p]] bit-exact; \
frexp/ldexp/ldexp(frexp): bit patterns of all powers of two 2^-1074..2^1023 (every 37th in quick) with both neighbours and signs, extremes, subnormals, random patterns, f32-representable values, +-0, NaN, +-inf under a 5 s watchdog. \
distinct = distinct case lines; non-trivial = array with >= 2 elements (closure/unary) or containing a finite non-zero value (float ops)" });
}
