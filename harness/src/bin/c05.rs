//! C05 — one-operand functions and closure iteration keep shape, order, multiplicity.
//!
//! (a) closures: a counter-stamping closure records (call#, position passed, element) and answers a function of the
//!     call number; transcript = result + log, compared with the model's `StateM` trace.
//! (b) ~45 one-operand math ops x element types x shapes x value classes: the model answers shape + which input position
//!     feeds each output position; `out[p] == f_native(in[src[p]])` is evaluated here, bit-exactly (NaN canonicalised),
//!     with `f_native` the f64 method / formula named in the op's body.
//! (c) frexp / ldexp / ldexp(frexp(x)) on IEEE-754 bit patterns (integers cross the boundary, never float text);
//!     the model computes over exact rationals.  frexp(±inf) runs under the watchdog.
//!
//! Robustness streams (FRAMEWORK.md): closures on `big_shapes()` (> 256 / 1024 / 4096 elements: the enumerating variants with
//! closures depending on the passed index AND on the number of earlier calls) and `zero_shapes()`, each closure case also on the
//! `f64` (tag 0 = -0.0, bit-wise), `u8` and `String` images of the array (the iteration code is generic);  every one-operand op
//! on THREE receivers (plain `a.op()`, `Ok(a).op()` through `impl … for Result<Array<N>, ArrayError>` — bit-identical — and
//! `Err(_)`, which must stay an error), on i8 i16 i32 i64 u8 u16 u32 u64 f32 f64 with values at the limits of every type,
//! beyond 2^53 / 2^63, subnormal, -0.0 (native kernel with the harness's OWN casts, not the crate's to_f64/from_f64), on big and
//! zero-length shapes; frexp / ldexp / recombination on the three receivers and on long arrays.
//!
//! Round 5 (exact values, seeds, sizes above 2^24): value class `sweep` (dense boundary pools per element type, see `sweep_f64`),
//! `round<d>` / `around<d>` / `roundv` (decimals swept), `frexpn` / `ldexpn` / `roundtripn` (dense pools, field-based native reference
//! validated against the rational model), `folds` (special values as fold SEED for six accumulator types), an f32 image with NaN /
//! inf / -0.0 ELEMENTS for every closure case, `giant` (u8 arrays above 2^20 and 2^24 elements judged in place).
use arrharness::*;

// ------------------------------------------------------------------ closures

#[derive(Clone, Copy)]
struct Clo { a: i64, b: i64, c: i64, m: i64, t: i64 }
impl Clo {
    fn parse(s: &str) -> Option<Clo> {
        let v = parse_i64_list(s);
        if v.len() != 5 || v[3] <= 0 { return None; }
        Some(Clo { a: v[0], b: v[1], c: v[2], m: v[3], t: v[4] })
    }
    fn val(&self, k: i64, idx: Option<usize>, v: i64) -> i64 { self.a * k + self.b * v + self.c + idx.map_or(0, |i| 1000 * i as i64) }
    fn acc(&self, k: i64, idx: Option<usize>, v: i64) -> bool { self.val(k, idx, v).rem_euclid(self.m) < self.t }
    fn opt(&self, k: i64, idx: Option<usize>, v: i64) -> Option<i64> { if self.acc(k, idx, v) { Some(self.val(k, idx, v) + 7) } else { None } }
    /// (i128 inside: round-5 seeds sit at the limits of i64 — the model computes over unbounded integers)
    fn step(&self, k: i64, acc: i64, v: i64) -> i64 { (acc as i128 * 31 + (self.b * v + self.a * k + self.c) as i128).rem_euclid(1_000_003) as i64 }
}

type Log = Vec<(i64, Option<usize>, i64)>;
fn show_log(l: &Log) -> String {
    if l.is_empty() { return "-".into(); }
    l.iter().map(|(k, i, v)| format!("{}/{}/{}", k, i.map_or("_".to_string(), |x| x.to_string()), v)).collect::<Vec<_>>().join(";")
}

/// element types for the (value-blind) iteration code: the i64 tags themselves, f64 with tag 0 = -0.0 (bit-wise), u8 (only for
/// arrays whose tags all fit 0..=250) and String (a non-Copy element)
trait Tag: ArrayElement + 'static {
    const NAME: &'static str;
    fn of(t: i64) -> Option<Self>;
    fn num(&self) -> i64;
    /// the element as tag text; a float that is not bit-identical to the image of its tag is made visible
    fn back(&self) -> String { self.num().to_string() }
}
impl Tag for i64 { const NAME: &'static str = "i64"; fn of(t: i64) -> Option<i64> { Some(t) } fn num(&self) -> i64 { *self } }
impl Tag for u8 { const NAME: &'static str = "u8"; fn of(t: i64) -> Option<u8> { if (0..=250).contains(&t) { Some(t as u8) } else { None } } fn num(&self) -> i64 { *self as i64 } }
impl Tag for String { const NAME: &'static str = "String"; fn of(t: i64) -> Option<String> { Some(t.to_string()) } fn num(&self) -> i64 { self.parse().unwrap_or(i64::MIN) } }
impl Tag for f64 {
    const NAME: &'static str = "f64";
    fn of(t: i64) -> Option<f64> { if t.abs() < (1 << 53) { Some(tag_f64z(t)) } else { None } }
    fn num(&self) -> i64 { *self as i64 }
    fn back(&self) -> String { let t = *self as i64; if self.to_bits() == tag_f64z(t).to_bits() { t.to_string() } else { format!("{:?}(bits {:#x})", self, self.to_bits()) } }
}

/// round 5: the f32 image carries the SPECIAL values as elements (tags 0..11 = NaN, +inf, -inf, -0.0, 0.0, MAX, MIN_POSITIVE, the
/// smallest subnormal, 1, -1, MIN, EPSILON; every other tag t = t + 0.25): iteration code that inspects its elements (`is_nan`,
/// `== zero()`, `is_finite`) skips / drops / replaces them and changes the transcript
const F32_PAL: [f32; 12] = [f32::NAN, f32::INFINITY, f32::NEG_INFINITY, -0.0, 0.0, f32::MAX, f32::MIN_POSITIVE, 1.0e-45, 1.0, -1.0, f32::MIN, f32::EPSILON];
impl Tag for f32 {
    const NAME: &'static str = "f32";
    fn of(t: i64) -> Option<f32> { if (0..12).contains(&t) { Some(F32_PAL[t as usize]) } else if t.abs() < (1 << 21) { Some(t as f32 + 0.25) } else { None } }
    fn num(&self) -> i64 {
        if self.is_nan() { return 0; }
        match F32_PAL.iter().position(|q| q.to_bits() == self.to_bits()) { Some(i) => i as i64, None => (*self - 0.25) as i64 }
    }
    fn back(&self) -> String {
        let t = self.num();
        let same = match <f32 as Tag>::of(t) { Some(q) => q.to_bits() == self.to_bits() || (q.is_nan() && self.is_nan()), None => false };
        if same { t.to_string() } else { format!("{:?}(bits {:#x})", self, self.to_bits()) }
    }
}

fn show_tag_arr<T: Tag>(a: &Array<T>) -> String {
    format!("{}:{}", show_list(&a.get_shape().unwrap()), show_list(&a.get_elements().unwrap().iter().map(Tag::back).collect::<Vec<_>>()))
}

/// a RE-ENTRANT closure: while the outer operation runs, its closure itself runs the closure operation `inner` on another array
/// (`on_self`: on the outer receiver itself) and compares that inner answer with plain Vec arithmetic.  The outer transcript must
/// be the one of the same closure without the inner call (the model's answer for the plain op).
#[derive(Clone, Copy)]
struct Reent { inner: usize, on_self: bool }
const CL_OPS: [&str; 9] = ["map", "map_e", "filter", "filter_e", "filter_map", "filter_map_e", "fold", "for_each", "for_each_e"];
/// the other array of a re-entrant closure (shape [2,4])
const INNER_TAGS: [i64; 8] = [4, 8, 1, 6, 2, 9, 3, 7];

/// run closure op number `inner` on `x` (tags `xs`) with a closure that depends on the outer call `(k, v)`; `Some(text)` = the inner
/// answer (result, shape, or the order of the inner calls) is not what plain Vec arithmetic on `xs` gives
fn reenter<T: Tag>(x: &Array<T>, xs: &[i64], xshape: &[usize], inner: usize, k: i64, v: i64) -> Option<String> {
    let m = 2 + (k + v).rem_euclid(3);
    let name = CL_OPS[inner];
    let en = name.ends_with("_e");
    let val = |i: usize, y: i64| 3 * y + k + if en { 1000 * i as i64 } else { 0 };
    let acc = |i: usize, y: i64| (y + k + if en { i as i64 } else { 0 }).rem_euclid(m) != 0;
    let step = |a: i64, y: i64| (a * 31 + y).rem_euclid(1_000_003);
    let mut seen: Vec<(usize, i64)> = vec![];
    let mut cnt = 0usize;
    let as_i64 = |r: Result<Array<i64>, ArrayError>| r.map(|r| (r.get_shape().unwrap(), r.get_elements().unwrap())).map_err(|e| err_name(&e).to_string());
    let as_tag = |r: Result<Array<T>, ArrayError>| r.map(|r| (r.get_shape().unwrap(), r.get_elements().unwrap().iter().map(Tag::num).collect::<Vec<i64>>())).map_err(|e| err_name(&e).to_string());
    let got: Result<(Vec<usize>, Vec<i64>), String> = match name {
        "map" => as_i64(x.map(|y| { let y = y.num(); seen.push((cnt, y)); cnt += 1; val(0, y) })),
        "map_e" => as_i64(x.map_e(|i, y| { let y = y.num(); seen.push((i, y)); val(i, y) })),
        "filter" => as_tag(x.filter(|y| { let y = y.num(); seen.push((cnt, y)); cnt += 1; acc(0, y) })),
        "filter_e" => as_tag(x.filter_e(|i, y| { let y = y.num(); seen.push((i, y)); acc(i, y) })),
        "filter_map" => as_i64(x.filter_map(|y| { let y = y.num(); seen.push((cnt, y)); cnt += 1; if acc(0, y) { Some(val(0, y)) } else { None } })),
        "filter_map_e" => as_i64(x.filter_map_e(|i, y| { let y = y.num(); seen.push((i, y)); if acc(i, y) { Some(val(i, y)) } else { None } })),
        "fold" => x.fold(k, |&a, y| { let y = y.num(); seen.push((cnt, y)); cnt += 1; step(a, y) }).map(|r| (vec![], vec![r])).map_err(|e| err_name(&e).to_string()),
        "for_each" => x.for_each(|y| { seen.push((cnt, y.num())); cnt += 1; }).map(|_| (vec![], vec![])).map_err(|e| err_name(&e).to_string()),
        _ => x.for_each_e(|i, y| { seen.push((i, y.num())); }).map(|_| (vec![], vec![])).map_err(|e| err_name(&e).to_string()),
    };
    let pairs: Vec<(usize, i64)> = xs.iter().copied().enumerate().collect();
    let want: (Vec<usize>, Vec<i64>) = match name {
        "map" | "map_e" => (xshape.to_vec(), pairs.iter().map(|&(i, y)| val(i, y)).collect()),
        "filter" | "filter_e" => { let e: Vec<i64> = pairs.iter().filter(|&&(i, y)| acc(i, y)).map(|&(_, y)| y).collect(); (vec![e.len()], e) }
        "filter_map" | "filter_map_e" => { let e: Vec<i64> = pairs.iter().filter(|&&(i, y)| acc(i, y)).map(|&(i, y)| val(i, y)).collect(); (vec![e.len()], e) }
        "fold" => (vec![], vec![xs.iter().fold(k, |a, &y| step(a, y))]),
        _ => (vec![], vec![]),
    };
    if seen != pairs { return Some(format!("inner {name} (outer call {k}) visited {:?}, not every element once in flat order", truncate(&format!("{seen:?}"), 200))); }
    match got {
        Ok(g) if g == want => None,
        Ok(g) => Some(format!("inner {name} (outer call {k}, element {v}) answered {}:{} instead of {}:{}", show_list(&g.0), truncate(&show_list(&g.1), 200), show_list(&want.0), truncate(&show_list(&want.1), 200))),
        Err(e) => Some(format!("inner {name} (outer call {k}) answered err {e}")),
    }
}

/// transcript (result + call log) of one closure operation on the `T` image of the tag array; `None` = a tag has no `T` image
fn closure_on<T: Tag>(op: &str, raw: &(Vec<usize>, Vec<i64>), p: Clo, init: i64, re: Option<Reent>) -> Option<String> {
    let elems: Vec<T> = raw.1.iter().map(|&t| T::of(t)).collect::<Option<Vec<T>>>()?;
    let a: Array<T> = Array::new(elems, raw.0.clone()).expect("harness: malformed array literal in case line");
    let other: Array<T> = Array::new(INNER_TAGS.iter().map(|&t| T::of(t)).collect::<Option<Vec<T>>>()?, vec![2, 4]).expect("harness: inner array");
    let mut k: i64 = 0;
    let mut log: Log = vec![];
    let op = op.to_string();
    let raw = raw.clone();
    Some(guarded(move || {
        if op == "into_iter" { let v: Vec<String> = a.into_iter().map(|x| x.back()).collect(); return format!("ok {}", show_list(&v)); }
        if op == "into_iter_ref" { let mut v: Vec<String> = vec![]; for x in &a { v.push(x.back()); } return format!("ok {}", show_list(&v)); }
        let inner_bad: std::cell::RefCell<Option<String>> = std::cell::RefCell::new(None);
        // the re-entrant part of the closure (nothing for an ordinary case)
        let hook = |k: i64, v: i64| {
            if let Some(r) = re {
                let d = if r.on_self { reenter(&a, &raw.1, &raw.0, r.inner, k, v) } else { reenter(&other, &INNER_TAGS, &[2, 4], r.inner, k, v) };
                if let Some(d) = d { inner_bad.borrow_mut().get_or_insert(d); }
            }
        };
        let head = match op.as_str() {
            "map" => res_arr(&a.map(|v| { let v = v.num(); hook(k, v); let r = p.val(k, None, v); log.push((k, None, v)); k += 1; r })),
            "map_e" => res_arr(&a.map_e(|i, v| { let v = v.num(); hook(k, v); let r = p.val(k, Some(i), v); log.push((k, Some(i), v)); k += 1; r })),
            "filter" => show_res(&a.filter(|v| { let v = v.num(); hook(k, v); let r = p.acc(k, None, v); log.push((k, None, v)); k += 1; r }), show_tag_arr),
            "filter_e" => show_res(&a.filter_e(|i, v| { let v = v.num(); hook(k, v); let r = p.acc(k, Some(i), v); log.push((k, Some(i), v)); k += 1; r }), show_tag_arr),
            "filter_map" => res_arr(&a.filter_map(|v| { let v = v.num(); hook(k, v); let r = p.opt(k, None, v); log.push((k, None, v)); k += 1; r })),
            "filter_map_e" => res_arr(&a.filter_map_e(|i, v| { let v = v.num(); hook(k, v); let r = p.opt(k, Some(i), v); log.push((k, Some(i), v)); k += 1; r })),
            "fold" => show_res(&a.fold(init, |&acc, v| { let v = v.num(); hook(k, v); let r = p.step(k, acc, v); log.push((k, None, v)); k += 1; r }), |v| v.to_string()),
            "for_each" => show_res(&a.for_each(|v| { let v = v.num(); hook(k, v); log.push((k, None, v)); k += 1; }), |_| "unit".to_string()),
            "for_each_e" => show_res(&a.for_each_e(|i, v| { let v = v.num(); hook(k, v); log.push((k, Some(i), v)); k += 1; }), |_| "unit".to_string()),
            _ => unreachable!(),
        };
        let bad = inner_bad.borrow().clone();
        match bad { Some(d) => format!("{}|{}|INNER-DIVERGENCE {d}", head, show_log(&log)), None => format!("{}|{}", head, show_log(&log)) }
    }))
}

/// the transcript by plain Vec arithmetic (harness-native reference): every element once, in flat order, call numbers 0..n-1,
/// flat positions for the enumerating variants; filter results are flat.  VALIDATED against the model's answer on every closure
/// case the model answers (see `exec`), used alone on the huge shapes where the list-backed model driver is too slow.
fn native_transcript(op: &str, raw: &(Vec<usize>, Vec<i64>), p: Clo, init: i64) -> String {
    let en = op.ends_with("_e");
    let calls: Vec<(i64, Option<usize>, i64)> = raw.1.iter().enumerate().map(|(i, &v)| (i as i64, if en { Some(i) } else { None }, v)).collect();
    let arr = |shape: &[usize], e: Vec<i64>| format!("ok {}:{}", show_list(shape), show_list(&e));
    if op.starts_with("into_iter") { return format!("ok {}", show_list(&raw.1)); }
    let head = match op {
        "map" | "map_e" => arr(&raw.0, calls.iter().map(|&(k, i, v)| p.val(k, i, v)).collect()),
        "filter" | "filter_e" => { let e: Vec<i64> = calls.iter().filter(|&&(k, i, v)| p.acc(k, i, v)).map(|c| c.2).collect(); arr(&[e.len()], e) }
        "filter_map" | "filter_map_e" => { let e: Vec<i64> = calls.iter().filter_map(|&(k, i, v)| p.opt(k, i, v)).collect(); arr(&[e.len()], e) }
        "fold" => format!("ok {}", calls.iter().fold(init, |a, &(k, _, v)| p.step(k, a, v))),
        _ => "ok unit".to_string(),
    };
    format!("{}|{}", head, show_log(&calls))
}
static ORACLE_VALIDATIONS: std::sync::atomic::AtomicUsize = std::sync::atomic::AtomicUsize::new(0);
static NATIVE_ONLY: std::sync::atomic::AtomicUsize = std::sync::atomic::AtomicUsize::new(0);

fn closure_params(op: &str, args: &[&str]) -> Option<(Clo, i64)> {
    if op.starts_with("into_iter") { Some((Clo { a: 0, b: 0, c: 0, m: 1, t: 0 }, 0)) } else {
        Some((Clo::parse(args.get(1)?)?, if op == "fold" { args.get(2)?.parse().ok()? } else { 0 })) }
}

/// the i64 transcript; the same call on the other element types must give the same transcript (value-type-generic state: the same
/// arguments through four element types back to back), and the i64 call AGAIN afterwards must repeat its first answer (A-B-A)
fn exec_closure(op: &str, args: &[&str], re: Option<Reent>) -> Option<String> {
    let raw = parse_arr_raw(args[0]);
    if raw.0.iter().product::<usize>() != raw.1.len() { return None; }
    let (p, init) = closure_params(op, args)?;
    let base = closure_on::<i64>(op, &raw, p, init, re)?;
    for (name, other) in [(<f64 as Tag>::NAME, closure_on::<f64>(op, &raw, p, init, re)), (<u8 as Tag>::NAME, closure_on::<u8>(op, &raw, p, init, re)), (<String as Tag>::NAME, closure_on::<String>(op, &raw, p, init, re)),
        (<f32 as Tag>::NAME, closure_on::<f32>(op, &raw, p, init, re))] {
        if let Some(t) = other { if t != base { return Some(format!("TYPE-DIVERGENCE on Array<{name}>: {}; on Array<i64>: {}", truncate(&t, 400), truncate(&base, 400))); } }
    }
    let again = closure_on::<i64>(op, &raw, p, init, re)?;
    if again != base { return Some(format!("STATE-DIVERGENCE the same call on Array<i64> again, after the runs on the other element types: {}; first: {}", truncate(&again, 400), truncate(&base, 400))); }
    Some(base)
}

/// a closure case: the real transcript against the model's; on the way the native reference transcript is validated against the model
fn judge_closure(op: &str, args: &[&str], re: Option<Reent>, expected: &str) -> Option<Verdict> {
    let observed = exec_closure(op, args, re)?;
    if class_of(expected) == "ok" {
        let (p, init) = closure_params(op, args)?;
        let native = native_transcript(op, &parse_arr_raw(args[0]), p, init);
        if native != expected { return Some(Verdict::Mismatch { observed: format!("ORACLE-DIVERGENCE native reference transcript `{}`", truncate(&native, 400)), detail: format!("the harness-native reference disagrees with the model, which says `{}`", truncate(expected, 400)) }); }
        ORACLE_VALIDATIONS.fetch_add(1, std::sync::atomic::Ordering::Relaxed);
        // SHADOW run of the in-place judge of the giant cases: same op, same closure, the u8 image of this case's array
        { let raw = parse_arr_raw(args[0]);
          if observed == expected && re.is_none() && raw.1.len() <= 5000 && raw.1.iter().all(|t| (0..=255).contains(t)) {
            match inplace_closure(op, &raw.0, raw.1.iter().map(|&t| t as u8).collect(), p, init) {
                Ok(_) => { GIANT_SHADOW.fetch_add(1, std::sync::atomic::Ordering::Relaxed); }
                Err(d) => return Some(Verdict::Mismatch { observed: format!("ORACLE-DIVERGENCE the in-place judge of the giant cases objects: {}", truncate(&d, 400)), detail: format!("on a case whose transcript the model confirms: `{}`", truncate(expected, 300)) }),
            }
        } }
        // A-B-A with a value permutation: the same call on the array with its values REVERSED (same shape, multiset, checksum),
        // judged by the native transcript just validated; then this case again
        let raw = parse_arr_raw(args[0]);
        if observed == expected && raw.1.len() >= 2 && raw.1.len() <= 2000 {
            let rev = (raw.0.clone(), raw.1.iter().rev().copied().collect::<Vec<i64>>());
            let got = closure_on::<i64>(op, &rev, p, init, re)?;
            let want = native_transcript(op, &rev, p, init);
            if got != want { return Some(Verdict::Mismatch { observed: format!("A-B-A, the same call on the array with its values reversed: {}", truncate(&got, 400)), detail: format!("native reference transcript (validated against the model on this very case): `{}`", truncate(&want, 400)) }); }
            let again = closure_on::<i64>(op, &raw, p, init, re)?;
            if again != observed { return Some(Verdict::Mismatch { observed: format!("STATE-DIVERGENCE this case again after the run on the reversed values: {}", truncate(&again, 400)), detail: format!("first answer `{}`", truncate(&observed, 400)) }); }
        }
    }
    Some(compare_default(observed, expected))
}

/// a closure case on a huge shape: the list-backed model driver answers `native` (it would take minutes); judged by the native
/// reference transcript alone
fn judge_closure_native(op: &str, args: &[&str], expected: &str) -> Option<Verdict> {
    if expected != "ok native" { return Some(compare_default("harness: hclo expects the driver to answer `ok native`".into(), expected)); }
    let (p, init) = closure_params(op, args)?;
    let native = native_transcript(op, &parse_arr_raw(args[0]), p, init);
    let observed = exec_closure(op, args, None)?;
    NATIVE_ONLY.fetch_add(1, std::sync::atomic::Ordering::Relaxed);
    if observed == native { Some(Verdict::Match(format!("ok native-reference transcript of {} bytes reproduced", native.len()))) }
    else {
        let at = observed.bytes().zip(native.bytes()).position(|(x, y)| x != y).unwrap_or(observed.len().min(native.len()));
        let lo = at.saturating_sub(60);
        Some(Verdict::Mismatch { observed: truncate(&observed, 600), detail: format!("differs from the native reference transcript at byte {at}: real `…{}`, reference `…{}`",
            truncate(observed.get(lo..).unwrap_or(""), 160), truncate(native.get(lo..).unwrap_or(""), 160)) })
    }
}

// ------------------------------------------------------------------ round 5: fold SEEDS of every accumulator type

/// `folds ARR CLO INIT STY`: `fold` with an accumulator of type STY whose SEED is the special value encoded by the integer INIT
/// (floats: INIT is the bit pattern, so NaN / ±inf / -0.0 / MAX / subnormal seeds are plain integers in the case line and for the
/// model, which folds over unbounded integers).  The closure decodes the accumulator, applies the model's `step`, logs the visit
/// and encodes the answer again; the transcript (decoded result + visit log) must be the model's for `fold ARR CLO INIT`.
/// `f64n`: EVERY accumulator is a NaN (quiet NaN with the integer in its payload).
fn fold_seeded_on<T: Tag, S: ArrayElement + 'static>(raw: &(Vec<usize>, Vec<i64>), p: Clo, init: i64, enc: fn(i64) -> S, dec: fn(&S) -> i64) -> Option<String> {
    let elems: Vec<T> = raw.1.iter().map(|&t| T::of(t)).collect::<Option<Vec<T>>>()?;
    let a: Array<T> = Array::new(elems, raw.0.clone()).expect("harness: malformed array literal in case line");
    Some(guarded(move || {
        let mut k: i64 = 0;
        let mut log: Log = vec![];
        let head = show_res(&a.fold(enc(init), |acc, v| { let v = v.num(); let r = p.step(k, dec(acc), v); log.push((k, None, v)); k += 1; enc(r) }), |s| dec(s).to_string());
        format!("{}|{}", head, show_log(&log))
    }))
}
const NANP: u64 = 0x7ff8u64 << 48;
fn fold_seeded<T: Tag>(sty: &str, raw: &(Vec<usize>, Vec<i64>), p: Clo, init: i64) -> Option<String> {
    match sty {
        "f64" => fold_seeded_on::<T, f64>(raw, p, init, |i| f64::from_bits(i as u64), |x| x.to_bits() as i64),
        "f64n" => { if !(0..1i64 << 48).contains(&init) { return None; }
            fold_seeded_on::<T, f64>(raw, p, init, |i| f64::from_bits(NANP | i as u64), |x| { let b = x.to_bits(); if b >> 48 == 0x7ff8 { (b & ((1 << 48) - 1)) as i64 } else { -1 } }) }
        "f32" => { if !(0..1i64 << 32).contains(&init) { return None; }
            fold_seeded_on::<T, f32>(raw, p, init, |i| f32::from_bits(i as u32), |x| x.to_bits() as i64) }
        "i64" => fold_seeded_on::<T, i64>(raw, p, init, |i| i, |x| *x),
        "str" => fold_seeded_on::<T, String>(raw, p, init, |i| i.to_string(), |x| x.parse().unwrap_or(i64::MIN + 1)),
        "t2" => fold_seeded_on::<T, Tuple2<f64, i64>>(raw, p, init, |i| Tuple2(f64::from_bits(i as u64), i), |x| if x.0.to_bits() as i64 == x.1 { x.1 } else { i64::MIN + 2 }),
        "lst" => fold_seeded_on::<T, List<f64>>(raw, p, init, |i| List(vec![f64::from_bits(i as u64), 1.5]), |x| if x.0.len() == 2 && x.0[1] == 1.5 { x.0[0].to_bits() as i64 } else { i64::MIN + 3 }),
        _ => None,
    }
}
fn judge_fold_seeded(args: &[&str], expected: &str) -> Option<Verdict> {
    let raw = parse_arr_raw(args[0]);
    if raw.0.iter().product::<usize>() != raw.1.len() { return None; }
    let p = Clo::parse(args.get(1)?)?;
    let init: i64 = args.get(2)?.parse().ok()?;
    let sty = *args.get(3)?;
    let base = fold_seeded::<i64>(sty, &raw, p, init)?;
    let mut observed = base.clone();
    for (name, other) in [("f64", fold_seeded::<f64>(sty, &raw, p, init)), ("u8", fold_seeded::<u8>(sty, &raw, p, init)), ("String", fold_seeded::<String>(sty, &raw, p, init)), ("f32", fold_seeded::<f32>(sty, &raw, p, init))] {
        if let Some(t) = other { if t != base { observed = format!("TYPE-DIVERGENCE on Array<{name}>: {}; on Array<i64>: {}", truncate(&t, 400), truncate(&base, 400)); break; } }
    }
    if class_of(expected) == "ok" {
        let native = native_transcript("fold", &raw, p, init);
        if native != expected { return Some(Verdict::Mismatch { observed: format!("ORACLE-DIVERGENCE native reference transcript `{}`", truncate(&native, 400)), detail: format!("the harness-native reference disagrees with the model, which says `{}`", truncate(expected, 400)) }); }
        ORACLE_VALIDATIONS.fetch_add(1, std::sync::atomic::Ordering::Relaxed);
    }
    Some(compare_default(observed, expected))
}

// ------------------------------------------------------------------ round 5: GIANT arrays (above 2^20 and above 2^24 elements), u8, judged in place

/// element p of a giant u8 array (all 256 values, no short period)
fn giant_pat(p: usize) -> u8 { ((p.wrapping_mul(2_654_435_761) >> 13) ^ p) as u8 }
fn red(x: i64) -> u8 { x.rem_euclid(251) as u8 }

/// One closure operation on `Array<u8>` judged IN PLACE (no transcript is built): the closure itself checks, call by call, that
/// call number k sees element k (and is passed position k by the enumerating variants); the result is compared position by
/// position with the same stamping closure `Clo` (answers reduced mod 251 to stay in u8) evaluated natively.  `Err` = first divergence.
/// Used alone on the giant shapes; run in SHADOW on every ordinary closure case whose tags fit u8, where the model has just
/// confirmed the transcript of the same operation with the same closure (`GIANT_SHADOW` counts these validations).
fn inplace_closure(op: &str, shape: &[usize], elems: Vec<u8>, p: Clo, init: i64) -> Result<String, String> {
    let n = elems.len();
    let a: Array<u8> = Array::new(elems.clone(), shape.to_vec()).map_err(|e| format!("harness: Array::new refused: {}", err_name(&e)))?;
    let en = op.ends_with("_e");
    let idx = |k: usize| if en { Some(k) } else { None };
    let k = std::cell::Cell::new(0usize);
    let bad: std::cell::RefCell<Option<String>> = std::cell::RefCell::new(None);
    // the visit check: returns the call number
    let visit = |i: Option<usize>, v: u8| -> usize {
        let kk = k.get(); k.set(kk + 1);
        if bad.borrow().is_none() {
            if kk >= n { *bad.borrow_mut() = Some(format!("call number {kk} on an array of {n} elements")); }
            else if v != elems[kk] { *bad.borrow_mut() = Some(format!("call number {kk} was given the element {v}, element {kk} is {}", elems[kk])); }
            else if let Some(i) = i { if i != kk { *bad.borrow_mut() = Some(format!("call number {kk} (element {kk}) was passed the position {i}")); } }
        }
        kk
    };
    let shape_of = |r: &Array<u8>| r.get_shape().unwrap();
    let cmp_seq = |what: &str, got: &[u8], want: &mut dyn Iterator<Item = u8>| -> Result<usize, String> {
        let mut c = 0usize;
        for w in want { match got.get(c) { Some(g) if *g == w => c += 1, Some(g) => return Err(format!("{what}: position {c} holds {g}, expected {w}")), None => return Err(format!("{what}: only {} elements, expected more", got.len())) } }
        if c != got.len() { return Err(format!("{what}: {} elements, expected {c}", got.len())); }
        Ok(c)
    };
    let e = |x: ArrayError| format!("err {}", err_name(&x));
    let out = std::panic::catch_unwind(std::panic::AssertUnwindSafe(|| -> Result<String, String> {
        let text = match op {
            "map" | "map_e" => {
                let r = if en { a.map_e(|i, v| { let kk = visit(Some(i), *v); red(p.val(kk as i64, idx(kk), *v as i64)) }) } else { a.map(|v| { let kk = visit(None, *v); red(p.val(kk as i64, None, *v as i64)) }) }.map_err(e)?;
                if shape_of(&r) != shape { return Err(format!("result shape {:?}, receiver shape {:?}", shape_of(&r), shape)); }
                cmp_seq("result", &r.get_elements().unwrap(), &mut (0..n).map(|q| red(p.val(q as i64, idx(q), elems[q] as i64))))?;
                "mapped".to_string()
            }
            "filter" | "filter_e" => {
                let r = if en { a.filter_e(|i, v| { let kk = visit(Some(i), *v); p.acc(kk as i64, idx(kk), *v as i64) }) } else { a.filter(|v| { let kk = visit(None, *v); p.acc(kk as i64, None, *v as i64) }) }.map_err(e)?;
                let c = cmp_seq("result", &r.get_elements().unwrap(), &mut (0..n).filter(|&q| p.acc(q as i64, idx(q), elems[q] as i64)).map(|q| elems[q]))?;
                if shape_of(&r) != [c] { return Err(format!("result shape {:?}, expected the flat shape [{c}]", shape_of(&r))); }
                format!("kept {c}")
            }
            "filter_map" | "filter_map_e" => {
                let r = if en { a.filter_map_e(|i, v| { let kk = visit(Some(i), *v); p.opt(kk as i64, idx(kk), *v as i64).map(red) }) } else { a.filter_map(|v| { let kk = visit(None, *v); p.opt(kk as i64, None, *v as i64).map(red) }) }.map_err(e)?;
                let c = cmp_seq("result", &r.get_elements().unwrap(), &mut (0..n).filter_map(|q| p.opt(q as i64, idx(q), elems[q] as i64).map(red)))?;
                if shape_of(&r) != [c] { return Err(format!("result shape {:?}, expected the flat shape [{c}]", shape_of(&r))); }
                format!("kept {c}")
            }
            "fold" => {
                let r = a.fold(init, |&acc, v| { let kk = visit(None, *v); p.step(kk as i64, acc, *v as i64) }).map_err(e)?;
                let want = (0..n).fold(init, |acc, q| p.step(q as i64, acc, elems[q] as i64));
                if r != want { return Err(format!("fold answered {r}, expected {want}")); }
                format!("folded to {r}")
            }
            "for_each" => { a.for_each(|v| { visit(None, *v); }).map_err(e)?; "visited".to_string() }
            "for_each_e" => { a.for_each_e(|i, v| { visit(Some(i), *v); }).map_err(e)?; "visited".to_string() }
            "into_iter_ref" => { let mut c = 0usize; for v in &a { visit(None, *v); c += 1; } format!("iterated {c}") }
            "into_iter" => { let mut c = 0usize; for v in a.clone() { visit(None, v); c += 1; } format!("iterated {c}") }
            _ => return Err("harness: unknown giant op".to_string()),
        };
        Ok(text)
    }));
    let text = match out { Ok(r) => r?, Err(_) => return Err("panic".to_string()) };
    if let Some(b) = bad.borrow().clone() { return Err(b); }
    if k.get() != n { return Err(format!("{} closure calls / items on an array of {n} elements", k.get())); }
    Ok(format!("ok native in place: {n} elements, every element once in flat order, {text}"))
}
static GIANT_SHADOW: std::sync::atomic::AtomicUsize = std::sync::atomic::AtomicUsize::new(0);
static GIANT_ONLY: std::sync::atomic::AtomicUsize = std::sync::atomic::AtomicUsize::new(0);

fn giant_elems(shape: &[usize]) -> Vec<u8> { let n: usize = shape.iter().product(); (0..n).map(giant_pat).collect() }

/// `giant OP SHAPE CLO INIT` (closure ops, both IntoIterator impls) / `giant unary OP SHAPE` (one-operand ops on u8)
fn judge_giant(args: &[&str], expected: &str) -> Option<Verdict> {
    if expected != "ok native" { return Some(compare_default("harness: giant expects the driver to answer `ok native`".into(), expected)); }
    let op = *args.first()?;
    GIANT_ONLY.fetch_add(1, std::sync::atomic::Ordering::Relaxed);
    let res = if op == "unary" {
        let (uop, shape) = (*args.get(1)?, parse_usize_list(args.get(2)?));
        if !op_defined(uop, "u8") || !(OPS_ALL.contains(&uop) || OPS_MORE.contains(&uop) || round_digits(uop).is_some()) { return None; }
        giant_unary(uop, &shape)
    } else {
        if !CL_OPS.contains(&op) && !op.starts_with("into_iter") { return None; }
        let shape = parse_usize_list(args.get(1)?);
        let p = Clo::parse(args.get(2)?)?;
        let init: i64 = args.get(3)?.parse().ok()?;
        inplace_closure(op, &shape, giant_elems(&shape), p, init)
    };
    Some(match res { Ok(t) => Verdict::Match(t), Err(d) => Verdict::Mismatch { observed: truncate(&d, 600), detail: "giant array, judged in place by the harness-native reference (validated against the model on the ordinary cases of this run)".into() } })
}

// ------------------------------------------------------------------ unary math ops

const NAN_BITS: u64 = 0x7ff8_0000_0000_0000;
fn canon(x: f64) -> u64 { if x.is_nan() { NAN_BITS } else { x.to_bits() } }

/// bit-exact comparison key of an element
trait Key { fn key(&self) -> u64; }
impl Key for f64 { fn key(&self) -> u64 { canon(*self) } }
impl Key for f32 { fn key(&self) -> u64 { if self.is_nan() { NAN_BITS } else { self.to_bits() as u64 } } }
impl Key for bool { fn key(&self) -> u64 { *self as u64 } }
macro_rules! key_int { ($($t:ty),*) => { $(impl Key for $t { fn key(&self) -> u64 { *self as i64 as u64 } })* } }
key_int!(i8, i16, i32, i64, isize, u8, u16, u32, u64);

const F64_DOM: &[f64] = &[0.5, -0.5, 1.0, -1.0, 2.5, -2.5, 0.1, 3.0, 10.0, 100.7, -7.3, 1e-5, 0.999, 0.25, 6.283185307179586, 42.0, -0.75];
const F64_EDGE: &[f64] = &[0.0, -0.0, 1.0, -1.0, f64::MIN_POSITIVE, 5e-324, f64::MAX, f64::MIN, 1e308, 709.78, 710.0, -745.2, 0.9999999999999999,
    1.0000000000000002, 1.5, -1.5, 0.49999999999999994, 4503599627370496.5, 9007199254740992.0, -9007199254740993.0, 1e-320, 8.0, 8.000000000000002, 2147483648.0, -2147483649.0, 1e19];
const F64_SPEC: &[f64] = &[f64::NAN, f64::INFINITY, f64::NEG_INFINITY, 1.0, -2.0];
const I32_VALS: &[i32] = &[0, 1, -1, 2, -2, 7, -7, 100, -100, i32::MAX, i32::MIN, 46340, 20, 3, -3, 90, 180, 1000000];
/// robustness class `lim`: around 2^63 / 2^64 / f32::MAX / 2^53 / 2^52 / 2^31 / 2^24, halves next to the integer limits of every
/// narrow type, f64 and f32 subnormals, both zeros
const F64_LIM: &[f64] = &[9223372036854775808.0, -9223372036854775808.0, 18446744073709551616.0, 1e19, -1e19, 9.3e18, -9.3e18, 3.4028234663852886e38, -3.4028234663852886e38, 3.5e38,
    9007199254740994.0, 9007199254740991.0, 4503599627370496.5, -4503599627370496.5, 2147483647.5, 2147483648.5, -2147483648.5, 16777217.0, 1e-40, -1e-40, 1.401298464324817e-45, 5e-324, -5e-324,
    2.225073858507201e-308, -0.0, 0.0, 1000000000000000.4, 127.5, -128.5, 255.5, 32767.5, -32768.5, 65535.5, 4294967295.5, -0.4, 0.6, 1e300, -1e300, 88.8, 89.0, 11.1, -1e-17];
/// small values for the integer element types (every type keeps the ones it can hold)
const INT_DOM: &[i128] = &[0, 1, -1, 2, -2, 7, -7, 100, -100, 3, -3, 20, 90, 45, 10, 5, -5, 12, 64, 11];
fn int_lim(min: i128, max: i128) -> Vec<i128> {
    let mut v = vec![max, min, max - 1, min + 1, max / 2, max / 2 + 1, min / 2, 0, 1, -1, 127, 128, -128, -129, 255, 256, 181, 182, 32767, 32768, -32768, -32769, 65535, 65536, 46340, 46341,
        2147483647, 2147483648, -2147483648, -2147483649, 4294967295, 4294967296, 16777217, (1 << 53) - 1, 1 << 53, (1 << 53) + 1, (1 << 53) + 3, -((1 << 53) + 1), (1 << 62) + 1, 1 << 63, (1 << 63) + 1, 3 << 62, 3037000500, 2642246, 2642245];
    v.retain(|x| *x >= min && *x <= max);
    v
}

/// robustness class `near`: flat-ADJACENT values that differ by one ulp, by 1e-13 / 1e-15 relative or by 1e-13 absolute, each
/// followed by the base value again (a memoised "last argument" compared with a tolerance, or a cache keyed by a rounded value,
/// answers the neighbour's result)
const NEAR_BASE: &[f64] = &[2.5, -2.5, 0.5, 1.0, 10.0, 100.7, 0.1, 7.3, 1e-5, 3.0, 0.999, 42.0, 6.283185307179586, -0.75, 700.0, 1e10, 0.3, 20.5, -7.3, 0.25];
fn ulp_step(x: f64, up: bool) -> f64 { let b = x.to_bits(); f64::from_bits(if (x > 0.0) == up { b + 1 } else { b - 1 }) }
fn near_f64(j: usize) -> f64 {
    let b = NEAR_BASE[(j / 8) % NEAR_BASE.len()];
    match j % 8 { 0 | 3 => b, 1 => ulp_step(b, true), 2 => b * (1.0 + 1e-13), 4 => b * (1.0 + 1e-15), 5 => b * (1.0 - 1e-13), 6 => ulp_step(b, false), _ => b + 1e-13 }
}
fn near_f32(j: usize) -> f32 {
    let b = NEAR_BASE[(j / 8) % NEAR_BASE.len()] as f32;
    let st = |x: f32, up: bool| { let t = x.to_bits(); f32::from_bits(if (x > 0.0) == up { t + 1 } else { t - 1 }) };
    match j % 8 { 0 | 3 => b, 1 => st(b, true), 2 => st(st(b, true), true), 4 => b * (1.0 + 1e-6), 5 => st(b, false), 6 => b * (1.0 - 3e-7), _ => b + 1e-6 }
}
/// integers: a value, its successor, the value again, its predecessor
fn near_int(j: usize, min: i128, max: i128) -> i128 {
    let base: Vec<i128> = INT_DOM.iter().copied().filter(|x| *x >= min && *x <= max).collect();
    let b = base[(j / 4) % base.len()];
    (b + [0, 1, 0, -1][j % 4]).clamp(min, max)
}

// ---- round 5, class (16): dense boundary sweeps.  ONE exact magic value in a scalar kernel (a fast path for integral exponents that
// is wrong only at exp2(-1023.0)) is met only if the value itself is in the pool: every integer-valued float in -1100..=1100 and
// every half between them, the mathematical constants with their negatives / reciprocals / neighbours / f32 roundings, every power of
// two 2^k (k = -1080..=1030) and every power of ten 10^k (k = -325..=309) with one ulp on each side and both signs, multiples of
// pi/4, pi/6 and pi, perfect squares and cubes, the overflow / underflow thresholds of exp / exp2 / exp_m1 / sinh / cosh, the f32 and
// f64 exponent-range edges, the integer limits of every narrow type with the halves next to them, both zeros, NaN, the infinities.
/// 2^k exactly, from the bit pattern (subnormal below -1022, 0 below -1074, +inf above 1023)
fn pow2(k: i32) -> f64 { if k > 1023 { f64::INFINITY } else if k >= -1022 { f64::from_bits(((k + 1023) as u64) << 52) } else if k >= -1074 { f64::from_bits(1u64 << (k + 1074)) } else { 0.0 } }
fn pow2_f32(k: i32) -> f32 { if k > 127 { f32::INFINITY } else if k >= -126 { f32::from_bits(((k + 127) as u32) << 23) } else if k >= -149 { f32::from_bits(1u32 << (k + 149)) } else { 0.0 } }
fn with_ulps(x: f64, v: &mut Vec<f64>) {
    v.push(x);
    if x.is_finite() && x != 0.0 { v.push(f64::from_bits(x.to_bits() + 1)); v.push(f64::from_bits(x.to_bits() - 1)); }
}
fn sweep_f64() -> &'static [f64] {
    static P: std::sync::OnceLock<Vec<f64>> = std::sync::OnceLock::new();
    P.get_or_init(|| {
        use std::f64::consts::*;
        let mut v: Vec<f64> = vec![];
        for k in -1100..=1100 { v.push(k as f64); }
        for k in -1100..1100 { v.push(k as f64 + 0.5); }
        let consts = [E, PI, TAU, LN_2, LN_10, LOG2_E, LOG10_E, LOG2_10, LOG10_2, SQRT_2, FRAC_1_SQRT_2, FRAC_PI_2, FRAC_PI_3, FRAC_PI_4, FRAC_PI_6, FRAC_PI_8,
            FRAC_1_PI, FRAC_2_PI, FRAC_2_SQRT_PI, f64::EPSILON, 180.0 / PI, PI / 180.0, 1.0e-20, 0.1, 0.2, 0.3, 1.0 / 3.0, 2.0 / 3.0, 1.1, 1.7320508075688772, 2.23606797749979, 0.5772156649015329, 1.618033988749895];
        for c in consts { for x in [c, -c, 1.0 / c, -1.0 / c, c as f32 as f64, -(c as f32 as f64)] { with_ulps(x, &mut v); } }
        for k in -1080..=1030 { let x = pow2(k); with_ulps(x, &mut v); with_ulps(-x, &mut v); }
        for k in -325..=309 { let x: f64 = format!("1e{k}").parse().unwrap(); with_ulps(x, &mut v); with_ulps(-x, &mut v); }
        for k in -128..=128 { let k = k as f64; for x in [k * FRAC_PI_4, k * FRAC_PI_6, k * PI] { v.push(x); } }
        for k in 1..=1100i64 { v.push((k * k) as f64); v.push((k * k * k) as f64); v.push(-((k * k * k) as f64)); }
        for r in [46340f64, 46341., 65535., 65536., 94906265., 94906266., 3037000499., 3037000500., 4294967295., 4294967296., 67108864., 1.3407807929942596e154, 1.3407807929942597e154] { with_ulps(r * r, &mut v); v.push(r); }
        for r in [1290f64, 1291., 1625., 1626., 2097151., 2097152., 2642245., 2642246., 208063., 208064., 5.643803094122362e102] { with_ulps(r * r * r, &mut v); with_ulps(-(r * r * r), &mut v); }
        let th = [f64::MAX.ln(), f64::MIN_POSITIVE.ln(), 5e-324f64.ln(), (f32::MAX as f64).ln(), (f32::MIN_POSITIVE as f64).ln(), 1.0e-45f64.ln(), f64::MAX.ln() + LN_2, 1024.0, -1074.0, -1075.0, -1022.0, -1023.0, 128.0, -126.0, -149.0, -150.0,
            f64::MAX.log10(), f64::MAX.log2(), 36.7368005696771, 18.714973875118524, 19.061547465398498, 22.0, 709.0, 710.0, -708.0, -745.0, -746.0, 88.0, 89.0, -87.0, -103.0, -104.0, 0.5f64.ln(), 1.0 - f64::EPSILON / 2.0, 1.0 + f64::EPSILON,
            f64::MAX, f64::MIN_POSITIVE, 5e-324, f32::MAX as f64, f32::MIN_POSITIVE as f64, 1.0e-45f32 as f64, f64::MAX.sqrt(), f64::MAX.cbrt(), f64::MIN_POSITIVE.sqrt(), 9007199254740992.0, 9007199254740993.0, 4503599627370496.0, 4503599627370495.5, 4503599627370497.0,
            9223372036854775808.0, 18446744073709551616.0, 2147483647.0, 2147483648.0, 4294967295.0, 32767.0, 32768.0, 65535.0, 127.0, 128.0, 255.0, 256.0, 16777216.0, 16777217.0, 8.0, 360.0, 57.29577951308232];
        for x in th { with_ulps(x, &mut v); with_ulps(-x, &mut v); for h in [x + 0.5, x - 0.5, -x - 0.5, -x + 0.5] { if h.is_finite() && h.fract() != 0.0 { v.push(h); } } }
        v.extend([0.0, -0.0, f64::NAN, f64::INFINITY, f64::NEG_INFINITY]);
        let mut seen = std::collections::HashSet::new();
        v.retain(|x| seen.insert(canon(*x)));
        v
    })
}
fn sweep_f32() -> &'static [f32] {
    static P: std::sync::OnceLock<Vec<f32>> = std::sync::OnceLock::new();
    P.get_or_init(|| {
        let ul = |x: f32, v: &mut Vec<f32>| { v.push(x); if x.is_finite() && x != 0.0 { v.push(f32::from_bits(x.to_bits() + 1)); v.push(f32::from_bits(x.to_bits() - 1)); } };
        let mut v: Vec<f32> = vec![];
        // the f32 neighbourhoods first (the images of the f64 pool, mostly duplicates of these, follow)
        for k in -152..=130 { let x = pow2_f32(k); ul(x, &mut v); ul(-x, &mut v); }
        for k in -46..=39 { let x: f32 = format!("1e{k}").parse().unwrap(); ul(x, &mut v); ul(-x, &mut v); }
        for k in -1100..=1100 { ul(k as f32, &mut v); v.push(k as f32 + 0.5); }
        { use std::f32::consts::*; for c in [E, PI, TAU, LN_2, LN_10, LOG2_E, LOG10_E, LOG2_10, LOG10_2, SQRT_2, FRAC_1_SQRT_2, FRAC_PI_2, FRAC_PI_3, FRAC_PI_4, FRAC_PI_6, FRAC_PI_8, FRAC_1_PI, FRAC_2_PI, FRAC_2_SQRT_PI, f32::EPSILON, f32::MAX.ln(), f32::MIN_POSITIVE.ln(), 16777216.0, 8388608.0, 2147483648.0, 9223372036854775808.0, f32::MAX.sqrt(), f32::MAX] { for x in [c, -c, 1.0 / c, -1.0 / c] { ul(x, &mut v); } } }
        for x in sweep_f64() { v.push(*x as f32); }
        let mut seen = std::collections::HashSet::new();
        v.retain(|x| seen.insert(x.key()));
        v
    })
}
/// integers: every value in -1100..=1100 (i8 / u8: the whole type), ±2^k, ±(2^k ± 1), ±10^k, ±(10^k ± 1), squares and cubes at the
/// root limits of every width, the limits of every type
fn sweep_int(min: i128, max: i128) -> Vec<i128> {
    let mut v: Vec<i128> = (-1100..=1100).collect();
    for k in 0..=64 { let x = 1i128 << k; for y in [x, x + 1, x - 1] { v.push(y); v.push(-y); } }
    let mut t = 1i128; for _ in 0..=19 { for y in [t, t + 1, t - 1] { v.push(y); v.push(-y); } t *= 10; }
    for r in [181i128, 182, 255, 256, 46340, 46341, 65535, 65536, 94906265, 94906266, 3037000499, 3037000500, 4294967295, 4294967296] { for y in [r * r, r * r - 1, r * r + 1] { v.push(y); v.push(-y); } }
    for r in [5i128, 6, 31, 32, 40, 41, 1290, 1291, 1625, 1626, 2097151, 2097152, 2642245, 2642246, 208063, 208064] { for y in [r * r * r, r * r * r - 1, r * r * r + 1] { v.push(y); v.push(-y); } }
    v.extend(int_lim(min, max));
    v.retain(|x| *x >= min && *x <= max);
    let mut seen = std::collections::HashSet::new();
    v.retain(|x| seen.insert(*x));
    v
}
/// number of values in the sweep pool of an element type (the generator sizes its shapes by it)
fn sweep_len(ty: &str) -> usize {
    match ty {
        "f64" => sweep_f64().len(), "f32" => sweep_f32().len(),
        "i8" => sweep_int(i8::MIN as i128, i8::MAX as i128).len(), "i16" => sweep_int(i16::MIN as i128, i16::MAX as i128).len(),
        "i32" => sweep_int(i32::MIN as i128, i32::MAX as i128).len(), "i64" => sweep_int(i64::MIN as i128, i64::MAX as i128).len(),
        "u8" => sweep_int(0, u8::MAX as i128).len(), "u16" => sweep_int(0, u16::MAX as i128).len(),
        "u32" => sweep_int(0, u32::MAX as i128).len(), "u64" => sweep_int(0, u64::MAX as i128).len(),
        _ => 1,
    }
}

/// `round<d>` / `around<d>`: the decimals argument is swept as well (round 5: the seed / parameter is an argument like any other);
/// `roundv`: a decimals array of the receiver's own shape, `ROUNDV[p % 9]` at flat position p
fn round_digits(op: &str) -> Option<isize> { op.strip_prefix("around").or_else(|| op.strip_prefix("round"))?.parse().ok() }
const ROUNDV: [isize; 9] = [0, 1, -1, 2, 5, -2, 15, 3, 308];
const OPS_ROUND_X: &[&str] = &["round1", "round3", "round4", "round5", "round6", "round8", "round10", "round15", "round16", "round17", "round22", "round23", "round100", "round300", "round308", "round309", "round400",
    "round-1", "round-2", "round-3", "round-5", "round-10", "round-22", "round-300", "round-308", "round-309", "round-324", "round-400", "around0", "around-1", "around3", "around17", "roundv"];

fn f64_value(cls: &str, j: usize) -> f64 {
    match cls {
        "sweep" => { let p = sweep_f64(); p[j % p.len()] }
        "near" => near_f64(j),
        "dom" => F64_DOM[j % F64_DOM.len()],
        "edge" => F64_EDGE[j % F64_EDGE.len()],
        "spec" => F64_SPEC[j % F64_SPEC.len()],
        "lim" => F64_LIM[j % F64_LIM.len()],
        _ => { let n = F64_DOM.len() + F64_EDGE.len() + F64_SPEC.len(); let j = j % n;
               if j < F64_DOM.len() { F64_DOM[j] } else if j < F64_DOM.len() + F64_EDGE.len() { F64_EDGE[j - F64_DOM.len()] } else { F64_SPEC[j - F64_DOM.len() - F64_EDGE.len()] } }
    }
}

/// which receiver the operation is called on
#[derive(Clone, Copy, PartialEq)]
enum Recv { Plain, Chained, ErrRecv }
fn ok_of<N: Numeric>(a: &Array<N>) -> Result<Array<N>, ArrayError> { Ok(a.clone()) }
fn err_of<N: Numeric>(_a: &Array<N>) -> Result<Array<N>, ArrayError> { Err(ArrayError::NotImplemented) }
/// evaluate `$body` with `$r` bound to `&Array<N>`, to `&Ok(array)` or to `&Err(_)`
macro_rules! on_recv {
    ($recv:expr, $a:expr, |$r:ident| $body:expr) => {
        match $recv {
            Recv::Plain => { let $r = $a; $body }
            Recv::Chained => { let tmp = ok_of($a); let $r = &tmp; $body }
            Recv::ErrRecv => { let tmp = err_of($a); let $r = &tmp; $body }
        }
    };
}

type Keys = Result<(Vec<usize>, Vec<u64>), String>;
thread_local! {
    /// giant arrays: instead of collecting 2^24 keys, `keys` compares every element in place with `table[input(p)]` and answers
    /// `[count, first differing position (or u64::MAX), its key]`
    static INPLACE_TABLE: std::cell::RefCell<Option<Vec<u64>>> = const { std::cell::RefCell::new(None) };
}
fn keys<T: ArrayElement + Key>(r: Result<Array<T>, ArrayError>) -> Keys {
    match r {
        Ok(arr) => {
            if !consistent(&arr) { return Err("inconsistent".to_string()); }
            if let Some(table) = INPLACE_TABLE.with(|t| t.borrow().clone()) {
                let mut first: (u64, u64) = (u64::MAX, 0);
                let mut count = 0u64;
                for (p, x) in (&arr).into_iter().enumerate() { count += 1; if first.0 == u64::MAX && x.key() != table[giant_pat(p) as usize] { first = (p as u64, x.key()); } }
                return Ok((arr.get_shape().unwrap(), vec![count, first.0, first.1]));
            }
            Ok((arr.get_shape().unwrap(), arr.get_elements().unwrap().iter().map(Key::key).collect()))
        }
        Err(e) => Err(format!("err {}", err_name(&e))),
    }
}

trait Elem: Numeric + Key + 'static {
    fn value(cls: &str, j: usize) -> Self;
    // the harness's own casts and predicates (the crate's to_f64 / from_f64 / is_inf / max / bitwise_not are NOT used by the oracle)
    fn f(self) -> f64;
    fn t(v: f64) -> Self;
    fn nan(self) -> bool { false }
    fn inf(self) -> bool { false }
    fn maxv() -> Self;
    fn bnot(self) -> Self;
    /// ops of traits bounded by `NumericOps` (trigonometric.rs, special.rs) or `Floating` (floating.rs); `None` = not defined for this type
    fn call_extra(_op: &str, _a: &Array<Self>, _recv: Recv) -> Option<Keys> { None }
}
fn numops_on<N: NumericOps + Key, R: ArrayTrigonometric<N> + ArrayMathSpecial<N>>(r: &R, op: &str) -> Option<Keys> {
    Some(match op {
        "sin" => keys(r.sin()), "cos" => keys(r.cos()), "tan" => keys(r.tan()),
        "asin" => keys(r.asin()), "acos" => keys(r.acos()), "atan" => keys(r.atan()),
        "degrees" => keys(r.degrees()), "rad2deg" => keys(r.rad2deg()), "radians" => keys(r.radians()), "deg2rad" => keys(r.deg2rad()),
        "i0" => keys(r.i0()), "sinc" => keys(r.sinc()),
        _ => return None,
    })
}
fn floating_on<N: Floating + Key, R: ArrayFloating<N>>(r: &R, op: &str) -> Option<Keys> {
    Some(match op { "signbit" => keys(r.signbit()), "spacing" => keys(r.spacing()), _ => return None })
}
macro_rules! elem_int {
    ($t:ty, numops) => { elem_int!(@imp $t, fn call_extra(op: &str, a: &Array<Self>, recv: Recv) -> Option<Keys> { on_recv!(recv, a, |r| numops_on(r, op)) }); };
    ($t:ty, plain) => { elem_int!(@imp $t, ); };
    (@imp $t:ty, $($extra:tt)*) => {
        impl Elem for $t {
            fn value(cls: &str, j: usize) -> Self {
                if cls == "sweep" { static P: std::sync::OnceLock<Vec<$t>> = std::sync::OnceLock::new(); let p = P.get_or_init(|| sweep_int(<$t>::MIN as i128, <$t>::MAX as i128).into_iter().map(|x| x as $t).collect()); return p[j % p.len()]; }
                let pick = |l: &[i128]| -> Self { let v: Vec<$t> = l.iter().filter_map(|x| <$t>::try_from(*x).ok()).collect(); v[j % v.len()] };
                if cls == "near" { return near_int(j, <$t>::MIN as i128, <$t>::MAX as i128) as $t; }
                if cls == "lim" { pick(&int_lim(<$t>::MIN as i128, <$t>::MAX as i128)) } else { pick(INT_DOM) }
            }
            fn f(self) -> f64 { self as f64 }
            fn t(v: f64) -> Self { v as $t }
            fn maxv() -> Self { <$t>::MAX }
            fn bnot(self) -> Self { !self }
            $($extra)*
        }
    };
}
elem_int!(i8, numops); elem_int!(i16, numops); elem_int!(i64, numops);
elem_int!(u8, plain); elem_int!(u16, plain); elem_int!(u32, plain); elem_int!(u64, plain);
impl Elem for i32 {
    // (the original stream ignores the class for i32)
    fn value(cls: &str, j: usize) -> i32 { if cls == "sweep" { static P: std::sync::OnceLock<Vec<i32>> = std::sync::OnceLock::new(); let p = P.get_or_init(|| sweep_int(i32::MIN as i128, i32::MAX as i128).into_iter().map(|x| x as i32).collect()); return p[j % p.len()]; }
        if cls == "near" { return near_int(j, i32::MIN as i128, i32::MAX as i128) as i32; } if cls == "lim" { let v = int_lim(i32::MIN as i128, i32::MAX as i128); v[j % v.len()] as i32 } else { I32_VALS[j % I32_VALS.len()] } }
    fn f(self) -> f64 { self as f64 }
    fn t(v: f64) -> Self { v as i32 }
    fn maxv() -> Self { i32::MAX }
    fn bnot(self) -> Self { !self }
    fn call_extra(op: &str, a: &Array<Self>, recv: Recv) -> Option<Keys> { on_recv!(recv, a, |r| numops_on(r, op)) }
}
macro_rules! elem_float {
    ($t:ty, $ti:ty, $near:expr) => {
        impl Elem for $t {
            fn value(cls: &str, j: usize) -> Self { if cls == "near" { return $near(j); } if cls == "sweep" { return Self::sweep_value(j); } f64_value(cls, j) as $t }
            fn f(self) -> f64 { self as f64 }
            fn t(v: f64) -> Self { v as $t }
            fn nan(self) -> bool { self != self }
            fn inf(self) -> bool { self == <$t>::INFINITY || self == <$t>::NEG_INFINITY }
            fn maxv() -> Self { <$t>::MAX }
            fn bnot(self) -> Self { !(self as $ti) as $t }
            fn call_extra(op: &str, a: &Array<Self>, recv: Recv) -> Option<Keys> {
                match op { "signbit" | "spacing" => on_recv!(recv, a, |r| floating_on(r, op)), _ => on_recv!(recv, a, |r| numops_on(r, op)) }
            }
        }
    };
}
trait SweepFloat { fn sweep_value(j: usize) -> Self; }
impl SweepFloat for f64 { fn sweep_value(j: usize) -> f64 { let p = sweep_f64(); p[j % p.len()] } }
impl SweepFloat for f32 { fn sweep_value(j: usize) -> f32 { let p = sweep_f32(); p[j % p.len()] } }
elem_float!(f64, i128, near_f64);
elem_float!(f32, i64, near_f32);

const OPS_ALL: &[&str] = &["fix", "trunc", "floor", "ceil", "rint", "round0", "round2", "around1",
    "exp", "exp2", "exp_m1", "log", "log2", "log10", "log_1p",
    "sin", "cos", "tan", "asin", "acos", "atan", "degrees", "rad2deg", "radians", "deg2rad",
    "sinh", "cosh", "tanh", "asinh", "acosh", "atanh",
    "sqrt", "cbrt", "square", "absolute", "abs", "fabs", "sign", "nan_to_num", "i0", "sinc"];
const OPS_FLOAT: &[&str] = &["signbit", "spacing"];
/// one-operand ops of arithmetic.rs / binary.rs (same `self.map(..)` pattern; their Result-receiver forwarders sit next to the two-operand ones)
const OPS_MORE: &[&str] = &["reciprocal", "negative", "positive", "bitwise_not", "invert"];
/// ops whose trait is bounded by `NumericOps` (i8 i16 i32 i64 f32 f64)
const OPS_NUMOPS: &[&str] = &["sin", "cos", "tan", "asin", "acos", "atan", "degrees", "rad2deg", "radians", "deg2rad", "i0", "sinc"];
const ALL_TYPES: &[&str] = &["f64", "f32", "i32", "i8", "i16", "i64", "u8", "u16", "u32", "u64"];
fn op_defined(op: &str, ty: &str) -> bool {
    if OPS_FLOAT.contains(&op) { return ty == "f64" || ty == "f32"; }
    if OPS_NUMOPS.contains(&op) { return !ty.starts_with('u'); }
    true
}

fn round_native<N: Elem>(x: N, d: i32) -> N {
    let multiplier = 10_f64.powi(d);
    N::t((x.f() * multiplier).round() / multiplier)
}

/// the scalar kernel named in the op's body, evaluated natively with the harness's own casts: key of `f(x)`
fn native<N: Elem>(op: &str, x: N) -> u64 {
    let f = x.f();
    let zero = N::t(0.0);
    let n = |y: f64| -> u64 { N::t(y).key() };
    match op {
        "fix" => if x >= zero { n(f.floor()) } else { n(f.ceil()) },
        "trunc" => n(f.trunc()), "floor" => n(f.floor()), "ceil" => n(f.ceil()),
        "rint" => round_native(x, 0).key(),
        _ if round_digits(op).is_some() => round_native(x, round_digits(op).unwrap() as i32).key(),
        "exp" => n(f.exp()), "exp2" => n(f.exp2()), "exp_m1" => n(f.exp_m1()),
        // log = logn(single(N::from(e))): the base goes through the element type
        "log" => n(f.log(N::t(std::f64::consts::E).f())),
        "log2" => n(f.log2()), "log10" => n(f.log10()), "log_1p" => n(f.ln_1p()),
        "sin" => n(f.sin()), "cos" => n(f.cos()), "tan" => n(f.tan()),
        "asin" => n(f.asin()), "acos" => n(f.acos()), "atan" => n(f.atan()),
        "degrees" | "rad2deg" => n(f.to_degrees()), "radians" | "deg2rad" => n(f.to_radians()),
        "sinh" => n(f.sinh()), "cosh" => n(f.cosh()), "tanh" => n(f.tanh()),
        "asinh" => n(f.asinh()), "acosh" => n(f.acosh()), "atanh" => n(f.atanh()),
        "sqrt" => n(f.sqrt()), "cbrt" => n(f.cbrt()), "square" => n(f.powi(2)),
        "absolute" | "abs" | "fabs" => n(f.abs()),
        "sign" => (if x < zero { -1isize } else { 1isize }).key(),
        "nan_to_num" => (if x.nan() { zero } else if x.inf() { N::maxv() } else { x }).key(),
        // i0: the Cephes Chebyshev kernel named in the op's body, evaluated here (harness-native: no call into the crate, so no state
        // the crate may keep between two evaluations can reach the oracle)
        "i0" => n(i0_native(f)),
        "sinc" => { let y = std::f64::consts::PI * if x == zero { 1.0e-20 } else { f }; n(y.sin() / y) }
        "signbit" => f.is_sign_negative().key(),
        "spacing" => { let bits = f.to_bits(); let next = if f.is_sign_negative() { bits - 1 } else { bits + 1 }; n(f64::from_bits(next) - f) }
        "reciprocal" => n(f.recip()), "negative" => n(-f), "positive" => x.key(),
        "bitwise_not" | "invert" => x.bnot().key(),
        _ => panic!("native: unknown op {op}"),
    }
}

/// Cephes i0 (Chebyshev coefficients of exp(-x) I0(x) on [0,8] and of exp(-x) sqrt(x) I0(x) on (8,inf)), the formula of special.rs
const I0_A: [f64; 30] = [-4.415_341_646_479_339E-18, 3.330_794_518_822_238E-17, -2.431_279_846_547_954E-16, 1.715_391_285_555_133E-15, -1.168_533_287_799_345E-14,
    7.676_185_498_604_935E-14, -4.856_446_783_111_929E-13, 2.955_052_663_129_639E-12, -1.726_826_291_441_555E-11, 9.675_809_035_373_236E-11, -5.189_795_601_635_262E-10,
    2.659_823_724_682_386E-9, -1.300_025_009_986_248E-8, 6.046_995_022_541_918E-8, -2.670_793_853_940_611E-7, 1.117_387_539_120_103E-6, -4.416_738_358_458_75E-6,
    1.644_844_807_072_889E-5, -5.754_195_010_082_103E-5, 1.885_028_850_958_416E-4, -5.763_755_745_385_823E-4, 1.639_475_616_941_335E-3, -4.324_309_995_050_575E-3,
    1.054_646_039_459_499E-2, -2.373_741_480_589_946E-2, 4.930_528_423_967_07E-2, -9.490_109_704_804_764E-2, 1.716_209_015_222_087E-1, -3.046_826_723_431_983E-1, 6.767_952_744_094_76E-1];
const I0_B: [f64; 25] = [-7.233_180_487_874_753E-18, -4.830_504_485_944_182E-18, 4.465_621_420_296_759E-17, 3.461_222_867_697_461E-17, -2.827_623_980_516_583E-16,
    -3.425_485_619_677_219E-16, 1.772_560_133_056_526E-15, 3.811_680_669_352_622E-15, -9.554_846_698_828_307E-15, -4.150_569_347_287_222E-14, 1.540_086_217_521_409E-14,
    3.852_778_382_742_142E-13, 7.180_124_451_383_666E-13, -1.794_178_531_506_806E-12, -1.321_581_184_044_771E-11, -3.149_916_527_963_241E-11, 1.188_914_710_784_643E-11,
    4.940_602_388_224_969E-10, 3.396_232_025_708_386E-9, 2.266_668_990_498_178E-8, 2.048_918_589_469_063E-7, 2.891_370_520_834_756E-6, 6.889_758_346_916_823E-5,
    3.369_116_478_255_694E-3, 8.044_904_110_141_088E-1];
fn chbevl_native(x: f64, vals: &[f64]) -> f64 {
    let (mut b0, mut b1, mut b2) = (vals[0], 0.0f64, 0.0f64);
    for val in &vals[1..] { b2 = b1; b1 = b0; b0 = x.mul_add(b1, -b2) + val; }
    0.5 * (b0 - b2)
}
fn i0_native(x: f64) -> f64 {
    if x <= 8.0 { x.exp() * chbevl_native(x / 2. - 2., &I0_A) } else { x.exp() * chbevl_native(32. / x - 2., &I0_B) / x.sqrt() }
}

/// the ops of the traits bounded by `Numeric` only, on either receiver
fn unary_on<N: Elem, R>(r: &R, op: &str, shape: &[usize]) -> Option<Keys>
where R: ArrayRounding<N> + ArrayExpLog<N> + ArrayHyperbolic<N> + ArrayMathMisc<N> + ArrayArithmetic<N> + ArrayBinary<N> {
    if op == "roundv" {
        let n: usize = shape.iter().product();
        let d: Array<isize> = Array::new((0..n).map(|p| ROUNDV[p % ROUNDV.len()]).collect(), shape.to_vec()).ok()?;
        return Some(keys(r.round(&d)));
    }
    if let Some(d) = round_digits(op) {
        let d: Array<isize> = Array::single(d).unwrap();
        return Some(if op.starts_with("around") { keys(r.around(&d)) } else { keys(r.round(&d)) });
    }
    Some(match op {
        "fix" => keys(r.fix()), "trunc" => keys(r.trunc()), "floor" => keys(r.floor()), "ceil" => keys(r.ceil()),
        "rint" => keys(r.rint()),
        "exp" => keys(r.exp()), "exp2" => keys(r.exp2()), "exp_m1" => keys(r.exp_m1()),
        "log" => keys(r.log()), "log2" => keys(r.log2()), "log10" => keys(r.log10()), "log_1p" => keys(r.log_1p()),
        "sinh" => keys(r.sinh()), "cosh" => keys(r.cosh()), "tanh" => keys(r.tanh()),
        "asinh" => keys(r.asinh()), "acosh" => keys(r.acosh()), "atanh" => keys(r.atanh()),
        "sqrt" => keys(r.sqrt()), "cbrt" => keys(r.cbrt()), "square" => keys(r.square()),
        "absolute" => keys(r.absolute()), "abs" => keys(r.abs()), "fabs" => keys(r.fabs()),
        "sign" => keys(r.sign()), "nan_to_num" => keys(r.nan_to_num()),
        "reciprocal" => keys(r.reciprocal()), "negative" => keys(r.negative()), "positive" => keys(r.positive()),
        "bitwise_not" => keys(r.bitwise_not()), "invert" => keys(r.invert()),
        _ => return None,
    })
}

/// run the real op on the given receiver; Ok((shape, keys)) or the outcome text
fn real_unary<N: Elem>(op: &str, a: &Array<N>, recv: Recv) -> Keys {
    let out = std::panic::catch_unwind(std::panic::AssertUnwindSafe(|| {
        let shape = a.get_shape().unwrap();
        match on_recv!(recv, a, |r| unary_on(r, op, &shape)) { Some(k) => k, None => N::call_extra(op, a, recv).unwrap_or_else(|| Err("bad-op".to_string())) }
    }));
    match out { Ok(r) => r, Err(_) => Err("panic".to_string()) }
}

fn build<N: Elem>(shape: &[usize], cls: &str, off: usize) -> Array<N> {
    let n: usize = shape.iter().product();
    Array::new((0..n).map(|p| N::value(cls, p + off)).collect(), shape.to_vec()).expect("harness: build")
}

/// compare the real result with (model structure) x (native kernel)
fn judge<N: Elem>(op: &str, a: &Array<N>, real: Keys, expected: &str) -> Option<Verdict> {
    let (shape, keys) = match real {
        Ok(x) => x,
        Err(s) => { if s == "bad-op" { return None; } return Some(compare_default(s, expected)); }
    };
    // expected: "ok SHAPE:IDX"
    let body = match expected.strip_prefix("ok ") { Some(b) => b, None => return Some(compare_default(format!("ok {}:…", show_list(&shape)), expected)) };
    let (msh, midx) = body.split_once(':')?;
    let (msh, midx) = (parse_usize_list(msh), parse_usize_list(midx));
    let input = a.get_elements().unwrap();
    if shape != msh {
        return Some(Verdict::Mismatch { observed: format!("ok shape {}", show_list(&shape)), detail: format!("result shape {:?}, the model (map keeps the receiver's shape) says {:?}", shape, msh) });
    }
    if keys.len() != midx.len() {
        return Some(Verdict::Mismatch { observed: format!("ok {} elements", keys.len()), detail: format!("model says {} elements", midx.len()) });
    }
    for p in 0..keys.len() {
        let want = if op == "roundv" { round_native(input[midx[p]], ROUNDV[p % ROUNDV.len()] as i32).key() } else { native(op, input[midx[p]]) };
        if keys[p] != want {
            return Some(Verdict::Mismatch { observed: format!("ok {}: out[{}] = bits {:#x}", show_list(&shape), p, keys[p]),
                detail: format!("position {p}: expected {op}(in[{}]) = bits {:#x} (input {}), got bits {:#x}", midx[p], want, input[midx[p]], keys[p]) });
        }
    }
    Some(Verdict::Match(expected.to_string()))
}

/// ops that reach their elements through the broadcasting layer (`broadcast` / `broadcast_h2` / `zip` against a one-element
/// or equal-shape operand) instead of `map`.  `is_broadcastable` refuses zero-length axes by design (`dim == 0` arm), so
/// on arrays without elements these ops answer `Err(BroadcastShapeMismatch)` where the `map`-based ops answer the empty
/// array.  Whether a zero-length operand is stretchable is C03's question; C05 leaves that region open (not compared).
const OPS_BROADCAST_ROUTED: &[&str] = &["rint", "round0", "round2", "around1", "log"];

fn open_if_empty(v: Option<Verdict>, n: usize) -> Option<Verdict> {
    match v {
        Some(Verdict::Mismatch { observed, .. }) if n == 0 && class_of(&observed) == "err" => Some(Verdict::Open(observed)),
        other => other,
    }
}

fn exec_unary(args: &[&str], expected: &str) -> Option<Verdict> {
    let n: usize = parse_usize_list(args[2]).iter().product();
    let v = exec_unary_inner(args, expected);
    if OPS_BROADCAST_ROUTED.contains(&args[0]) || round_digits(args[0]).is_some() || args[0] == "roundv" { open_if_empty(v, n) } else { v }
}

fn show_keys(k: &Keys) -> String {
    match k { Ok((s, v)) => format!("ok {}:{}", show_list(s), truncate(&v.iter().map(|b| format!("{b:#x}")).collect::<Vec<_>>().join(","), 300)), Err(e) => e.clone() }
}

/// plain receiver against model x native kernel; then `Ok(a).op()` must be bit-identical to `a.op()` and `Err(_).op()` an error
fn run_unary<N: Elem>(op: &str, shape: &[usize], cls: &str, off: usize, expected: &str) -> Option<Verdict> {
    let a = build::<N>(shape, cls, off);
    let plain = real_unary(op, &a, Recv::Plain);
    let v = judge(op, &a, plain.clone(), expected)?;
    if let Verdict::Mismatch { .. } = v { return Some(v); }
    // A-B-A (hidden state): a DIFFERENT array of the same shape (the values moved by one position, floats: the `near` neighbours of
    // other values) goes through the same op and is judged like A; then A again must repeat its first answer bit for bit
    let n_el = a.len().unwrap_or(0);
    if n_el > 0 && n_el <= 600 {
        let b = build::<N>(shape, if cls == "near" { "dom" } else { "near" }, off + 1);
        let vb = judge(op, &b, real_unary(op, &b, Recv::Plain), expected)?;
        if let Verdict::Mismatch { observed, detail } = vb {
            return Some(Verdict::Mismatch { observed: format!("A-B-A, second array (class {}, offset {}): {observed}", if cls == "near" { "dom" } else { "near" }, off + 1), detail });
        }
        // ... and the array with the same values in reversed order (same multiset, sum, xor: a cache keyed by a fingerprint of the values)
        let mut rev = a.get_elements().unwrap(); rev.reverse();
        let c: Array<N> = Array::new(rev, shape.to_vec()).expect("harness: build");
        if let Verdict::Mismatch { observed, detail } = judge(op, &c, real_unary(op, &c, Recv::Plain), expected)? {
            return Some(Verdict::Mismatch { observed: format!("A-B-A, the array with its values reversed: {observed}"), detail });
        }
        let again = real_unary(op, &a, Recv::Plain);
        let same = match (&plain, &again) { (Ok(x), Ok(y)) => x == y, (Err(x), Err(y)) => class_of(x) == class_of(y), _ => false };
        if !same { return Some(Verdict::Mismatch { observed: format!("STATE-DIVERGENCE second run: {}", show_keys(&again)), detail: format!("the same call again, after a call on another array, differs from its first answer `{}`", show_keys(&plain)) }); }
    }
    let chained = real_unary(op, &a, Recv::Chained);
    let same = match (&plain, &chained) { (Ok(x), Ok(y)) => x == y, (Err(x), Err(y)) => class_of(x) == class_of(y), _ => false };
    if !same {
        let at = match (&plain, &chained) { (Ok(x), Ok(y)) if x.0 == y.0 && x.1.len() == y.1.len() => (0..x.1.len()).find(|&p| x.1[p] != y.1[p]).map_or(String::new(), |p| format!(" (first difference at flat position {p}: input {}, chained bits {:#x}, plain bits {:#x})", a.get_elements().unwrap()[p], y.1[p], x.1[p])), _ => String::new() };
        return Some(Verdict::Mismatch { observed: format!("RECEIVER-DIVERGENCE chained: {}", show_keys(&chained)),
            detail: format!("the call on `Ok(array)` (impl for Result<Array<N>, ArrayError>) differs from the plain call, which gives `{}`{at}", show_keys(&plain)) });
    }
    let on_err = real_unary(op, &a, Recv::ErrRecv);
    if !matches!(&on_err, Err(e) if class_of(e) == "err") {
        return Some(Verdict::Mismatch { observed: format!("RECEIVER-DIVERGENCE on Err(_): {}", show_keys(&on_err)), detail: "the call on an `Err(_)` receiver must return the error".into() });
    }
    Some(v)
}

/// one-operand op on a giant `Array<u8>` (plain and `Ok(_)` receiver), every output element compared in place with the native kernel
/// of its input element (256 possible inputs: a table)
fn giant_unary(op: &str, shape: &[usize]) -> Result<String, String> {
    let a: Array<u8> = Array::new(giant_elems(shape), shape.to_vec()).map_err(|e| format!("harness: Array::new refused: {}", err_name(&e)))?;
    let n = a.len().unwrap_or(0);
    let table: Vec<u64> = (0..=255u8).map(|v| native::<u8>(op, v)).collect();
    // (above 2^24 elements the plain receiver only: the Result impls clone the array and delegate, exercised on every smaller case)
    for (recv, name) in [(Recv::Plain, "plain receiver"), (Recv::Chained, "Ok(array) receiver")] {
        if recv == Recv::Chained && n > (1 << 22) { continue; }
        INPLACE_TABLE.with(|t| *t.borrow_mut() = Some(table.clone()));
        let r = real_unary(op, &a, recv);
        INPLACE_TABLE.with(|t| *t.borrow_mut() = None);
        match r {
            Ok((sh, v)) => {
                if sh != shape { return Err(format!("{name}: result shape {:?}, receiver shape {:?}", sh, shape)); }
                if v[0] as usize != n { return Err(format!("{name}: {} result elements for {n} input elements", v[0])); }
                if v[1] != u64::MAX { let p = v[1] as usize; return Err(format!("{name}: out[{p}] = bits {:#x}, expected {op}({}) = bits {:#x}", v[2], giant_pat(p), table[giant_pat(p) as usize])); }
            }
            Err(e) => return Err(format!("{name}: {e}")),
        }
    }
    Ok(format!("ok native in place: {op} on {n} u8 elements, {}", if n > (1 << 22) { "plain receiver" } else { "both receivers" }))
}

fn exec_unary_inner(args: &[&str], expected: &str) -> Option<Verdict> {
    let (op, ty, shape, cls) = (args[0], args[1], parse_usize_list(args[2]), args[3]);
    let off: usize = args[4].parse().ok()?;
    if !OPS_ALL.contains(&op) && !OPS_FLOAT.contains(&op) && !OPS_MORE.contains(&op) && round_digits(op).is_none() && op != "roundv" { return None; }
    if !op_defined(op, ty) { return None; }
    match ty {
        "f64" => run_unary::<f64>(op, &shape, cls, off, expected), "f32" => run_unary::<f32>(op, &shape, cls, off, expected),
        "i8" => run_unary::<i8>(op, &shape, cls, off, expected), "i16" => run_unary::<i16>(op, &shape, cls, off, expected),
        "i32" => run_unary::<i32>(op, &shape, cls, off, expected), "i64" => run_unary::<i64>(op, &shape, cls, off, expected),
        "u8" => run_unary::<u8>(op, &shape, cls, off, expected), "u16" => run_unary::<u16>(op, &shape, cls, off, expected),
        "u32" => run_unary::<u32>(op, &shape, cls, off, expected), "u64" => run_unary::<u64>(op, &shape, cls, off, expected),
        _ => None,
    }
}

// ------------------------------------------------------------------ frexp / ldexp

fn parse_bits_arr(s: &str) -> Option<(Vec<usize>, Vec<u64>)> {
    let (sh, el) = s.split_once(':')?;
    let shape = parse_usize_list(sh);
    let bits: Vec<u64> = if el == "-" { vec![] } else { el.split(',').map(|x| x.parse::<u64>().ok()).collect::<Option<Vec<_>>>()? };
    Some((shape, bits))
}
fn show_bits_arr(shape: &[usize], v: &[f64]) -> String { format!("{}:{}", show_list(shape), show_list(&v.iter().map(|x| canon(*x)).collect::<Vec<_>>())) }

// ---- round 5: harness-native reference for frexp / ldexp / recombination, read off the IEEE-754 FIELDS (no loop, no call into the
// crate).  It is compared with the exact rational model on EVERY ordinary frexp / ldexp / roundtrip case of the run
// (`FLOAT_VALIDATIONS`, reported by the `audit` line) and judges alone the dense sweeps (`frexpn` / `ldexpn` / `roundtripn`: every power
// of two with its neighbours, every integer, the constants, every exponent -2098..=2097), which would cost the rational model ~20 s.
fn native_frexp1(x: f64) -> (f64, i32) {
    if x == 0.0 { return (0.0, 0); }
    if !x.is_finite() { return (x, 0); }
    let b = x.to_bits();
    let (sign, mut ex, mut fr) = (b >> 63, ((b >> 52) & 0x7ff) as i64, b & ((1u64 << 52) - 1));
    if ex == 0 { let sh = fr.leading_zeros() as i64 - 11; fr = (fr << sh) & ((1u64 << 52) - 1); ex = 1 - sh; }
    (f64::from_bits((sign << 63) | (1022u64 << 52) | fr), (ex - 1022) as i32)
}
/// x * 2^e when that product is a binary64 value (exactly); `None` when it is not (the generators never send such a pair)
fn native_ldexp1(x: f64, e: i32) -> Option<f64> {
    if x == 0.0 || !x.is_finite() { return Some(x); }
    let (m, ex) = native_frexp1(x);                       // x = m * 2^ex, 1/2 <= |m| < 1
    let mb = m.to_bits();
    let (sign, fr) = (mb >> 63, (mb & ((1u64 << 52) - 1)) | (1u64 << 52));   // |m| = fr * 2^-53
    let t = ex as i64 + e as i64;                          // |result| = fr * 2^(t-53), in [2^(t-1), 2^t)
    if t > 1024 { return None; }
    if t >= -1021 { return Some(f64::from_bits((sign << 63) | (((t + 1022) as u64) << 52) | (fr & ((1u64 << 52) - 1)))); }
    let sh = -1021 - t;                                    // subnormal: fr * 2^(t-53) = (fr >> sh) * 2^-1074
    if sh > 52 || fr & ((1u64 << sh) - 1) != 0 { return None; }
    Some(f64::from_bits((sign << 63) | (fr >> sh)))
}
/// the answer text of a float case by the native reference (`None`: outside its exact domain)
fn native_float(op: &str, ty: &str, shape: &[usize], vals: &[f64], exps: Option<&[i64]>) -> Option<String> {
    let _ = ty;
    match op {
        "frexp" => { let r: Vec<(f64, i32)> = vals.iter().map(|x| native_frexp1(*x)).collect();
            Some(format!("ok {};{}:{}", show_bits_arr(shape, &r.iter().map(|q| q.0).collect::<Vec<_>>()), show_list(shape), show_list(&r.iter().map(|q| q.1).collect::<Vec<_>>()))) }
        "ldexp" => { let r: Vec<f64> = vals.iter().zip(exps?).map(|(x, e)| native_ldexp1(*x, *e as i32)).collect::<Option<Vec<_>>>()?; Some(format!("ok {}", show_bits_arr(shape, &r))) }
        "roundtrip" => { let r: Vec<f64> = vals.iter().map(|x| if *x == 0.0 { 0.0 } else { *x }).collect(); Some(format!("ok {}", show_bits_arr(shape, &r))) }
        _ => None,
    }
}
static FLOAT_VALIDATIONS: std::sync::atomic::AtomicUsize = std::sync::atomic::AtomicUsize::new(0);
static FLOAT_NATIVE_ONLY: std::sync::atomic::AtomicUsize = std::sync::atomic::AtomicUsize::new(0);

fn exec_float(op: &str, args: &[&str], expected: &str) -> Option<Verdict> {
    // frexpn / ldexpn / roundtripn: judged by the native reference alone
    if let Some(base) = op.strip_suffix('n').filter(|b| ["frexp", "ldexp", "roundtrip"].contains(b)) {
        if expected != "ok native" { return Some(compare_default("harness: the dense float sweeps expect the driver to answer `ok native`".into(), expected)); }
        let (shape, bits) = parse_bits_arr(args.get(1)?)?;
        let vals: Vec<f64> = bits.iter().map(|b| f64::from_bits(*b)).collect();
        let exps: Option<Vec<i64>> = if base == "ldexp" { Some(parse_arr_raw(args.get(2)?).1) } else { None };
        let want = native_float(base, args[0], &shape, &vals, exps.as_deref())?;
        FLOAT_NATIVE_ONLY.fetch_add(1, std::sync::atomic::Ordering::Relaxed);
        return match exec_float_real(base, args, &want)? {
            Verdict::Match(_) => Some(Verdict::Match(format!("ok native reference answer reproduced ({} values)", vals.len()))),
            Verdict::Mismatch { observed, detail } => {
                // name the first differing value
                let at = observed.split([':', ',', ';']).zip(want.split([':', ',', ';'])).position(|(x, y)| x != y);
                Some(Verdict::Mismatch { observed: truncate(&observed, 600), detail: format!("{detail}; native reference (validated against the rational model on the ordinary cases of this run): field {:?} of `{}`", at, truncate(&want, 600)) })
            }
            v => Some(v),
        };
    }
    if class_of(expected) == "ok" && ["frexp", "ldexp", "roundtrip"].contains(&op) {
        if let Some((shape, bits)) = parse_bits_arr(args.get(1)?) {
            let vals: Vec<f64> = bits.iter().map(|b| f64::from_bits(*b)).collect();
            let exps: Option<Vec<i64>> = if op == "ldexp" { Some(parse_arr_raw(args.get(2)?).1) } else { None };
            if let Some(native) = native_float(op, args[0], &shape, &vals, exps.as_deref()) {
                if native != expected { return Some(Verdict::Mismatch { observed: format!("ORACLE-DIVERGENCE native float reference `{}`", truncate(&native, 400)), detail: format!("the harness-native reference disagrees with the rational model, which says `{}`", truncate(expected, 400)) }); }
                FLOAT_VALIDATIONS.fetch_add(1, std::sync::atomic::Ordering::Relaxed);
            }
        }
    }
    exec_float_real(op, args, expected)
}

fn exec_float_real(op: &str, args: &[&str], expected: &str) -> Option<Verdict> {
    let ty = args[0];
    let (shape, bits) = parse_bits_arr(args[1])?;
    let vals: Vec<f64> = bits.iter().map(|b| f64::from_bits(*b)).collect();
    fn widen<N: Numeric>(a: &Array<N>) -> Vec<f64> { a.get_elements().unwrap().iter().map(|x| x.to_f64()).collect() }
    fn float_on<N: Floating, R: ArrayFloating<N>>(r: &R, op: &str, exps: &Option<Array<i32>>) -> String {
        match op {
            "frexp" => show_res(&r.frexp(), |(m, e)| format!("{};{}", show_bits_arr(&m.get_shape().unwrap(), &widen(m)), show_arr(e))),
            "ldexp" => show_res(&r.ldexp(exps.as_ref().unwrap()), |r| show_bits_arr(&r.get_shape().unwrap(), &widen(r))),
            "roundtrip" => match r.frexp() {
                // the mantissa array goes back in on the same kind of receiver
                Ok((m, e)) => show_res(&m.ldexp(&e), |r| show_bits_arr(&r.get_shape().unwrap(), &widen(r))),
                Err(e) => format!("err {}", err_name(&e)),
            },
            _ => "bad-op".to_string(),
        }
    }
    /// plain receiver, then the same call on `Ok(array)` (must give the same text) and on `Err(_)` (must be an error)
    fn run<N: Floating>(op: &str, shape: &[usize], vals: &[f64], exps: Option<Array<i32>>) -> String {
        let a: Array<N> = Array::new(vals.iter().map(|x| N::from(*x)).collect(), shape.to_vec()).expect("harness: float array");
        let plain = float_on(&a, op, &exps);
        if plain == "bad-op" { return plain; }
        let chained = guarded(|| { let r = ok_of(&a); let t = float_on(&r, op, &exps);
            if op == "roundtrip" { if let Ok((m, e)) = r.frexp() { return show_res(&Ok(m).ldexp(&e), |r| show_bits_arr(&r.get_shape().unwrap(), &widen(r))); } }
            t });
        if chained != plain { return format!("RECEIVER-DIVERGENCE the call on `Ok(array)` gives `{}`, the plain call `{}`", truncate(&chained, 400), truncate(&plain, 400)); }
        let on_err = guarded(|| float_on(&err_of(&a), op, &exps));
        if class_of(&on_err) != "err" { return format!("RECEIVER-DIVERGENCE the call on an `Err(_)` receiver gives `{}`", truncate(&on_err, 300)); }
        // A-B-A: the plain call again, after the calls on the other receivers
        let again = float_on(&a, op, &exps);
        if again != plain { return format!("STATE-DIVERGENCE the plain call again gives `{}`, first `{}`", truncate(&again, 400), truncate(&plain, 400)); }
        plain
    }
    let exps = if op == "ldexp" {
        let (es, ev) = parse_arr_raw(args[2]);
        Some(Array::new(ev.into_iter().map(|x| x as i32).collect::<Vec<i32>>(), es).ok()?)
    } else { None };
    let (op2, shape2, vals2) = (op.to_string(), shape.clone(), vals.clone());
    let observed = match ty {
        "f64" => guarded(move || run::<f64>(&op2, &shape2, &vals2, exps)),
        "f32" => guarded(move || run::<f32>(&op2, &shape2, &vals2, exps)),
        _ => return None,
    };
    if observed == "bad-op" { return None; }
    // the property itself, independent of the model: the recombined value IS the original value
    if op == "roundtrip" {
        if let Some(body) = observed.strip_prefix("ok ") {
            if let Some((osh, obits)) = parse_bits_arr(body) {
                let same = osh == shape && obits.len() == vals.len() && obits.iter().zip(&vals).all(|(o, v)| { let o = f64::from_bits(*o); o == *v || (o.is_nan() && v.is_nan()) });
                if !same { return Some(Verdict::Mismatch { observed, detail: "ldexp(frexp(x)) differs from x (shape or value)".to_string() }); }
            }
        }
    }
    Some(compare_default(observed, expected))
}

// ------------------------------------------------------------------ exec

/// an iterator whose size hint is legal but not exact: lower bound `lo`, upper bound `hi`
struct Hinted<I> { inner: I, lo: usize, hi: Option<usize> }
impl<I: Iterator> Iterator for Hinted<I> {
    type Item = I::Item;
    fn next(&mut self) -> Option<I::Item> { self.inner.next() }
    fn size_hint(&self) -> (usize, Option<usize>) { (self.lo, self.hi) }
}

fn exec_inner(op: &str, args: &[&str], expected: &str) -> Option<Verdict> {
    match op {
        "map" | "map_e" | "filter" | "filter_e" | "filter_map" | "filter_map_e" | "fold" | "for_each" | "for_each_e" => judge_closure(op, args, None, expected),
        "into_iter" | "into_iter_ref" => judge_closure(op, args, None, expected),
        // re <inner op> <self|other> <op> ARR CLO [INIT]: the closure of <op> itself runs <inner op> on the receiver / on another array
        "re" => {
            let iname = *args.first()?;
            let inner = CL_OPS.iter().position(|o| *o == iname)?;
            let on_self = match *args.get(1)? { "self" => true, "other" => false, _ => return None };
            let op2 = *args.get(2)?;
            if !CL_OPS.contains(&op2) { return None; }
            judge_closure(op2, &args[3..], Some(Reent { inner, on_self }), expected)
        }
        // hclo <op> ARR CLO [INIT]: huge shapes, native reference transcript
        "hclo" => { let op2 = *args.first()?; if !CL_OPS.contains(&op2) && !op2.starts_with("into_iter") { return None; } judge_closure_native(op2, &args[1..], expected) }
        "collect" => { let l = parse_i64_list(args[0]); Some(compare_default(guarded(|| { let a: Array<i64> = l.into_iter().collect(); format!("ok {}", show_arr(&a)) }), expected)) }
        // collect_h LIST MODE: FromIterator from iterators whose size hint is NOT exact
        "collect_h" => {
            let l = parse_i64_list(args[0]); let mode: usize = args.get(1)?.parse().ok()?; let n = l.len();
            const SENT: i64 = i64::MIN;
            Some(compare_default(guarded(move || {
                let a: Array<i64> = match mode {
                    0 => l.iter().flat_map(|&x| [SENT, x]).filter(|&x| x != SENT).collect(),           // (0, Some(2n))
                    1 => Hinted { inner: l.into_iter(), lo: 0, hi: None }.collect(),                     // (0, None)
                    2 => Hinted { inner: l.into_iter(), lo: n / 2, hi: Some(2 * n + 3) }.collect(),      // loose on both sides
                    3 => l.into_iter().take_while(|_| true).collect(),                                    // (0, Some(n))
                    4 => { let src: Array<i64> = Array::flat(l).unwrap(); (&src).into_iter().copied().skip_while(|_| false).collect() }   // by-reference iteration of an Array
                    5 => { let src: Array<i64> = Array::flat(l).unwrap(); src.into_iter().rev().collect::<Vec<_>>().into_iter().rev().chain(std::iter::empty()).collect() } // by-value iteration
                    _ => return "bad-op".to_string(),
                };
                if !consistent(&a) { return "ok INCONSISTENT".to_string(); }
                format!("ok {}", show_arr(&a))
            }), expected))
        }
        // clone_from A B: `b.clone_from(&a)` must make `b` the array `a` (shape and elements), whatever `b` held before
        "clone_from" => {
            let (a, mut b) = (parse_arr_i64(args[0]), parse_arr_i64(args[1]));
            let (af, mut bf) = (parse_arr_f64z(args[0]), parse_arr_f64z(args[1]));
            Some(compare_default(guarded(move || {
                b.clone_from(&a); bf.clone_from(&af);
                if !consistent(&b) || !consistent(&bf) { return "ok INCONSISTENT".to_string(); }
                let same_f = bf.get_shape().unwrap() == af.get_shape().unwrap() && bf.get_elements().unwrap().iter().zip(af.get_elements().unwrap()).all(|(x, y)| x.to_bits() == y.to_bits());
                if !same_f { return format!("TYPE-DIVERGENCE f64 clone_from gives {:?}", bf); }
                let via_iter: Vec<i64> = (&b).into_iter().copied().collect();
                if via_iter != a.get_elements().unwrap() { return "ok iteration of the clone differs".to_string(); }
                format!("ok {}", show_arr(&b))
            }), expected))
        }
        "zip" => {
            let (a, b) = (parse_arr_i64(args[0]), parse_arr_i64(args[1]));
            let n = a.len().unwrap();
            open_if_empty(Some(compare_default(guarded(|| show_res(&a.zip(&b), |z| format!("{}:{}", show_list(&z.get_shape().unwrap()),
                show_list(&z.get_elements().unwrap().iter().map(|t| format!("{}/{}", t.0, t.1)).collect::<Vec<_>>())))), expected)), n)
        }
        "unary" => exec_unary(args, expected),
        "folds" => judge_fold_seeded(args, expected),
        "giant" => judge_giant(args, expected),
        "frexpn" => exec_float(op, args, expected),
        "ldexpn" | "roundtripn" => { let n = parse_bits_arr(args.get(1)?)?.1.len(); open_if_empty(exec_float(op, args, expected), n) }
        "frexp" => exec_float(op, args, expected),
        // ldexp pairs the mantissas with the exponents through `zip`, i.e. through the broadcasting layer, which refuses zero-length
        // axes by design: the same open region as `zip` / rint / round / log on arrays without elements (C03's question)
        "ldexp" | "roundtrip" => { let n = parse_bits_arr(args.get(1)?)?.1.len(); open_if_empty(exec_float(op, args, expected), n) }
        // last line of the stream: how often the native reference transcript was validated against the model in this run
        "audit" => {
            let (v, h) = (ORACLE_VALIDATIONS.load(std::sync::atomic::Ordering::Relaxed), NATIVE_ONLY.load(std::sync::atomic::Ordering::Relaxed));
            let ld = |c: &std::sync::atomic::AtomicUsize| c.load(std::sync::atomic::Ordering::Relaxed);
            let (gs, go, fv, fo) = (ld(&GIANT_SHADOW), ld(&GIANT_ONLY), ld(&FLOAT_VALIDATIONS), ld(&FLOAT_NATIVE_ONLY));
            let text = format!("ok audit: native closure transcript validated against the model on {v} cases of this run; {h} huge cases judged by it alone; in-place closure judge run in shadow on {gs} model-confirmed cases, {go} giant cases judged by it / by the kernel table alone; native frexp/ldexp reference validated against the rational model on {fv} cases, {fo} dense-sweep cases judged by it alone");
            if expected != "ok audit" { return Some(compare_default(text, expected)); }
            if (go > 0 && gs < 1000) || (fo > 0 && fv < 300) { return Some(Verdict::Mismatch { observed: text, detail: "a native reference (in-place closure judge / float reference) was used without having been validated against the model on enough smaller cases".into() }); }
            if h > 0 && v < 1000 { Some(Verdict::Mismatch { observed: text, detail: "the native reference was used without having been validated against the model on at least 1000 smaller cases".into() }) } else { Some(Verdict::Match(text)) }
        }
        _ => None,
    }
}

fn verdict_key(v: &Option<Verdict>) -> String {
    match v { None => "harness-error".into(), Some(Verdict::Match(o)) => format!("match {o}"), Some(Verdict::Open(o)) => format!("open {o}"), Some(Verdict::Mismatch { observed, .. }) => format!("mismatch {observed}") }
}

thread_local! {
    /// A-B-A across case lines: the previous case (op, args, model answer) and the verdict it got
    static PREV: std::cell::RefCell<Option<(String, Vec<String>, String, String)>> = const { std::cell::RefCell::new(None) };
    static LINE_NO: std::cell::Cell<usize> = const { std::cell::Cell::new(0) };
}

/// every case is judged on its own (`exec_inner`); for a third of the lines the PREVIOUS case is then executed again, on the same
/// thread, and must get the verdict it got before this (different) case ran: A - B - A
fn exec(op: &str, args: &[&str], expected: &str) -> Option<Verdict> {
    let v = exec_inner(op, args, expected);
    if let Some(Verdict::Mismatch { .. }) | None = v { PREV.with(|p| *p.borrow_mut() = None); return v; }
    let no = LINE_NO.with(|c| { c.set(c.get() + 1); c.get() });
    let prev = PREV.with(|p| p.borrow_mut().take());
    // cases that may not return (frexp of an infinity) and the bookkeeping line are never re-run; long cases neither
    let cheap = !matches!(op, "frexp" | "roundtrip" | "audit" | "hclo" | "giant" | "frexpn" | "roundtripn" | "ldexpn") && args.iter().map(|a| a.len()).sum::<usize>() + expected.len() < 20_000;
    if cheap && no % 3 != 0 { PREV.with(|p| *p.borrow_mut() = Some((op.to_string(), args.iter().map(|a| a.to_string()).collect(), expected.to_string(), verdict_key(&v)))); }
    if let Some((pop, pargs, pexp, pkey)) = prev {
        if no % 3 == 0 {
            let pa: Vec<&str> = pargs.iter().map(String::as_str).collect();
            let again = verdict_key(&exec_inner(&pop, &pa, &pexp));
            if again != pkey {
                return Some(Verdict::Mismatch { observed: format!("STATE-DIVERGENCE re-run of the previous case: {}", truncate(&again, 600)),
                    detail: format!("A-B-A: the previous case `{} {}` was executed again after this case on the same thread and no longer gets its first verdict `{}` (this case itself: {})", pop, truncate(&pargs.join(" "), 300), truncate(&pkey, 600), truncate(&verdict_key(&v), 200)) });
            }
        }
    }
    v
}

// ------------------------------------------------------------------ gen

fn bits_of(x: f64) -> u64 { x.to_bits() }

/// finite non-zero doubles: subnormals, powers of two and their neighbours, extremes, integers, random patterns
fn float_pool(rng: &mut Rng, thorough: bool) -> Vec<u64> {
    let mut v: Vec<u64> = vec![];
    let step = if thorough { 1 } else { 37 };
    let mut k: i32 = -1074;
    while k <= 1023 {
        // 2^k, its two neighbours, and the negatives
        let p: u64 = if k >= -1022 { ((k + 1023) as u64) << 52 } else { 1u64 << (k + 1074) };
        for b in [p, p + 1, p.wrapping_sub(1)] { if b != 0 && (b >> 52) < 2047 { v.push(b); v.push(b | (1 << 63)); } }
        k += step;
    }
    for x in [f64::MAX, f64::MIN_POSITIVE, 5e-324, 2.225073858507201e-308, 1.0, 0.5, 0.75, 3.0, 0.1, 1e300, 1e-300, 123456789.0, 0.9999999999999999, 1.0000000000000002] {
        v.push(bits_of(x)); v.push(bits_of(-x));
    }
    let n_rand = if thorough { 4000 } else { 400 };
    for _ in 0..n_rand {
        let ex = rng.below(2047) as u64;            // 0 (subnormal) ..= 2046
        let fr = rng.next() & ((1u64 << 52) - 1);
        let fr = match rng.below(4) { 0 => fr, 1 => fr & 0xff, 2 => fr & !0xffff_ffff, _ => fr | 1 };
        let b = ((rng.below(2) as u64) << 63) | (ex << 52) | fr;
        if b & !(1u64 << 63) != 0 { v.push(b); }
    }
    v
}

fn gen(tier: &str, seed: u64, out: &mut dyn FnMut(String)) {
    let thorough = tier == "thorough";
    let mut rng = Rng::new(seed);          // the random streams
    let mut det = Rng::new(0xC05);         // fixed filler for the enumerated part (does not depend on the seed)
    // ---- corpus of past failures (pinned tree): see the end of the stream for the frexp(±inf) cases (they hang; kept last so
    //      that the leaked spinning workers live as briefly as possible)
    out("unary rint f64 2,3 dom 0".to_string());
    out("unary log f64 2,3 dom 0".to_string());
    out("unary round2 f64 3,2 dom 1".to_string());

    // ---- (a) closures: exhaustive over shapes rank<=4 len<=3 (+ zero-length), several closures
    let mut shapes_all = shapes(1, 4, 1, 3);
    shapes_all.extend(vec![vec![0], vec![0, 2], vec![2, 0], vec![1, 0, 3]]);
    let mut clos: Vec<String> = vec!["3,5,1,7,3".into(), "1,0,0,2,1".into(), "7,11,2,5,2".into()];
    if thorough { clos.extend(["0,1,0,3,1".to_string(), "2,3,1,4,4".into(), "5,1,3,4,0".into(), "13,7,5,11,6".into(), "1,1,1,2,1".into()]); }
    let cl_ops = ["map", "map_e", "filter", "filter_e", "filter_map", "filter_map_e", "fold", "for_each", "for_each_e"];
    for s in &shapes_all {
        let n: usize = s.iter().product();
        let mut arrs = vec![tag(s), tag_off(s, 17)];
        // repeated and negative values: multiplicity must be kept
        let reps: Vec<i64> = (0..n).map(|_| det.range(-3, 3)).collect();
        arrs.push(format!("{}:{}", show_list(s), show_list(&reps)));
        let same: Vec<i64> = vec![5; n];
        arrs.push(format!("{}:{}", show_list(s), show_list(&same)));
        for a in &arrs {
            for c in &clos {
                for op in cl_ops {
                    if (op == "for_each" || op == "for_each_e") && c != &clos[0] { continue; }
                    if op == "fold" { out(format!("fold {a} {c} {}", det.range(0, 50))); } else { out(format!("{op} {a} {c}")); }
                }
            }
            out(format!("into_iter {a}"));
            out(format!("into_iter_ref {a}"));
        }
        out(format!("zip {} {}", arrs[0], tag_off(s, 1000)));
        out(format!("zip {} {}", arrs[2], arrs[1]));
        out(format!("collect {}", show_list(&reps)));
    }
    // ---- beyond the scope: rank 5, longer axes
    let n_rand = if thorough { 150 } else { 25 };
    for _ in 0..n_rand {
        let mut s = rng.shape(1, 5, 6);
        while s.iter().product::<usize>() > 1500 { s.pop(); }
        let c = format!("{},{},{},{},{}", rng.range(0, 20), rng.range(0, 20), rng.range(0, 9), rng.range(1, 12), rng.range(0, 12));
        let a = if rng.below(2) == 0 { tag_off(&s, rng.range(0, 100)) } else {
            let n: usize = s.iter().product(); format!("{}:{}", show_list(&s), show_list(&(0..n).map(|_| rng.range(-9, 9)).collect::<Vec<_>>())) };
        for op in cl_ops { if op == "fold" { out(format!("fold {a} {c} {}", rng.range(0, 50))); } else { out(format!("{op} {a} {c}")); } }
        out(format!("into_iter {a}"));
    }

    // ---- (b) unary math ops x types x shapes x value classes
    let ushapes: Vec<Vec<usize>> = if thorough { let mut v = shapes(1, 4, 1, 3); v.extend(vec![vec![0], vec![2, 0], vec![5, 7], vec![2, 2, 2, 2, 2]]); v }
        else { let mut v = shapes(1, 4, 1, 2); v.extend(vec![vec![3], vec![2, 3], vec![3, 2], vec![3, 1, 2], vec![2, 3, 2], vec![3, 3, 3], vec![2, 1, 3, 2], vec![3, 2, 1, 3], vec![0], vec![5, 7]]); v };
    let classes = ["dom", "edge", "spec", "mix"];
    for (si, s) in ushapes.iter().enumerate() {
        for (oi, op) in OPS_ALL.iter().chain(OPS_FLOAT.iter()).enumerate() {
            for ty in ["f64", "f32", "i32"] {
                if ty == "i32" && OPS_FLOAT.contains(op) { continue; }
                if thorough {
                    for cls in classes { if ty == "i32" && cls != "dom" { continue; } out(format!("unary {op} {ty} {} {cls} {}", show_list(s), det.below(50))); }
                } else {
                    // quick: every op x type x shape once, the value class rotating so that each op meets each class on many shapes
                    let cls = if ty == "i32" { "dom" } else { classes[(si + oi) % 4] };
                    out(format!("unary {op} {ty} {} {cls} {}", show_list(s), (si * 7 + oi) % 50));
                }
            }
        }
    }

    // ---- (c) frexp / ldexp on bit patterns
    let pool = float_pool(&mut rng, thorough);
    let fshapes: Vec<Vec<usize>> = vec![vec![1], vec![4], vec![2, 3], vec![3, 1, 2], vec![2, 2, 1, 2], vec![7], vec![3, 3]];
    let mut i = 0usize; let mut si = 0usize;
    while i < pool.len() {
        let s = &fshapes[si % fshapes.len()]; si += 1;
        let n: usize = s.iter().product();
        let chunk: Vec<u64> = (0..n).map(|j| pool[(i + j) % pool.len()]).collect();
        i += n;
        let body = format!("{}:{}", show_list(s), show_list(&chunk));
        out(format!("frexp f64 {body}"));
        out(format!("roundtrip f64 {body}"));
    }
    // zero (both signs), NaN: terminate on the pinned tree as well
    let zeros = format!("2,2:{},{},{},{}", bits_of(0.0), bits_of(-0.0), bits_of(1.5), bits_of(f64::NAN));
    out(format!("frexp f64 {zeros}")); out(format!("roundtrip f64 {zeros}"));
    out(format!("frexp f64 1:{}", bits_of(f64::NAN))); out(format!("roundtrip f64 1:{}", bits_of(f64::NAN)));
    out("frexp f64 0:-".to_string());
    // f32: values that are exactly representable in f32 (incl. f32 subnormals)
    let n32 = if thorough { 600 } else { 80 };
    let mut f32vals: Vec<f32> = vec![1.0, -1.0, 0.75, f32::MAX, f32::MIN_POSITIVE, 1e-45, -1e-45, 3.0e-39, 0.1, 16777216.0];
    for _ in 0..n32 { let b = (rng.next() as u32) & 0xffff_ffff; let x = f32::from_bits(b); if x.is_finite() && x != 0.0 { f32vals.push(x); } }
    for ch in f32vals.chunks(4) {
        let body = format!("{}:{}", ch.len(), show_list(&ch.iter().map(|x| bits_of(*x as f64)).collect::<Vec<_>>()));
        out(format!("frexp f32 {body}")); out(format!("roundtrip f32 {body}"));
    }
    // ldexp alone, exact cases: 53-bit mantissa, moderate exponents, result stays normal
    let n_ld = if thorough { 1500 } else { 200 };
    for _ in 0..n_ld {
        let s = &fshapes[rng.below(fshapes.len())];
        let n: usize = s.iter().product();
        let xs: Vec<u64> = (0..n).map(|_| { let ex = (1023 + rng.range(-300, 300)) as u64; ((rng.below(2) as u64) << 63) | (ex << 52) | (rng.next() & ((1u64 << 52) - 1)) }).collect();
        let es: Vec<i64> = (0..n).map(|_| match rng.below(5) { 0 => 0, 1 => rng.range(-3, 3), _ => rng.range(-300, 300) }).collect();
        out(format!("ldexp f64 {}:{} {}:{}", show_list(s), show_list(&xs), show_list(s), show_list(&es)));
    }
    out(format!("ldexp f64 4:{},{},{},{} 4:5,-5,7,0", bits_of(0.0), bits_of(f64::INFINITY), bits_of(f64::NAN), bits_of(f64::NEG_INFINITY)));
    for _ in 0..(n_ld / 10) {
        let xs: Vec<u64> = (0..3).map(|_| bits_of(f32::from_bits(((rng.below(2) as u32) << 31) | (((127 + rng.range(-20, 20)) as u32) << 23) | ((rng.next() as u32) & 0x7f_ffff)) as f64)).collect();
        let es: Vec<i64> = (0..3).map(|_| rng.range(-60, 60)).collect();
        out(format!("ldexp f32 3:{} 3:{}", show_list(&xs), show_list(&es)));
    }

    // ---- "malformed" stream: C05's operations have no refusing inputs of their own (closures cannot fail, zip with unequal
    //      shapes belongs to C03); the degenerate inputs are the empty / zero-length arrays, enumerated above.

    // ================= robustness streams (FRAMEWORK.md)
    let mut rx = Rng::new(seed ^ 0xC05_0002);
    let bigs = big_shapes();
    let zeros = zero_shapes();
    // ---- (a') closures beyond the small scope: every big shape (axis lengths 7..17, > 256 / 1024 / 4096 elements) and every
    //      zero-length shape x every closure op; the closures' answers depend on the passed index (1000*i), on the number of earlier
    //      calls (a*k) and on the element; every case also runs on the f64(-0.0) / u8 / String images (exec_closure)
    let big_clos: [&str; 3] = ["3,5,1,7,3", "7,11,2,5,2", "1,0,0,2,1"];
    for (si, s) in bigs.iter().chain(zeros.iter()).enumerate() {
        let n: usize = s.iter().product();
        // element patterns: tags, tags shifted, small repeated values (u8-representable: 0..=250 only when the tags are)
        let reps: Vec<i64> = (0..n).map(|_| det.range(0, 9)).collect();
        let arrs = [tag(s), tag_off(s, 17), format!("{}:{}", show_list(s), show_list(&reps))];
        let n_clo = if thorough { 3 } else if n > 1100 { 1 } else { 2 };
        for (ai, a) in arrs.iter().enumerate() {
            if !thorough && n > 1100 && ai != si % 3 { continue; }
            for c in &big_clos[(si % 3)..].iter().chain(big_clos[..(si % 3)].iter()).take(n_clo).collect::<Vec<_>>() {
                for op in cl_ops { if op == "fold" { out(format!("fold {a} {c} {}", det.range(0, 50))); } else { out(format!("{op} {a} {c}")); } }
            }
            out(format!("into_iter {a}"));
            out(format!("into_iter_ref {a}"));
        }
        out(format!("zip {} {}", arrs[0], tag_off(s, 1000)));
        out(format!("zip {} {}", arrs[2], arrs[1]));
        out(format!("collect {}", show_list(&reps)));
    }
    // random closures on random long shapes (index- and history-dependent by construction of Clo.val)
    for _ in 0..(if thorough { 60 } else { 12 }) {
        let s: Vec<usize> = match rx.below(3) { 0 => vec![257 + rx.below(900)], 1 => vec![7 + rx.below(11), 7 + rx.below(11), 1 + rx.below(4)], _ => vec![2 + rx.below(3), 1, 40 + rx.below(60), 2 + rx.below(3)] };
        let c = format!("{},{},{},{},{}", rx.range(1, 20), rx.range(0, 20), rx.range(0, 9), rx.range(2, 12), rx.range(1, 11));
        let a = tag_off(&s, rx.range(0, 100));
        for op in ["map_e", "filter_e", "filter_map_e", "for_each_e", "map", "filter", "fold"] { if op == "fold" { out(format!("fold {a} {c} {}", rx.range(0, 50))); } else { out(format!("{op} {a} {c}")); } }
    }

    // ---- (b') one-operand ops: every op on every element type it is defined for (i8 i16 i32 i64 u8 u16 u32 u64 f32 f64), value
    //      classes dom / lim (limits of the type, beyond 2^53 / 2^63, subnormals, -0.0) (+ edge / spec / mix for the floats); every
    //      `unary` case — also those of the original stream — runs on the plain, the Ok(_) and the Err(_) receiver
    let all_ops: Vec<&str> = OPS_ALL.iter().chain(OPS_FLOAT.iter()).chain(OPS_MORE.iter()).copied().collect();
    let rshapes: Vec<Vec<usize>> = if thorough { let mut v = shapes(1, 3, 1, 3); v.extend(vec![vec![2, 1, 3, 2], vec![5, 7], vec![0]]); v }
        else { vec![vec![1], vec![3], vec![7], vec![2, 3], vec![3, 1], vec![1, 2, 2], vec![3, 2, 3], vec![2, 1, 3, 2], vec![5, 9], vec![0]] };
    for (si, s) in rshapes.iter().enumerate() {
        for (oi, op) in all_ops.iter().enumerate() {
            for (ti, ty) in ALL_TYPES.iter().enumerate() {
                if !op_defined(op, ty) { continue; }
                let float = *ty == "f64" || *ty == "f32";
                let original = OPS_ALL.contains(op) || OPS_FLOAT.contains(op);
                let mut classes: Vec<&str> = vec!["lim"];
                // (dom for the original ops on f64 / f32 / i32 is the original stream)
                if !(original && ti < 3) { classes.push("dom"); }
                if float && !original { classes.extend(["edge", "spec", "mix"]); }
                for (ci, cls) in classes.iter().enumerate() {
                    if !thorough && classes.len() > 2 && (si + oi + ci) % 2 == 1 { continue; }
                    out(format!("unary {op} {ty} {} {cls} {}", show_list(s), (si * 7 + oi * 3 + ti + ci) % 60));
                }
            }
        }
    }
    //      sizes and zero-length axes: big_shapes() / zero_shapes() x every op; quick: two element types in rotation, thorough: all
    //      (for > 1100 elements: three in rotation)
    for (si, s) in bigs.iter().chain(zeros.iter()).enumerate() {
        let n: usize = s.iter().product();
        for (oi, op) in all_ops.iter().enumerate() {
            let tys: Vec<&str> = ALL_TYPES.iter().filter(|ty| op_defined(op, ty)).copied().collect();
            for (ti, ty) in tys.iter().enumerate() {
                let pick = if thorough { n <= 1100 || (si + oi) % tys.len() == ti || (si + oi + 1) % tys.len() == ti || (si + oi + 4) % tys.len() == ti }
                    else { (si + oi) % tys.len() == ti || (si + 2 * oi + 3) % tys.len() == ti };
                if !pick { continue; }
                let float = *ty == "f64" || *ty == "f32";
                let cls = if float { ["dom", "lim", "edge", "mix", "spec"][(si + oi + ti) % 5] } else { ["dom", "lim"][(si + oi + ti) % 2] };
                out(format!("unary {op} {ty} {} {cls} {}", show_list(s), (si + oi * 5 + ti) % 60));
            }
        }
    }

    // ---- (c') frexp / ldexp / recombination on long and zero-length arrays (every case runs on the three receivers)
    let long_shapes: Vec<Vec<usize>> = if thorough { vec![vec![300], vec![17, 16], vec![1030], vec![9, 9], vec![2, 3, 4, 5, 2], vec![16, 17], vec![4, 4, 4, 4], vec![8, 3], vec![40, 30], vec![4100]] }
        else { vec![vec![300], vec![17, 16], vec![1030], vec![9, 9], vec![2, 3, 4, 5, 2]] };
    let mut pi = 0usize;
    for s in &long_shapes {
        let n: usize = s.iter().product();
        let chunk: Vec<u64> = (0..n).map(|j| pool[(pi + j * 7) % pool.len()]).collect();
        pi += n;
        let body = format!("{}:{}", show_list(s), show_list(&chunk));
        out(format!("frexp f64 {body}"));
        out(format!("roundtrip f64 {body}"));
        let xs: Vec<u64> = (0..n).map(|_| { let ex = (1023 + rx.range(-300, 300)) as u64; ((rx.below(2) as u64) << 63) | (ex << 52) | (rx.next() & ((1u64 << 52) - 1)) }).collect();
        let es: Vec<i64> = (0..n).map(|_| match rx.below(5) { 0 => 0, 1 => rx.range(-3, 3), _ => rx.range(-300, 300) }).collect();
        out(format!("ldexp f64 {}:{} {}:{}", show_list(s), show_list(&xs), show_list(s), show_list(&es)));
        // f32: exactly representable values
        let f32s: Vec<u64> = (0..n).map(|_| bits_of(f32::from_bits(((rx.below(2) as u32) << 31) | (((127 + rx.range(-100, 100)) as u32) << 23) | ((rx.next() as u32) & 0x7f_ffff)) as f64)).collect();
        let body32 = format!("{}:{}", show_list(s), show_list(&f32s));
        out(format!("frexp f32 {body32}")); out(format!("roundtrip f32 {body32}"));
    }
    // every binary64 subnormal exponent and the top binade, in long lanes (the normalisation loops run longest there)
    {
        let sub: Vec<u64> = (0..52).flat_map(|k| [1u64 << k, (1u64 << k) | 1, (1u64 << 63) | (1u64 << k), (1u64 << (k + 1)) - 1]).collect();
        let top: Vec<u64> = (0..64).map(|k| (2046u64 << 52) | (rx.next() & ((1u64 << 52) - 1)) | ((k as u64 % 2) << 63)).collect();
        for (name, v) in [("sub", sub), ("top", top)] {
            let _ = name;
            let body = format!("{}:{}", v.len(), show_list(&v));
            out(format!("frexp f64 {body}")); out(format!("roundtrip f64 {body}"));
        }
    }
    for z in &zeros {
        out(format!("frexp f64 {}:-", show_list(z)));
        out(format!("roundtrip f64 {}:-", show_list(z)));
        out(format!("frexp f32 {}:-", show_list(z)));
        out(format!("ldexp f64 {}:- {}:-", show_list(z), show_list(z)));
    }

    // ================= robustness streams, part 2 (FRAMEWORK.md: hidden state, huge sizes, exact lengths, re-entrancy, long lists)
    let fold_or = |op: &str, a: &str, c: &str, init: i64| if op == "fold" { format!("fold {a} {c} {init}") } else { format!("{op} {a} {c}") };
    // ---- (9) RE-ENTRANT closures: every closure op as the OUTER operation x every closure op as the INNER operation that the
    //      closure itself runs, on another array and on the receiver itself
    let re_shapes: Vec<Vec<usize>> = if thorough { vec![vec![1], vec![4], vec![2, 3], vec![2, 2, 3], vec![3, 1, 2], vec![12], vec![17], vec![0], vec![2, 0], vec![64], vec![9, 9], vec![2, 3, 4, 5, 2], vec![300]] }
        else { vec![vec![1], vec![4], vec![2, 3], vec![2, 2, 3], vec![12], vec![17], vec![0], vec![9, 9]] };
    for (si, s) in re_shapes.iter().enumerate() {
        let n: usize = s.iter().product();
        let reps: Vec<i64> = (0..n).map(|_| det.range(0, 9)).collect();
        let arrs = [tag(s), format!("{}:{}", show_list(s), show_list(&reps))];
        for (oi, outer) in cl_ops.iter().enumerate() { for (ii, inner) in cl_ops.iter().enumerate() {
            for target in ["other", "self"] {
                if target == "self" && n > 100 && !thorough { continue; }
                let a = &arrs[(si + oi + ii) % 2];
                let c = big_clos[(si + oi + ii) % 3];
                out(format!("re {inner} {target} {}", fold_or(outer, a, c, det.range(0, 50))));
            }
        } }
    }
    // ---- (9) FromIterator from iterators with an inexact size hint; clone_from over an array of another shape / size
    for n in [0usize, 1, 2, 5, 17, 64, 300, 1030] { for mode in 0..6 {
        let l: Vec<i64> = (0..n).map(|_| det.range(-9, 99)).collect();
        out(format!("collect_h {} {mode}", show_list(&l)));
    } }
    let cf: Vec<(Vec<usize>, Vec<usize>)> = vec![(vec![2, 3], vec![3, 2]), (vec![4], vec![2, 2]), (vec![0], vec![2, 3]), (vec![2, 3], vec![0]), (vec![17, 16], vec![1]), (vec![1], vec![17, 16]),
        (vec![2, 0], vec![0, 2]), (vec![2, 3], vec![2, 3]), (vec![3, 1, 2], vec![6]), (vec![1030], vec![4100]), (vec![4100], vec![2, 2, 2]), (vec![2, 2, 2, 2, 2], vec![1, 1])];
    for (a, b) in &cf { out(format!("clone_from {} {}", tag_off(a, 1), tag_off(b, 500))); }
    // ---- (6) hidden state: `near` value class (flat-adjacent values one ulp / 1e-13 / 1e-15 apart, each followed by the base value)
    //      for EVERY one-operand op on every element type; every unary case with <= 600 elements also runs A-B-A (run_unary)
    for (si, s) in rshapes.iter().enumerate() { for (oi, op) in all_ops.iter().enumerate() { for (ti, ty) in ALL_TYPES.iter().enumerate() {
        if !op_defined(op, ty) { continue; }
        let float = *ty == "f64" || *ty == "f32";
        if !thorough && !float && (si + oi + ti) % 3 != 0 { continue; }
        out(format!("unary {op} {ty} {} near {}", show_list(s), (si * 5 + oi * 3 + ti) % 64));
    } } }
    for (si, s) in bigs.iter().enumerate() { for (oi, op) in all_ops.iter().enumerate() {
        let ty = if (si + oi) % 2 == 0 { "f64" } else { "f32" };
        if !op_defined(op, ty) || (!thorough && (si + oi) % 4 != 0) { continue; }
        out(format!("unary {op} {ty} {} near {}", show_list(s), (si + oi * 3) % 64));
    } }
    // ---- (6) hidden state: shapes that collide under the weak polynomial hashes, back to back, A B A and B A B
    for (pi, (sa, sb)) in collision_shape_pairs().iter().enumerate() {
        if !thorough && pi % 3 != 0 { continue; }
        let op = cl_ops[pi % cl_ops.len()];
        let c = big_clos[pi % 3];
        let (a, b) = (tag_off(sa, 3), tag_off(sb, 3));
        let init = det.range(0, 50);
        let order: [&String; 3] = if pi % 2 == 0 { [&a, &b, &a] } else { [&b, &a, &b] };
        for x in order { out(fold_or(op, x, c, init)); }
        let uop = all_ops[pi % all_ops.len()];
        let ty = ALL_TYPES.iter().filter(|t| op_defined(uop, t)).nth(pi % 4).copied().unwrap_or("f64");
        for x in if pi % 2 == 0 { [sa, sb, sa] } else { [sb, sa, sb] } { out(format!("unary {uop} {ty} {} near {}", show_list(x), pi % 64)); }
    }
    // ---- (8) exact lengths: every axis length 1..300 in a non-leading position, enumerating variants (the passed flat position)
    for l in 1..=300usize {
        let s = if l % 2 == 0 { vec![2, l] } else { vec![3, l, 1] };
        let op = ["map_e", "filter_e", "filter_map_e", "for_each_e"][l % 4];
        if thorough || l % 2 == 1 || l > 250 || [32, 48, 50, 64, 100, 128, 200].contains(&l) { out(format!("{op} {} {}", tag_off(&s, 1), big_clos[l % 3])); }
    }
    // ---- (7) huge shapes (16 384 .. 140 000 elements, an axis above 65 536).  One-operand ops: the model's answer is linear.
    //      Closures: the list-backed model driver is quadratic (49 s for 90 000 elements), so `hclo` cases are judged by the
    //      harness-native reference transcript, which is validated against the model on EVERY other closure case of the run
    //      (`audit` line); two (thorough: all nine) ops go through the model itself at 16 385 / 16 900 elements.
    let huge = huge_shapes();
    for (si, s) in huge.iter().enumerate() {
        let per = if thorough { 12 } else { 4 };
        for q in 0..per {
            let op = all_ops[(si * per + q * 5 + 1) % all_ops.len()];
            let tys: Vec<&str> = ALL_TYPES.iter().filter(|t| op_defined(op, t)).copied().collect();
            let ty = tys[(si + q) % tys.len()];
            let cls = if ty.starts_with('f') { ["near", "dom", "lim", "mix", "edge"][(si + q) % 5] } else { ["near", "dom", "lim"][(si + q) % 3] };
            out(format!("unary {op} {ty} {} {cls} {}", show_list(s), (si + q) % 60));
        }
        let a = tag_off(s, 1);
        for (oi, op) in cl_ops.iter().enumerate() {
            // (all nine ops on the shapes above 65 536 elements, a third of them in rotation on the others)
            if !thorough && (si + oi) % 3 != 0 && s.iter().product::<usize>() <= 65536 { continue; }
            out(format!("hclo {}", fold_or(op, &a, big_clos[(si + oi) % 3], 7)));
        }
        if thorough || si % 4 == 0 { out(format!("hclo into_iter {a}")); out(format!("hclo into_iter_ref {a}")); }
    }
    for (oi, op) in cl_ops.iter().enumerate() {
        if !thorough && oi != 1 && oi != 3 { continue; }
        let hs: &[usize] = if oi % 2 == 0 { &[130, 130] } else { &[16385] };
        out(fold_or(op, &tag_off(hs, 1), big_clos[oi % 3], 11));
    }

    // ================= robustness streams, round 5 (classes 16, 17, 20 of the round-5 task; see the header of each block)
    // ---- (16) dense boundary sweeps: EVERY one-operand op (and round / around with 33 decimals arguments) x EVERY element type it is
    //      defined for, on the whole sweep pool of that type (f64 ~27 000 values, f32 ~13 000, i8 / u8 the whole type, the wider integers
    //      ~2 500), in one array per (op, type), the shape rotating between flat, [r, 251] and [3, r, 11]
    let round_ops: Vec<&str> = OPS_ROUND_X.to_vec();
    for (oi, op) in all_ops.iter().chain(round_ops.iter()).enumerate() {
        for (ti, ty) in ALL_TYPES.iter().enumerate() {
            if !op_defined(op, ty) { continue; }
            let float = *ty == "f64" || *ty == "f32";
            // quick: the extra decimals of round / around on the floats and on two integer types in rotation
            if !thorough && oi >= all_ops.len() && !float && (oi + ti) % 4 != 0 { continue; }
            let n = sweep_len(ty);
            let shape = match (oi + ti + seed as usize) % 3 { 0 => vec![n], 1 => vec![n.div_ceil(251), 251], _ => vec![3, n.div_ceil(33), 11] };
            out(format!("unary {op} {ty} {} sweep {}", show_list(&shape), (oi * 13 + ti) % 7));
        }
    }
    //      ... and round / around with the extra decimals on small shapes through the ordinary classes (A-B-A, three receivers)
    for (oi, op) in round_ops.iter().enumerate() { for (ti, ty) in ALL_TYPES.iter().enumerate() {
        if !thorough && (oi + ti) % 3 != 0 { continue; }
        let float = *ty == "f64" || *ty == "f32";
        let cls = if float { ["dom", "lim", "edge", "mix", "spec", "near"][(oi + ti) % 6] } else { ["dom", "lim", "near"][(oi + ti) % 3] };
        let s = &rshapes[(oi + ti) % rshapes.len()];
        out(format!("unary {op} {ty} {} {cls} {}", show_list(s), (oi * 3 + ti) % 60));
    } }
    //      frexp / ldexp / recombination on the dense pools, judged by the native field-based reference (validated against the
    //      rational model on every ordinary float case of the run): the finite values of the f64 and f32 sweep pools; ldexp with EVERY
    //      exponent that keeps the product exact: 1 x 2^e (e = -1074..=1023), 1.5 x 2^e, 2^1023 x 2^-e, 2^-1074 x 2^e (e up to 2097),
    //      and every pool value moved into the lowest normal binade, the top binade and by +-1
    {
        let fin64: Vec<u64> = sweep_f64().iter().filter(|x| x.is_finite()).map(|x| x.to_bits()).chain([f64::NAN.to_bits(), 0, 1u64 << 63]).collect();
        let fin32: Vec<u64> = sweep_f32().iter().filter(|x| x.is_finite()).map(|x| (*x as f64).to_bits()).collect();
        let lane_shapes: [&[usize]; 5] = [&[2000], &[40, 50], &[4, 5, 100], &[1999], &[2, 2, 500]];
        for (ty, pool) in [("f64", &fin64), ("f32", &fin32)] {
            for (ci, ch) in pool.chunks(2000).enumerate() {
                let s: Vec<usize> = if ch.len() == 2000 { lane_shapes[ci % 5].iter().product::<usize>().eq(&2000).then(|| lane_shapes[ci % 5].to_vec()).unwrap_or(vec![2000]) } else { vec![ch.len()] };
                let body = format!("{}:{}", show_list(&s), show_list(ch));
                out(format!("frexpn {ty} {body}"));
                out(format!("roundtripn {ty} {body}"));
            }
        }
        // ldexp: (bits of x, exponent) pairs, all exact
        let mut pairs: Vec<(u64, i64)> = vec![];
        for e in -1074..=1023i64 { pairs.push((1f64.to_bits(), e)); pairs.push(((-1f64).to_bits(), e)); }
        for e in -1073..=1023i64 { pairs.push((1.5f64.to_bits(), e)); }
        for e in 0..=2097i64 { pairs.push((pow2(1023).to_bits(), -e)); pairs.push((1u64, e)); pairs.push(((1u64 << 63) | 1, e)); }
        for e in -1022..=1023i64 { pairs.push((std::f64::consts::PI.to_bits(), e - 1)); }
        for (j, b) in fin64.iter().enumerate() {
            let x = f64::from_bits(*b);
            if x == 0.0 || x.is_nan() { pairs.push((*b, [0i64, 5, -5, 1024, -1100][j % 5])); continue; }
            let ex = native_frexp1(x).1 as i64;       // x in [2^(ex-1), 2^ex)
            if x.to_bits() & 0x7ff0_0000_0000_0000 == 0 { pairs.push((*b, [1024 - ex, 1, 0, 60][j % 4])); continue; }   // subnormal: only upwards
            pairs.push((*b, [-1021 - ex, 1024 - ex, 1, -1, 0][j % 5]));
        }
        pairs.retain(|(b, e)| (i32::MIN as i64..=i32::MAX as i64).contains(e) && { let x = f64::from_bits(*b); x.is_nan() || native_ldexp1(x, *e as i32).is_some() });
        for (ci, ch) in pairs.chunks(2000).enumerate() {
            let s: Vec<usize> = if ch.len() == 2000 { lane_shapes[(ci + 1) % 5].to_vec() } else { vec![ch.len()] };
            let s = if s.iter().product::<usize>() == ch.len() { s } else { vec![ch.len()] };
            out(format!("ldexpn f64 {}:{} {}:{}", show_list(&s), show_list(&ch.iter().map(|q| q.0).collect::<Vec<_>>()), show_list(&s), show_list(&ch.iter().map(|q| q.1).collect::<Vec<_>>())));
        }
        // f32-representable values with exponents that keep the product inside the f32 NORMAL range
        let mut p32: Vec<(u64, i64)> = vec![];
        for (j, b) in fin32.iter().enumerate() {
            let x = f64::from_bits(*b);
            if x == 0.0 { continue; }
            let ex = native_frexp1(x).1 as i64;
            if ex < -125 { p32.push((*b, [128 - ex, 1, 0][j % 3])); continue; }      // f32 subnormal: only upwards
            p32.push((*b, [-125 - ex, 128 - ex, 1, -1, 0][j % 5]));
        }
        p32.retain(|(b, e)| { let r = native_ldexp1(f64::from_bits(*b), *e as i32); matches!(r, Some(r) if (r as f32) as f64 == r) });
        for ch in p32.chunks(2000) {
            out(format!("ldexpn f32 {}:{} {}:{}", ch.len(), show_list(&ch.iter().map(|q| q.0).collect::<Vec<_>>()), ch.len(), show_list(&ch.iter().map(|q| q.1).collect::<Vec<_>>())));
        }
    }
    // ---- (17) closure SEEDS: `fold` with accumulator types f64 / f32 / i64 / String / Tuple2<f64,i64> / List<f64> and the special values
    //      as SEED (NaN with both signs and a payload, +-inf, -0.0, 0.0, 1, -1, MAX, MIN, MIN_POSITIVE, subnormals, EPSILON, 2^53;
    //      i64: MIN, MAX, 0, +-1), `f64n`: every accumulator a NaN; the stamping closure records every visit
    {
        let f64_seeds: Vec<i64> = [f64::NAN, -f64::NAN, f64::from_bits(0x7ff8_0000_0000_0001), f64::INFINITY, f64::NEG_INFINITY, -0.0, 0.0, 1.0, -1.0, f64::MAX, f64::MIN, f64::MIN_POSITIVE, 5e-324, f64::EPSILON, 9007199254740992.0, 0.5, 2.0]
            .iter().map(|x| x.to_bits() as i64).collect();
        let f32_seeds: Vec<i64> = [f32::NAN, -f32::NAN, f32::INFINITY, f32::NEG_INFINITY, -0.0, 0.0, 1.0, -1.0, f32::MAX, f32::MIN, f32::MIN_POSITIVE, 1.0e-45, f32::EPSILON]
            .iter().map(|x| x.to_bits() as i64).collect();
        let i64_seeds: Vec<i64> = vec![i64::MIN, i64::MAX, 0, 1, -1, i64::MIN + 1, 1 << 53, -(1 << 31), 255, 256];
        let seed_sets: Vec<(&str, Vec<i64>)> = vec![("f64", f64_seeds.clone()), ("f64n", vec![0, 1, 2, 7, 50, 1_000_002, (1 << 48) - 1]), ("f32", f32_seeds), ("i64", i64_seeds.clone()),
            ("str", i64_seeds), ("t2", f64_seeds.clone()), ("lst", f64_seeds)];
        let sshapes: Vec<Vec<usize>> = if thorough { vec![vec![0], vec![1], vec![2], vec![3], vec![2, 3], vec![2, 0], vec![3, 1, 2], vec![2, 2, 2, 2], vec![17], vec![9, 9], vec![300], vec![1030]] }
            else { vec![vec![0], vec![1], vec![3], vec![2, 3], vec![2, 2, 2], vec![17], vec![9, 9], vec![300]] };
        for (si, s) in sshapes.iter().enumerate() {
            let n: usize = s.iter().product();
            let reps: Vec<i64> = (0..n).map(|_| det.range(0, 11)).collect();
            let arrs = [tag(s), format!("{}:{}", show_list(s), show_list(&reps)), tag_off(s, 5)];
            for (yi, (sty, seeds)) in seed_sets.iter().enumerate() { for (di, init) in seeds.iter().enumerate() {
                for (ci, c) in big_clos.iter().enumerate() {
                    if !thorough && (si + yi + di + ci) % 3 != 0 && n > 1 { continue; }
                    out(format!("folds {} {c} {init} {sty}", arrs[(si + yi + di + ci) % 3]));
                }
            } }
        }
        // the same special values as i64 INIT of the ordinary fold line (S = i64) are covered by `folds .. i64`
    }
    // ---- (20) / (11) GIANT arrays: u8, above 2^24 elements ([16 777 221], [4097, 4097]: `as f32` arithmetic on a count or a position is
    //      exact up to 2^24) and above 2^20 (giant_shapes()); closure ops and both IntoIterator impls with the stamping closure, judged in
    //      place (the closure checks call number / position / element call by call); one-operand ops on u8 against the 256-entry table
    //      of the native kernel, plain and Ok(_) receiver.  The driver answers `ok native`.
    {
        // (2^24 + 5 elements: the COUNT rounds DOWN in f32, to 2^24 + 4, so a `take(len as f32 as usize)` loses the last element, and the
        //  POSITIONS 2^24 + 1 and 2^24 + 3 are not representable either; 4097^2 = 2^24 + 8193 rounds down as well)
        let g24: [Vec<usize>; 2] = [vec![(1 << 24) + 5], vec![4097, 4097]];
        let gs = giant_shapes();
        let giant_ops: Vec<&str> = cl_ops.iter().copied().chain(["into_iter", "into_iter_ref"]).collect();
        for (oi, op) in giant_ops.iter().enumerate() {
            let c = big_clos[oi % 3];
            // every op once above 2^24 (the flat shape and the square one alternate with the seed), thorough: both
            for (gi, s) in g24.iter().enumerate() { if thorough || (oi + gi + seed as usize) % 2 == 0 { out(format!("giant {op} {} {c} {}", show_list(s), 7 + oi)); } }
            // ... and on two (thorough: five) of the shapes above 2^20
            for q in 0..(if thorough { 5 } else { 2 }) { let s = &gs[(oi * 3 + q * 7 + seed as usize) % gs.len()]; out(format!("giant {op} {} {} {}", show_list(s), big_clos[(oi + q + 1) % 3], 11 + q)); }
        }
        // one-operand ops on u8.  The ops routed through the broadcasting layer (rint / round / around / log: 0.6 s and 130 MB per million
        // elements) stay at ~1.05 million elements; `sign` answers Array<isize> (8 bytes per element) and stays below 2.2 million
        let u8_ops: Vec<&str> = all_ops.iter().copied().filter(|o| op_defined(o, "u8") && !OPS_FLOAT.contains(o)).chain(["round1", "round-1"]).collect();
        let small_giants: [Vec<usize>; 2] = [vec![1 << 20 | 5], vec![1031, 1033]];
        for (oi, op) in u8_ops.iter().enumerate() {
            if OPS_BROADCAST_ROUTED.contains(op) || round_digits(op).is_some() {
                // (quick: two of these eight per run, rotating with the seed)
                if thorough || (oi + seed as usize) % 4 == 0 { out(format!("giant unary {op} {}", show_list(&small_giants[(oi + seed as usize) % 2]))); }
                continue;
            }
            // every op above 2^24 (the two shapes alternate with op and seed); a third of them (rotating with the seed; thorough: all, and
            // `sign` always) also on one of the many-axis shapes above 2^20
            if *op != "sign" { out(format!("giant unary {op} {}", show_list(&g24[(oi + seed as usize) % 2]))); }
            if thorough || *op == "sign" || (oi + seed as usize) % 3 == 0 { out(format!("giant unary {op} {}", show_list(&gs[(oi + seed as usize) % gs.len()]))); }
        }
    }
    out("audit".to_string());

    // ---- corpus: frexp(±inf) — never returns on the pinned tree (watchdog -> `hang`)
    out(format!("frexp f64 1:{}", bits_of(f64::INFINITY)));
    out(format!("frexp f64 1:{}", bits_of(f64::NEG_INFINITY)));
    out(format!("frexp f32 1:{}", bits_of(f64::INFINITY)));
    out(format!("frexp f64 2,2:{},{},{},{}", bits_of(1.0), bits_of(f64::INFINITY), bits_of(3.0), bits_of(f64::NEG_INFINITY)));
    out(format!("roundtrip f64 2:{},{}", bits_of(f64::NEG_INFINITY), bits_of(f64::INFINITY)));
}

/// non-trivial: closure / iteration / unary cases on arrays with at least two elements (order and position observable);
/// float cases containing at least one finite non-zero value
fn nontrivial(op: &str, args: &[&str]) -> bool {
    match op {
        "unary" => parse_usize_list(args[2]).iter().product::<usize>() >= 2,
        "frexp" | "ldexp" | "roundtrip" => parse_bits_arr(args[1]).map_or(false, |(_, b)| b.iter().any(|x| { let v = f64::from_bits(*x); v.is_finite() && v != 0.0 })),
        "collect" | "collect_h" => parse_i64_list(args[0]).len() >= 2,
        "audit" => false,
        "giant" => true,
        "frexpn" | "ldexpn" | "roundtripn" => true,
        "re" => parse_arr_raw(args[3]).1.len() >= 2,
        "hclo" => true,
        _ => parse_arr_raw(args[0]).1.len() >= 2,
    }
}

fn main() {
    harness_main(Spec { prop: "C05", gen, exec, nontrivial, hang_secs: 15,
        rule: "closures (map, map_e, filter, filter_e, filter_map(_e), fold, for_each(_e), into_iter x2, collect, same-shape zip): exhaustive over every shape rank<=4 len<=3 (+ zero-length) x 4 element patterns (tags, offset tags, repeated/negative, constant) x 3 (quick) / 8 (thorough) counter-stamping closures, + seeded random rank<=5 len<=6; \
unary math: 43 ops x {f64,f32,i32} x shapes (rank<=4 len<=2 + selected, quick; all rank<=4 len<=3, thorough) x value classes dom/edge/spec(NaN,+-inf)/mix, out[p] == native kernel of in[src[p]] bit-exact; \
frexp/ldexp/ldexp(frexp): bit patterns of all powers of two 2^-1074..2^1023 (every 37th in quick) with both neighbours and signs, extremes, subnormals, random patterns, f32-representable values, +-0, NaN, +-inf under a 5 s watchdog. \
ROBUSTNESS STREAMS: closures on every big_shapes() entry (axis lengths 7..17, > 256 / 1024 / 4096 elements) and zero_shapes() entry x the 9 closure ops x 1-3 stamping closures whose answer depends on the passed index, on the number of earlier calls and on the element, + random long shapes; every closure / into_iter case also on the f64 (tag 0 = -0.0, bit-wise), u8 and String images of the array (same transcript required); unary: 48 ops (the 43 + reciprocal, negative, positive, bitwise_not, invert) x i8,i16,i32,i64,u8,u16,u32,u64,f32,f64 (where defined) x classes dom/lim (limits of the type, beyond 2^53 / 2^63, subnormals, -0.0), native kernel with the harness own casts, on small, big and zero-length shapes; EVERY unary / frexp / ldexp / roundtrip case on three receivers - a.op(), Ok(a).op() (bit-identical) and Err(_).op() (must stay an error); frexp/ldexp/roundtrip on arrays of 81..1030 (thorough 4100) elements, all subnormal exponents, the top binade, zero-length shapes. \
PART 2: RE-ENTRANT closures (`re`): each of the 9 closure ops as outer operation x each of the 9 as the inner operation its closure runs on another array / on the receiver itself (inner answers checked against Vec arithmetic, outer transcript against the model); collect from iterators with inexact size hints (6 kinds, lengths 0..1030), clone_from over arrays of other shapes; value class `near` (flat-adjacent values 1 ulp / 1e-13 / 1e-15 relative / 1e-13 absolute apart, each followed by the base value; integers v, v+1, v, v-1) for every one-operand op x every element type, i0 against a harness-native Cephes kernel; A-B-A: every unary case <= 600 elements re-runs after the same op on a second array (also judged), every closure case re-runs on i64 after the f64/u8/String runs, frexp/ldexp re-run after the other receivers, and for a third of all lines the PREVIOUS line is executed again and must get the same verdict; shapes colliding under weak polynomial hashes (multipliers 31,33,37,131,257) back to back A B A / B A B through closures and unary ops; every axis length 1..300 (enumerating closures); huge_shapes() (16 384..140 000 elements): unary ops through the model, closures (`hclo`) against the harness-native reference transcript, which is validated against the model on every other closure case of the run (`audit` line demands >= 1000 validations). \
ROUND 5: value class `sweep` - every one-operand op (and round / around with 33 decimals arguments -400..400 + a decimals array of the receiver's shape) x every element type on the whole boundary pool of the type (f64 25 472 values: every integer and half in -1100..1100, the constants with negatives / reciprocals / neighbours, 2^k k=-1080..1030 and 10^k k=-325..309 with one ulp on each side, multiples of pi/4 pi/6 pi, squares, cubes, overflow thresholds, type limits; f32 ~15 000; i8/u8 the whole type; wider integers 1400-2700); frexpn / ldexpn / roundtripn on the same pools and every exact exponent -2097..2097 judged by a field-based native reference that is validated against the rational model on every ordinary float case; `folds`: fold with accumulator types f64 / f32 / i64 / String / Tuple2<f64,i64> / List<f64> and NaN (both signs, payload) / +-inf / -0.0 / 0 / +-1 / MAX / MIN / subnormal seeds, `f64n` every accumulator a NaN; every closure case also on an f32 image whose tags 0..11 are NaN, +-inf, -0.0, 0.0, MAX, MIN_POSITIVE, subnormal, +-1, MIN, EPSILON; `giant`: u8 arrays of 2^24+5 / 4097^2 / giant_shapes() elements through the 9 closure ops, both IntoIterator impls (closure checks call number, position, element call by call; result compared in place) and every one-operand op defined on u8 (256-entry kernel table); the in-place judge runs in shadow on every model-confirmed closure case with u8 tags (audit line). \
distinct = distinct case lines; non-trivial = array with >= 2 elements (closure/unary) or containing a finite non-zero value (float ops)" });
}
