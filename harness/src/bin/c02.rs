//! C02 — coordinates <-> flat positions.  Exhaustive over shapes and the coordinate box enlarged by one, plus the
//! robustness streams of FRAMEWORK.md: big shapes (axis lengths 7..17, powers of two up to 1024, element counts beyond
//! 256 / 1024 / 4096), zero-length axes, the element-type sweep, both receivers, the same call twice.
use arrharness::*;
use std::any::{Any, TypeId};
use std::cell::RefCell;
use std::collections::HashMap;
use std::rc::Rc;
use std::panic::{catch_unwind, AssertUnwindSafe};

// ================================================================ generator

/// the regular coordinate / position stream of one shape: every flat index 0..n+1, every coordinate vector of the box
/// enlarged by one per axis, wrong-length and far-out vectors (QUADRATIC in the box: small shapes only)
fn emit_full_box(s: &[usize], out: &mut dyn FnMut(String)) {
    let a = tag(s);
    let n: usize = s.iter().product();
    for i in 0..n + 2 {
        out(format!("index_to_coord {a} {i}"));
        out(format!("op_index {a} {i}"));
    }
    let dims: Vec<usize> = s.iter().map(|d| d + 1).collect();
    for c in boxes(&dims) {
        let c = show_list(&c);
        out(format!("index_at {a} {c}"));
        out(format!("at {a} {c}"));
        out(format!("op_index_coords {a} {c}"));
    }
    emit_malformed(s, out);
}

/// wrong-length vectors: rank-1 and rank+1 (all zeros, and in-range-looking); far out of range
fn emit_malformed(s: &[usize], out: &mut dyn FnMut(String)) {
    let a = tag(s);
    let n: usize = s.iter().product();
    let short: Vec<usize> = vec![0; s.len() - 1];
    let long: Vec<usize> = vec![0; s.len() + 1];
    for c in [short, long] {
        let c = show_list(&c);
        out(format!("index_at {a} {c}"));
        out(format!("at {a} {c}"));
        out(format!("op_index_coords {a} {c}"));
    }
    let far: Vec<usize> = s.iter().map(|d| d + 1000).collect();
    out(format!("index_at {a} {}", show_list(&far)));
    out(format!("index_to_coord {a} {}", n + 100000));
}

/// big shapes: every flat index 0..n+1, every IN-RANGE coordinate vector, and the one-off border (for every axis k every
/// vector with c[k] = shape[k] and the other components in range; the corner with every component = its axis length) —
/// linear in the element count instead of the whole enlarged box
fn emit_big(s: &[usize], out: &mut dyn FnMut(String)) {
    let a = tag(s);
    let n: usize = s.iter().product();
    for i in 0..n + 2 {
        out(format!("index_to_coord {a} {i}"));
        out(format!("op_index {a} {i}"));
    }
    let mut coord_case = |c: &[usize]| {
        let c = show_list(c);
        out(format!("index_at {a} {c}"));
        out(format!("at {a} {c}"));
        out(format!("op_index_coords {a} {c}"));
    };
    for c in boxes(s) { coord_case(&c); }
    for k in 0..s.len() {
        let mut dims = s.to_vec(); dims[k] = 1;
        for mut c in boxes(&dims) { c[k] = s[k]; coord_case(&c); }
    }
    coord_case(&s.to_vec());
    emit_malformed(s, out);
}

/// shapes beyond the small scope that are specific to C02: every axis length 7..=17 in the leading, an inner and the
/// trailing position, and power-of-two axis lengths 8..1024 in non-leading positions
fn c02_big_shapes(thorough: bool) -> Vec<Vec<usize>> {
    let mut v = big_shapes();
    for l in 7..=17usize {
        v.push(vec![l]); v.push(vec![2, l]); v.push(vec![l, 2]); v.push(vec![3, l, 2]); v.push(vec![2, 3, l]); v.push(vec![l, 3, 2]);
        if thorough { v.push(vec![l, l]); v.push(vec![2, l, 1, 3]); v.push(vec![2, 1, l, 2, 2]); }
    }
    v.extend(vec![vec![3, 32], vec![32, 3], vec![2, 32, 2], vec![3, 64], vec![2, 2, 64], vec![2, 128], vec![2, 128, 3], vec![3, 256], vec![2, 512],
                  vec![5, 1024], vec![2, 2048, 1], vec![16, 16, 16], vec![8, 8, 8, 8], vec![2, 2, 2, 2, 2], vec![4, 2, 8, 2, 4]]);
    if thorough { v.extend(vec![vec![2, 4096], vec![4096, 2], vec![3, 3, 3, 3, 3, 3], vec![17, 17, 17], vec![6, 5, 4, 3, 2, 2]]); }
    v.sort(); v.dedup();
    v
}

fn gen(tier: &str, seed: u64, out: &mut dyn FnMut(String)) {
    let thorough = tier == "thorough";
    // corpus of past failures (seeded changes that an earlier generator missed) first
    for l in ["index_to_coord i3,8 8", "index_to_coord i2,3,16 16", "index_to_coord i2,8,3 24", "index_at i2,3 0,3", "at i2,3 0,3",
              "index_at i2,0,3 0,0,0", "index_at i0 0", "at i2,3,4 0,1,0", "index_at i2,3,4 0,3,0"] { out(l.to_string()); }
    let mut shapes_all = if thorough { shapes(1, 4, 1, 4) } else { shapes(1, 4, 1, 3) };
    shapes_all.extend(if thorough { shapes(5, 5, 1, 3) } else { shapes(5, 5, 1, 2) });
    // zero-length axes: the empty array and shapes containing 0
    shapes_all.extend(vec![vec![0], vec![0, 2], vec![2, 0], vec![2, 0, 3]]);
    for z in zero_shapes() { if !shapes_all.contains(&z) { shapes_all.push(z); } }
    shapes_all.extend(vec![vec![0, 0, 0], vec![1, 0, 1], vec![0, 3, 0], vec![2, 2, 0, 2], vec![0, 1, 1, 1, 1], vec![1, 1, 1, 1, 0]]);
    let mut rng = Rng::new(seed);
    let n_rand = if thorough { 400 } else { 60 };
    for _ in 0..n_rand { let r = 1 + rng.below(5); shapes_all.push((0..r).map(|_| 1 + rng.below(6)).collect()); }
    for s in &shapes_all { emit_full_box(s, out); }
    // ---- sizes beyond the small scope
    for s in c02_big_shapes(thorough) { emit_big(&s, out); }
    // seeded random big shapes: rank 1..5, axis lengths 1..20 (thorough 1..40), at most 3000 (6000) elements
    let (n_big, max_len, max_n) = if thorough { (60, 40, 6000) } else { (8, 20, 3000) };
    let mut made = 0;
    while made < n_big {
        let r = 1 + rng.below(5);
        let s: Vec<usize> = (0..r).map(|_| 1 + rng.below(max_len)).collect();
        let n: usize = s.iter().product();
        if n > max_n || n < 30 { continue; }
        emit_big(&s, out); made += 1;
    }
    gen_ext(tier, &mut rng, out);
    gen_ext_big(tier, &mut rng, out);
}

/// extension: `slice(range)` and `indices_at(indices)`; answers are whole arrays (`shape:elems`)
fn gen_ext(tier: &str, rng: &mut Rng, out: &mut dyn FnMut(String)) {
    let thorough = tier == "thorough";
    let mut sh = if thorough { shapes(1, 4, 1, 4) } else { shapes(1, 4, 1, 3) };
    // an axis of length 5 in every position of rank 1..3 (windows 2..4 that differ from the row size)
    for other in 1..=3usize {
        sh.push(vec![5]);
        sh.extend(vec![vec![5, other], vec![other, 5], vec![5, other, 2], vec![2, 5, other], vec![other, 2, 5], vec![5, 2, other]]);
    }
    sh.push(vec![5, 5]);
    // rank 0, the empty array, zero-length axes in every position
    sh.extend(vec![vec![], vec![0], vec![0, 0], vec![0, 2], vec![2, 0], vec![3, 0], vec![0, 3, 2], vec![2, 0, 3], vec![2, 3, 0], vec![1, 0], vec![0, 1]]);
    sh.extend(zero_shapes());
    sh.sort(); sh.dedup();
    for s in &sh {
        let a = tag(s);
        let n: usize = s.iter().product();
        let d0 = s.first().copied().unwrap_or(0);
        // ---- slice: every range 0 <= start, end <= len+1 on small arrays (valid, start > end, end > len);
        // on larger ones every start with every window length 0..=shape[0]+2, the ends len-1, len, len+1 and end = start-1
        if n <= 12 {
            for st in 0..=n + 1 { for en in 0..=n + 1 { out(format!("slice {a} {st} {en}")); } }
        } else {
            for st in 0..=n + 1 {
                for w in 0..=d0 + 2 { out(format!("slice {a} {st} {}", st + w)); }
                for en in [n - 1, n, n + 1] { if en > st + d0 + 2 || en < st { out(format!("slice {a} {st} {en}")); } }
                if st > 0 && st - 1 != n - 1 && st - 1 != n { out(format!("slice {a} {st} {}", st - 1)); }
            }
        }
        out(format!("slice {a} 0 {}", n + 100000));
        out(format!("slice {a} {} {}", n + 100000, n + 100001));
        // ---- indices_at: every index list of length <= 3 over 0..=shape[0] (shape[0] itself is out of range),
        // the reversed and the doubled full list, a far-out index
        let vals = d0 + 1 + (n == 0) as usize;
        for l in 0..=3usize {
            for c in boxes(&vec![vals; l]) { out(format!("indices_at {a} {}", show_list(&c))); }
        }
        let full: Vec<usize> = (0..d0).rev().collect();
        let dbl: Vec<usize> = (0..d0).chain(0..d0).collect();
        out(format!("indices_at {a} {}", show_list(&full)));
        out(format!("indices_at {a} {}", show_list(&dbl)));
        out(format!("indices_at {a} {}", d0 + 1000));
        out(format!("indices_at {a} 0,{}", d0 + 1000));
    }
    // seeded random stream beyond the scope: rank <= 5, length <= 6
    let n_rand = if thorough { 3000 } else { 400 };
    for _ in 0..n_rand {
        let s = rng.shape(1, 5, 6);
        let a = tag_off(&s, rng.below(1000) as i64);
        let n: usize = s.iter().product();
        let st = if rng.below(3) == 0 { rng.below(n + 2) } else { rng.below(s[0] + 2) };
        let en = match rng.below(4) { 0 => rng.below(n + 2), 1 => st + 1, _ => st + rng.below(s[0] + 2) };
        out(format!("slice {a} {st} {en}"));
        let l = rng.below(7);
        let idx: Vec<usize> = (0..l).map(|_| { let extra = (rng.below(8) == 0) as usize; rng.below(s[0] + extra) }).collect();
        out(format!("indices_at {a} {}", show_list(&idx)));
    }
}

/// `slice` / `indices_at` on the big shapes: a grid of starts x windows around every threshold of the code
/// (0, 1, 2, shape[0]-1, shape[0], shape[0]+1, the row size, the middle, the end) instead of every range
fn gen_ext_big(tier: &str, rng: &mut Rng, out: &mut dyn FnMut(String)) {
    let thorough = tier == "thorough";
    for s in c02_big_shapes(thorough) {
        let a = tag(&s);
        let n: usize = s.iter().product();
        let d0 = s[0];
        let row = n / d0;
        let mut starts = vec![0, 1, 2, 3, d0 - 1, d0, d0 + 1, row, row + 1, 2 * row, n / 2, n.saturating_sub(d0), n.saturating_sub(row), n.saturating_sub(2), n - 1, n, n + 1];
        starts.push(rng.below(n + 1)); starts.push(rng.below(d0 + 1));
        starts.sort(); starts.dedup();
        for &st in &starts {
            let mut wins = vec![0, 1, 2, 3, 7, 8, d0 - 1, d0, d0 + 1, row, row + 1, n.saturating_sub(st), n.saturating_sub(st) + 1, n];
            wins.push(rng.below(d0 + 2));
            wins.sort(); wins.dedup();
            for w in wins { out(format!("slice {a} {st} {}", st + w)); }
            if st > 0 { out(format!("slice {a} {st} {}", st - 1)); out(format!("slice {a} {st} 0")); }
        }
        let full: Vec<usize> = (0..d0).collect();
        let rev: Vec<usize> = (0..d0).rev().collect();
        let dbl: Vec<usize> = (0..d0).chain(0..d0).collect();
        let every_other: Vec<usize> = (0..d0).step_by(2).collect();
        let mut lists: Vec<Vec<usize>> = vec![vec![], vec![0], vec![d0 - 1], vec![d0], vec![0, d0], vec![d0 - 1, 0, d0 - 1], full, rev, dbl, every_other, vec![d0 + 1000], vec![n], vec![n - 1]];
        for _ in 0..(if thorough { 6 } else { 2 }) {
            let l = 1 + rng.below(d0.min(24) + 3);
            lists.push((0..l).map(|_| { let extra = (rng.below(16) == 0) as usize; rng.below(d0 + extra) }).collect());
        }
        for l in lists { out(format!("indices_at {a} {}", show_list(&l))); }
    }
}

// ================================================================ executor

/// image of a tag in another element type: a value-blind operation must move the IMAGES exactly as it moves the i64 tags
trait Img: ArrayElement {
    const NAME: &'static str;
    fn img(t: i64) -> Self;
    fn same(a: &Self, b: &Self) -> bool { a == b }
}
impl Img for i64 { const NAME: &'static str = "i64"; fn img(t: i64) -> Self { t } }
impl Img for u8 { const NAME: &'static str = "u8"; fn img(t: i64) -> Self { tag_u8(t) } }
impl Img for i8 { const NAME: &'static str = "i8"; fn img(t: i64) -> Self { tag_i8(t) } }
impl Img for bool { const NAME: &'static str = "bool"; fn img(t: i64) -> Self { t % 2 != 0 } }
impl Img for u16 { const NAME: &'static str = "u16"; fn img(t: i64) -> Self { t.rem_euclid(65521) as u16 } }
impl Img for i32 { const NAME: &'static str = "i32"; fn img(t: i64) -> Self { (t % 2_000_000_011) as i32 } }
impl Img for usize { const NAME: &'static str = "usize"; fn img(t: i64) -> Self { t.unsigned_abs() as usize } }
/// tag 0 is NEGATIVE zero; compared bit-wise
impl Img for f64 { const NAME: &'static str = "f64"; fn img(t: i64) -> Self { tag_f64z(t) } fn same(a: &Self, b: &Self) -> bool { a.to_bits() == b.to_bits() } }
impl Img for f32 { const NAME: &'static str = "f32"; fn img(t: i64) -> Self { if t == 0 { -0.0 } else { (t % 16_000_000) as f32 } } fn same(a: &Self, b: &Self) -> bool { a.to_bits() == b.to_bits() } }
impl Img for String { const NAME: &'static str = "String"; fn img(t: i64) -> Self { format!("s{t}") } }

#[derive(Clone, Debug)]
enum Out<V> { Ok(V), Err(&'static str), Panic }
fn run<V>(f: impl FnOnce() -> Result<V, ArrayError>) -> Out<V> {
    match catch_unwind(AssertUnwindSafe(f)) { Ok(Ok(v)) => Out::Ok(v), Ok(Err(e)) => Out::Err(err_name(&e)), Err(_) => Out::Panic }
}

enum Call { IndexAt(Vec<usize>), ToCoord(usize), At(Vec<usize>), OpIdx(usize), OpCoords(Vec<usize>), Slice(usize, usize), IndicesAt(Vec<usize>) }
#[derive(Clone, Debug)]
enum Ans<T> { Pos(usize), Coord(Vec<usize>), Elem(T), Arr { shape: Vec<usize>, elems: Vec<T>, consistent: bool } }

fn ans_arr<T: ArrayElement>(a: Array<T>) -> Ans<T> { Ans::Arr { consistent: consistent(&a), shape: a.get_shape().unwrap(), elems: a.get_elements().unwrap() } }

/// the real call.  `chained` = the same method on `Ok(array)` through `impl ArrayIndexing<T> for Result<Array<T>, ArrayError>`
/// (`None`: the operators have no such form)
fn call<T: Img>(a: &Array<T>, c: &Call, chained: bool) -> Option<Out<Ans<T>>> {
    let r = || -> Result<Array<T>, ArrayError> { Ok(a.clone()) };
    Some(match (c, chained) {
        (Call::IndexAt(v), false) => run(|| a.index_at(v).map(Ans::Pos)),
        (Call::IndexAt(v), true) => { let r = r(); run(|| r.index_at(v).map(Ans::Pos)) }
        (Call::ToCoord(i), false) => run(|| a.index_to_coord(*i).map(Ans::Coord)),
        (Call::ToCoord(i), true) => { let r = r(); run(|| r.index_to_coord(*i).map(Ans::Coord)) }
        (Call::At(v), false) => run(|| a.at(v).map(Ans::Elem)),
        (Call::At(v), true) => { let r = r(); run(|| r.at(v).map(Ans::Elem)) }
        (Call::OpIdx(i), false) => run(|| Ok(Ans::Elem(a[*i].clone()))),
        (Call::OpCoords(v), false) => run(|| Ok(Ans::Elem(a[&v[..]].clone()))),
        (Call::Slice(s, e), false) => run(|| a.slice(*s..*e).map(ans_arr)),
        (Call::Slice(s, e), true) => { let r = r(); run(|| r.slice(*s..*e).map(ans_arr)) }
        (Call::IndicesAt(l), false) => run(|| a.indices_at(l).map(ans_arr)),
        (Call::IndicesAt(l), true) => { let r = r(); run(|| r.indices_at(l).map(ans_arr)) }
        (Call::OpIdx(_), true) | (Call::OpCoords(_), true) => return None,
    })
}

/// protocol text of the canonical (plain receiver, i64) answer
fn show_out(o: &Out<Ans<i64>>) -> String {
    match o {
        Out::Panic => "panic".to_string(),
        Out::Err(e) => format!("err {e}"),
        Out::Ok(Ans::Pos(p)) => format!("ok {p}"),
        Out::Ok(Ans::Coord(c)) => format!("ok {}", show_list(c)),
        Out::Ok(Ans::Elem(v)) => format!("ok {v}"),
        Out::Ok(Ans::Arr { shape, elems, consistent }) => {
            let t = format!("{}:{}", show_list(shape), show_list(elems));
            if *consistent { format!("ok {t}") } else { format!("inconsistent {t}") }
        }
    }
}

/// does the answer `v` on the `T` image agree with the canonical answer `b` on the i64 tags?
/// same outcome class (any two errors agree), same position / coordinates / shape, and every element is the image of the tag
fn agree<T: Img>(b: &Out<Ans<i64>>, v: &Out<Ans<T>>) -> bool {
    match (b, v) {
        (Out::Panic, Out::Panic) | (Out::Err(_), Out::Err(_)) => true,
        (Out::Ok(b), Out::Ok(v)) => match (b, v) {
            (Ans::Pos(x), Ans::Pos(y)) => x == y,
            (Ans::Coord(x), Ans::Coord(y)) => x == y,
            (Ans::Elem(x), Ans::Elem(y)) => T::same(&T::img(*x), y),
            (Ans::Arr { shape: s1, elems: e1, consistent: c1 }, Ans::Arr { shape: s2, elems: e2, consistent: c2 }) =>
                s1 == s2 && c1 == c2 && e1.len() == e2.len() && e1.iter().zip(e2).all(|(x, y)| T::same(&T::img(*x), y)),
            _ => false,
        },
        _ => false,
    }
}
fn brief<T: Img>(v: &Out<Ans<T>>) -> String { truncate(&format!("{v:?}"), 200) }

/// the case lines of one array follow each other: the arrays built for the last array argument are kept, per element type
struct Cache { key: String, shape: Vec<usize>, tags: Vec<i64>, arrs: HashMap<TypeId, Rc<dyn Any>> }
thread_local! { static CACHE: RefCell<Cache> = RefCell::new(Cache { key: String::new(), shape: vec![], tags: vec![], arrs: HashMap::new() }); }
fn cached<T: Img + 'static>(key: &str) -> Rc<Array<T>> {
    CACHE.with(|c| {
        let mut c = c.borrow_mut();
        if c.key != key || (c.key.is_empty() && c.arrs.is_empty()) {
            let (s, e) = parse_arr_raw(key);
            *c = Cache { key: key.to_string(), shape: s, tags: e, arrs: HashMap::new() };
        }
        if !c.arrs.contains_key(&TypeId::of::<T>()) {
            // built WITHOUT going through any operation under test other than `Array::new`
            let a: Array<T> = Array::new(c.tags.iter().map(|&t| T::img(t)).collect(), c.shape.clone()).expect("harness: array literal");
            c.arrs.insert(TypeId::of::<T>(), Rc::new(a));
        }
        c.arrs[&TypeId::of::<T>()].clone().downcast::<Array<T>>().expect("harness: cache type")
    })
}

/// one element type: plain and chained receiver against the canonical answer; `Some(text)` = a divergence
fn variant<T: Img + 'static>(key: &str, c: &Call, base: &Out<Ans<i64>>, plain: bool, chained: bool) -> Option<String> {
    let a = cached::<T>(key);
    if plain {
        let v = call(&*a, c, false)?;
        if !agree(base, &v) {
            return Some(if T::NAME == "i64" { format!("REPEAT-DIVERGENCE the same call a second time gives {}", brief(&v)) }
                        else { format!("TYPE-DIVERGENCE element type {} gives {}", T::NAME, brief(&v)) });
        }
    }
    if chained {
        if let Some(v) = call(&*a, c, true) {
            if !agree(base, &v) { return Some(format!("RECEIVER-DIVERGENCE the call on Ok(array) (element type {}) gives {}", T::NAME, brief(&v))); }
        }
    }
    None
}

fn exec(op: &str, args: &[&str], expected: &str) -> Option<Verdict> {
    let key = args[0];
    let a = cached::<i64>(key);
    let c = match op {
        "slice" => Call::Slice(args[1].parse().ok()?, args[2].parse().ok()?),
        "indices_at" => Call::IndicesAt(parse_usize_list(args[1])),
        "index_at" => Call::IndexAt(parse_usize_list(args[1])),
        "index_to_coord" => Call::ToCoord(args[1].parse().ok()?),
        "at" => Call::At(parse_usize_list(args[1])),
        "op_index" => Call::OpIdx(args[1].parse().ok()?),
        "op_index_coords" => Call::OpCoords(parse_usize_list(args[1])),
        _ => return None,
    };
    // canonical answer: plain receiver, i64 tags
    let base = call(&*a, &c, false)?;
    let mut observed = show_out(&base);
    // robustness streams: the same call a second time, the call on Ok(array), and the element-type sweep.
    // Arrays of up to 300 elements: every type on both receivers; larger ones: i64 / u8 on both, i8 / bool / f64 plain.
    let small = a.len().unwrap() <= 300;
    let d = variant::<i64>(key, &c, &base, true, true)
        .or_else(|| variant::<u8>(key, &c, &base, true, true))
        .or_else(|| variant::<f64>(key, &c, &base, true, small))
        .or_else(|| variant::<i8>(key, &c, &base, true, small))
        .or_else(|| variant::<bool>(key, &c, &base, true, small))
        .or_else(|| if small { variant::<u16>(key, &c, &base, true, true) } else { None })
        .or_else(|| if small { variant::<i32>(key, &c, &base, true, true) } else { None })
        .or_else(|| if small { variant::<f32>(key, &c, &base, true, true) } else { None })
        .or_else(|| if small { variant::<usize>(key, &c, &base, true, true) } else { None })
        .or_else(|| if small { variant::<String>(key, &c, &base, true, true) } else { None });
    if let Some(d) = d { observed = format!("{d}; plain Array<i64> call: {}", truncate(&observed, 300)); }
    Some(compare_default(observed, expected))
}

/// non-trivial: array has at least two axes longer than one (so row-major order matters)
fn nontrivial(_op: &str, args: &[&str]) -> bool {
    let s = args[0].strip_prefix('i').map_or_else(|| parse_arr_raw(args[0]).0, |b| parse_usize_list(b.split('+').next().unwrap()));
    s.iter().filter(|&&d| d > 1).count() >= 2
}

fn main() {
    harness_main(Spec { prop: "C02", gen, exec, nontrivial, hang_secs: 20,
        rule: "exhaustive: every shape (rank<=4 len<=3 quick / len<=4 thorough; rank 5 len<=2 / <=3) + zero-length axes in every position x every flat index 0..len+1 x every coordinate vector of the box enlarged by one per axis, wrong-length vectors, far-out values; + seeded random shapes rank<=5 len<=6. Big shapes (lib big_shapes: axis lengths 7..17, element counts up to 4900; every axis length 7..17 in leading/inner/trailing position of rank 1..3; power-of-two axis lengths 8..2048 in non-leading positions; rank 5; seeded random rank<=5 len<=20 (thorough <=40)): every flat index 0..len+1, every in-range coordinate vector and the one-off border (one component = its axis length, the others in range; the all-equal corner). slice / indices_at: every shape rank<=4 len<=3 (<=4 thorough) + an axis of length 5 + rank 0 and zero-length axes x every range 0<=start,end<=len+1 (arrays of <=12 elements; larger: every start x windows 0..shape[0]+2 and the ends len-1,len,len+1,start-1) x every index list of length<=3 over 0..=shape[0], reversed/doubled full lists, far-out values; + seeded random rank<=5 len<=6; big shapes: a grid of starts x windows around 0,1,2,shape[0]-1..+1,row size,middle,end and full/reversed/doubled/strided/random index lists. EVERY case is executed on the plain Array<i64> receiver (the compared answer), a second time, on Ok(array) through the Result-receiver impl (methods; the operators have none), and on the u8 / i8 / bool / f64 (tag 0 = -0.0, bit-wise) images (arrays <= 300 elements: also u16, i32, f32, usize, String, all on both receivers); any divergence fails the case. distinct = distinct case lines; non-trivial = array with >=2 axes longer than 1" });
}
