//! C02 — coordinates <-> flat positions.  Exhaustive over shapes and the coordinate box enlarged by one.
use arrharness::*;

fn gen(tier: &str, seed: u64, out: &mut dyn FnMut(String)) {
    let mut shapes_all = if tier == "thorough" { shapes(1, 4, 1, 4) } else { shapes(1, 4, 1, 3) };
    shapes_all.extend(if tier == "thorough" { shapes(5, 5, 1, 3) } else { shapes(5, 5, 1, 2) });
    // zero-length axes: the empty array and shapes containing 0
    shapes_all.extend(vec![vec![0], vec![0, 2], vec![2, 0], vec![2, 0, 3]]);
    let mut rng = Rng::new(seed);
    let n_rand = if tier == "thorough" { 400 } else { 60 };
    for _ in 0..n_rand { let r = 1 + rng.below(5); shapes_all.push((0..r).map(|_| 1 + rng.below(6)).collect()); }
    for s in &shapes_all {
        let a = tag(s);
        let n: usize = s.iter().product();
        for i in 0..n + 2 {
            out(format!("index_to_coord {a} {i}"));
            out(format!("op_index {a} {i}"));
        }
        let dims: Vec<usize> = s.iter().map(|d| d + 1).collect();
        for c in boxes(&dims) {
            let c = show_list(&c);
            out(format!("index_at {a} {c}"));
            out(format!("at {a} {c}"));
            out(format!("op_index_coords {a} {c}"));
        }
        // wrong-length vectors: rank-1 and rank+1 (all zeros, and in-range-looking)
        let short: Vec<usize> = vec![0; s.len() - 1];
        let long: Vec<usize> = vec![0; s.len() + 1];
        for c in [short, long] {
            let c = show_list(&c);
            out(format!("index_at {a} {c}"));
            out(format!("at {a} {c}"));
            out(format!("op_index_coords {a} {c}"));
        }
        // far out of range
        let far: Vec<usize> = s.iter().map(|d| d + 1000).collect();
        out(format!("index_at {a} {}", show_list(&far)));
        out(format!("index_to_coord {a} {}", n + 100000));
    }
}

fn exec(op: &str, args: &[&str], expected: &str) -> Option<Verdict> {
    let a = parse_arr_i64(args[0]);
    let observed = match op {
        "index_at" => { let c = parse_usize_list(args[1]); guarded(|| show_res(&a.index_at(&c), |v| v.to_string())) }
        "index_to_coord" => { let i: usize = args[1].parse().ok()?; guarded(|| show_res(&a.index_to_coord(i), |v| show_list(v))) }
        "at" => { let c = parse_usize_list(args[1]); guarded(|| show_res(&a.at(&c), |v| v.to_string())) }
        "op_index" => { let i: usize = args[1].parse().ok()?; guarded(|| format!("ok {}", a[i])) }
        "op_index_coords" => { let c = parse_usize_list(args[1]); guarded(|| format!("ok {}", a[&c[..]])) }
        _ => return None,
    };
    Some(compare_default(observed, expected))
}

/// non-trivial: array has at least two axes longer than one (so row-major order matters)
fn nontrivial(_op: &str, args: &[&str]) -> bool {
    let (s, _) = parse_arr_raw(args[0]);
    s.iter().filter(|&&d| d > 1).count() >= 2
}

fn main() {
    harness_main(Spec { prop: "C02", gen, exec, nontrivial, hang_secs: 20,
        rule: "exhaustive: every shape (rank<=4 len<=3 quick / len<=4 thorough; rank 5 len<=2 / <=3) x every flat index 0..len+1 x every coordinate vector of the box enlarged by one per axis, wrong-length vectors, far-out values; + seeded random shapes rank<=5 len<=6. distinct = distinct case lines; non-trivial = array with >=2 axes longer than 1" });
}
