//! C02 — coordinates <-> flat positions.  Exhaustive over shapes and the coordinate box enlarged by one, plus the
//! robustness streams of FRAMEWORK.md: big shapes (axis lengths 7..17, powers of two up to 1024, element counts beyond
//! 256 / 1024 / 4096), zero-length axes, the element-type sweep, both receivers, the same call twice.
//! Part 2 (after the third round of seeded changes): hidden state (colliding shapes / argument lists interleaved, A-B-A
//! re-runs in `exec`), huge shapes (16 384 .. 140 000 elements, an axis above 65 536), every axis length 1..300 in
//! leading / inner / trailing position with every flat position, narrowing images `c + 2^8 / 2^16 / 2^32` of
//! coordinates, positions, ranges and index lists, ranks 6..8.
use arrharness::*;
use std::any::{Any, TypeId};
use std::cell::RefCell;
use std::collections::HashMap;
use std::rc::Rc;
use std::panic::{catch_unwind, AssertUnwindSafe};

// ================================================================ generator

/// the regular coordinate / position stream of one shape: every flat index 0..n+1, every coordinate vector of the box
/// enlarged by one per axis, wrong-length and far-out vectors (QUADRATIC in the box: small shapes only)
fn emit_full_box(s: &[usize], out: &mut dyn FnMut(String)) {
    let a = tag(s);
    let n: usize = s.iter().product();
    for i in 0..n + 2 {
        out(format!("index_to_coord {a} {i}"));
        out(format!("op_index {a} {i}"));
    }
    let dims: Vec<usize> = s.iter().map(|d| d + 1).collect();
    for c in boxes(&dims) {
        let c = show_list(&c);
        out(format!("index_at {a} {c}"));
        out(format!("at {a} {c}"));
        out(format!("op_index_coords {a} {c}"));
    }
    emit_malformed(s, out);
}

/// wrong-length vectors: rank-1 and rank+1 (all zeros, and in-range-looking); far out of range
fn emit_malformed(s: &[usize], out: &mut dyn FnMut(String)) {
    let a = tag(s);
    let n: usize = s.iter().product();
    let short: Vec<usize> = vec![0; s.len() - 1];
    let long: Vec<usize> = vec![0; s.len() + 1];
    for c in [short, long] {
        let c = show_list(&c);
        out(format!("index_at {a} {c}"));
        out(format!("at {a} {c}"));
        out(format!("op_index_coords {a} {c}"));
    }
    let far: Vec<usize> = s.iter().map(|d| d + 1000).collect();
    out(format!("index_at {a} {}", show_list(&far)));
    out(format!("index_to_coord {a} {}", n + 100000));
}

/// big shapes: every flat index 0..n+1, every IN-RANGE coordinate vector, and the one-off border (for every axis k every
/// vector with c[k] = shape[k] and the other components in range; the corner with every component = its axis length) —
/// linear in the element count instead of the whole enlarged box
fn emit_big(s: &[usize], out: &mut dyn FnMut(String)) {
    let a = tag(s);
    let n: usize = s.iter().product();
    for i in 0..n + 2 {
        out(format!("index_to_coord {a} {i}"));
        out(format!("op_index {a} {i}"));
    }
    let mut coord_case = |c: &[usize]| {
        let c = show_list(c);
        out(format!("index_at {a} {c}"));
        out(format!("at {a} {c}"));
        out(format!("op_index_coords {a} {c}"));
    };
    for c in boxes(s) { coord_case(&c); }
    for k in 0..s.len() {
        let mut dims = s.to_vec(); dims[k] = 1;
        for mut c in boxes(&dims) { c[k] = s[k]; coord_case(&c); }
    }
    coord_case(&s.to_vec());
    emit_malformed(s, out);
}

/// shapes beyond the small scope that are specific to C02: every axis length 7..=17 in the leading, an inner and the
/// trailing position, and power-of-two axis lengths 8..1024 in non-leading positions
fn c02_big_shapes(thorough: bool) -> Vec<Vec<usize>> {
    let mut v = big_shapes();
    for l in 7..=17usize {
        v.push(vec![l]); v.push(vec![2, l]); v.push(vec![l, 2]); v.push(vec![3, l, 2]); v.push(vec![2, 3, l]); v.push(vec![l, 3, 2]);
        if thorough { v.push(vec![l, l]); v.push(vec![2, l, 1, 3]); v.push(vec![2, 1, l, 2, 2]); }
    }
    v.extend(vec![vec![3, 32], vec![32, 3], vec![2, 32, 2], vec![3, 64], vec![2, 2, 64], vec![2, 128], vec![2, 128, 3], vec![3, 256], vec![2, 512],
                  vec![5, 1024], vec![2, 2048, 1], vec![16, 16, 16], vec![8, 8, 8, 8], vec![2, 2, 2, 2, 2], vec![4, 2, 8, 2, 4]]);
    if thorough { v.extend(vec![vec![2, 4096], vec![4096, 2], vec![3, 3, 3, 3, 3, 3], vec![17, 17, 17], vec![6, 5, 4, 3, 2, 2]]); }
    v.sort(); v.dedup();
    v
}

fn gen(tier: &str, seed: u64, out: &mut dyn FnMut(String)) {
    let thorough = tier == "thorough";
    // corpus of past failures (seeded changes that an earlier generator missed) first
    for l in ["index_to_coord i3,8 8", "index_to_coord i2,3,16 16", "index_to_coord i2,8,3 24", "index_at i2,3 0,3", "at i2,3 0,3",
              "index_at i2,0,3 0,0,0", "index_at i0 0", "at i2,3,4 0,1,0", "index_at i2,3,4 0,3,0"] { out(l.to_string()); }
    let mut shapes_all = if thorough { shapes(1, 4, 1, 4) } else { shapes(1, 4, 1, 3) };
    shapes_all.extend(if thorough { shapes(5, 5, 1, 3) } else { shapes(5, 5, 1, 2) });
    // zero-length axes: the empty array and shapes containing 0
    shapes_all.extend(vec![vec![0], vec![0, 2], vec![2, 0], vec![2, 0, 3]]);
    for z in zero_shapes() { if !shapes_all.contains(&z) { shapes_all.push(z); } }
    shapes_all.extend(vec![vec![0, 0, 0], vec![1, 0, 1], vec![0, 3, 0], vec![2, 2, 0, 2], vec![0, 1, 1, 1, 1], vec![1, 1, 1, 1, 0]]);
    let mut rng = Rng::new(seed);
    let n_rand = if thorough { 400 } else { 60 };
    for _ in 0..n_rand { let r = 1 + rng.below(5); shapes_all.push((0..r).map(|_| 1 + rng.below(6)).collect()); }
    for s in &shapes_all { emit_full_box(s, out); }
    // ---- sizes beyond the small scope
    for s in c02_big_shapes(thorough) { emit_big(&s, out); }
    // seeded random big shapes: rank 1..5, axis lengths 1..20 (thorough 1..40), at most 3000 (6000) elements
    let (n_big, max_len, max_n) = if thorough { (60, 40, 6000) } else { (8, 20, 3000) };
    let mut made = 0;
    while made < n_big {
        let r = 1 + rng.below(5);
        let s: Vec<usize> = (0..r).map(|_| 1 + rng.below(max_len)).collect();
        let n: usize = s.iter().product();
        if n > max_n || n < 30 { continue; }
        emit_big(&s, out); made += 1;
    }
    gen_ext(tier, &mut rng, out);
    gen_ext_big(tier, &mut rng, out);
    // ---- robustness streams, part 2
    gen_high_rank(thorough, out);
    gen_hidden(thorough, out);
    gen_narrow(thorough, out);
    gen_sweep(thorough, out);
    gen_huge(thorough, &mut rng, out);
}

// ---------------------------------------------------------------- robustness streams, part 2

/// The models of `slice` (rank >= 2: one list `drop` per copied chunk) and `indices_at` (rank >= 2: one `drop` per row of the
/// array) are quadratic.  On large arrays only the calls whose predicted model cost is moderate are generated.
fn slice_affordable(s: &[usize], st: usize, en: usize) -> bool {
    let n: usize = s.iter().product();
    if s.len() <= 1 || n <= 5000 || en < st || en > n { return true; }
    let w = en - st;
    if w >= s[0] { return true; }
    let chunks = if w > 1 { w } else { s[1] };
    chunks.saturating_mul(n) <= 20_000_000
}
fn indices_affordable(s: &[usize]) -> bool {
    let n: usize = s.iter().product();
    s.len() <= 1 || n <= 5000 || s[0].saturating_mul(n) <= 20_000_000
}

/// a representative set of calls of EVERY operation on one shape: coordinate vectors with every component in {0, 1, len-1}
/// (+ the one-off border and a wrong-length vector: failing calls), flat positions around the row size / the middle / the end,
/// ranges and index lists around 0, 1, shape[0].  `light`: the array is large — no answer that is the whole array.
fn probe_cases(s: &[usize], light: bool) -> Vec<String> {
    let a = tag(s);
    let n: usize = s.iter().product();
    let mut v = vec![];
    let comp: Vec<Vec<usize>> = s.iter().map(|&d| { let mut c = vec![0usize, 1, d.saturating_sub(1)]; c.retain(|&x| x < d); c.sort(); c.dedup(); c }).collect();
    let mut coords: Vec<Vec<usize>> = vec![vec![]];
    for c in &comp { let mut nx = vec![]; for p in &coords { for &x in c { let mut q = p.clone(); q.push(x); nx.push(q); } } coords = nx; }
    for (j, c) in coords.iter().enumerate() {
        let t = show_list(c);
        v.push(format!("index_at {a} {t}"));
        v.push(format!("at {a} {t}"));
        v.push(format!("op_index_coords {a} {t}"));
        // a failing call between the valid ones: one component pushed to its axis length
        if !s.is_empty() { let k = j % s.len(); let mut b = c.clone(); b[k] = s[k]; v.push(format!("index_at {a} {}", show_list(&b))); if j % 3 == 0 { v.push(format!("at {a} {}", show_list(&b))); } }
    }
    if !s.is_empty() { v.push(format!("index_at {a} {}", show_list(&vec![0; s.len() - 1]))); v.push(format!("index_at {a} {}", show_list(&vec![0; s.len() + 1]))); }
    let last = s.last().copied().unwrap_or(1);
    let d0 = s.first().copied().unwrap_or(0);
    let row = if d0 == 0 { 0 } else { n / d0 };
    let mut pos = vec![0, 1, 2, last.saturating_sub(1), last, last + 1, row, row + 1, n / 2, n.saturating_sub(2), n.saturating_sub(1), n, n + 1];
    pos.sort(); pos.dedup();
    for i in pos { v.push(format!("index_to_coord {a} {i}")); v.push(format!("op_index {a} {i}")); }
    if !s.is_empty() {
        let mut ranges = vec![(0, 1), (1, 2), (1, 3), (d0.saturating_sub(1), d0), (2, 1), (n.saturating_sub(1), n), (n, n + 1), (0, 0)];
        if !light { ranges.extend(vec![(0, d0), (1, d0), (0, n), (0, row), (row, 2 * row)]); }
        ranges.dedup();
        for (st, en) in ranges { if slice_affordable(s, st, en) { v.push(format!("slice {a} {st} {en}")); } }
        let mut lists = vec![vec![0], vec![d0.saturating_sub(1)], vec![0, d0.saturating_sub(1)], vec![d0.saturating_sub(1), 0], vec![d0], vec![0, 1], vec![1, 0, 1], vec![]];
        if !light { lists.push((0..d0.min(40)).rev().collect()); }
        if indices_affordable(s) { for l in lists { v.push(format!("indices_at {a} {}", show_list(&l))); } }
    }
    v
}

/// emit the probe sets of the members of a group round-robin (member 0 case 0, member 1 case 0, ..., member 0 case 1, ...):
/// every call directly follows a call on ANOTHER member, in every cyclic order when `reversed` is run as well
fn emit_interleaved(group: &[Vec<usize>], out: &mut dyn FnMut(String)) {
    let sets: Vec<Vec<String>> = group.iter().map(|s| probe_cases(s, s.iter().product::<usize>() > 5000)).collect();
    let m = sets.iter().map(Vec::len).max().unwrap_or(0);
    for i in 0..m { for set in &sets { if !set.is_empty() { out(set[i % set.len()].clone()); } } }
}

/// groups of shapes that collide under a key a cache could plausibly use: the weak polynomial hashes of lib.rs
/// (multipliers 31 .. 257, any seed), the same hashes started at 0 across RANKS, 8- / 16-bit packed axis lengths, and
/// fingerprints that ignore the order or the grouping of the axes (sum / product / xor / sorted / unit axes dropped)
fn c02_collision_groups(thorough: bool) -> Vec<Vec<Vec<usize>>> {
    let mut g: Vec<Vec<Vec<usize>>> = collision_shape_pairs().into_iter().map(|(a, b)| vec![a, b]).collect();
    for &m in &[31usize, 33, 37, 131, 257] {
        g.push(vec![vec![3, 1], vec![1, 1 + 2 * m]]);                    // two steps apart
        g.push(vec![vec![1, 3], vec![m + 3]]);                           // across ranks (hash seeded with 0)
        g.push(vec![vec![2, 3], vec![2 * m + 3]]);
        g.push(vec![vec![1, 2, 3], vec![m + 2, 3], vec![0, 2 + m, 3]]);
        if thorough { g.push(vec![vec![2, 2, 2, 2], vec![2, 1, 2 + m, 2], vec![1, 2 + m, 2, 2], vec![2, 2, 1, 2 + m]]); }
    }
    // packed keys: the axis lengths modulo 2^8 / 2^16 agree
    g.push(vec![vec![2, 3], vec![2, 259], vec![258, 3]]);
    g.push(vec![vec![1, 2, 3], vec![1, 258, 3], vec![257, 2, 3], vec![1, 2, 259]]);
    g.push(vec![vec![5], vec![261], vec![65541]]);
    g.push(vec![vec![2, 3], vec![2, 65539]]);
    g.push(vec![vec![3, 2], vec![65539, 2]]);
    // order- / grouping-blind fingerprints
    g.push(vec![vec![2, 6], vec![3, 4], vec![4, 3], vec![6, 2], vec![12], vec![1, 12], vec![12, 1], vec![2, 2, 3], vec![2, 3, 2], vec![3, 2, 2]]);
    g.push(vec![vec![2, 3, 4], vec![4, 3, 2], vec![3, 4, 2], vec![2, 4, 3], vec![24], vec![4, 6], vec![6, 4], vec![3, 3, 3]]);
    g.push(vec![vec![2, 3], vec![3, 2], vec![6], vec![1, 6], vec![6, 1], vec![1, 2, 3], vec![2, 3, 1], vec![2, 1, 3], vec![1, 5], vec![5, 1], vec![4, 1, 1]]);
    g.push(vec![vec![5, 7], vec![7, 5], vec![35], vec![6, 6], vec![4, 8], vec![8, 4]]);
    g.push(vec![vec![16, 17], vec![17, 16], vec![272], vec![2, 136], vec![136, 2], vec![1, 32], vec![32, 1], vec![0, 33], vec![33, 0]]);
    g
}

/// hidden state: colliding shapes back to back (both orders, interleaved), and colliding ARGUMENTS on one array
fn gen_hidden(thorough: bool, out: &mut dyn FnMut(String)) {
    for g in c02_collision_groups(thorough) {
        emit_interleaved(&g, out);
        if g.len() > 2 { let r: Vec<Vec<usize>> = g.iter().rev().cloned().collect(); emit_interleaved(&r, out); }
    }
    // argument fingerprints: (a, b) and (a-1, b+m) as coordinates, as a range and as an index list; permutations of a list
    for &m in &[31usize, 33, 37, 131, 257] {
        let w = m + 9;
        for (x, y) in [(1usize, 0usize), (2, 1), (3, 7), (1, 8)] {
            let (p, q) = (format!("{x},{y}"), format!("{},{}", x - 1, y + m));
            let a2 = tag(&[4, w]);
            for op in ["index_at", "at", "op_index_coords"] {
                for t in [&p, &q, &p] { out(format!("{op} {a2} {t}")); }
            }
            for a in [tag(&[w]), tag(&[w, 2]), tag(&[w, 1, 3])] {
                for t in [&p, &q, &p] { out(format!("indices_at {a} {t}")); }
                // ranges (x, y+9) and (x-1, y+9+m)
                let (r1, r2) = ((x, y + 9), (x - 1, y + 9 + m));
                for (st, en) in [r1, r2, r1] { out(format!("slice {a} {st} {en}")); }
            }
            // flat positions i and i + m, i*m
            for a in [tag(&[4, w]), tag(&[w, 4])] {
                for i in [x, x + m, x, x * m + y, y * m + x] { out(format!("index_to_coord {a} {i}")); out(format!("op_index {a} {i}")); }
            }
        }
    }
    for a in [tag(&[5]), tag(&[5, 2]), tag(&[4, 3, 2])] {
        for p in permutations(4) { out(format!("indices_at {a} {}", show_list(&p))); }
        for p in permutations(3) { out(format!("indices_at {a} {}", show_list(&p))); out(format!("indices_at {a} {}", show_list(&p.iter().map(|x| x + 1).collect::<Vec<_>>()))); }
    }
    for p in permutations(3) {
        // the same coordinate multiset in every order, in a cube and in a box whose axes differ
        for a in [tag(&[3, 3, 3]), tag(&[3, 4, 5])] { for op in ["index_at", "at", "op_index_coords"] { out(format!("{op} {a} {}", show_list(&p))); } }
    }
}

/// exact values: `c + 2^8`, `c + 2^16`, `c + 2^32`, `c + 3 * 2^32` in place of a valid coordinate / position / range end /
/// list entry — a range check done on a narrowed value accepts them.  Every failing call is directly followed by the valid one.
fn gen_narrow(thorough: bool, out: &mut dyn FnMut(String)) {
    let mut sh = shapes(1, 3, 1, 3);
    sh.extend(vec![vec![0], vec![2, 0], vec![0, 2], vec![3, 4], vec![5], vec![7, 2], vec![2, 3, 4], vec![2, 2, 2, 2], vec![2, 1, 2, 1, 2], vec![3, 256], vec![300, 2], vec![2, 300], vec![70000], vec![2, 70000]]);
    if thorough { sh.extend(shapes(4, 4, 1, 2)); sh.extend(vec![vec![4, 4, 4], vec![65537, 2], vec![2, 3, 2, 3, 2, 3]]); }
    for s in &sh {
        let a = tag(s);
        let n: usize = s.iter().product();
        let coords: Vec<Vec<usize>> = if n == 0 { vec![vec![0; s.len()]] } else if n <= 64 { boxes(s) } else {
            let comp: Vec<Vec<usize>> = s.iter().map(|&d| { let mut c = vec![0usize, 1, d / 2, d - 1]; c.retain(|&x| x < d); c.sort(); c.dedup(); c }).collect();
            let mut cs: Vec<Vec<usize>> = vec![vec![]];
            for c in &comp { let mut nx = vec![]; for p in &cs { for &x in c { let mut q = p.clone(); q.push(x); nx.push(q); } } cs = nx; }
            cs
        };
        for c in &coords {
            let valid = show_list(c);
            for k in 0..s.len() {
                for (j, img) in narrowing_images(c[k]).into_iter().enumerate() {
                    let mut b = c.clone(); b[k] = img;
                    let t = show_list(&b);
                    out(format!("index_at {a} {t}")); out(format!("index_at {a} {valid}"));
                    out(format!("at {a} {t}"));
                    if j >= 2 || n <= 12 { out(format!("op_index_coords {a} {t}")); out(format!("at {a} {valid}")); }
                }
            }
            if s.len() > 1 {
                for j in 0..4 {
                    let b: Vec<usize> = c.iter().map(|&x| narrowing_images(x)[j]).collect();
                    let t = show_list(&b);
                    out(format!("index_at {a} {t}")); out(format!("at {a} {t}")); out(format!("op_index_coords {a} {t}")); out(format!("op_index_coords {a} {valid}"));
                }
            }
        }
        // flat positions
        let pos: Vec<usize> = if n <= 64 { (0..n.max(1)).collect() } else { vec![0, 1, s[s.len() - 1], n / 2, n - 1] };
        for i in pos {
            for img in narrowing_images(i) {
                out(format!("index_to_coord {a} {img}")); out(format!("index_to_coord {a} {i}"));
                out(format!("op_index {a} {img}")); out(format!("op_index {a} {i}"));
            }
        }
        // ranges and index lists
        if n <= 64 || s == &vec![300, 2] || s == &vec![3, 256] {
            let d0 = s[0];
            let ranges: Vec<(usize, usize)> = if n <= 8 { boxes(&[n + 1, n + 1]).into_iter().filter(|r| r[0] <= r[1]).map(|r| (r[0], r[1])).collect() }
                else { vec![(0, 1), (1, 2), (0, d0), (1, d0), (0, 2), (d0 - 1, d0)] };
            for (st, en) in ranges {
                for j in 0..4 {
                    let (is, ie) = (narrowing_images(st)[j], narrowing_images(en)[j]);
                    out(format!("slice {a} {st} {ie}")); out(format!("slice {a} {is} {ie}")); out(format!("slice {a} {st} {en}"));
                    if is <= en { out(format!("slice {a} {is} {en}")); }
                }
            }
            let lists: Vec<Vec<usize>> = if d0 == 0 { vec![vec![0]] } else { vec![vec![0], vec![d0 - 1], vec![0, d0 - 1], vec![d0 - 1, 0, d0 / 2]] };
            for l in lists {
                for k in 0..l.len() { for img in narrowing_images(l[k]) {
                    let mut b = l.clone(); b[k] = img;
                    out(format!("indices_at {a} {}", show_list(&b))); out(format!("indices_at {a} {}", show_list(&l)));
                } }
            }
        }
    }
}

/// exact lengths: EVERY axis length 1..=300 in the trailing, an inner and the leading position, with every flat position
/// (a division replaced by a multiplication with a float reciprocal is first wrong at length 49) and every in-range
/// coordinate vector of the 2-D shapes; thorough: lengths up to 1000 and longer leading axes (more multiples of the length)
fn gen_sweep(thorough: bool, out: &mut dyn FnMut(String)) {
    let mut flat_all = |s: &[usize], coords: bool| {
        let a = tag(s);
        let n: usize = s.iter().product();
        for i in 0..n + 2 { out(format!("index_to_coord {a} {i}")); }
        if coords {
            for c in boxes(s) { out(format!("index_at {a} {}", show_list(&c))); }
            for k in 0..s.len() { let mut b: Vec<usize> = s.iter().map(|d| d - 1).collect(); b[k] = s[k]; out(format!("index_at {a} {}", show_list(&b))); }
            out(format!("at {a} {}", show_list(&s.iter().map(|d| d - 1).collect::<Vec<_>>())));
            out(format!("op_index {a} {}", n - 1));
        }
    };
    for d in 1..=300usize {
        flat_all(&[2, d], true);
        flat_all(&[3, d, 2], false);
        flat_all(&[d, 2], true);
        if thorough { flat_all(&[5, d], true); flat_all(&[2, 2, d], false); flat_all(&[2, d, 3, 1], false); }
    }
    // counts exactly 31, 37, 1000, 1001 and primes above 17 in every position of rank 3 / as the whole array
    for d in [19usize, 23, 29, 31, 37, 41, 43, 47, 49, 53, 59, 61, 97, 98, 101, 103, 107, 127, 131, 161, 187, 196, 197, 211, 251, 256, 257] {
        flat_all(&[d], true); flat_all(&[2, 3, d], d <= 61); flat_all(&[d, 3, 2], d <= 61);
        if thorough || d <= 61 { flat_all(&[7, d], false); }
    }
    for d in [1000usize, 1001, 1021, 1024] { flat_all(&[d], true); flat_all(&[2, d], false); flat_all(&[d, 2], false); }
    if thorough {
        for d in 301..=1000usize { flat_all(&[2, d], false); }
        for d in (1001..=5000usize).step_by(7) { flat_all(&[2, d], false); }
    }
}

/// ranks 6..8 (the exhaustive scope stops at rank 5)
fn gen_high_rank(thorough: bool, out: &mut dyn FnMut(String)) {
    let mut v = vec![vec![2; 6], vec![1, 2, 1, 2, 1, 2, 1], vec![2, 1, 1, 1, 1, 1, 1, 2], vec![1; 8], vec![1, 1, 2, 0, 1, 2]];
    if thorough { v.extend(vec![vec![2; 7], vec![1, 2, 2, 1, 2, 2, 1, 2]]); }
    for s in &v { emit_full_box(s, out); }
    let mut b = vec![vec![2; 7], vec![2; 8], vec![3, 2, 2, 2, 2, 3], vec![1, 2, 1, 3, 1, 2, 1, 2], vec![2, 3, 1, 2, 3, 1, 2], vec![3, 1, 2, 2, 1, 2, 2, 3]];
    if thorough { b.extend(vec![vec![3; 7], vec![2, 2, 2, 3, 3, 2, 2, 2], vec![2; 11]]); }
    for s in &b { emit_big(s, out); }
}

/// huge shapes (16 384 .. 140 000 elements; one axis above 65 536; extents that are not multiples of 32).  The C02 model is
/// linear in the rank for positions / coordinates and linear in the position for element reads, so the MODEL answers these
/// cases directly (no native oracle is needed); the positions are a sample: the first and last 40, every multiple of
/// 2^12 and of the row sizes +-1, and seeded random ones
fn gen_huge(thorough: bool, rng: &mut Rng, out: &mut dyn FnMut(String)) {
    let mut sh = huge_shapes();
    sh.extend(vec![vec![65537], vec![3, 65537], vec![65537, 2], vec![2, 2, 2, 2, 2, 2, 2, 2, 2, 2, 2, 2, 2, 2], vec![257, 257], vec![4, 181, 181]]);
    if thorough { sh.extend(vec![vec![140001], vec![7, 131, 151], vec![1, 66000, 2, 1], vec![3, 5, 7, 11, 13, 2]]); }
    for s in &sh {
        let a = tag(s);
        let n: usize = s.iter().product();
        let mut pos: Vec<usize> = (0..40).chain(n - 40..n + 2).collect();
        let mut step = 4096; while step < n { for d in [step - 1, step, step + 1] { pos.push(d); } step += 4096; }
        let mut stride = 1usize;
        for &d in s.iter().rev() {
            stride *= d;
            if stride > 1 && stride < n { for k in [1, 2, 3, n / stride / 2, n / stride - 1] { if k >= 1 && k * stride <= n { pos.push(k * stride - 1); pos.push(k * stride); } } }
        }
        for _ in 0..(if thorough { 1500 } else { 250 }) { pos.push(rng.below(n)); }
        pos.retain(|&p| p < n + 2); pos.sort(); pos.dedup();
        for &i in &pos {
            out(format!("index_to_coord {a} {i}"));
            out(format!("op_index {a} {i}"));
            if i < n {
                // the coordinate vector of the position (plain div / mod, used as an INPUT only; the model answers)
                let mut c = vec![0; s.len()]; let mut r = i;
                for k in (0..s.len()).rev() { c[k] = r % s[k]; r /= s[k]; }
                let t = show_list(&c);
                out(format!("index_at {a} {t}")); out(format!("at {a} {t}")); out(format!("op_index_coords {a} {t}"));
                if i % 7 == 0 { let k = i % s.len(); let mut b = c.clone(); b[k] = s[k]; out(format!("index_at {a} {}", show_list(&b))); out(format!("index_at {a} {t}")); }
            }
        }
        emit_malformed(s, out);
        let d0 = s[0];
        for (st, en) in [(0, 1), (1, 2), (d0 - 1, d0), (1, 3), (0, 3), (3, 1), (n - 1, n), (n, n + 1), (d0, d0 + 1), (n - 3, n), (7, 9)] { if slice_affordable(s, st, en) { out(format!("slice {a} {st} {en}")); } }
        if indices_affordable(s) { for l in [vec![0], vec![d0 - 1], vec![d0 - 1, 0], vec![d0], vec![1, 1]] { out(format!("indices_at {a} {}", show_list(&l))); } }
    }
}

/// extension: `slice(range)` and `indices_at(indices)`; answers are whole arrays (`shape:elems`)
fn gen_ext(tier: &str, rng: &mut Rng, out: &mut dyn FnMut(String)) {
    let thorough = tier == "thorough";
    let mut sh = if thorough { shapes(1, 4, 1, 4) } else { shapes(1, 4, 1, 3) };
    // an axis of length 5 in every position of rank 1..3 (windows 2..4 that differ from the row size)
    for other in 1..=3usize {
        sh.push(vec![5]);
        sh.extend(vec![vec![5, other], vec![other, 5], vec![5, other, 2], vec![2, 5, other], vec![other, 2, 5], vec![5, 2, other]]);
    }
    sh.push(vec![5, 5]);
    // rank 0, the empty array, zero-length axes in every position
    sh.extend(vec![vec![], vec![0], vec![0, 0], vec![0, 2], vec![2, 0], vec![3, 0], vec![0, 3, 2], vec![2, 0, 3], vec![2, 3, 0], vec![1, 0], vec![0, 1]]);
    sh.extend(zero_shapes());
    sh.sort(); sh.dedup();
    for s in &sh {
        let a = tag(s);
        let n: usize = s.iter().product();
        let d0 = s.first().copied().unwrap_or(0);
        // ---- slice: every range 0 <= start, end <= len+1 on small arrays (valid, start > end, end > len);
        // on larger ones every start with every window length 0..=shape[0]+2, the ends len-1, len, len+1 and end = start-1
        if n <= 12 {
            for st in 0..=n + 1 { for en in 0..=n + 1 { out(format!("slice {a} {st} {en}")); } }
        } else {
            for st in 0..=n + 1 {
                for w in 0..=d0 + 2 { out(format!("slice {a} {st} {}", st + w)); }
                for en in [n - 1, n, n + 1] { if en > st + d0 + 2 || en < st { out(format!("slice {a} {st} {en}")); } }
                if st > 0 && st - 1 != n - 1 && st - 1 != n { out(format!("slice {a} {st} {}", st - 1)); }
            }
        }
        out(format!("slice {a} 0 {}", n + 100000));
        out(format!("slice {a} {} {}", n + 100000, n + 100001));
        // ---- indices_at: every index list of length <= 3 over 0..=shape[0] (shape[0] itself is out of range),
        // the reversed and the doubled full list, a far-out index
        let vals = d0 + 1 + (n == 0) as usize;
        for l in 0..=3usize {
            for c in boxes(&vec![vals; l]) { out(format!("indices_at {a} {}", show_list(&c))); }
        }
        let full: Vec<usize> = (0..d0).rev().collect();
        let dbl: Vec<usize> = (0..d0).chain(0..d0).collect();
        out(format!("indices_at {a} {}", show_list(&full)));
        out(format!("indices_at {a} {}", show_list(&dbl)));
        out(format!("indices_at {a} {}", d0 + 1000));
        out(format!("indices_at {a} 0,{}", d0 + 1000));
    }
    // seeded random stream beyond the scope: rank <= 5, length <= 6
    let n_rand = if thorough { 3000 } else { 400 };
    for _ in 0..n_rand {
        let s = rng.shape(1, 5, 6);
        let a = tag_off(&s, rng.below(1000) as i64);
        let n: usize = s.iter().product();
        let st = if rng.below(3) == 0 { rng.below(n + 2) } else { rng.below(s[0] + 2) };
        let en = match rng.below(4) { 0 => rng.below(n + 2), 1 => st + 1, _ => st + rng.below(s[0] + 2) };
        out(format!("slice {a} {st} {en}"));
        let l = rng.below(7);
        let idx: Vec<usize> = (0..l).map(|_| { let extra = (rng.below(8) == 0) as usize; rng.below(s[0] + extra) }).collect();
        out(format!("indices_at {a} {}", show_list(&idx)));
    }
}

/// `slice` / `indices_at` on the big shapes: a grid of starts x windows around every threshold of the code
/// (0, 1, 2, shape[0]-1, shape[0], shape[0]+1, the row size, the middle, the end) instead of every range
fn gen_ext_big(tier: &str, rng: &mut Rng, out: &mut dyn FnMut(String)) {
    let thorough = tier == "thorough";
    for s in c02_big_shapes(thorough) {
        let a = tag(&s);
        let n: usize = s.iter().product();
        let d0 = s[0];
        let row = n / d0;
        let mut starts = vec![0, 1, 2, 3, d0 - 1, d0, d0 + 1, row, row + 1, 2 * row, n / 2, n.saturating_sub(d0), n.saturating_sub(row), n.saturating_sub(2), n - 1, n, n + 1];
        starts.push(rng.below(n + 1)); starts.push(rng.below(d0 + 1));
        starts.sort(); starts.dedup();
        for &st in &starts {
            let mut wins = vec![0, 1, 2, 3, 7, 8, d0 - 1, d0, d0 + 1, row, row + 1, n.saturating_sub(st), n.saturating_sub(st) + 1, n];
            wins.push(rng.below(d0 + 2));
            wins.sort(); wins.dedup();
            for w in wins { out(format!("slice {a} {st} {}", st + w)); }
            if st > 0 { out(format!("slice {a} {st} {}", st - 1)); out(format!("slice {a} {st} 0")); }
        }
        let full: Vec<usize> = (0..d0).collect();
        let rev: Vec<usize> = (0..d0).rev().collect();
        let dbl: Vec<usize> = (0..d0).chain(0..d0).collect();
        let every_other: Vec<usize> = (0..d0).step_by(2).collect();
        let mut lists: Vec<Vec<usize>> = vec![vec![], vec![0], vec![d0 - 1], vec![d0], vec![0, d0], vec![d0 - 1, 0, d0 - 1], full, rev, dbl, every_other, vec![d0 + 1000], vec![n], vec![n - 1]];
        for _ in 0..(if thorough { 6 } else { 2 }) {
            let l = 1 + rng.below(d0.min(24) + 3);
            lists.push((0..l).map(|_| { let extra = (rng.below(16) == 0) as usize; rng.below(d0 + extra) }).collect());
        }
        for l in lists { out(format!("indices_at {a} {}", show_list(&l))); }
    }
}

// ================================================================ executor

/// image of a tag in another element type: a value-blind operation must move the IMAGES exactly as it moves the i64 tags
trait Img: ArrayElement {
    const NAME: &'static str;
    fn img(t: i64) -> Self;
    fn same(a: &Self, b: &Self) -> bool { a == b }
}
impl Img for i64 { const NAME: &'static str = "i64"; fn img(t: i64) -> Self { t } }
impl Img for u8 { const NAME: &'static str = "u8"; fn img(t: i64) -> Self { tag_u8(t) } }
impl Img for i8 { const NAME: &'static str = "i8"; fn img(t: i64) -> Self { tag_i8(t) } }
impl Img for bool { const NAME: &'static str = "bool"; fn img(t: i64) -> Self { t % 2 != 0 } }
impl Img for u16 { const NAME: &'static str = "u16"; fn img(t: i64) -> Self { t.rem_euclid(65521) as u16 } }
impl Img for i32 { const NAME: &'static str = "i32"; fn img(t: i64) -> Self { (t % 2_000_000_011) as i32 } }
impl Img for usize { const NAME: &'static str = "usize"; fn img(t: i64) -> Self { t.unsigned_abs() as usize } }
/// tag 0 is NEGATIVE zero; compared bit-wise
impl Img for f64 { const NAME: &'static str = "f64"; fn img(t: i64) -> Self { tag_f64z(t) } fn same(a: &Self, b: &Self) -> bool { a.to_bits() == b.to_bits() } }
impl Img for f32 { const NAME: &'static str = "f32"; fn img(t: i64) -> Self { if t == 0 { -0.0 } else { (t % 16_000_000) as f32 } } fn same(a: &Self, b: &Self) -> bool { a.to_bits() == b.to_bits() } }
impl Img for String { const NAME: &'static str = "String"; fn img(t: i64) -> Self { format!("s{t}") } }

#[derive(Clone, Debug)]
enum Out<V> { Ok(V), Err(&'static str), Panic }
fn run<V>(f: impl FnOnce() -> Result<V, ArrayError>) -> Out<V> {
    match catch_unwind(AssertUnwindSafe(f)) { Ok(Ok(v)) => Out::Ok(v), Ok(Err(e)) => Out::Err(err_name(&e)), Err(_) => Out::Panic }
}

#[derive(Clone)]
enum Call { IndexAt(Vec<usize>), ToCoord(usize), At(Vec<usize>), OpIdx(usize), OpCoords(Vec<usize>), Slice(usize, usize), IndicesAt(Vec<usize>) }
#[derive(Clone, Debug)]
enum Ans<T> { Pos(usize), Coord(Vec<usize>), Elem(T), Arr { shape: Vec<usize>, elems: Vec<T>, consistent: bool } }

fn ans_arr<T: ArrayElement>(a: Array<T>) -> Ans<T> { Ans::Arr { consistent: consistent(&a), shape: a.get_shape().unwrap(), elems: a.get_elements().unwrap() } }

/// the real call.  `chained` = the same method on `Ok(array)` through `impl ArrayIndexing<T> for Result<Array<T>, ArrayError>`
/// (`None`: the operators have no such form)
fn call<T: Img>(a: &Array<T>, c: &Call, chained: bool) -> Option<Out<Ans<T>>> {
    let r = || -> Result<Array<T>, ArrayError> { Ok(a.clone()) };
    Some(match (c, chained) {
        (Call::IndexAt(v), false) => run(|| a.index_at(v).map(Ans::Pos)),
        (Call::IndexAt(v), true) => { let r = r(); run(|| r.index_at(v).map(Ans::Pos)) }
        (Call::ToCoord(i), false) => run(|| a.index_to_coord(*i).map(Ans::Coord)),
        (Call::ToCoord(i), true) => { let r = r(); run(|| r.index_to_coord(*i).map(Ans::Coord)) }
        (Call::At(v), false) => run(|| a.at(v).map(Ans::Elem)),
        (Call::At(v), true) => { let r = r(); run(|| r.at(v).map(Ans::Elem)) }
        (Call::OpIdx(i), false) => run(|| Ok(Ans::Elem(a[*i].clone()))),
        (Call::OpCoords(v), false) => run(|| Ok(Ans::Elem(a[&v[..]].clone()))),
        (Call::Slice(s, e), false) => run(|| a.slice(*s..*e).map(ans_arr)),
        (Call::Slice(s, e), true) => { let r = r(); run(|| r.slice(*s..*e).map(ans_arr)) }
        (Call::IndicesAt(l), false) => run(|| a.indices_at(l).map(ans_arr)),
        (Call::IndicesAt(l), true) => { let r = r(); run(|| r.indices_at(l).map(ans_arr)) }
        (Call::OpIdx(_), true) | (Call::OpCoords(_), true) => return None,
    })
}

/// protocol text of the canonical (plain receiver, i64) answer
fn show_out(o: &Out<Ans<i64>>) -> String {
    match o {
        Out::Panic => "panic".to_string(),
        Out::Err(e) => format!("err {e}"),
        Out::Ok(Ans::Pos(p)) => format!("ok {p}"),
        Out::Ok(Ans::Coord(c)) => format!("ok {}", show_list(c)),
        Out::Ok(Ans::Elem(v)) => format!("ok {v}"),
        Out::Ok(Ans::Arr { shape, elems, consistent }) => {
            let t = format!("{}:{}", show_list(shape), show_list(elems));
            if *consistent { format!("ok {t}") } else { format!("inconsistent {t}") }
        }
    }
}

/// does the answer `v` on the `T` image agree with the canonical answer `b` on the i64 tags?
/// same outcome class (any two errors agree), same position / coordinates / shape, and every element is the image of the tag
fn agree<T: Img>(b: &Out<Ans<i64>>, v: &Out<Ans<T>>) -> bool {
    match (b, v) {
        (Out::Panic, Out::Panic) | (Out::Err(_), Out::Err(_)) => true,
        (Out::Ok(b), Out::Ok(v)) => match (b, v) {
            (Ans::Pos(x), Ans::Pos(y)) => x == y,
            (Ans::Coord(x), Ans::Coord(y)) => x == y,
            (Ans::Elem(x), Ans::Elem(y)) => T::same(&T::img(*x), y),
            (Ans::Arr { shape: s1, elems: e1, consistent: c1 }, Ans::Arr { shape: s2, elems: e2, consistent: c2 }) =>
                s1 == s2 && c1 == c2 && e1.len() == e2.len() && e1.iter().zip(e2).all(|(x, y)| T::same(&T::img(*x), y)),
            _ => false,
        },
        _ => false,
    }
}
fn brief<T: Img>(v: &Out<Ans<T>>) -> String { truncate(&format!("{v:?}"), 200) }

/// the case lines of one array follow each other: the arrays built for the last array argument are kept, per element type
struct Cache { key: String, shape: Vec<usize>, tags: Vec<i64>, arrs: HashMap<TypeId, Rc<dyn Any>> }
thread_local! { static CACHE: RefCell<Cache> = RefCell::new(Cache { key: String::new(), shape: vec![], tags: vec![], arrs: HashMap::new() }); }
fn cached<T: Img + 'static>(key: &str) -> Rc<Array<T>> {
    CACHE.with(|c| {
        let mut c = c.borrow_mut();
        if c.key != key || (c.key.is_empty() && c.arrs.is_empty()) {
            let (s, e) = parse_arr_raw(key);
            *c = Cache { key: key.to_string(), shape: s, tags: e, arrs: HashMap::new() };
        }
        if !c.arrs.contains_key(&TypeId::of::<T>()) {
            // built WITHOUT going through any operation under test other than `Array::new`
            let a: Array<T> = Array::new(c.tags.iter().map(|&t| T::img(t)).collect(), c.shape.clone()).expect("harness: array literal");
            c.arrs.insert(TypeId::of::<T>(), Rc::new(a));
        }
        c.arrs[&TypeId::of::<T>()].clone().downcast::<Array<T>>().expect("harness: cache type")
    })
}

/// one element type: plain and chained receiver against the canonical answer; `Some(text)` = a divergence
fn variant<T: Img + 'static>(key: &str, c: &Call, base: &Out<Ans<i64>>, plain: bool, chained: bool) -> Option<String> {
    let a = cached::<T>(key);
    if plain {
        let v = call(&*a, c, false)?;
        if !agree(base, &v) {
            return Some(if T::NAME == "i64" { format!("REPEAT-DIVERGENCE the same call a second time gives {}", brief(&v)) }
                        else { format!("TYPE-DIVERGENCE element type {} gives {}", T::NAME, brief(&v)) });
        }
    }
    if chained {
        if let Some(v) = call(&*a, c, true) {
            if !agree(base, &v) { return Some(format!("RECEIVER-DIVERGENCE the call on Ok(array) (element type {}) gives {}", T::NAME, brief(&v))); }
        }
    }
    None
}

/// A-B-A: the previous case (array, call, its answer).  After the first call of the current case B the previous case A
/// is run again and must give the answer it gave before B — an operation whose answer depends on the call before it fails here.
struct Prev { line: String, arr: Rc<Array<i64>>, call: Call, ans: Out<Ans<i64>> }
thread_local! { static PREV: RefCell<Option<Prev>> = const { RefCell::new(None) }; }

fn exec(op: &str, args: &[&str], expected: &str) -> Option<Verdict> {
    let key = args[0];
    let a = cached::<i64>(key);
    let c = match op {
        "slice" => Call::Slice(args[1].parse().ok()?, args[2].parse().ok()?),
        "indices_at" => Call::IndicesAt(parse_usize_list(args[1])),
        "index_at" => Call::IndexAt(parse_usize_list(args[1])),
        "index_to_coord" => Call::ToCoord(args[1].parse().ok()?),
        "at" => Call::At(parse_usize_list(args[1])),
        "op_index" => Call::OpIdx(args[1].parse().ok()?),
        "op_index_coords" => Call::OpCoords(parse_usize_list(args[1])),
        _ => return None,
    };
    // canonical answer: plain receiver, i64 tags
    let base = call(&*a, &c, false)?;
    let mut observed = show_out(&base);
    // A-B-A: re-run the previous case right after the first call of this one
    let aba = PREV.with(|p| {
        let p = p.borrow();
        let p = p.as_ref()?;
        let again = call(&*p.arr, &p.call, false)?;
        if agree(&p.ans, &again) { None } else { Some(format!("ABA-DIVERGENCE the previous case `{}` answered {} before this call and {} after it", p.line, truncate(&show_out(&p.ans), 120), truncate(&show_out(&again), 120))) }
    });
    PREV.with(|p| *p.borrow_mut() = Some(Prev { line: format!("{op} {}", args.join(" ")), arr: a.clone(), call: c.clone(), ans: base.clone() }));
    // robustness streams: the same call a second time, the call on Ok(array), and the element-type sweep.
    // Arrays of up to 300 elements: every type on both receivers; larger ones: i64 / u8 on both, i8 / bool / f64 plain.
    let small = a.len().unwrap() <= 300;
    let d = aba.or_else(|| variant::<i64>(key, &c, &base, true, true))
        .or_else(|| variant::<u8>(key, &c, &base, true, true))
        .or_else(|| variant::<f64>(key, &c, &base, true, small))
        .or_else(|| variant::<i8>(key, &c, &base, true, small))
        .or_else(|| variant::<bool>(key, &c, &base, true, small))
        .or_else(|| if small { variant::<u16>(key, &c, &base, true, true) } else { None })
        .or_else(|| if small { variant::<i32>(key, &c, &base, true, true) } else { None })
        .or_else(|| if small { variant::<f32>(key, &c, &base, true, true) } else { None })
        .or_else(|| if small { variant::<usize>(key, &c, &base, true, true) } else { None })
        .or_else(|| if small { variant::<String>(key, &c, &base, true, true) } else { None });
    if let Some(d) = d { observed = format!("{d}; plain Array<i64> call: {}", truncate(&observed, 300)); }
    Some(compare_default(observed, expected))
}

/// non-trivial: array has at least two axes longer than one (so row-major order matters)
fn nontrivial(_op: &str, args: &[&str]) -> bool {
    let s = args[0].strip_prefix('i').map_or_else(|| parse_arr_raw(args[0]).0, |b| parse_usize_list(b.split('+').next().unwrap()));
    s.iter().filter(|&&d| d > 1).count() >= 2
}

fn main() {
    harness_main(Spec { prop: "C02", gen, exec, nontrivial, hang_secs: 20,
        rule: "exhaustive: every shape (rank<=4 len<=3 quick / len<=4 thorough; rank 5 len<=2 / <=3) + zero-length axes in every position x every flat index 0..len+1 x every coordinate vector of the box enlarged by one per axis, wrong-length vectors, far-out values; + seeded random shapes rank<=5 len<=6. Big shapes (lib big_shapes: axis lengths 7..17, element counts up to 4900; every axis length 7..17 in leading/inner/trailing position of rank 1..3; power-of-two axis lengths 8..2048 in non-leading positions; rank 5; seeded random rank<=5 len<=20 (thorough <=40)): every flat index 0..len+1, every in-range coordinate vector and the one-off border (one component = its axis length, the others in range; the all-equal corner). slice / indices_at: every shape rank<=4 len<=3 (<=4 thorough) + an axis of length 5 + rank 0 and zero-length axes x every range 0<=start,end<=len+1 (arrays of <=12 elements; larger: every start x windows 0..shape[0]+2 and the ends len-1,len,len+1,start-1) x every index list of length<=3 over 0..=shape[0], reversed/doubled full lists, far-out values; + seeded random rank<=5 len<=6; big shapes: a grid of starts x windows around 0,1,2,shape[0]-1..+1,row size,middle,end and full/reversed/doubled/strided/random index lists. EVERY case is executed on the plain Array<i64> receiver (the compared answer), a second time, on Ok(array) through the Result-receiver impl (methods; the operators have none), and on the u8 / i8 / bool / f64 (tag 0 = -0.0, bit-wise) images (arrays <= 300 elements: also u16, i32, f32, usize, String, all on both receivers); any divergence fails the case. PART 2: hidden state - groups of shapes that collide under weak polynomial hashes (multipliers 31..257, any seed, across ranks), 8-/16-bit packed axis lengths and order-/grouping-blind fingerprints are probed with every operation interleaved round-robin (both orders), colliding coordinate vectors / ranges / index lists and permutations on one array, and EVERY case re-runs the previous case after its own first call and demands the previous answer (A-B-A); exact values - narrowing images c+2^8, c+2^16, c+2^32, c+3*2^32 of every coordinate component, flat position, range end and index-list entry, each failing call directly followed by the valid one; exact lengths - every axis length 1..300 in trailing ([2,d]), inner ([3,d,2]) and leading ([d,2]) position with every flat position (thorough: to 1000 and sampled to 5000, [5,d], [2,2,d]), primes and 31/37/49/1000/1001 in rank 1..3; ranks 6..8 (full enlarged box on 2^6, 1-2-1-2-1-2-1, ...); huge shapes (16 384..196 611 elements, axes of 65 537 / 70 000, rank 14) with sampled positions (first/last 40, every multiple of 4096 and of every stride +-1, seeded random) answered by the model directly (its index model is linear), slice / indices_at there only where the quadratic model is affordable. distinct = distinct case lines; non-trivial = array with >=2 axes longer than 1" });
}
