//! C02 — coordinates <-> flat positions.  Exhaustive over shapes and the coordinate box enlarged by one.
use arrharness::*;

fn gen(tier: &str, seed: u64, out: &mut dyn FnMut(String)) {
    let mut shapes_all = if tier == "thorough" { shapes(1, 4, 1, 4) } else { shapes(1, 4, 1, 3) };
    shapes_all.extend(if tier == "thorough" { shapes(5, 5, 1, 3) } else { shapes(5, 5, 1, 2) });
    // zero-length axes: the empty array and shapes containing 0
    shapes_all.extend(vec![vec![0], vec![0, 2], vec![2, 0], vec![2, 0, 3]]);
    let mut rng = Rng::new(seed);
    let n_rand = if tier == "thorough" { 400 } else { 60 };
    for _ in 0..n_rand { let r = 1 + rng.below(5); shapes_all.push((0..r).map(|_| 1 + rng.below(6)).collect()); }
    for s in &shapes_all {
        let a = tag(s);
        let n: usize = s.iter().product();
        for i in 0..n + 2 {
            out(format!("index_to_coord {a} {i}"));
            out(format!("op_index {a} {i}"));
        }
        let dims: Vec<usize> = s.iter().map(|d| d + 1).collect();
        for c in boxes(&dims) {
            let c = show_list(&c);
            out(format!("index_at {a} {c}"));
            out(format!("at {a} {c}"));
            out(format!("op_index_coords {a} {c}"));
        }
        // wrong-length vectors: rank-1 and rank+1 (all zeros, and in-range-looking)
        let short: Vec<usize> = vec![0; s.len() - 1];
        let long: Vec<usize> = vec![0; s.len() + 1];
        for c in [short, long] {
            let c = show_list(&c);
            out(format!("index_at {a} {c}"));
            out(format!("at {a} {c}"));
            out(format!("op_index_coords {a} {c}"));
        }
        // far out of range
        let far: Vec<usize> = s.iter().map(|d| d + 1000).collect();
        out(format!("index_at {a} {}", show_list(&far)));
        out(format!("index_to_coord {a} {}", n + 100000));
    }
    gen_ext(tier, &mut rng, out);
}

/// extension: `slice(range)` and `indices_at(indices)`; answers are whole arrays (`shape:elems`)
fn gen_ext(tier: &str, rng: &mut Rng, out: &mut dyn FnMut(String)) {
    let thorough = tier == "thorough";
    let mut sh = if thorough { shapes(1, 4, 1, 4) } else { shapes(1, 4, 1, 3) };
    // an axis of length 5 in every position of rank 1..3 (windows 2..4 that differ from the row size)
    for other in 1..=3usize {
        sh.push(vec![5]);
        sh.extend(vec![vec![5, other], vec![other, 5], vec![5, other, 2], vec![2, 5, other], vec![other, 2, 5], vec![5, 2, other]]);
    }
    sh.push(vec![5, 5]);
    // rank 0, the empty array, zero-length axes in every position
    sh.extend(vec![vec![], vec![0], vec![0, 0], vec![0, 2], vec![2, 0], vec![3, 0], vec![0, 3, 2], vec![2, 0, 3], vec![2, 3, 0], vec![1, 0], vec![0, 1]]);
    sh.sort(); sh.dedup();
    for s in &sh {
        let a = tag(s);
        let n: usize = s.iter().product();
        let d0 = s.first().copied().unwrap_or(0);
        // ---- slice: every range 0 <= start, end <= len+1 on small arrays (valid, start > end, end > len);
        // on larger ones every start with every window length 0..=shape[0]+2, the ends len-1, len, len+1 and end = start-1
        if n <= 12 {
            for st in 0..=n + 1 { for en in 0..=n + 1 { out(format!("slice {a} {st} {en}")); } }
        } else {
            for st in 0..=n + 1 {
                for w in 0..=d0 + 2 { out(format!("slice {a} {st} {}", st + w)); }
                for en in [n - 1, n, n + 1] { if en > st + d0 + 2 || en < st { out(format!("slice {a} {st} {en}")); } }
                if st > 0 && st - 1 != n - 1 && st - 1 != n { out(format!("slice {a} {st} {}", st - 1)); }
            }
        }
        out(format!("slice {a} 0 {}", n + 100000));
        out(format!("slice {a} {} {}", n + 100000, n + 100001));
        // ---- indices_at: every index list of length <= 3 over 0..=shape[0] (shape[0] itself is out of range),
        // the reversed and the doubled full list, a far-out index
        let vals = d0 + 1 + (n == 0) as usize;
        for l in 0..=3usize {
            for c in boxes(&vec![vals; l]) { out(format!("indices_at {a} {}", show_list(&c))); }
        }
        let full: Vec<usize> = (0..d0).rev().collect();
        let dbl: Vec<usize> = (0..d0).chain(0..d0).collect();
        out(format!("indices_at {a} {}", show_list(&full)));
        out(format!("indices_at {a} {}", show_list(&dbl)));
        out(format!("indices_at {a} {}", d0 + 1000));
        out(format!("indices_at {a} 0,{}", d0 + 1000));
    }
    // seeded random stream beyond the scope: rank <= 5, length <= 6
    let n_rand = if thorough { 3000 } else { 400 };
    for _ in 0..n_rand {
        let s = rng.shape(1, 5, 6);
        let a = tag_off(&s, rng.below(1000) as i64);
        let n: usize = s.iter().product();
        let st = if rng.below(3) == 0 { rng.below(n + 2) } else { rng.below(s[0] + 2) };
        let en = match rng.below(4) { 0 => rng.below(n + 2), 1 => st + 1, _ => st + rng.below(s[0] + 2) };
        out(format!("slice {a} {st} {en}"));
        let l = rng.below(7);
        let idx: Vec<usize> = (0..l).map(|_| { let extra = (rng.below(8) == 0) as usize; rng.below(s[0] + extra) }).collect();
        out(format!("indices_at {a} {}", show_list(&idx)));
    }
}

/// whole-array answer; every array the real crate returns also goes through the C01 monitor
fn arr_answer(r: Result<Array<i64>, ArrayError>) -> String {
    if let Ok(x) = &r { if !consistent(x) { return format!("inconsistent {}", show_arr(x)); } }
    res_arr(&r)
}

fn exec(op: &str, args: &[&str], expected: &str) -> Option<Verdict> {
    let a = parse_arr_i64(args[0]);
    let observed = match op {
        "slice" => { let s: usize = args[1].parse().ok()?; let e: usize = args[2].parse().ok()?; guarded(|| arr_answer(a.slice(s..e))) }
        "indices_at" => { let l = parse_usize_list(args[1]); guarded(|| arr_answer(a.indices_at(&l))) }
        "index_at" => { let c = parse_usize_list(args[1]); guarded(|| show_res(&a.index_at(&c), |v| v.to_string())) }
        "index_to_coord" => { let i: usize = args[1].parse().ok()?; guarded(|| show_res(&a.index_to_coord(i), |v| show_list(v))) }
        "at" => { let c = parse_usize_list(args[1]); guarded(|| show_res(&a.at(&c), |v| v.to_string())) }
        "op_index" => { let i: usize = args[1].parse().ok()?; guarded(|| format!("ok {}", a[i])) }
        "op_index_coords" => { let c = parse_usize_list(args[1]); guarded(|| format!("ok {}", a[&c[..]])) }
        _ => return None,
    };
    Some(compare_default(observed, expected))
}

/// non-trivial: array has at least two axes longer than one (so row-major order matters)
fn nontrivial(_op: &str, args: &[&str]) -> bool {
    let (s, _) = parse_arr_raw(args[0]);
    s.iter().filter(|&&d| d > 1).count() >= 2
}

fn main() {
    harness_main(Spec { prop: "C02", gen, exec, nontrivial, hang_secs: 20,
        rule: "exhaustive: every shape (rank<=4 len<=3 quick / len<=4 thorough; rank 5 len<=2 / <=3) x every flat index 0..len+1 x every coordinate vector of the box enlarged by one per axis, wrong-length vectors, far-out values; + seeded random shapes rank<=5 len<=6. slice / indices_at: every shape rank<=4 len<=3 (<=4 thorough) + an axis of length 5 + rank 0 and zero-length axes x every range 0<=start,end<=len+1 (arrays of <=12 elements; larger: every start x windows 0..shape[0]+2 and the ends len-1,len,len+1,start-1) x every index list of length<=3 over 0..=shape[0], reversed/doubled full lists, far-out values; + seeded random rank<=5 len<=6. distinct = distinct case lines; non-trivial = array with >=2 axes longer than 1" });
}
