//! C02 — coordinates <-> flat positions.  Exhaustive over shapes and the coordinate box enlarged by one, plus the
//! robustness streams of FRAMEWORK.md: big shapes (axis lengths 7..17, powers of two up to 1024, element counts beyond
//! 256 / 1024 / 4096), zero-length axes, the element-type sweep, both receivers, the same call twice.
//! Part 2 (after the third round of seeded changes): hidden state (colliding shapes / argument lists interleaved, A-B-A
//! re-runs in `exec`), huge shapes (16 384 .. 140 000 elements, an axis above 65 536), every axis length 1..300 in
//! leading / inner / trailing position with every flat position, narrowing images `c + 2^8 / 2^16 / 2^32` of
//! coordinates, positions, ranges and index lists, ranks 6..8.
//! Part 3 (after the fourth round): coordinates / positions / index-list entries whose product with a stride wraps modulo
//! 2^64 into the extent of the axis (`gen_wrap`), a soak of more than 65 536 distinct shapes on the one executor thread
//! (`soak`), arrays of more than 2^20 elements (`iota:<shape>`, judged by the harness-native reference `oracle`, which the
//! same run validates against the model on EVERY modelled case), the 12- / 3- / 32-byte element types.
use arrharness::*;
use std::sync::atomic::{AtomicUsize, Ordering as AtOrd};
use std::any::{Any, TypeId};
use std::cell::RefCell;
use std::collections::HashMap;
use std::rc::Rc;
use std::panic::{catch_unwind, AssertUnwindSafe};

// ================================================================ generator

/// the regular coordinate / position stream of one shape: every flat index 0..n+1, every coordinate vector of the box
/// enlarged by one per axis, wrong-length and far-out vectors (QUADRATIC in the box: small shapes only)
fn emit_full_box(s: &[usize], out: &mut dyn FnMut(String)) {
    let a = tag(s);
    let n: usize = s.iter().product();
    for i in 0..n + 2 {
        out(format!("index_to_coord {a} {i}"));
        out(format!("op_index {a} {i}"));
    }
    let dims: Vec<usize> = s.iter().map(|d| d + 1).collect();
    for c in boxes(&dims) {
        let c = show_list(&c);
        out(format!("index_at {a} {c}"));
        out(format!("at {a} {c}"));
        out(format!("op_index_coords {a} {c}"));
    }
    emit_malformed(s, out);
}

/// wrong-length vectors: rank-1 and rank+1 (all zeros, and in-range-looking); far out of range
fn emit_malformed(s: &[usize], out: &mut dyn FnMut(String)) {
    let a = tag(s);
    let n: usize = s.iter().product();
    let short: Vec<usize> = vec![0; s.len() - 1];
    let long: Vec<usize> = vec![0; s.len() + 1];
    for c in [short, long] {
        let c = show_list(&c);
        out(format!("index_at {a} {c}"));
        out(format!("at {a} {c}"));
        out(format!("op_index_coords {a} {c}"));
    }
    let far: Vec<usize> = s.iter().map(|d| d + 1000).collect();
    out(format!("index_at {a} {}", show_list(&far)));
    out(format!("index_to_coord {a} {}", n + 100000));
}

/// big shapes: every flat index 0..n+1, every IN-RANGE coordinate vector, and the one-off border (for every axis k every
/// vector with c[k] = shape[k] and the other components in range; the corner with every component = its axis length) —
/// linear in the element count instead of the whole enlarged box
fn emit_big(s: &[usize], out: &mut dyn FnMut(String)) {
    let a = tag(s);
    let n: usize = s.iter().product();
    for i in 0..n + 2 {
        out(format!("index_to_coord {a} {i}"));
        out(format!("op_index {a} {i}"));
    }
    let mut coord_case = |c: &[usize]| {
        let c = show_list(c);
        out(format!("index_at {a} {c}"));
        out(format!("at {a} {c}"));
        out(format!("op_index_coords {a} {c}"));
    };
    for c in boxes(s) { coord_case(&c); }
    for k in 0..s.len() {
        let mut dims = s.to_vec(); dims[k] = 1;
        for mut c in boxes(&dims) { c[k] = s[k]; coord_case(&c); }
    }
    coord_case(&s.to_vec());
    emit_malformed(s, out);
}

/// shapes beyond the small scope that are specific to C02: every axis length 7..=17 in the leading, an inner and the
/// trailing position, and power-of-two axis lengths 8..1024 in non-leading positions
fn c02_big_shapes(thorough: bool) -> Vec<Vec<usize>> {
    let mut v = big_shapes();
    for l in 7..=17usize {
        v.push(vec![l]); v.push(vec![2, l]); v.push(vec![l, 2]); v.push(vec![3, l, 2]); v.push(vec![2, 3, l]); v.push(vec![l, 3, 2]);
        if thorough { v.push(vec![l, l]); v.push(vec![2, l, 1, 3]); v.push(vec![2, 1, l, 2, 2]); }
    }
    v.extend(vec![vec![3, 32], vec![32, 3], vec![2, 32, 2], vec![3, 64], vec![2, 2, 64], vec![2, 128], vec![2, 128, 3], vec![3, 256], vec![2, 512],
                  vec![5, 1024], vec![2, 2048, 1], vec![16, 16, 16], vec![8, 8, 8, 8], vec![2, 2, 2, 2, 2], vec![4, 2, 8, 2, 4]]);
    if thorough { v.extend(vec![vec![2, 4096], vec![4096, 2], vec![3, 3, 3, 3, 3, 3], vec![17, 17, 17], vec![6, 5, 4, 3, 2, 2]]); }
    v.sort(); v.dedup();
    v
}

fn gen(tier: &str, seed: u64, out: &mut dyn FnMut(String)) {
    let thorough = tier == "thorough";
    // corpus of past failures (seeded changes that an earlier generator missed) first
    for l in ["index_to_coord i3,8 8", "index_to_coord i2,3,16 16", "index_to_coord i2,8,3 24", "index_at i2,3 0,3", "at i2,3 0,3",
              "index_at i2,0,3 0,0,0", "index_at i0 0", "at i2,3,4 0,1,0", "index_at i2,3,4 0,3,0",
              "index_at i2,4 4611686018427387904,1", "at i2,4 4611686018427387904,1", "op_index_coords i2,4 4611686018427387904,1", "index_at i2,4 0,1"] { out(l.to_string()); }
    let mut shapes_all = if thorough { shapes(1, 4, 1, 4) } else { shapes(1, 4, 1, 3) };
    shapes_all.extend(if thorough { shapes(5, 5, 1, 3) } else { shapes(5, 5, 1, 2) });
    // zero-length axes: the empty array and shapes containing 0
    shapes_all.extend(vec![vec![0], vec![0, 2], vec![2, 0], vec![2, 0, 3]]);
    for z in zero_shapes() { if !shapes_all.contains(&z) { shapes_all.push(z); } }
    shapes_all.extend(vec![vec![0, 0, 0], vec![1, 0, 1], vec![0, 3, 0], vec![2, 2, 0, 2], vec![0, 1, 1, 1, 1], vec![1, 1, 1, 1, 0]]);
    let mut rng = Rng::new(seed);
    let n_rand = if thorough { 400 } else { 60 };
    for _ in 0..n_rand { let r = 1 + rng.below(5); shapes_all.push((0..r).map(|_| 1 + rng.below(6)).collect()); }
    for s in &shapes_all { emit_full_box(s, out); }
    // ---- part 3 (class 14): more than 65 536 DISTINCT shapes on this thread; everything below runs after it
    out(format!("soak i1 {} {seed}", if thorough { 140_000 } else { 70_000 }));
    // ---- sizes beyond the small scope
    for s in c02_big_shapes(thorough) { emit_big(&s, out); }
    // seeded random big shapes: rank 1..5, axis lengths 1..20 (thorough 1..40), at most 3000 (6000) elements
    let (n_big, max_len, max_n) = if thorough { (60, 40, 6000) } else { (8, 20, 3000) };
    let mut made = 0;
    while made < n_big {
        let r = 1 + rng.below(5);
        let s: Vec<usize> = (0..r).map(|_| 1 + rng.below(max_len)).collect();
        let n: usize = s.iter().product();
        if n > max_n || n < 30 { continue; }
        emit_big(&s, out); made += 1;
    }
    gen_ext(tier, &mut rng, out);
    gen_ext_big(tier, &mut rng, out);
    // ---- robustness streams, part 2
    gen_high_rank(thorough, out);
    gen_hidden(thorough, out);
    gen_narrow(thorough, out);
    gen_sweep(thorough, out);
    gen_huge(thorough, &mut rng, out);
    // ---- robustness streams, part 3
    gen_wrap(thorough, out);
    gen_giant(thorough, &mut rng, out);
    if thorough { gen_soak_lines(seed, out); out(format!("soak i1 70000 {}", seed + 1000)); }
    // the last case reports (and demands) the validations of the native reference against the model
    out("oracle_validations i1".to_string());
}

// ---------------------------------------------------------------- robustness streams, part 2

/// The models of `slice` (rank >= 2: one list `drop` per copied chunk) and `indices_at` (rank >= 2: one `drop` per row of the
/// array) are quadratic.  On large arrays only the calls whose predicted model cost is moderate are generated.
fn slice_affordable(s: &[usize], st: usize, en: usize) -> bool {
    let n: usize = s.iter().product();
    if s.len() <= 1 || n <= 5000 || en < st || en > n { return true; }
    let w = en - st;
    if w >= s[0] { return true; }
    let chunks = if w > 1 { w } else { s[1] };
    chunks.saturating_mul(n) <= 20_000_000
}
fn indices_affordable(s: &[usize]) -> bool {
    let n: usize = s.iter().product();
    s.len() <= 1 || n <= 5000 || s[0].saturating_mul(n) <= 20_000_000
}

/// a representative set of calls of EVERY operation on one shape: coordinate vectors with every component in {0, 1, len-1}
/// (+ the one-off border and a wrong-length vector: failing calls), flat positions around the row size / the middle / the end,
/// ranges and index lists around 0, 1, shape[0].  `light`: the array is large — no answer that is the whole array.
fn probe_cases(s: &[usize], light: bool) -> Vec<String> {
    let a = tag(s);
    let n: usize = s.iter().product();
    let mut v = vec![];
    let comp: Vec<Vec<usize>> = s.iter().map(|&d| { let mut c = vec![0usize, 1, d.saturating_sub(1)]; c.retain(|&x| x < d); c.sort(); c.dedup(); c }).collect();
    let mut coords: Vec<Vec<usize>> = vec![vec![]];
    for c in &comp { let mut nx = vec![]; for p in &coords { for &x in c { let mut q = p.clone(); q.push(x); nx.push(q); } } coords = nx; }
    for (j, c) in coords.iter().enumerate() {
        let t = show_list(c);
        v.push(format!("index_at {a} {t}"));
        v.push(format!("at {a} {t}"));
        v.push(format!("op_index_coords {a} {t}"));
        // a failing call between the valid ones: one component pushed to its axis length
        if !s.is_empty() { let k = j % s.len(); let mut b = c.clone(); b[k] = s[k]; v.push(format!("index_at {a} {}", show_list(&b))); if j % 3 == 0 { v.push(format!("at {a} {}", show_list(&b))); } }
    }
    if !s.is_empty() { v.push(format!("index_at {a} {}", show_list(&vec![0; s.len() - 1]))); v.push(format!("index_at {a} {}", show_list(&vec![0; s.len() + 1]))); }
    let last = s.last().copied().unwrap_or(1);
    let d0 = s.first().copied().unwrap_or(0);
    let row = if d0 == 0 { 0 } else { n / d0 };
    let mut pos = vec![0, 1, 2, last.saturating_sub(1), last, last + 1, row, row + 1, n / 2, n.saturating_sub(2), n.saturating_sub(1), n, n + 1];
    pos.sort(); pos.dedup();
    for i in pos { v.push(format!("index_to_coord {a} {i}")); v.push(format!("op_index {a} {i}")); }
    if !s.is_empty() {
        let mut ranges = vec![(0, 1), (1, 2), (1, 3), (d0.saturating_sub(1), d0), (2, 1), (n.saturating_sub(1), n), (n, n + 1), (0, 0)];
        if !light { ranges.extend(vec![(0, d0), (1, d0), (0, n), (0, row), (row, 2 * row)]); }
        ranges.dedup();
        for (st, en) in ranges { if slice_affordable(s, st, en) { v.push(format!("slice {a} {st} {en}")); } }
        let mut lists = vec![vec![0], vec![d0.saturating_sub(1)], vec![0, d0.saturating_sub(1)], vec![d0.saturating_sub(1), 0], vec![d0], vec![0, 1], vec![1, 0, 1], vec![]];
        if !light { lists.push((0..d0.min(40)).rev().collect()); }
        if indices_affordable(s) { for l in lists { v.push(format!("indices_at {a} {}", show_list(&l))); } }
    }
    v
}

/// emit the probe sets of the members of a group round-robin (member 0 case 0, member 1 case 0, ..., member 0 case 1, ...):
/// every call directly follows a call on ANOTHER member, in every cyclic order when `reversed` is run as well
fn emit_interleaved(group: &[Vec<usize>], out: &mut dyn FnMut(String)) {
    let sets: Vec<Vec<String>> = group.iter().map(|s| probe_cases(s, s.iter().product::<usize>() > 5000)).collect();
    let m = sets.iter().map(Vec::len).max().unwrap_or(0);
    for i in 0..m { for set in &sets { if !set.is_empty() { out(set[i % set.len()].clone()); } } }
}

/// groups of shapes that collide under a key a cache could plausibly use: the weak polynomial hashes of lib.rs
/// (multipliers 31 .. 257, any seed), the same hashes started at 0 across RANKS, 8- / 16-bit packed axis lengths, and
/// fingerprints that ignore the order or the grouping of the axes (sum / product / xor / sorted / unit axes dropped)
fn c02_collision_groups(thorough: bool) -> Vec<Vec<Vec<usize>>> {
    let mut g: Vec<Vec<Vec<usize>>> = collision_shape_pairs().into_iter().map(|(a, b)| vec![a, b]).collect();
    for &m in &[31usize, 33, 37, 131, 257] {
        g.push(vec![vec![3, 1], vec![1, 1 + 2 * m]]);                    // two steps apart
        g.push(vec![vec![1, 3], vec![m + 3]]);                           // across ranks (hash seeded with 0)
        g.push(vec![vec![2, 3], vec![2 * m + 3]]);
        g.push(vec![vec![1, 2, 3], vec![m + 2, 3], vec![0, 2 + m, 3]]);
        if thorough { g.push(vec![vec![2, 2, 2, 2], vec![2, 1, 2 + m, 2], vec![1, 2 + m, 2, 2], vec![2, 2, 1, 2 + m]]); }
    }
    // packed keys: the axis lengths modulo 2^8 / 2^16 agree
    g.push(vec![vec![2, 3], vec![2, 259], vec![258, 3]]);
    g.push(vec![vec![1, 2, 3], vec![1, 258, 3], vec![257, 2, 3], vec![1, 2, 259]]);
    g.push(vec![vec![5], vec![261], vec![65541]]);
    g.push(vec![vec![2, 3], vec![2, 65539]]);
    g.push(vec![vec![3, 2], vec![65539, 2]]);
    // order- / grouping-blind fingerprints
    g.push(vec![vec![2, 6], vec![3, 4], vec![4, 3], vec![6, 2], vec![12], vec![1, 12], vec![12, 1], vec![2, 2, 3], vec![2, 3, 2], vec![3, 2, 2]]);
    g.push(vec![vec![2, 3, 4], vec![4, 3, 2], vec![3, 4, 2], vec![2, 4, 3], vec![24], vec![4, 6], vec![6, 4], vec![3, 3, 3]]);
    g.push(vec![vec![2, 3], vec![3, 2], vec![6], vec![1, 6], vec![6, 1], vec![1, 2, 3], vec![2, 3, 1], vec![2, 1, 3], vec![1, 5], vec![5, 1], vec![4, 1, 1]]);
    g.push(vec![vec![5, 7], vec![7, 5], vec![35], vec![6, 6], vec![4, 8], vec![8, 4]]);
    g.push(vec![vec![16, 17], vec![17, 16], vec![272], vec![2, 136], vec![136, 2], vec![1, 32], vec![32, 1], vec![0, 33], vec![33, 0]]);
    g
}

/// hidden state: colliding shapes back to back (both orders, interleaved), and colliding ARGUMENTS on one array
fn gen_hidden(thorough: bool, out: &mut dyn FnMut(String)) {
    for g in c02_collision_groups(thorough) {
        emit_interleaved(&g, out);
        if g.len() > 2 { let r: Vec<Vec<usize>> = g.iter().rev().cloned().collect(); emit_interleaved(&r, out); }
    }
    // argument fingerprints: (a, b) and (a-1, b+m) as coordinates, as a range and as an index list; permutations of a list
    for &m in &[31usize, 33, 37, 131, 257] {
        let w = m + 9;
        for (x, y) in [(1usize, 0usize), (2, 1), (3, 7), (1, 8)] {
            let (p, q) = (format!("{x},{y}"), format!("{},{}", x - 1, y + m));
            let a2 = tag(&[4, w]);
            for op in ["index_at", "at", "op_index_coords"] {
                for t in [&p, &q, &p] { out(format!("{op} {a2} {t}")); }
            }
            for a in [tag(&[w]), tag(&[w, 2]), tag(&[w, 1, 3])] {
                for t in [&p, &q, &p] { out(format!("indices_at {a} {t}")); }
                // ranges (x, y+9) and (x-1, y+9+m)
                let (r1, r2) = ((x, y + 9), (x - 1, y + 9 + m));
                for (st, en) in [r1, r2, r1] { out(format!("slice {a} {st} {en}")); }
            }
            // flat positions i and i + m, i*m
            for a in [tag(&[4, w]), tag(&[w, 4])] {
                for i in [x, x + m, x, x * m + y, y * m + x] { out(format!("index_to_coord {a} {i}")); out(format!("op_index {a} {i}")); }
            }
        }
    }
    for a in [tag(&[5]), tag(&[5, 2]), tag(&[4, 3, 2])] {
        for p in permutations(4) { out(format!("indices_at {a} {}", show_list(&p))); }
        for p in permutations(3) { out(format!("indices_at {a} {}", show_list(&p))); out(format!("indices_at {a} {}", show_list(&p.iter().map(|x| x + 1).collect::<Vec<_>>()))); }
    }
    for p in permutations(3) {
        // the same coordinate multiset in every order, in a cube and in a box whose axes differ
        for a in [tag(&[3, 3, 3]), tag(&[3, 4, 5])] { for op in ["index_at", "at", "op_index_coords"] { out(format!("{op} {a} {}", show_list(&p))); } }
    }
}

/// exact values: `c + 2^8`, `c + 2^16`, `c + 2^32`, `c + 3 * 2^32` in place of a valid coordinate / position / range end /
/// list entry — a range check done on a narrowed value accepts them.  Every failing call is directly followed by the valid one.
fn gen_narrow(thorough: bool, out: &mut dyn FnMut(String)) {
    let mut sh = shapes(1, 3, 1, 3);
    sh.extend(vec![vec![0], vec![2, 0], vec![0, 2], vec![3, 4], vec![5], vec![7, 2], vec![2, 3, 4], vec![2, 2, 2, 2], vec![2, 1, 2, 1, 2], vec![3, 256], vec![300, 2], vec![2, 300], vec![70000], vec![2, 70000]]);
    if thorough { sh.extend(shapes(4, 4, 1, 2)); sh.extend(vec![vec![4, 4, 4], vec![65537, 2], vec![2, 3, 2, 3, 2, 3]]); }
    for s in &sh {
        let a = tag(s);
        let n: usize = s.iter().product();
        let coords: Vec<Vec<usize>> = if n == 0 { vec![vec![0; s.len()]] } else if n <= 64 { boxes(s) } else {
            let comp: Vec<Vec<usize>> = s.iter().map(|&d| { let mut c = vec![0usize, 1, d / 2, d - 1]; c.retain(|&x| x < d); c.sort(); c.dedup(); c }).collect();
            let mut cs: Vec<Vec<usize>> = vec![vec![]];
            for c in &comp { let mut nx = vec![]; for p in &cs { for &x in c { let mut q = p.clone(); q.push(x); nx.push(q); } } cs = nx; }
            cs
        };
        for c in &coords {
            let valid = show_list(c);
            for k in 0..s.len() {
                for (j, img) in narrowing_images(c[k]).into_iter().enumerate() {
                    let mut b = c.clone(); b[k] = img;
                    let t = show_list(&b);
                    out(format!("index_at {a} {t}")); out(format!("index_at {a} {valid}"));
                    out(format!("at {a} {t}"));
                    if j >= 2 || n <= 12 { out(format!("op_index_coords {a} {t}")); out(format!("at {a} {valid}")); }
                }
            }
            if s.len() > 1 {
                for j in 0..4 {
                    let b: Vec<usize> = c.iter().map(|&x| narrowing_images(x)[j]).collect();
                    let t = show_list(&b);
                    out(format!("index_at {a} {t}")); out(format!("at {a} {t}")); out(format!("op_index_coords {a} {t}")); out(format!("op_index_coords {a} {valid}"));
                }
            }
        }
        // flat positions
        let pos: Vec<usize> = if n <= 64 { (0..n.max(1)).collect() } else { vec![0, 1, s[s.len() - 1], n / 2, n - 1] };
        for i in pos {
            for img in narrowing_images(i) {
                out(format!("index_to_coord {a} {img}")); out(format!("index_to_coord {a} {i}"));
                out(format!("op_index {a} {img}")); out(format!("op_index {a} {i}"));
            }
        }
        // ranges and index lists
        if n <= 64 || s == &vec![300, 2] || s == &vec![3, 256] {
            let d0 = s[0];
            let ranges: Vec<(usize, usize)> = if n <= 8 { boxes(&[n + 1, n + 1]).into_iter().filter(|r| r[0] <= r[1]).map(|r| (r[0], r[1])).collect() }
                else { vec![(0, 1), (1, 2), (0, d0), (1, d0), (0, 2), (d0 - 1, d0)] };
            for (st, en) in ranges {
                for j in 0..4 {
                    let (is, ie) = (narrowing_images(st)[j], narrowing_images(en)[j]);
                    out(format!("slice {a} {st} {ie}")); out(format!("slice {a} {is} {ie}")); out(format!("slice {a} {st} {en}"));
                    if is <= en { out(format!("slice {a} {is} {en}")); }
                }
            }
            let lists: Vec<Vec<usize>> = if d0 == 0 { vec![vec![0]] } else { vec![vec![0], vec![d0 - 1], vec![0, d0 - 1], vec![d0 - 1, 0, d0 / 2]] };
            for l in lists {
                for k in 0..l.len() { for img in narrowing_images(l[k]) {
                    let mut b = l.clone(); b[k] = img;
                    out(format!("indices_at {a} {}", show_list(&b))); out(format!("indices_at {a} {}", show_list(&l)));
                } }
            }
        }
    }
}

/// exact lengths: EVERY axis length 1..=300 in the trailing, an inner and the leading position, with every flat position
/// (a division replaced by a multiplication with a float reciprocal is first wrong at length 49) and every in-range
/// coordinate vector of the 2-D shapes; thorough: lengths up to 1000 and longer leading axes (more multiples of the length)
fn gen_sweep(thorough: bool, out: &mut dyn FnMut(String)) {
    let mut flat_all = |s: &[usize], coords: bool| {
        let a = tag(s);
        let n: usize = s.iter().product();
        for i in 0..n + 2 { out(format!("index_to_coord {a} {i}")); }
        if coords {
            for c in boxes(s) { out(format!("index_at {a} {}", show_list(&c))); }
            for k in 0..s.len() { let mut b: Vec<usize> = s.iter().map(|d| d - 1).collect(); b[k] = s[k]; out(format!("index_at {a} {}", show_list(&b))); }
            out(format!("at {a} {}", show_list(&s.iter().map(|d| d - 1).collect::<Vec<_>>())));
            out(format!("op_index {a} {}", n - 1));
        }
    };
    for d in 1..=300usize {
        flat_all(&[2, d], true);
        flat_all(&[3, d, 2], false);
        flat_all(&[d, 2], true);
        if thorough { flat_all(&[5, d], true); flat_all(&[2, 2, d], false); flat_all(&[2, d, 3, 1], false); }
    }
    // counts exactly 31, 37, 1000, 1001 and primes above 17 in every position of rank 3 / as the whole array
    for d in [19usize, 23, 29, 31, 37, 41, 43, 47, 49, 53, 59, 61, 97, 98, 101, 103, 107, 127, 131, 161, 187, 196, 197, 211, 251, 256, 257] {
        flat_all(&[d], true); flat_all(&[2, 3, d], d <= 61); flat_all(&[d, 3, 2], d <= 61);
        if thorough || d <= 61 { flat_all(&[7, d], false); }
    }
    for d in [1000usize, 1001, 1021, 1024] { flat_all(&[d], true); flat_all(&[2, d], false); flat_all(&[d, 2], false); }
    if thorough {
        for d in 301..=1000usize { flat_all(&[2, d], false); }
        for d in (1001..=5000usize).step_by(7) { flat_all(&[2, d], false); }
    }
}

/// ranks 6..8 (the exhaustive scope stops at rank 5)
fn gen_high_rank(thorough: bool, out: &mut dyn FnMut(String)) {
    let mut v = vec![vec![2; 6], vec![1, 2, 1, 2, 1, 2, 1], vec![2, 1, 1, 1, 1, 1, 1, 2], vec![1; 8], vec![1, 1, 2, 0, 1, 2]];
    if thorough { v.extend(vec![vec![2; 7], vec![1, 2, 2, 1, 2, 2, 1, 2]]); }
    for s in &v { emit_full_box(s, out); }
    let mut b = vec![vec![2; 7], vec![2; 8], vec![3, 2, 2, 2, 2, 3], vec![1, 2, 1, 3, 1, 2, 1, 2], vec![2, 3, 1, 2, 3, 1, 2], vec![3, 1, 2, 2, 1, 2, 2, 3]];
    if thorough { b.extend(vec![vec![3; 7], vec![2, 2, 2, 3, 3, 2, 2, 2], vec![2; 11]]); }
    for s in &b { emit_big(s, out); }
}

/// huge shapes (16 384 .. 140 000 elements; one axis above 65 536; extents that are not multiples of 32).  The C02 model is
/// linear in the rank for positions / coordinates and linear in the position for element reads, so the MODEL answers these
/// cases directly (no native oracle is needed); the positions are a sample: the first and last 40, every multiple of
/// 2^12 and of the row sizes +-1, and seeded random ones
fn gen_huge(thorough: bool, rng: &mut Rng, out: &mut dyn FnMut(String)) {
    let mut sh = huge_shapes();
    sh.extend(vec![vec![65537], vec![3, 65537], vec![65537, 2], vec![2, 2, 2, 2, 2, 2, 2, 2, 2, 2, 2, 2, 2, 2], vec![257, 257], vec![4, 181, 181]]);
    if thorough { sh.extend(vec![vec![140001], vec![7, 131, 151], vec![1, 66000, 2, 1], vec![3, 5, 7, 11, 13, 2]]); }
    for s in &sh {
        let a = tag(s);
        let n: usize = s.iter().product();
        let mut pos: Vec<usize> = (0..40).chain(n - 40..n + 2).collect();
        let mut step = 4096; while step < n { for d in [step - 1, step, step + 1] { pos.push(d); } step += 4096; }
        let mut stride = 1usize;
        for &d in s.iter().rev() {
            stride *= d;
            if stride > 1 && stride < n { for k in [1, 2, 3, n / stride / 2, n / stride - 1] { if k >= 1 && k * stride <= n { pos.push(k * stride - 1); pos.push(k * stride); } } }
        }
        for _ in 0..(if thorough { 1500 } else { 250 }) { pos.push(rng.below(n)); }
        pos.retain(|&p| p < n + 2); pos.sort(); pos.dedup();
        for &i in &pos {
            out(format!("index_to_coord {a} {i}"));
            out(format!("op_index {a} {i}"));
            if i < n {
                // the coordinate vector of the position (plain div / mod, used as an INPUT only; the model answers)
                let mut c = vec![0; s.len()]; let mut r = i;
                for k in (0..s.len()).rev() { c[k] = r % s[k]; r /= s[k]; }
                let t = show_list(&c);
                out(format!("index_at {a} {t}")); out(format!("at {a} {t}")); out(format!("op_index_coords {a} {t}"));
                if i % 7 == 0 { let k = i % s.len(); let mut b = c.clone(); b[k] = s[k]; out(format!("index_at {a} {}", show_list(&b))); out(format!("index_at {a} {t}")); }
            }
        }
        emit_malformed(s, out);
        let d0 = s[0];
        for (st, en) in [(0, 1), (1, 2), (d0 - 1, d0), (1, 3), (0, 3), (3, 1), (n - 1, n), (n, n + 1), (d0, d0 + 1), (n - 3, n), (7, 9)] { if slice_affordable(s, st, en) { out(format!("slice {a} {st} {en}")); } }
        if indices_affordable(s) { for l in [vec![0], vec![d0 - 1], vec![d0 - 1, 0], vec![d0], vec![1, 1]] { out(format!("indices_at {a} {}", show_list(&l))); } }
    }
}

// ---------------------------------------------------------------- robustness streams, part 3

const TWO64: u128 = 1u128 << 64;

fn strides_of(s: &[usize]) -> Vec<usize> {
    let mut st = vec![1usize; s.len()];
    for k in (0..s.len().saturating_sub(1)).rev() { st[k] = st[k + 1].saturating_mul(s[k + 1]); }
    st
}

/// out-of-range values `c` whose product with `stride` wraps modulo 2^64 into (or next to) the extent `[0, stride * dim)` of
/// the axis: `ceil(j * 2^64 / stride) + small` (for a power-of-two stride `2^e` exactly the aliases `small + j * 2^(64-e)`),
/// the floors next to them, and the values around 2^62, 2^63 and 2^64 (`-1`, `-dim`, `-dim + small`: a signed comparison or
/// `c + dim` wraps)
fn wrap_images(stride: usize, dim: usize) -> Vec<usize> { wrap_images_of(stride, dim, true) }
fn wrap_images_of(stride: usize, dim: usize, full: bool) -> Vec<usize> {
    let (s, d) = (stride as u128, dim as u128);
    let mut v: Vec<u128> = vec![];
    if stride > 1 {
        let mut js: Vec<u128> = if full { vec![1, 2, 3, s / 2, s - 1] } else { vec![1, s - 1] };
        js.retain(|&j| j >= 1 && j < s); js.sort(); js.dedup();
        for j in js {
            let (up, dn) = ((j * TWO64 + s - 1) / s, j * TWO64 / s);
            for small in [0, 1, d.saturating_sub(1), d] { v.push(up + small); }
            v.push(dn); v.push(dn.saturating_sub(1));
        }
    }
    for small in [0, 1, d.saturating_sub(1)] { v.push((1u128 << 63) + small); v.push((1u128 << 62) + small); v.push(TWO64 - d.max(1) + small); }
    v.push(TWO64 - 1); v.push((1u128 << 63) - 1);
    v.retain(|&c| c < TWO64 && c >= d); v.sort(); v.dedup();
    v.into_iter().map(|c| c as usize).collect()
}

/// class (15): huge coordinates / positions / index-list entries / range ends.  Every failing call is directly followed by a
/// valid one on the same array.
fn gen_wrap(thorough: bool, out: &mut dyn FnMut(String)) {
    let mut sh = if thorough { shapes(2, 3, 1, 3) } else { shapes(2, 2, 1, 3) };
    sh.extend(vec![vec![3, 3, 3], vec![2, 3, 2], vec![3, 1, 2], vec![1, 3, 3], vec![5], vec![2, 4], vec![4, 2], vec![3, 5], vec![7, 2], vec![2, 7], vec![2, 3, 4], vec![4, 3, 2], vec![5, 3, 2], vec![2, 2, 2, 2], vec![2, 3, 5, 7], vec![1, 4], vec![4, 1],
                  vec![2, 1, 4], vec![2, 1, 2, 1, 2], vec![3, 256], vec![256, 3], vec![300, 2], vec![2, 300], vec![16, 16, 16], vec![2, 70000], vec![65537, 2], vec![2, 65536], vec![3, 4096, 16],
                  vec![6, 10], vec![10, 6], vec![2, 12, 5], vec![2, 2, 2, 2, 2, 2, 2, 2], vec![0, 4], vec![4, 0], vec![2, 0, 3], vec![3, 3, 3, 3, 3]]);
    if thorough { sh.extend(shapes(4, 4, 1, 3)); sh.extend(vec![vec![2, 3, 2, 3, 2, 3], vec![7, 11, 13], vec![1 << 10, 1 << 10]]); }
    sh.sort(); sh.dedup();
    for s in &sh {
        let a = tag(s);
        let n: usize = s.iter().product();
        let st = strides_of(s);
        let r = s.len();
        // base vectors: all zeros, all last, the middle
        let mut bases: Vec<Vec<usize>> = vec![vec![0; r], s.iter().map(|d| d.saturating_sub(1)).collect(), s.iter().map(|d| d / 2).collect()];
        bases.dedup();
        let valid = show_list(&bases[bases.len() - 1].iter().zip(s).map(|(&c, &d)| c.min(d.saturating_sub(1))).collect::<Vec<_>>());
        for k in 0..r {
            for img in wrap_images(st[k], s[k]) {
                for (bi, b) in bases.iter().enumerate() {
                    let mut c = b.clone(); c[k] = img;
                    let t = show_list(&c);
                    out(format!("index_at {a} {t}"));
                    if bi == 0 || n <= 64 { out(format!("at {a} {t}")); out(format!("op_index_coords {a} {t}")); }
                    out(format!("index_at {a} {valid}"));
                }
            }
        }
        // the SUM wraps although no single product does: c[k] * stride = 2^64 - rest, a later axis supplies rest + t
        for k in 0..r.saturating_sub(1) {
            if st[k] <= 1 { continue; }
            let ck = ((TWO64 - 1) / st[k] as u128) as usize;
            let rest = (TWO64 - ck as u128 * st[k] as u128) as usize;
            for j in k + 1..r {
                if st[j] == 0 || rest % st[j] != 0 { continue; }
                for t in [0usize, 1, s[j].saturating_sub(1)] {
                    let mut c = vec![0; r]; c[k] = ck; c[j] = rest / st[j] + t;
                    let t = show_list(&c);
                    out(format!("index_at {a} {t}")); out(format!("at {a} {t}")); out(format!("op_index_coords {a} {t}")); out(format!("at {a} {valid}"));
                }
            }
        }
        // every component huge at once
        for f in [1usize << 63, 1 << 62, usize::MAX, 1 << 32] {
            let c: Vec<usize> = s.iter().enumerate().map(|(k, _)| if st[k] > 1 { (TWO64 / st[k] as u128).min(TWO64 - 1) as usize } else { f }).collect();
            out(format!("index_at {a} {}", show_list(&c))); out(format!("op_index_coords {a} {}", show_list(&c)));
            out(format!("index_at {a} {}", show_list(&vec![f; r]))); out(format!("at {a} {}", show_list(&vec![f; r]))); out(format!("op_index_coords {a} {valid}"));
        }
        // flat positions
        let mut pos: Vec<u128> = vec![TWO64 - 1, (1 << 63) - 1];
        for i in [0u128, 1, (n as u128).saturating_sub(1)] { for b in [1u128 << 63, 1 << 62, 1 << 32, 1 << 53, TWO64 - (n as u128).max(1)] { pos.push(b + i); } }
        if n > 1 { for j in [1u128, 2, n as u128 - 1] { pos.push((j * TWO64 + n as u128 - 1) / n as u128); pos.push((j * TWO64 + n as u128 - 1) / n as u128 + 1); } }
        for &d in s.iter() { if d > 1 { pos.push(TWO64 / d as u128); pos.push(TWO64 / d as u128 + 1); } }
        pos.retain(|&p| p < TWO64); pos.sort(); pos.dedup();
        for (j, p) in pos.into_iter().enumerate() {
            out(format!("index_to_coord {a} {p}")); out(format!("index_to_coord {a} {}", n.saturating_sub(1)));
            // (the model walks the whole element list to refuse a far position: a third of them on long arrays)
            if n <= 5000 || j % 3 == 0 { out(format!("op_index {a} {p}")); out(format!("op_index {a} {}", n.saturating_sub(1))); }
        }
        // index lists (stride of the first axis = the row size) and ranges
        if n <= 5000 {
            let d0 = s[0];
            let row = if d0 == 0 { 0 } else { n / d0 };
            if d0 <= 64 {
            // (the model of `indices_at` and its cross-check with the C11 model are quadratic: the short image list unless thorough)
            let mut imgs = wrap_images_of(row.max(1), d0, thorough || n <= 30);
            if r == 1 { imgs.extend(wrap_images_of(2, n, thorough)); imgs.sort(); imgs.dedup(); }
            for (j, img) in imgs.into_iter().enumerate() {
                out(format!("indices_at {a} {img}"));
                if j % 2 == 0 { out(format!("indices_at {a} 0,{img}")); } else { out(format!("indices_at {a} {img},{}", d0.saturating_sub(1))); }
                if j % 4 == 0 { out(format!("indices_at {a} {}", d0.saturating_sub(1))); }
            } }
            let m = usize::MAX;
            for (x, y) in [(0, m), (m, m), (m, 0), (1 << 63, (1 << 63) + 1), (1, m), (m - 1, m), (0, 1 << 63), (0, (1 << 32) + 1), ((1 << 32) + 1, (1 << 32) + 2), (m - n, m), (0, (m - n).saturating_add(1))] {
                out(format!("slice {a} {x} {y}")); out(format!("slice {a} 0 1"));
            }
        }
    }
}

/// the shapes of the soak: distinct, non-empty, at most 60 elements (120 when more than 100 000 shapes are asked for: there are
/// only 113 580 tuples up to 60), ranks 1..12 (every tuple over 1..=5), shuffled by the seed
fn soak_shapes(count: usize, seed: u64) -> Vec<Vec<usize>> {
    fn go(cur: &mut Vec<usize>, prod: usize, rank: usize, out: &mut Vec<Vec<usize>>, cap: usize, max_elems: usize) {
        if out.len() >= cap { return; }
        if cur.len() == rank { out.push(cur.clone()); return; }
        for d in 1..=5usize { if prod * d <= max_elems { cur.push(d); go(cur, prod * d, rank, out, cap, max_elems); cur.pop(); } }
    }
    let max_elems = if count > 100_000 { 120 } else { 60 };
    let mut all = vec![];
    for rank in 1..=12 { go(&mut vec![], 1, rank, &mut all, 4 * count + 1000, max_elems); }
    assert!(all.len() >= count, "harness: not enough soak shapes ({} < {count})", all.len());
    let mut rng = Rng::new(seed ^ 0x50A4);
    for i in (1..all.len()).rev() { let j = rng.below(i + 1); all.swap(i, j); }
    all.truncate(count);
    all
}

/// thorough: the same kind of soak as MODELLED case lines (two per shape; `exec` re-runs the previous case after each)
fn gen_soak_lines(seed: u64, out: &mut dyn FnMut(String)) {
    for s in soak_shapes(70_000, seed + 77) {
        let a = tag(&s);
        let n: usize = s.iter().product();
        out(format!("index_at {a} {}", show_list(&s.iter().map(|d| d - 1).collect::<Vec<_>>())));
        out(format!("index_to_coord {a} {}", n - 1));
    }
}

/// class (11): more than 2^20 elements.  `iota:<shape>` is built by the harness; the driver answers `native` and the case is
/// judged by the native reference `oracle`.  Positions: the ends, around 2^20 and every stride multiple, multiples of 2^16, random.
fn gen_giant(thorough: bool, rng: &mut Rng, out: &mut dyn FnMut(String)) {
    let mut sh = giant_shapes();
    sh.extend(vec![vec![33, 32, 31, 33], vec![1024, 1025], vec![64, 128, 129], vec![3, 5, 7, 11, 13, 73]]);
    if !thorough { sh.retain(|s| ![vec![2_097_153], vec![2, 3, 174_763], vec![600, 2, 1000], vec![64, 128, 129]].contains(s)); }
    for s in &sh {
        let a = format!("iota:{}", show_list(s));
        let n: usize = s.iter().product();
        let mut pos: Vec<usize> = (0..4).chain(n - 4..n + 2).chain((1 << 20) - 2..(1 << 20) + 3).collect();
        for st in strides_of(s) { if st > 1 { for k in [1, 2, n / st / 2, n / st - 1] { if k >= 1 { pos.push(k * st - 1); pos.push(k * st); pos.push(k * st + 1); } } } }
        for _ in 0..(if thorough { 40 } else { 6 }) { let k = 1 + rng.below(n >> 16); pos.push((k << 16) - 1); pos.push(k << 16); }
        for _ in 0..(if thorough { 400 } else { 24 }) { pos.push(rng.below(n)); }
        pos.retain(|&p| p < n + 2); pos.sort(); pos.dedup();
        for &i in &pos {
            out(format!("index_to_coord {a} {i}"));
            out(format!("op_index {a} {i}"));
            if i < n {
                let mut c = vec![0; s.len()]; let mut r = i;
                for k in (0..s.len()).rev() { c[k] = r % s[k]; r /= s[k]; }
                let t = show_list(&c);
                out(format!("index_at {a} {t}")); out(format!("at {a} {t}")); out(format!("op_index_coords {a} {t}"));
                if i % 5 == 0 { let k = i % s.len(); let mut b = c.clone(); b[k] = s[k]; out(format!("index_at {a} {}", show_list(&b))); out(format!("at {a} {t}")); }
            }
        }
        out(format!("index_at {a} {}", show_list(&vec![0; s.len() + 1])));
        out(format!("index_at {a} {}", show_list(&s.iter().map(|d| d + 1000).collect::<Vec<_>>())));
        let d0 = s[0];
        let mut ranges = vec![(0, 1), (1, 2), (d0 - 1, d0), (1, 3), (3, 1), (n - 1, n), (n, n + 1), (d0, d0 + 1), ((1 << 20) - 1, (1 << 20) + 1)];
        if s.len() == 1 { ranges.extend(vec![(5, n - 3), ((1 << 20) - 3, n), (0, n)]); } else { ranges.extend(vec![(0, d0), (2, d0 + 2), (0, d0 - 1)]); }
        for (st, en) in ranges { out(format!("slice {a} {st} {en}")); }
        // the crate's `indices_at` splits the array into shape[0] pieces first: only short first axes
        // (about 0.1 s per call at this size: quick = two lines on two shapes of rank >= 2, every line on the rank-1 shapes)
        if s.len() == 1 || (d0 <= 400 && (thorough || s == &vec![3, 400_001] || s == &vec![33, 32, 31, 33])) {
            let lists = if thorough || s.len() == 1 { vec![vec![0], vec![d0 - 1], vec![d0 - 1, 0], vec![d0], vec![1, 1], vec![0, d0 - 1, 1]] } else { vec![vec![d0 - 1, 0, 1], vec![d0]] };
            for l in lists { out(format!("indices_at {a} {}", show_list(&l))); }
            if s.len() == 1 { out(format!("indices_at {a} {}", show_list(&[(1 << 20) - 1, 1 << 20, (1 << 20) + 1, n - 1, 0]))); }
        }
    }
    if thorough {
        // above 2^24 elements (a length or position through `as f32`): the u8 image only
        for s in [vec![16_777_219usize], vec![4097, 4099], vec![3, 5_592_407]] {
            let a = format!("iota8:{}", show_list(&s));
            let n: usize = s.iter().product();
            let mut pos: Vec<usize> = (0..3).chain(n - 3..n + 2).chain((1 << 24) - 2..(1 << 24) + 4).collect();
            for st in strides_of(&s) { if st > 1 { for k in [1, n / st - 1] { pos.push(k * st - 1); pos.push(k * st); pos.push(k * st + 1); } } }
            for _ in 0..60 { pos.push((1 << 24) + rng.below(n - (1 << 24))); pos.push(rng.below(n)); }
            pos.retain(|&p| p < n + 2); pos.sort(); pos.dedup();
            for &i in &pos {
                out(format!("index_to_coord {a} {i}")); out(format!("op_index {a} {i}"));
                if i < n {
                    let mut c = vec![0; s.len()]; let mut r = i;
                    for k in (0..s.len()).rev() { c[k] = r % s[k]; r /= s[k]; }
                    let t = show_list(&c);
                    out(format!("index_at {a} {t}")); out(format!("at {a} {t}")); out(format!("op_index_coords {a} {t}"));
                }
            }
            out(format!("slice {a} {} {}", (1 << 24) - 1, (1 << 24) + 2));
        }
    }
}

/// extension: `slice(range)` and `indices_at(indices)`; answers are whole arrays (`shape:elems`)
fn gen_ext(tier: &str, rng: &mut Rng, out: &mut dyn FnMut(String)) {
    let thorough = tier == "thorough";
    let mut sh = if thorough { shapes(1, 4, 1, 4) } else { shapes(1, 4, 1, 3) };
    // an axis of length 5 in every position of rank 1..3 (windows 2..4 that differ from the row size)
    for other in 1..=3usize {
        sh.push(vec![5]);
        sh.extend(vec![vec![5, other], vec![other, 5], vec![5, other, 2], vec![2, 5, other], vec![other, 2, 5], vec![5, 2, other]]);
    }
    sh.push(vec![5, 5]);
    // rank 0, the empty array, zero-length axes in every position
    sh.extend(vec![vec![], vec![0], vec![0, 0], vec![0, 2], vec![2, 0], vec![3, 0], vec![0, 3, 2], vec![2, 0, 3], vec![2, 3, 0], vec![1, 0], vec![0, 1]]);
    sh.extend(zero_shapes());
    sh.sort(); sh.dedup();
    for s in &sh {
        let a = tag(s);
        let n: usize = s.iter().product();
        let d0 = s.first().copied().unwrap_or(0);
        // ---- slice: every range 0 <= start, end <= len+1 on small arrays (valid, start > end, end > len);
        // on larger ones every start with every window length 0..=shape[0]+2, the ends len-1, len, len+1 and end = start-1
        if n <= 12 {
            for st in 0..=n + 1 { for en in 0..=n + 1 { out(format!("slice {a} {st} {en}")); } }
        } else {
            for st in 0..=n + 1 {
                for w in 0..=d0 + 2 { out(format!("slice {a} {st} {}", st + w)); }
                for en in [n - 1, n, n + 1] { if en > st + d0 + 2 || en < st { out(format!("slice {a} {st} {en}")); } }
                if st > 0 && st - 1 != n - 1 && st - 1 != n { out(format!("slice {a} {st} {}", st - 1)); }
            }
        }
        out(format!("slice {a} 0 {}", n + 100000));
        out(format!("slice {a} {} {}", n + 100000, n + 100001));
        // ---- indices_at: every index list of length <= 3 over 0..=shape[0] (shape[0] itself is out of range),
        // the reversed and the doubled full list, a far-out index
        let vals = d0 + 1 + (n == 0) as usize;
        for l in 0..=3usize {
            for c in boxes(&vec![vals; l]) { out(format!("indices_at {a} {}", show_list(&c))); }
        }
        let full: Vec<usize> = (0..d0).rev().collect();
        let dbl: Vec<usize> = (0..d0).chain(0..d0).collect();
        out(format!("indices_at {a} {}", show_list(&full)));
        out(format!("indices_at {a} {}", show_list(&dbl)));
        out(format!("indices_at {a} {}", d0 + 1000));
        out(format!("indices_at {a} 0,{}", d0 + 1000));
    }
    // seeded random stream beyond the scope: rank <= 5, length <= 6
    let n_rand = if thorough { 3000 } else { 400 };
    for _ in 0..n_rand {
        let s = rng.shape(1, 5, 6);
        let a = tag_off(&s, rng.below(1000) as i64);
        let n: usize = s.iter().product();
        let st = if rng.below(3) == 0 { rng.below(n + 2) } else { rng.below(s[0] + 2) };
        let en = match rng.below(4) { 0 => rng.below(n + 2), 1 => st + 1, _ => st + rng.below(s[0] + 2) };
        out(format!("slice {a} {st} {en}"));
        let l = rng.below(7);
        let idx: Vec<usize> = (0..l).map(|_| { let extra = (rng.below(8) == 0) as usize; rng.below(s[0] + extra) }).collect();
        out(format!("indices_at {a} {}", show_list(&idx)));
    }
}

/// `slice` / `indices_at` on the big shapes: a grid of starts x windows around every threshold of the code
/// (0, 1, 2, shape[0]-1, shape[0], shape[0]+1, the row size, the middle, the end) instead of every range
fn gen_ext_big(tier: &str, rng: &mut Rng, out: &mut dyn FnMut(String)) {
    let thorough = tier == "thorough";
    for s in c02_big_shapes(thorough) {
        let a = tag(&s);
        let n: usize = s.iter().product();
        let d0 = s[0];
        let row = n / d0;
        let mut starts = vec![0, 1, 2, 3, d0 - 1, d0, d0 + 1, row, row + 1, 2 * row, n / 2, n.saturating_sub(d0), n.saturating_sub(row), n.saturating_sub(2), n - 1, n, n + 1];
        starts.push(rng.below(n + 1)); starts.push(rng.below(d0 + 1));
        starts.sort(); starts.dedup();
        for &st in &starts {
            let mut wins = vec![0, 1, 2, 3, 7, 8, d0 - 1, d0, d0 + 1, row, row + 1, n.saturating_sub(st), n.saturating_sub(st) + 1, n];
            wins.push(rng.below(d0 + 2));
            wins.sort(); wins.dedup();
            for w in wins { out(format!("slice {a} {st} {}", st + w)); }
            if st > 0 { out(format!("slice {a} {st} {}", st - 1)); out(format!("slice {a} {st} 0")); }
        }
        let full: Vec<usize> = (0..d0).collect();
        let rev: Vec<usize> = (0..d0).rev().collect();
        let dbl: Vec<usize> = (0..d0).chain(0..d0).collect();
        let every_other: Vec<usize> = (0..d0).step_by(2).collect();
        let mut lists: Vec<Vec<usize>> = vec![vec![], vec![0], vec![d0 - 1], vec![d0], vec![0, d0], vec![d0 - 1, 0, d0 - 1], full, rev, dbl, every_other, vec![d0 + 1000], vec![n], vec![n - 1]];
        for _ in 0..(if thorough { 6 } else { 2 }) {
            let l = 1 + rng.below(d0.min(24) + 3);
            lists.push((0..l).map(|_| { let extra = (rng.below(16) == 0) as usize; rng.below(d0 + extra) }).collect());
        }
        for l in lists { out(format!("indices_at {a} {}", show_list(&l))); }
    }
}

// ================================================================ executor

/// image of a tag in another element type: a value-blind operation must move the IMAGES exactly as it moves the i64 tags
trait Img: ArrayElement {
    const NAME: &'static str;
    fn img(t: i64) -> Self;
    fn same(a: &Self, b: &Self) -> bool { a == b }
}
impl Img for i64 { const NAME: &'static str = "i64"; fn img(t: i64) -> Self { t } }
impl Img for u8 { const NAME: &'static str = "u8"; fn img(t: i64) -> Self { tag_u8(t) } }
impl Img for i8 { const NAME: &'static str = "i8"; fn img(t: i64) -> Self { tag_i8(t) } }
impl Img for bool { const NAME: &'static str = "bool"; fn img(t: i64) -> Self { t % 2 != 0 } }
impl Img for u16 { const NAME: &'static str = "u16"; fn img(t: i64) -> Self { t.rem_euclid(65521) as u16 } }
impl Img for i32 { const NAME: &'static str = "i32"; fn img(t: i64) -> Self { (t % 2_000_000_011) as i32 } }
impl Img for usize { const NAME: &'static str = "usize"; fn img(t: i64) -> Self { t.unsigned_abs() as usize } }
/// tag 0 is NEGATIVE zero; compared bit-wise
impl Img for f64 { const NAME: &'static str = "f64"; fn img(t: i64) -> Self { tag_f64z(t) } fn same(a: &Self, b: &Self) -> bool { a.to_bits() == b.to_bits() } }
impl Img for f32 { const NAME: &'static str = "f32"; fn img(t: i64) -> Self { if t == 0 { -0.0 } else { (t % 16_000_000) as f32 } } fn same(a: &Self, b: &Self) -> bool { a.to_bits() == b.to_bits() } }
impl Img for String { const NAME: &'static str = "String"; fn img(t: i64) -> Self { format!("s{t}") } }
// part 3 (class 12): element sizes that are not powers of two (12 and 3 bytes) and a 32-byte non-`Copy` type
impl Img for T3 { const NAME: &'static str = "Tuple3<i32,i32,i32> (12 bytes)"; fn img(t: i64) -> Self { tag_t3(t) } }
impl Img for T3b { const NAME: &'static str = "Tuple3<u8,u8,u8> (3 bytes)"; fn img(t: i64) -> Self { tag_t3b(t) } }
impl Img for TW { const NAME: &'static str = "Tuple2<String,i32> (32 bytes)"; fn img(t: i64) -> Self { tag_tw(t) } }

#[derive(Clone, Debug)]
enum Out<V> { Ok(V), Err(&'static str), Panic }
fn run<V>(f: impl FnOnce() -> Result<V, ArrayError>) -> Out<V> {
    match catch_unwind(AssertUnwindSafe(f)) { Ok(Ok(v)) => Out::Ok(v), Ok(Err(e)) => Out::Err(err_name(&e)), Err(_) => Out::Panic }
}

#[derive(Clone)]
enum Call { IndexAt(Vec<usize>), ToCoord(usize), At(Vec<usize>), OpIdx(usize), OpCoords(Vec<usize>), Slice(usize, usize), IndicesAt(Vec<usize>) }
#[derive(Clone, Debug)]
enum Ans<T> { Pos(usize), Coord(Vec<usize>), Elem(T), Arr { shape: Vec<usize>, elems: Vec<T>, consistent: bool } }

fn ans_arr<T: ArrayElement>(a: Array<T>) -> Ans<T> { Ans::Arr { consistent: consistent(&a), shape: a.get_shape().unwrap(), elems: a.get_elements().unwrap() } }

/// the real call.  `chained` = the same method on `Ok(array)` through `impl ArrayIndexing<T> for Result<Array<T>, ArrayError>`
/// (`None`: the operators have no such form)
fn call<T: Img>(a: &Array<T>, c: &Call, chained: bool) -> Option<Out<Ans<T>>> {
    let r = || -> Result<Array<T>, ArrayError> { Ok(a.clone()) };
    Some(match (c, chained) {
        (Call::IndexAt(v), false) => run(|| a.index_at(v).map(Ans::Pos)),
        (Call::IndexAt(v), true) => { let r = r(); run(|| r.index_at(v).map(Ans::Pos)) }
        (Call::ToCoord(i), false) => run(|| a.index_to_coord(*i).map(Ans::Coord)),
        (Call::ToCoord(i), true) => { let r = r(); run(|| r.index_to_coord(*i).map(Ans::Coord)) }
        (Call::At(v), false) => run(|| a.at(v).map(Ans::Elem)),
        (Call::At(v), true) => { let r = r(); run(|| r.at(v).map(Ans::Elem)) }
        (Call::OpIdx(i), false) => run(|| Ok(Ans::Elem(a[*i].clone()))),
        (Call::OpCoords(v), false) => run(|| Ok(Ans::Elem(a[&v[..]].clone()))),
        (Call::Slice(s, e), false) => run(|| a.slice(*s..*e).map(ans_arr)),
        (Call::Slice(s, e), true) => { let r = r(); run(|| r.slice(*s..*e).map(ans_arr)) }
        (Call::IndicesAt(l), false) => run(|| a.indices_at(l).map(ans_arr)),
        (Call::IndicesAt(l), true) => { let r = r(); run(|| r.indices_at(l).map(ans_arr)) }
        (Call::OpIdx(_), true) | (Call::OpCoords(_), true) => return None,
    })
}

/// protocol text of the canonical (plain receiver, i64) answer
fn show_out(o: &Out<Ans<i64>>) -> String {
    match o {
        Out::Panic => "panic".to_string(),
        Out::Err(e) => format!("err {e}"),
        Out::Ok(Ans::Pos(p)) => format!("ok {p}"),
        Out::Ok(Ans::Coord(c)) => format!("ok {}", show_list(c)),
        Out::Ok(Ans::Elem(v)) => format!("ok {v}"),
        Out::Ok(Ans::Arr { shape, elems, consistent }) => {
            let t = format!("{}:{}", show_list(shape), show_list(elems));
            if *consistent { format!("ok {t}") } else { format!("inconsistent {t}") }
        }
    }
}

/// does the answer `v` on the `T` image agree with the canonical answer `b` on the i64 tags?
/// same outcome class (any two errors agree), same position / coordinates / shape, and every element is the image of the tag
fn agree<T: Img>(b: &Out<Ans<i64>>, v: &Out<Ans<T>>) -> bool {
    match (b, v) {
        (Out::Panic, Out::Panic) | (Out::Err(_), Out::Err(_)) => true,
        (Out::Ok(b), Out::Ok(v)) => match (b, v) {
            (Ans::Pos(x), Ans::Pos(y)) => x == y,
            (Ans::Coord(x), Ans::Coord(y)) => x == y,
            (Ans::Elem(x), Ans::Elem(y)) => T::same(&T::img(*x), y),
            (Ans::Arr { shape: s1, elems: e1, consistent: c1 }, Ans::Arr { shape: s2, elems: e2, consistent: c2 }) =>
                s1 == s2 && c1 == c2 && e1.len() == e2.len() && e1.iter().zip(e2).all(|(x, y)| T::same(&T::img(*x), y)),
            _ => false,
        },
        _ => false,
    }
}
/// never formats a long element list
fn brief<T: Img>(v: &Out<Ans<T>>) -> String {
    match v {
        Out::Ok(Ans::Arr { shape, elems, consistent }) if elems.len() > 64 =>
            format!("Ok(Arr {{ shape: {shape:?}, {} elements starting {:?}, consistent: {consistent} }})", elems.len(), &elems[..8]),
        _ => truncate(&format!("{v:?}"), 200),
    }
}
/// where two answers first differ (arrays: the first differing flat position, found in place)
fn first_diff<T: Img>(b: &Out<Ans<i64>>, v: &Out<Ans<T>>) -> String {
    if let (Out::Ok(Ans::Arr { shape: s1, elems: e1, .. }), Out::Ok(Ans::Arr { shape: s2, elems: e2, consistent })) = (b, v) {
        if s1 != s2 { return format!("shape {s2:?} instead of {s1:?}"); }
        if !consistent { return "the returned array is inconsistent (C01 monitor)".to_string(); }
        if e1.len() != e2.len() { return format!("{} elements instead of {}", e2.len(), e1.len()); }
        if let Some(p) = (0..e1.len()).find(|&p| !T::same(&T::img(e1[p]), &e2[p])) { return format!("first differing flat position {p}: {:?} instead of the image of tag {}", e2[p], e1[p]); }
    }
    format!("{} instead of {}", brief(v), brief(b))
}
fn short_out(o: &Out<Ans<i64>>) -> String {
    match o {
        Out::Ok(Ans::Arr { shape, elems, consistent }) if elems.len() > 64 => format!("{} {}:[{} elements, first {}, last {}]", if *consistent { "ok" } else { "inconsistent" }, show_list(shape), elems.len(), elems[0], elems[elems.len() - 1]),
        _ => show_out(o),
    }
}

// ---------------------------------------------------------------- the native reference (part 3)

static VALIDATED: AtomicUsize = AtomicUsize::new(0);
static NATIVE_JUDGED: AtomicUsize = AtomicUsize::new(0);
static SOAKED: AtomicUsize = AtomicUsize::new(0);
static CASE_NO: AtomicUsize = AtomicUsize::new(0);

/// row-major position by the defining sum  pos = SUM_k c[k] * PROD_{j>k} shape[j]  (128-bit, no fold, no running stride);
/// `None` = the vector is refused (wrong length or a component outside its axis)
fn ref_pos(shape: &[usize], c: &[usize]) -> Option<usize> {
    if c.len() != shape.len() { return None; }
    let mut pos: u128 = 0;
    for k in 0..shape.len() {
        if c[k] >= shape[k] { return None; }
        pos += c[k] as u128 * shape[k + 1..].iter().map(|&d| d as u128).product::<u128>();
    }
    Some(pos as usize)
}
/// coordinates by the defining quotient  c[k] = (idx / PROD_{j>k} shape[j]) mod shape[k]
fn ref_coord(shape: &[usize], idx: usize) -> Option<Vec<usize>> {
    let n: u128 = shape.iter().map(|&d| d as u128).product();
    if idx as u128 >= n { return None; }
    Some((0..shape.len()).map(|k| ((idx as u128 / shape[k + 1..].iter().map(|&d| d as u128).product::<u128>()) % shape[k] as u128) as usize).collect())
}
/// the reference answer of a call on the tag array of `shape` whose flat element `p` is `p + off`; `None` = no opinion (rank 0).
/// Validated against the Lean model on every modelled case of the run (`VALIDATED`), it alone judges the `iota:` and `soak` cases.
fn oracle(shape: &[usize], off: i64, c: &Call) -> Option<Out<Ans<i64>>> {
    if shape.is_empty() { return None; }
    let n: usize = shape.iter().product();
    let el = |p: usize| p as i64 + off;
    let refused = Out::Err("ParameterError");
    Some(match c {
        Call::IndexAt(v) => ref_pos(shape, v).map_or(refused, |p| Out::Ok(Ans::Pos(p))),
        Call::ToCoord(i) => ref_coord(shape, *i).map_or(refused, |c| Out::Ok(Ans::Coord(c))),
        Call::At(v) => ref_pos(shape, v).map_or(refused, |p| Out::Ok(Ans::Elem(el(p)))),
        Call::OpIdx(i) => if *i < n { Out::Ok(Ans::Elem(el(*i))) } else { Out::Panic },
        Call::OpCoords(v) => ref_pos(shape, v).map_or(Out::Panic, |p| Out::Ok(Ans::Elem(el(p)))),
        Call::Slice(st, en) => {
            let arr = |sh: Vec<usize>, from: usize, len: usize| Out::Ok(Ans::Arr { shape: sh, elems: (from..from + len).map(el).collect(), consistent: true });
            if !(st <= en && *en <= n) { Out::Err("OutOfBounds") }
            else if shape.len() == 1 { arr(vec![en - st], *st, en - st) }
            else if en - st >= shape[0] { arr(shape.to_vec(), 0, n) }
            else {
                // a window shorter than the first axis: a CONTIGUOUS block of w rows (w = 1, 0: one row, first axis dropped)
                let w = en - st;
                let sh: Vec<usize> = if w > 1 { std::iter::once(w).chain(shape[1..].iter().copied()).collect() } else { shape[1..].to_vec() };
                let items: usize = sh.iter().product();
                let from = sh[0] as u128 * *st as u128;
                if items == 0 || from + items as u128 > n as u128 { Out::Err("OutOfBounds") } else { arr(sh, from as usize, items) }
            }
        }
        Call::IndicesAt(l) => {
            let row = if shape.len() == 1 { 1 } else { shape[1..].iter().product::<usize>() };
            if l.iter().any(|&i| i >= shape[0]) { Out::Err("OutOfBounds") }
            else {
                let sh: Vec<usize> = std::iter::once(l.len()).chain(shape[1..].iter().copied()).collect();
                Out::Ok(Ans::Arr { shape: sh, elems: l.iter().flat_map(|&i| (i * row..(i + 1) * row).map(el)).collect(), consistent: true })
            }
        }
    })
}

/// the case lines of one array follow each other: the arrays built for the last array argument are kept, per element type.
/// `off`: `Some(o)` for the tag arrays `i<shape>[+o]` / `iota:<shape>` / `iota8:<shape>` (flat element p is p + o; their tags
/// are produced on the fly, never stored), `None` for a written-out array
struct Cache { key: String, shape: Vec<usize>, tags: Vec<i64>, off: Option<i64>, arrs: HashMap<TypeId, Rc<dyn Any>> }
thread_local! { static CACHE: RefCell<Cache> = RefCell::new(Cache { key: String::new(), shape: vec![], tags: vec![], off: None, arrs: HashMap::new() }); }
fn parse_key(key: &str) -> (Vec<usize>, Vec<i64>, Option<i64>) {
    if let Some(sh) = key.strip_prefix("iota:").or_else(|| key.strip_prefix("iota8:")) { return (parse_usize_list(sh), vec![], Some(0)); }
    if let Some(body) = key.strip_prefix('i') {
        let (sh, off) = match body.split_once('+') { Some((a, b)) => (a, b.parse::<i64>().unwrap()), None => (body, 0) };
        return (parse_usize_list(sh), vec![], Some(off));
    }
    let (s, e) = parse_arr_raw(key);
    (s, e, None)
}
fn cached<T: Img + 'static>(key: &str) -> Rc<Array<T>> {
    CACHE.with(|c| {
        let mut c = c.borrow_mut();
        if c.key != key || (c.key.is_empty() && c.arrs.is_empty()) {
            let (s, e, off) = parse_key(key);
            *c = Cache { key: key.to_string(), shape: s, tags: e, off, arrs: HashMap::new() };
        }
        if !c.arrs.contains_key(&TypeId::of::<T>()) {
            // built WITHOUT going through any operation under test other than `Array::new`
            let elems: Vec<T> = match c.off { Some(o) => { let n: usize = c.shape.iter().product(); (0..n as i64).map(|p| T::img(p + o)).collect() }, None => c.tags.iter().map(|&t| T::img(t)).collect() };
            let a: Array<T> = Array::new(elems, c.shape.clone()).expect("harness: array literal");
            c.arrs.insert(TypeId::of::<T>(), Rc::new(a));
        }
        c.arrs[&TypeId::of::<T>()].clone().downcast::<Array<T>>().expect("harness: cache type")
    })
}
fn cached_shape() -> (Vec<usize>, Option<i64>) { CACHE.with(|c| { let c = c.borrow(); (c.shape.clone(), c.off) }) }

/// one element type: plain and chained receiver against the canonical answer; `Some(text)` = a divergence
fn variant<T: Img + 'static>(key: &str, c: &Call, base: &Out<Ans<i64>>, plain: bool, chained: bool) -> Option<String> {
    let a = cached::<T>(key);
    if plain {
        let v = call(&*a, c, false)?;
        if !agree(base, &v) {
            return Some(if T::NAME == "i64" { format!("REPEAT-DIVERGENCE the same call a second time gives {}", brief(&v)) }
                        else { format!("TYPE-DIVERGENCE element type {} gives {}", T::NAME, brief(&v)) });
        }
    }
    if chained {
        if let Some(v) = call(&*a, c, true) {
            if !agree(base, &v) { return Some(format!("RECEIVER-DIVERGENCE the call on Ok(array) (element type {}) gives {}", T::NAME, brief(&v))); }
        }
    }
    None
}

/// A-B-A: the previous case (array, call, its answer).  After the first call of the current case B the previous case A
/// is run again and must give the answer it gave before B — an operation whose answer depends on the call before it fails here.
struct Prev { line: String, arr: Rc<Array<i64>>, call: Call, ans: Out<Ans<i64>> }
thread_local! { static PREV: RefCell<Option<Prev>> = const { RefCell::new(None) }; }

/// the calls of the soak on one shape: in-range vectors (last / middle / first), their positions, one refused call of each kind
fn soak_calls(s: &[usize]) -> Vec<Call> {
    let n: usize = s.iter().product();
    let last: Vec<usize> = s.iter().map(|d| d - 1).collect();
    let mid: Vec<usize> = s.iter().map(|d| d / 2).collect();
    vec![Call::IndexAt(last.clone()), Call::ToCoord(n - 1), Call::At(mid.clone()), Call::OpCoords(last), Call::IndexAt(mid), Call::ToCoord(n / 2), Call::OpIdx(n / 2),
         Call::IndexAt(s.to_vec()), Call::ToCoord(n), Call::IndexAt(vec![0; s.len()])]
}
/// class (14): `count` distinct small shapes through every coordinate / position operation on THIS thread; after each new shape
/// the shape before it is asked again (A-B-A), at the end a sample of all of them.  Judged by the native reference.
fn exec_soak(count: usize, seed: u64) -> Verdict {
    let shapes = soak_shapes(count, seed);
    let probe = |a: &Array<i64>, s: &[usize]| -> Option<String> {
        for (j, c) in soak_calls(s).iter().enumerate() {
            let o = oracle(s, 0, c)?;
            let v = call(a, c, false)?;
            if !agree(&o, &v) { return Some(format!("call {j} {} on shape {s:?}: {}", call_text(c), first_diff(&o, &v))); }
            if j < 2 { if let Some(v) = call(a, c, true) { if !agree(&o, &v) { return Some(format!("call {j} {} on Ok(array) of shape {s:?}: {}", call_text(c), first_diff(&o, &v))); } } }
        }
        None
    };
    let fail = |what: String| Verdict::Mismatch { observed: format!("SOAK-DIVERGENCE {what}"), detail: "native reference (validated against the model on every modelled case of this run); more than 65 536 distinct shapes on one thread".into() };
    let mut prev: Option<(usize, Array<i64>)> = None;
    for (j, s) in shapes.iter().enumerate() {
        let a = iota_tags(s);
        if let Some(d) = probe(&a, s) { return fail(format!("after {j} distinct shapes of the soak: {d}")); }
        if let Some((pj, pa)) = &prev { if let Some(d) = probe(pa, &shapes[*pj]) { return fail(format!("after {} distinct shapes of the soak, the shape visited BEFORE the newest one: {d}", j + 1)); } }
        prev = Some((j, a));
        SOAKED.fetch_add(1, AtOrd::Relaxed);
    }
    for j in (0..shapes.len()).step_by(53).chain(shapes.len().saturating_sub(300)..shapes.len()) {
        if let Some(d) = probe(&iota_tags(&shapes[j]), &shapes[j]) { return fail(format!("second visit after the whole soak of {count} shapes: {d}")); }
    }
    NATIVE_JUDGED.fetch_add(1, AtOrd::Relaxed);
    Verdict::Match(format!("ok soak of {count} distinct shapes"))
}
fn call_text(c: &Call) -> String {
    match c {
        Call::IndexAt(v) => format!("index_at {}", show_list(v)), Call::ToCoord(i) => format!("index_to_coord {i}"), Call::At(v) => format!("at {}", show_list(v)),
        Call::OpIdx(i) => format!("op_index {i}"), Call::OpCoords(v) => format!("op_index_coords {}", show_list(v)), Call::Slice(s, e) => format!("slice {s} {e}"), Call::IndicesAt(l) => format!("indices_at {}", show_list(l)),
    }
}

/// a case on an array of more than 2^20 elements (`iota:<shape>`; `iota8:` = the u8 image only): judged by the native reference,
/// compared in place; then the usual repeat / receiver / element-type variants (no String-carrying type at this size)
fn exec_native(op: &str, args: &[&str], key: &str, c: &Call) -> Option<Verdict> {
    let shape = parse_key(key).0;
    let o = oracle(&shape, 0, c)?;
    NATIVE_JUDGED.fetch_add(1, AtOrd::Relaxed);
    let detail = "native reference (validated against the model on every modelled case of this run)".to_string();
    if key.starts_with("iota8:") {
        let a = cached::<u8>(key);
        let v = call(&*a, c, false)?;
        if !agree(&o, &v) { return Some(Verdict::Mismatch { observed: format!("u8 image: {}", first_diff(&o, &v)), detail }); }
        return Some(Verdict::Match(short_out(&o)));
    }
    let a = cached::<i64>(key);
    let base = call(&*a, c, false)?;
    if !agree(&o, &base) { return Some(Verdict::Mismatch { observed: format!("{}: {}", truncate(&short_out(&base), 200), first_diff(&o, &base)), detail: format!("{detail} says `{}`", truncate(&short_out(&o), 300)) }); }
    let aba = aba_step(op, args, &a, c, &base);
    // the chained receiver clones the whole array twice: every 16th case, on the i64 array only
    let light = !matches!(&base, Out::Ok(Ans::Arr { elems, .. }) if elems.len() > 4096);
    let chained = NATIVE_JUDGED.load(AtOrd::Relaxed) % 16 == 1;
    // `indices_at` of rank >= 2 splits the whole array first (about 0.1 s per call at this size): the 3-byte image only
    let heavy = matches!(c, Call::IndicesAt(_)) && shape.len() >= 2;
    let d = aba.or_else(|| if heavy { None } else { variant::<i64>(key, c, &base, true, chained) })
        .or_else(|| if heavy { None } else { variant::<u8>(key, c, &base, true, false) })
        .or_else(|| variant::<T3b>(key, c, &base, true, false))
        .or_else(|| if light { variant::<f64>(key, c, &base, true, false) } else { None })
        .or_else(|| if light { variant::<T3>(key, c, &base, true, false) } else { None });
    Some(match d { Some(d) => Verdict::Mismatch { observed: format!("{d}; plain Array<i64> call: {}", truncate(&short_out(&base), 200)), detail }, None => Verdict::Match(short_out(&base)) })
}

/// A-B-A: re-run the previous case right after the first call of this one; then this case becomes the previous one
fn aba_step(op: &str, args: &[&str], a: &Rc<Array<i64>>, c: &Call, base: &Out<Ans<i64>>) -> Option<String> {
    let aba = PREV.with(|p| {
        let p = p.borrow();
        let p = p.as_ref()?;
        let again = call(&*p.arr, &p.call, false)?;
        if agree(&p.ans, &again) { None } else { Some(format!("ABA-DIVERGENCE the previous case `{}` answered {} before this call and {} after it", p.line, truncate(&short_out(&p.ans), 120), truncate(&short_out(&again), 120))) }
    });
    PREV.with(|p| *p.borrow_mut() = Some(Prev { line: format!("{op} {}", args.join(" ")), arr: a.clone(), call: c.clone(), ans: base.clone() }));
    aba
}

/// `C02_SLOW=<ms>`: report every case that takes longer (stderr) — the per-case watchdog needs a wide margin
fn exec(op: &str, args: &[&str], expected: &str) -> Option<Verdict> {
    static SLOW: std::sync::OnceLock<Option<u128>> = std::sync::OnceLock::new();
    let slow = *SLOW.get_or_init(|| std::env::var("C02_SLOW").ok().and_then(|v| v.parse().ok()));
    let t0 = std::time::Instant::now();
    let v = exec_case(op, args, expected);
    if let Some(ms) = slow { let dt = t0.elapsed().as_millis(); if dt > ms { eprintln!("slow case {dt} ms: {op} {}", truncate(&args.join(" "), 120)); } }
    v
}

fn exec_case(op: &str, args: &[&str], expected: &str) -> Option<Verdict> {
    if op == "oracle_validations" {
        if expected != "native" { return None; }
        let (v, j, k) = (VALIDATED.load(AtOrd::Relaxed), NATIVE_JUDGED.load(AtOrd::Relaxed), SOAKED.load(AtOrd::Relaxed));
        let text = format!("ok native-reference-validated-against-model={v};judged-by-native-reference={j};soaked-shapes={k}");
        if std::env::var_os("C02_STATS").is_some() { eprintln!("{text}"); }
        return Some(if v < 100_000 || j == 0 || k <= 65_536 { Verdict::Mismatch { observed: text, detail: "the native reference was not validated against the model / the soak did not run in this run".into() } } else { Verdict::Match(text) });
    }
    if op == "soak" {
        if expected != "native" { return None; }
        return Some(exec_soak(args[1].parse().ok()?, args[2].parse().ok()?));
    }
    let key = args[0];
    let c = match op {
        "slice" => Call::Slice(args[1].parse().ok()?, args[2].parse().ok()?),
        "indices_at" => Call::IndicesAt(parse_usize_list(args[1])),
        "index_at" => Call::IndexAt(parse_usize_list(args[1])),
        "index_to_coord" => Call::ToCoord(args[1].parse().ok()?),
        "at" => Call::At(parse_usize_list(args[1])),
        "op_index" => Call::OpIdx(args[1].parse().ok()?),
        "op_index_coords" => Call::OpCoords(parse_usize_list(args[1])),
        _ => return None,
    };
    if key.starts_with("iota") {
        if expected != "native" { return None; }
        return exec_native(op, args, key, &c);
    }
    let a = cached::<i64>(key);
    // canonical answer: plain receiver, i64 tags
    let base = call(&*a, &c, false)?;
    let mut observed = show_out(&base);
    // A-B-A: re-run the previous case right after the first call of this one
    let aba = aba_step(op, args, &a, &c, &base);
    // part 3: the native reference must give the answer of the model wherever the crate does (then it is counted as validated on
    // this case); it judges the `iota:` / `soak` cases alone
    let (shape, off) = cached_shape();
    let oracle_div = match off.and_then(|off| oracle(&shape, off, &c)) {
        Some(o) if observed == expected || (class_of(&observed) == "err" && class_of(expected) == "err") =>
            if agree(&o, &base) { VALIDATED.fetch_add(1, AtOrd::Relaxed); None } else { Some(format!("ORACLE-DIVERGENCE the harness-native reference says {} ({})", brief(&o), first_diff(&o, &base))) },
        _ => None,
    };
    // robustness streams: the same call a second time, the call on Ok(array), and the element-type sweep.
    // Arrays of up to 300 elements: every type on both receivers; larger ones: i64 / u8 on both, i8 / bool / f64 / 12- and 3-byte tuples plain.
    let small = a.len().unwrap() <= 300;
    // the 32-byte non-`Copy` tuple (a String inside: the most expensive image to build): every 4th case
    // the 12- and the 3-byte tuple alternate
    let case_no = CASE_NO.fetch_add(1, AtOrd::Relaxed);
    let every4 = case_no % 4 == 3;
    let d = aba.or(oracle_div).or_else(|| variant::<i64>(key, &c, &base, true, true))
        .or_else(|| variant::<u8>(key, &c, &base, true, true))
        .or_else(|| variant::<f64>(key, &c, &base, true, small))
        .or_else(|| variant::<i8>(key, &c, &base, true, small))
        .or_else(|| variant::<bool>(key, &c, &base, true, small))
        .or_else(|| if case_no % 2 == 0 { variant::<T3>(key, &c, &base, true, small && case_no % 8 == 0) } else { variant::<T3b>(key, &c, &base, true, small && case_no % 8 == 1) })
        .or_else(|| if small { variant::<u16>(key, &c, &base, true, true) } else { None })
        .or_else(|| if small { variant::<i32>(key, &c, &base, true, true) } else { None })
        .or_else(|| if small { variant::<f32>(key, &c, &base, true, true) } else { None })
        .or_else(|| if small { variant::<usize>(key, &c, &base, true, true) } else { None })
        .or_else(|| if small { variant::<String>(key, &c, &base, true, true) } else { None })
        .or_else(|| if small && every4 { variant::<TW>(key, &c, &base, true, true) } else { None });
    if let Some(d) = d { observed = format!("{d}; plain Array<i64> call: {}", truncate(&observed, 300)); }
    Some(compare_default(observed, expected))
}

/// non-trivial: array has at least two axes longer than one (so row-major order matters)
fn nontrivial(op: &str, args: &[&str]) -> bool {
    if op == "soak" || op == "oracle_validations" { return false; }
    if args[0].starts_with("iota") { return parse_key(args[0]).0.iter().filter(|&&d| d > 1).count() >= 2; }
    let s = args[0].strip_prefix('i').map_or_else(|| parse_arr_raw(args[0]).0, |b| parse_usize_list(b.split('+').next().unwrap()));
    s.iter().filter(|&&d| d > 1).count() >= 2
}

fn main() {
    harness_main(Spec { prop: "C02", gen, exec, nontrivial, hang_secs: 60,
        rule: "exhaustive: every shape (rank<=4 len<=3 quick / len<=4 thorough; rank 5 len<=2 / <=3) + zero-length axes in every position x every flat index 0..len+1 x every coordinate vector of the box enlarged by one per axis, wrong-length vectors, far-out values; + seeded random shapes rank<=5 len<=6. Big shapes (lib big_shapes: axis lengths 7..17, element counts up to 4900; every axis length 7..17 in leading/inner/trailing position of rank 1..3; power-of-two axis lengths 8..2048 in non-leading positions; rank 5; seeded random rank<=5 len<=20 (thorough <=40)): every flat index 0..len+1, every in-range coordinate vector and the one-off border (one component = its axis length, the others in range; the all-equal corner). slice / indices_at: every shape rank<=4 len<=3 (<=4 thorough) + an axis of length 5 + rank 0 and zero-length axes x every range 0<=start,end<=len+1 (arrays of <=12 elements; larger: every start x windows 0..shape[0]+2 and the ends len-1,len,len+1,start-1) x every index list of length<=3 over 0..=shape[0], reversed/doubled full lists, far-out values; + seeded random rank<=5 len<=6; big shapes: a grid of starts x windows around 0,1,2,shape[0]-1..+1,row size,middle,end and full/reversed/doubled/strided/random index lists. EVERY case is executed on the plain Array<i64> receiver (the compared answer), a second time, on Ok(array) through the Result-receiver impl (methods; the operators have none), and on the u8 / i8 / bool / f64 (tag 0 = -0.0, bit-wise) images (arrays <= 300 elements: also u16, i32, f32, usize, String, all on both receivers); any divergence fails the case. PART 2: hidden state - groups of shapes that collide under weak polynomial hashes (multipliers 31..257, any seed, across ranks), 8-/16-bit packed axis lengths and order-/grouping-blind fingerprints are probed with every operation interleaved round-robin (both orders), colliding coordinate vectors / ranges / index lists and permutations on one array, and EVERY case re-runs the previous case after its own first call and demands the previous answer (A-B-A); exact values - narrowing images c+2^8, c+2^16, c+2^32, c+3*2^32 of every coordinate component, flat position, range end and index-list entry, each failing call directly followed by the valid one; exact lengths - every axis length 1..300 in trailing ([2,d]), inner ([3,d,2]) and leading ([d,2]) position with every flat position (thorough: to 1000 and sampled to 5000, [5,d], [2,2,d]), primes and 31/37/49/1000/1001 in rank 1..3; ranks 6..8 (full enlarged box on 2^6, 1-2-1-2-1-2-1, ...); huge shapes (16 384..196 611 elements, axes of 65 537 / 70 000, rank 14) with sampled positions (first/last 40, every multiple of 4096 and of every stride +-1, seeded random) answered by the model directly (its index model is linear), slice / indices_at there only where the quadratic model is affordable. distinct = distinct case lines; non-trivial = array with >=2 axes longer than 1" });
}
