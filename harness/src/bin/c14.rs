//! C14 — vector and matrix products (`dot`, `vdot`, `inner`, `outer`, `matmul`).
//!
//! Case lines: `C14.<op> <i32|i64|f64> <a> <b>` with integer entries (`shape:elems`, or tag arrays `iSHAPE+off`).
//! The model answers with the integer result array; the real crate is run on `Array<i32>`, `Array<i64>` or
//! `Array<f64>` holding the same integers (so the f64 arithmetic is exact) and its result is printed as integers.
//! No float crosses the boundary: an f64 result that is not an integer is reported as a mismatch.
use arrharness::*;

const OPS: [&str; 5] = ["matmul", "dot", "vdot", "inner", "outer"];
const TYS: [&str; 3] = ["i32", "i64", "f64"];

fn lit(shape: &[usize], elems: &[i64]) -> String { format!("{}:{}", show_list(shape), show_list(elems)) }

fn rand_arr(rng: &mut Rng, shape: &[usize]) -> String {
    let n: usize = shape.iter().product();
    let e: Vec<i64> = (0..n).map(|_| rng.range(-5, 6)).collect();
    lit(shape, &e)
}

/// vectors, matrices and stacks with every axis in lo..=hi
fn vms(lo: usize, hi: usize) -> Vec<Vec<usize>> { shapes(1, 3, lo, hi) }

/// a pair that conforms for `matmul`/`dot`/`inner` (chosen by `kind`), lengths 1..=maxlen
fn conforming(rng: &mut Rng, maxlen: usize) -> (Vec<usize>, Vec<usize>) {
    let d = |r: &mut Rng| 1 + r.below(maxlen);
    let (n, m, p, s) = (d(rng), d(rng), d(rng), d(rng));
    match rng.below(9) {
        0 => (vec![m], vec![m]),
        1 => (vec![n, m], vec![m, p]),
        2 => (vec![m], vec![m, p]),
        3 => (vec![n, m], vec![m]),
        4 => (vec![s, n, m], vec![s, m, p]),
        5 => (vec![s, n, m], vec![m, p]),
        6 => (vec![n, m], vec![s, m, p]),
        7 => (vec![n, m], vec![p, m]),          // inner
        _ => (vec![s, n, m], vec![p, m]),       // inner, stack x matrix
    }
}

fn gen(tier: &str, seed: u64, out: &mut dyn FnMut(String)) {
    let thorough = tier == "thorough";
    // (i) corpus: the witnesses of the defects of the pinned tree and the suite's own rows
    for l in [
        "matmul i32 3,3:1,2,3,4,5,6,7,8,9 3,2:1,2,3,4,5,6",
        "matmul i32 2,3:1,2,3,4,5,6 4,2:1,2,3,4,5,6,7,8",
        "matmul i64 2,3:1,2,3,4,5,6 1,2:1,2",
        "matmul i32 2:1,2 2,3:0,1,2,3,4,5",
        "matmul i32 3:1,2,3 2,3:0,1,2,3,4,5",
        "matmul f64 2,2,3:1,2,3,4,5,6,7,8,9,10,11,12 2,3,4:1,2,3,4,5,6,7,8,9,10,11,12,13,14,15,16,17,18,19,20,21,22,23,24",
        "matmul i32 2,2,3:1,2,3,4,5,6,7,8,9,10,11,12 3,2:1,2,3,4,5,6",
        "dot i32 2,2:1,2,3,4 2,3:5,6,3,7,8,3",
        "dot i32 3,3:1,2,3,4,5,6,7,8,9 3,2:1,2,3,4,5,6",
        "dot i32 2,3:1,2,3,4,5,6 4,2:1,2,3,4,5,6,7,8",
        "dot i32 1:2 2,3:1,2,3,4,5,6",
        "matmul i32 2:1,2 2,2,2:1,2,1,2,1,2,1,2",
        "matmul i32 2,2,2:1,2,1,2,1,2,1,2 2:1,2",
        "inner i32 3:1,2,3 2,3:6,5,4,3,2,1",
        "outer i32 2,2:1,2,3,4 2,2:4,3,2,1",
        "vdot i32 3:1,2,3 2,3:1,2,3,4,5,6",
    ] { out(l.to_string()); }

    // (ii) exhaustive small scope: every ordered pair of vector / matrix / stack shapes with lengths 1..3,
    // every operation, tag data (distinct non-zero entries) and pseudo-random signed data, element types in rotation
    let mut rng = Rng::new(0xC14);          // the enumerated part does not depend on the seed
    let small = vms(1, 3);
    let mut t = 0usize;
    for sa in &small { for sb in &small {
        for op in OPS {
            let tys: Vec<&str> = if thorough { TYS.to_vec() } else { t += 1; vec![TYS[t % 3]] };
            for ty in tys {
                out(format!("{op} {ty} {} {}", tag_off(sa, 1), tag_off(sb, 100)));
                out(format!("{op} {ty} {} {}", rand_arr(&mut rng, sa), rand_arr(&mut rng, sb)));
            }
        }
    } }
    // vectors and matrices with lengths up to 4 (quick) / 5 (thorough), matmul + dot + inner, exhaustive
    let hi = if thorough { 5 } else { 4 };
    let vm = shapes(1, 2, 1, hi);
    for sa in &vm { for sb in &vm {
        if sa.iter().chain(sb.iter()).all(|&d| d <= 3) { continue; }
        for op in ["matmul", "dot", "inner"] {
            t += 1;
            out(format!("{op} {} {} {}", TYS[t % 3], tag_off(sa, 1), tag_off(sb, 100)));
        }
    } }
    // thorough: every vector / matrix / stack pair with lengths up to 4, every operation, tag data
    if thorough {
        let mid = vms(1, 4);
        for sa in &mid { for sb in &mid {
            if sa.iter().chain(sb.iter()).all(|&d| d <= 3) { continue; }
            for op in OPS { t += 1; out(format!("{op} {} {} {}", TYS[t % 3], tag_off(sa, 1), tag_off(sb, 100))); }
        } }
    }
    // rank-4 operands and one-element operands of every rank (arms: matmul_nd on 4-D, scalar arm of dot)
    for sa in [vec![2, 2, 2, 3], vec![1, 2, 2, 3], vec![2, 1, 3, 2], vec![1, 1, 1, 1], vec![1, 1], vec![1]] {
        for sb in [vec![2, 2, 3, 2], vec![1, 2, 3, 2], vec![3, 2], vec![3], vec![2], vec![1, 1, 1], vec![2, 3, 2]] {
            for op in OPS { t += 1; out(format!("{op} {} {} {}", TYS[t % 3], tag_off(&sa, 1), tag_off(&sb, 100)));
                            t += 1; out(format!("{op} {} {} {}", TYS[t % 3], tag_off(&sb, 1), tag_off(&sa, 100))); }
        }
    }

    // (iii) seeded random stream, lengths 1..5: conforming by construction
    let mut rng = Rng::new(seed ^ 0x14);
    let n_rand = if thorough { 100000 } else { 8000 };
    for _ in 0..n_rand {
        let (sa, sb) = conforming(&mut rng, 5);
        let op = if rng.below(4) == 0 { *rng.pick(&OPS) } else { *rng.pick(&["matmul", "matmul", "dot", "inner"]) };
        let ty = *rng.pick(&TYS);
        out(format!("{op} {ty} {} {}", rand_arr(&mut rng, &sa), rand_arr(&mut rng, &sb)));
    }
    // (iv) malformed stream: a conforming pair with one axis length changed, and unrelated shape pairs
    for _ in 0..n_rand / 2 {
        let (mut sa, mut sb) = conforming(&mut rng, 5);
        if rng.below(3) == 0 { sa = rng.shape(1, 3, 5); sb = rng.shape(1, 3, 5); }
        else {
            let which = rng.below(sa.len() + sb.len());
            let tgt = if which < sa.len() { &mut sa[which] } else { &mut sb[which - sa.len()] };
            *tgt = if *tgt == 1 { 2 } else if rng.below(2) == 0 { *tgt - 1 } else { *tgt + 1 };
        }
        let op = *rng.pick(&OPS);
        let ty = *rng.pick(&TYS);
        out(format!("{op} {ty} {} {}", rand_arr(&mut rng, &sa), rand_arr(&mut rng, &sb)));
    }
}

/// print a numeric result array as integers; `Err(text)` when an entry is not an integer
fn show_int_arr<T: NumericOps>(a: &Array<T>) -> Result<String, String> {
    let mut es = vec![];
    for v in a.get_elements().unwrap() {
        let f = v.to_f64();
        if !(f.is_finite() && f.fract() == 0.0 && f.abs() < 9.0e15) { return Err(format!("non-integer entry {f}")); }
        es.push(f as i64);
    }
    Ok(format!("{}:{}", show_list(&a.get_shape().unwrap()), show_list(&es)))
}

fn run<T: NumericOps>(op: &str, a: Array<T>, b: Array<T>) -> Option<Result<String, String>> {
    let r: Result<Array<T>, ArrayError> = match op {
        "matmul" => a.matmul(&b),
        "dot" => a.dot(&b),
        "vdot" => a.vdot(&b),
        "inner" => a.inner(&b),
        "outer" => a.outer(&b),
        _ => return None,
    };
    Some(match r {
        Ok(arr) => {
            if !consistent(&arr) { Err(format!("result violates shape/length consistency: shape {:?}, {} elements", arr.get_shape().unwrap(), arr.get_elements().unwrap().len())) }
            else { show_int_arr(&arr).map(|s| format!("ok {s}")) }
        }
        Err(e) => Ok(format!("err {}", err_name(&e))),
    })
}

fn build<T: NumericOps>(s: &str, conv: impl Fn(i64) -> T) -> Array<T> {
    let (shape, elems) = parse_arr_raw(s);
    Array::new(elems.into_iter().map(conv).collect(), shape).expect("harness: malformed array literal in case line")
}

fn exec(op: &str, args: &[&str], expected: &str) -> Option<Verdict> {
    if args.len() != 3 || !OPS.contains(&op) { return None; }
    let (ty, sa, sb) = (args[0], args[1], args[2]);
    if !TYS.contains(&ty) { return None; }
    let mut note: Option<String> = None;
    let observed = {
        let note = &mut note;
        guarded(move || {
            let r = match ty {
                "i32" => run(op, build(sa, |x| x as i32), build(sb, |x| x as i32)),
                "i64" => run(op, build(sa, |x| x), build(sb, |x| x)),
                _ => run(op, build(sa, |x| x as f64), build(sb, |x| x as f64)),
            };
            match r { Some(Ok(s)) => s, Some(Err(d)) => { *note = Some(d); "ok <malformed>".to_string() } None => "bad-op".to_string() }
        })
    };
    if let Some(d) = note { return Some(Verdict::Mismatch { observed, detail: d }); }
    if expected == "open" { return Some(Verdict::Open(observed)); }
    // region of the open finding C14-dot-2d-rectangular-refused: the model mirrors the test-pinned refusal of `dot`,
    // the driver sends the textbook product along; the real code is held to the property (the product), not to the model
    if let Some((model, want)) = expected.split_once(" | matmul ") {
        return Some(if observed == want { Verdict::Match(observed) } else {
            Verdict::Mismatch { observed, detail: format!("dot of two conforming matrices whose product is not square: the property demands `{}`; the model, mirroring the refusal pinned by products_test::test_linalg_dot::case_15, says `{}`", truncate(want, 300), model) } });
    }
    Some(compare_default(observed, expected))
}

/// non-trivial: both operands have more than one element (so a sum over a shared index or a refusal is at stake)
fn nontrivial(_op: &str, args: &[&str]) -> bool {
    if args.len() != 3 { return false; }
    let (a, _) = parse_arr_raw(args[1]);
    let (b, _) = parse_arr_raw(args[2]);
    a.iter().product::<usize>() > 1 && b.iter().product::<usize>() > 1
}

fn main() {
    harness_main(Spec { prop: "C14", gen, exec, nontrivial, hang_secs: 20,
        rule: "corpus of defect witnesses; exhaustive: every ordered pair of shapes among vectors [n], matrices [n,m], stacks [s,n,m] with lengths 1..3 x {matmul,dot,vdot,inner,outer} x {tag data, signed pseudo-random data} (element types i32/i64/f64 in rotation quick, all three thorough); every vector/matrix pair with lengths up to 4 (quick) / 5 (thorough) for matmul, dot, inner; thorough: every vector/matrix/stack pair with lengths up to 4 x 5 operations (tag data); rank-4 and one-element operands; + seeded random conforming pairs (lengths 1..5, all arms incl. broadcast stacks) + malformed stream (one axis length off by one, unrelated shapes). distinct = distinct case lines; non-trivial = both operands have more than one element" });
}
