//! C14 — vector and matrix products (`dot`, `vdot`, `inner`, `outer`, `matmul`).
//!
//! Case lines: `C14.<op> <type> <a> <b>`.
//! * `<type>` in `i8 i16 i32 i64 f32 f64`: integer entries (`shape:elems`, or tag arrays `iSHAPE+off`).  The model answers with the
//!   integer result array; the real crate is run on `Array<type>` holding the same integers and its result is printed as integers.
//!   The statement speaks about values for which the defining sum is representable, so a case is judged only when every product and
//!   every partial sum (left to right) is exactly representable in f64 and every entry fits the element type (checked natively with
//!   i128 arithmetic on the term lists of the independent reference below); otherwise it is reported as open, not compared.
//! * `<type>` in `f64c f32c`: the entries are CLASS CODES into a table of float values (±0, subnormals, huge, inf, NaN, inexact
//!   fractions …).  No float crosses the boundary: the model computes on the codes and only its outcome class and result shape are
//!   used; the VALUES are compared with an independent native reference (textbook index formulas written here, accumulated in f64
//!   the way the code documents for the path: `mul_add` left fold for matrix x matrix, `sum::<f64>()` of the products for
//!   vector x matrix / matrix x vector, `fold(0., +)` of the products for vdot / inner / dot, one conversion to the element type at
//!   the end).  Equal = same number (`==`, so +0 and -0 agree) or both NaN.
//! Every case is run on BOTH receivers (plain `Array<T>` and `Ok(array)` through `impl … for Result<Array<N>, ArrayError>`).
//! Part-2 robustness streams (FRAMEWORK.md 6-10):
//! * `C14.seq <op> <ty> <a> <b> | <op> <ty> <a> <b> | …`: calls executed back to back on one thread, each judged like a single case
//!   (hidden state: an operand followed by a same-shape rearrangement of its entries, colliding shapes, a refused call followed by a
//!   valid one, the same arguments through different element types, A-B-A);
//! * operands that are textually equal are ALSO passed as the very same object (`a.op(&a)`) and must give the same answer;
//! * every single case is followed directly by the same call on rearranged operands, judged by the native term-list oracle (which has
//!   just been compared with the model on that case); every case A is re-run after the next case B and must answer identically;
//! * `<type>` ending in `n` (`i64n`, `f64n`, `i32n`, `f32n`): HUGE operands (16 384 … 140 000 elements) for which the list-backed model
//!   is too slow; the model driver answers `native` and the case is judged by the native oracle alone.  `C14.tally` (last line) reports
//!   on how many smaller cases of the same run that oracle was found equal to the model.
use arrharness::*;
use std::cell::RefCell;
use std::panic::{catch_unwind, AssertUnwindSafe};
use std::sync::atomic::{AtomicUsize, Ordering::Relaxed};

/// counters reported by the `tally` line
static N_VALIDATED: AtomicUsize = AtomicUsize::new(0);      // cases on which the native term-list oracle was compared with the model (and agreed)
static N_FOLLOW: AtomicUsize = AtomicUsize::new(0);         // follow-up calls on rearranged operands judged by that oracle
static N_NATIVE: AtomicUsize = AtomicUsize::new(0);         // huge cases judged by the oracle alone
static N_ALIAS: AtomicUsize = AtomicUsize::new(0);          // calls with the same object on both sides
static N_ABA: AtomicUsize = AtomicUsize::new(0);            // A-B-A re-runs
static N_BUILD: AtomicUsize = AtomicUsize::new(0);          // operands rebuilt through clone_from / FromIterator / IntoIterator

const OPS: [&str; 5] = ["matmul", "dot", "vdot", "inner", "outer"];
const TYS: [&str; 3] = ["i32", "i64", "f64"];
const INT_TYS: [&str; 6] = ["i16", "i32", "i64", "i8", "f32", "f64"];

fn lit(shape: &[usize], elems: &[i64]) -> String { format!("{}:{}", show_list(shape), show_list(elems)) }

fn rand_arr(rng: &mut Rng, shape: &[usize]) -> String {
    let n: usize = shape.iter().product();
    let e: Vec<i64> = (0..n).map(|_| rng.range(-5, 6)).collect();
    lit(shape, &e)
}
fn rand_arr_in(rng: &mut Rng, shape: &[usize], lo: i64, hi: i64) -> String {
    let n: usize = shape.iter().product();
    let e: Vec<i64> = (0..n).map(|_| rng.range(lo, hi)).collect();
    lit(shape, &e)
}

/// vectors, matrices and stacks with every axis in lo..=hi
fn vms(lo: usize, hi: usize) -> Vec<Vec<usize>> { shapes(1, 3, lo, hi) }

/// a pair that conforms for `matmul`/`dot`/`inner` (chosen by `kind`), lengths 1..=maxlen
fn conforming(rng: &mut Rng, maxlen: usize) -> (Vec<usize>, Vec<usize>) {
    let d = |r: &mut Rng| 1 + r.below(maxlen);
    let (n, m, p, s) = (d(rng), d(rng), d(rng), d(rng));
    match rng.below(9) {
        0 => (vec![m], vec![m]),
        1 => (vec![n, m], vec![m, p]),
        2 => (vec![m], vec![m, p]),
        3 => (vec![n, m], vec![m]),
        4 => (vec![s, n, m], vec![s, m, p]),
        5 => (vec![s, n, m], vec![m, p]),
        6 => (vec![n, m], vec![s, m, p]),
        7 => (vec![n, m], vec![p, m]),          // inner
        _ => (vec![s, n, m], vec![p, m]),       // inner, stack x matrix
    }
}

/// every (operation, shape pair) family with contracted length `m` and outer lengths `n`, `p`, stack length `s`
fn families(n: usize, m: usize, p: usize, s: usize) -> Vec<(&'static str, Vec<usize>, Vec<usize>)> {
    vec![
        ("vdot", vec![m], vec![m]), ("inner", vec![m], vec![m]), ("matmul", vec![m], vec![m]), ("dot", vec![m], vec![m]),
        ("matmul", vec![n, m], vec![m, p]), ("matmul", vec![m], vec![m, p]), ("matmul", vec![n, m], vec![m]),
        ("matmul", vec![s, n, m], vec![s, m, p]), ("matmul", vec![s, n, m], vec![m, p]), ("matmul", vec![n, m], vec![s, m, p]),
        ("dot", vec![n, m], vec![m, n]), ("dot", vec![m], vec![m, p]), ("dot", vec![n, m], vec![m]),
        ("inner", vec![n, m], vec![p, m]), ("inner", vec![m], vec![p, m]), ("inner", vec![s, n, m], vec![p, m]),
        ("vdot", vec![n, m], vec![m, n]),
    ]
}

/// inclusive value range for random integer entries such that sums over `m` products stay inside the element type
fn small_range(ty: &str, m: usize) -> (i64, i64) {
    match ty {
        "i8" => if m <= 14 { (-3, 3) } else if m <= 31 { (-2, 2) } else { (-1, 1) },   // 14*9 = 126, 31*4 = 124, m <= 127
        "i16" => if m <= 9 { (-60, 60) } else { (-20, 20) },                        // 9*3600 = 32400, 70*400 = 28000
        _ => (-9, 9),
    }
}

// ---- class-coded float operands

const NCLS: usize = 30;
const N_ORD: usize = 8;       // codes 2..8 are "ordinary" small values, 0/1 the zeros, 8.. the special classes
fn cls_lit(shape: &[usize], codes: &[usize]) -> String { format!("{}:{}", show_list(shape), show_list(codes)) }
fn ordinary(rng: &mut Rng) -> usize { 2 + rng.below(N_ORD - 2) }

/// the textbook reference is used by the generator as well, to aim a special value at a factor that really is multiplied
fn paired_case(rng: &mut Rng, op: &str, sa: &[usize], sb: &[usize], ca: usize, cb: usize) -> Option<(String, String)> {
    let (la, lb) = (sa.iter().product::<usize>(), sb.iter().product::<usize>());
    let mut a: Vec<usize> = (0..la).map(|_| ordinary(rng)).collect();
    let mut b: Vec<usize> = (0..lb).map(|_| ordinary(rng)).collect();
    if let Ref::Terms { entries, .. } = reference(op, sa, sb) {
        let e = rng.pick(&entries); if e.is_empty() { return None; }
        let &(ia, ib) = rng.pick(e);
        a[ia] = ca; b[ib] = cb;
        Some((cls_lit(sa, &a), cls_lit(sb, &b)))
    } else { None }
}

fn gen_base(tier: &str, seed: u64, out: &mut dyn FnMut(String)) {
    let thorough = tier == "thorough";
    // (i) corpus: the witnesses of the defects of the pinned tree and the suite's own rows
    for l in [
        "matmul i32 3,3:1,2,3,4,5,6,7,8,9 3,2:1,2,3,4,5,6",
        "matmul i32 2,3:1,2,3,4,5,6 4,2:1,2,3,4,5,6,7,8",
        "matmul i64 2,3:1,2,3,4,5,6 1,2:1,2",
        "matmul i32 2:1,2 2,3:0,1,2,3,4,5",
        "matmul i32 3:1,2,3 2,3:0,1,2,3,4,5",
        "matmul f64 2,2,3:1,2,3,4,5,6,7,8,9,10,11,12 2,3,4:1,2,3,4,5,6,7,8,9,10,11,12,13,14,15,16,17,18,19,20,21,22,23,24",
        "matmul i32 2,2,3:1,2,3,4,5,6,7,8,9,10,11,12 3,2:1,2,3,4,5,6",
        "dot i32 2,2:1,2,3,4 2,3:5,6,3,7,8,3",
        "dot i32 3,3:1,2,3,4,5,6,7,8,9 3,2:1,2,3,4,5,6",
        "dot i32 2,3:1,2,3,4,5,6 4,2:1,2,3,4,5,6,7,8",
        "dot i32 1:2 2,3:1,2,3,4,5,6",
        "matmul i32 2:1,2 2,2,2:1,2,1,2,1,2,1,2",
        "matmul i32 2,2,2:1,2,1,2,1,2,1,2 2:1,2",
        "inner i32 3:1,2,3 2,3:6,5,4,3,2,1",
        "outer i32 2,2:1,2,3,4 2,2:4,3,2,1",
        "vdot i32 3:1,2,3 2,3:1,2,3,4,5,6",
        // witnesses of the seeded changes C14-r2-m1 (codes: 10 = 2^-1030, 13 = 2^1023, 18 = inf) and C14-r2-m2
        "matmul f64c 2,2:10,4,5,4 2,2:13,2,5,4",
        "matmul f64c 1,2:18,2 2,1:2,2",
        "vdot i32 3:100000,-100000,3 3:100000,100000,2",
        "vdot i16 2,2:300,-300,2,1 2,2:300,300,2,1",
        "vdot i64 3:1099511627776,-1099511627776,3 3:1073741824,1073741824,2",
        // round 4: witnesses of the extension theorems (matmul vector x stack, dot with an operand of rank >= 3, zero-length operands)
        "matmul i64 2:1,2 3,2,2:1,2,3,4,5,6,7,8,9,10,11,12",
        "matmul i64 2,3,2:1,2,3,4,5,6,7,8,9,10,11,12 2:1,1",
        "dot i64 2,3,2:1,2,3,4,5,6,7,8,9,10,11,12 3:1,1,1",
        "dot i64 2:1,2 2,2,3:1,2,3,4,5,6,7,8,9,10,11,12",
        "dot i64 2,2:1,2,3,4 3,2,2:1,2,3,4,5,6,7,8,9,10,11,12",
        "dot i64 2,2,2:1,2,3,4,5,6,7,8 2,2,2:1,2,3,4,5,6,7,8",
        "dot i32 3,3,3:1,2,3,4,5,6,7,8,9,1,2,3,4,5,6,7,8,9,1,2,3,4,5,6,7,8,9 3,3,3:9,8,7,6,5,4,3,2,1,9,8,7,6,5,4,3,2,1,9,8,7,6,5,4,3,2,1",
        "matmul i64 2,0:- 0:-", "matmul i64 0,2:- 2:1,2", "vdot i64 0:- 0:-", "dot i64 1:5 0,2:-", "inner i64 2,0:- 3,0:-",
    ] { out(l.to_string()); }

    // (ii) exhaustive small scope: every ordered pair of vector / matrix / stack shapes with lengths 1..3,
    // every operation, tag data (distinct non-zero entries) and pseudo-random signed data, element types in rotation
    let mut rng = Rng::new(0xC14);          // the enumerated part does not depend on the seed
    let small = vms(1, 3);
    let mut t = 0usize;
    for sa in &small { for sb in &small {
        for op in OPS {
            let tys: Vec<&str> = if thorough { TYS.to_vec() } else { t += 1; vec![TYS[t % 3]] };
            for ty in tys {
                out(format!("{op} {ty} {} {}", tag_off(sa, 1), tag_off(sb, 100)));
                out(format!("{op} {ty} {} {}", rand_arr(&mut rng, sa), rand_arr(&mut rng, sb)));
            }
        }
    } }
    // vectors and matrices with lengths up to 4 (quick) / 5 (thorough), matmul + dot + inner, exhaustive
    let hi = if thorough { 5 } else { 4 };
    let vm = shapes(1, 2, 1, hi);
    for sa in &vm { for sb in &vm {
        if sa.iter().chain(sb.iter()).all(|&d| d <= 3) { continue; }
        for op in ["matmul", "dot", "inner"] {
            t += 1;
            out(format!("{op} {} {} {}", TYS[t % 3], tag_off(sa, 1), tag_off(sb, 100)));
        }
    } }
    // thorough: every vector / matrix / stack pair with lengths up to 4, every operation, tag data
    if thorough {
        let mid = vms(1, 4);
        for sa in &mid { for sb in &mid {
            if sa.iter().chain(sb.iter()).all(|&d| d <= 3) { continue; }
            for op in OPS { t += 1; out(format!("{op} {} {} {}", TYS[t % 3], tag_off(sa, 1), tag_off(sb, 100))); }
        } }
    }
    // rank-4 operands and one-element operands of every rank (arms: matmul_nd on 4-D, scalar arm of dot)
    for sa in [vec![2, 2, 2, 3], vec![1, 2, 2, 3], vec![2, 1, 3, 2], vec![1, 1, 1, 1], vec![1, 1], vec![1]] {
        for sb in [vec![2, 2, 3, 2], vec![1, 2, 3, 2], vec![3, 2], vec![3], vec![2], vec![1, 1, 1], vec![2, 3, 2]] {
            for op in OPS { t += 1; out(format!("{op} {} {} {}", TYS[t % 3], tag_off(&sa, 1), tag_off(&sb, 100)));
                            t += 1; out(format!("{op} {} {} {}", TYS[t % 3], tag_off(&sb, 1), tag_off(&sa, 100))); }
        }
    }

    // round 4: `dot` with an operand of rank >= 3 (`dot_1d` on a stack, `dot_nd`; outside the statement, modelled as written in
    // ArrModel/C14Ext.lean and compared): every rank pair up to 4 x 4, lengths 1..4, cubes (all lengths equal: the only shapes
    // on which `dot_nd` meets numpy's formula), near-cubes (one length off) and unrelated lengths; signed data
    {
        let mut r4 = Rng::new(0xC14D07);
        let n_dot = if thorough { 6000 } else { 900 };
        for i in 0..n_dot {
            let (ra, rb) = *r4.pick(&[(1usize, 3usize), (3, 1), (2, 3), (3, 2), (3, 3), (1, 4), (4, 1), (2, 4), (4, 2), (3, 4), (4, 3), (4, 4), (3, 3), (2, 3), (3, 2)]);
            let base = 1 + r4.below(4);
            let (mut sa, mut sb): (Vec<usize>, Vec<usize>) = match i % 3 {
                0 => (vec![base; ra], vec![base; rb]),
                1 => { let mut a = vec![base; ra]; let mut b = vec![base; rb]; let w = r4.below(ra + rb);
                       let tgt = if w < ra { &mut a[w] } else { &mut b[w - ra] }; *tgt = 1 + r4.below(4); (a, b) }
                _ => ((0..ra).map(|_| 1 + r4.below(4)).collect(), (0..rb).map(|_| 1 + r4.below(4)).collect()),
            };
            if sa.iter().product::<usize>() * sb.iter().product::<usize>() > 4096 { sa = vec![2; ra]; sb = vec![2; rb]; }
            t += 1;
            out(format!("dot {} {} {}", TYS[t % 3], rand_arr(&mut r4, &sa), rand_arr(&mut r4, &sb)));
        }
    }

    // (iii) seeded random stream, lengths 1..5: conforming by construction
    let mut rng = Rng::new(seed ^ 0x14);
    let n_rand = if thorough { 100000 } else { 8000 };
    for _ in 0..n_rand {
        let (sa, sb) = conforming(&mut rng, 5);
        let op = if rng.below(4) == 0 { *rng.pick(&OPS) } else { *rng.pick(&["matmul", "matmul", "dot", "inner"]) };
        let ty = *rng.pick(&TYS);
        out(format!("{op} {ty} {} {}", rand_arr(&mut rng, &sa), rand_arr(&mut rng, &sb)));
    }
    // (iv) malformed stream: a conforming pair with one axis length changed, and unrelated shape pairs
    for _ in 0..n_rand / 2 {
        let (mut sa, mut sb) = conforming(&mut rng, 5);
        if rng.below(3) == 0 { sa = rng.shape(1, 3, 5); sb = rng.shape(1, 3, 5); }
        else {
            let which = rng.below(sa.len() + sb.len());
            let tgt = if which < sa.len() { &mut sa[which] } else { &mut sb[which - sa.len()] };
            *tgt = if *tgt == 1 { 2 } else if rng.below(2) == 0 { *tgt - 1 } else { *tgt + 1 };
        }
        let op = *rng.pick(&OPS);
        let ty = *rng.pick(&TYS);
        out(format!("{op} {ty} {} {}", rand_arr(&mut rng, &sa), rand_arr(&mut rng, &sb)));
    }

    // ============================================================ robustness streams (FRAMEWORK.md)
    let mut rng = Rng::new(seed ^ 0xC14C14);
    let reps = if thorough { 6 } else { 1 };

    // ---- stream 3a: element types i8 / i16 / f32 (+ the three above) on the seeded conforming and off-by-one pairs, lengths 1..5
    for _ in 0..(if thorough { 30000 } else { 4000 }) {
        let (mut sa, mut sb) = conforming(&mut rng, 5);
        if rng.below(5) == 0 {
            let which = rng.below(sa.len() + sb.len());
            let tgt = if which < sa.len() { &mut sa[which] } else { &mut sb[which - sa.len()] };
            *tgt = if *tgt == 1 { 2 } else if rng.below(2) == 0 { *tgt - 1 } else { *tgt + 1 };
        }
        let op = if rng.below(3) == 0 { *rng.pick(&OPS) } else { *rng.pick(&["matmul", "matmul", "dot", "inner"]) };
        let ty = *rng.pick(&["i16", "i8", "f32", "i16", "i8", "f32", "i32", "i64", "f64"]);
        let (lo, hi) = small_range(ty, 5);
        out(format!("{op} {ty} {} {}", rand_arr_in(&mut rng, &sa, lo, hi), rand_arr_in(&mut rng, &sb, lo, hi)));
    }
    // ---- stream 1a: contracted lengths 6..9 for every family and element type, outer lengths 1..3
    for m in 6..=9 { for _ in 0..reps {
        let (n, p, s) = (1 + rng.below(3), 1 + rng.below(3), 1 + rng.below(3));
        for (op, sa, sb) in families(n, m, p, s) { for ty in INT_TYS {
            let (lo, hi) = small_range(ty, m);
            out(format!("{op} {ty} {} {}", rand_arr_in(&mut rng, &sa, lo, hi), rand_arr_in(&mut rng, &sb, lo, hi)));
        } }
        // tag data (distinct entries), the wide types only
        for (op, sa, sb) in families(n, m, p, s) { t += 1; out(format!("{op} {} {} {}", TYS[t % 3], tag_off(&sa, 1), tag_off(&sb, 100))); }
        // contracted lengths that differ by one / are swapped: refused
        for (op, sa, sb) in families(n, m, p, s) { let mut sb2 = sb.clone(); let k = sb2.iter().position(|&d| d == m).unwrap_or(0); sb2[k] = m - 1;
            t += 1; out(format!("{op} {} {} {}", INT_TYS[t % 6], rand_arr_in(&mut rng, &sa, 0, 1), rand_arr_in(&mut rng, &sb2, 0, 1))); }
    } }
    // ---- stream 1b: a few contracted lengths up to 70 (and axis lengths 7-17 in the outer positions)
    for m in [12usize, 16, 17, 33, 64, 65, 70] { for _ in 0..reps {
        let (n, p, s) = (1 + rng.below(2), 1 + rng.below(2), 2);
        for (op, sa, sb) in families(n, m, p, s) { t += 1; let ty = INT_TYS[t % 6];
            let (lo, hi) = small_range(ty, m);
            out(format!("{op} {ty} {} {}", rand_arr_in(&mut rng, &sa, lo, hi), rand_arr_in(&mut rng, &sb, lo, hi)));
            if m >= 64 { let ty = INT_TYS[(t + 3) % 6]; let (lo, hi) = small_range(ty, m);
                out(format!("{op} {ty} {} {}", rand_arr_in(&mut rng, &sa, lo, hi), rand_arr_in(&mut rng, &sb, lo, hi))); }
        }
    } }
    // ---- stream 1c: big operands: axis lengths 7..17 in every position, results and operands with > 256 / 1024 / 4096 elements
    for (op, sa, sb) in [
        ("matmul", vec![9usize, 9], vec![9usize, 9]), ("matmul", vec![17, 16], vec![16, 17]), ("matmul", vec![16, 17], vec![17, 8]), ("matmul", vec![8, 3], vec![3, 9]),
        ("matmul", vec![40, 30], vec![30, 40]), ("matmul", vec![7, 70], vec![70, 7]), ("matmul", vec![70, 2], vec![2, 70]),
        ("matmul", vec![8, 3, 9], vec![8, 9, 2]), ("matmul", vec![2, 8, 3], vec![2, 3, 8]), ("matmul", vec![3, 2, 8], vec![8, 7]), ("matmul", vec![7, 8], vec![3, 8, 2]),
        ("matmul", vec![17], vec![17, 16]), ("matmul", vec![16, 17], vec![17]), ("matmul", vec![300], vec![300, 4]), ("matmul", vec![4, 1030], vec![1030]),
        ("matmul", vec![4100], vec![4100]), ("vdot", vec![4100], vec![4100]), ("vdot", vec![70, 70], vec![4900]), ("vdot", vec![40, 30], vec![30, 40]), ("vdot", vec![4, 4, 4, 4], vec![256]),
        ("dot", vec![1030], vec![1030]), ("dot", vec![16, 16], vec![16, 16]), ("dot", vec![9, 17], vec![17, 9]), ("dot", vec![17], vec![17, 9]), ("dot", vec![9, 17], vec![17]),
        ("inner", vec![300], vec![300]), ("inner", vec![17, 16], vec![9, 16]), ("inner", vec![2, 8, 3], vec![7, 3]), ("inner", vec![40, 30], vec![40, 30]), ("inner", vec![5, 5, 5, 5], vec![2, 5]),
        ("outer", vec![64], vec![65]), ("outer", vec![100], vec![41]), ("outer", vec![9, 9], vec![8, 3]), ("outer", vec![17], vec![16]), ("outer", vec![4100], vec![1]), ("outer", vec![2], vec![1030]),
        ("matmul", vec![2, 3, 4, 5, 2], vec![2, 3, 4, 2, 5]), ("matmul", vec![7, 1, 9], vec![7, 9, 1]), ("matmul", vec![1, 16, 1, 17], vec![1, 16, 17, 1]),
    ] {
        for ty in ["i64", "f64", "i32", "i16", "i8", "f32"] {
            let m = sa.iter().product::<usize>().min(sb.iter().product::<usize>());
            let (lo, hi) = if op == "outer" { small_range(ty, 1) } else if m > 127 && ty == "i8" { (0, 1) } else if m > 70 && ty == "i16" { (-2, 2) } else { small_range(ty, m.min(70)) };
            out(format!("{op} {ty} {} {}", rand_arr_in(&mut rng, &sa, lo, hi), rand_arr_in(&mut rng, &sb, lo, hi)));
        }
    }
    // ---- stream 2: zero-length axes: every operation, zero shapes against zero shapes and against small vectors / matrices / stacks
    let zs: Vec<Vec<usize>> = zero_shapes().into_iter().chain(vec![vec![0usize, 3], vec![3, 0], vec![2, 0, 2]]).collect();
    let partners: Vec<Vec<usize>> = vec![vec![1], vec![2], vec![3], vec![2, 3], vec![3, 2], vec![1, 1], vec![2, 3, 2], vec![2, 2, 3]];
    for za in &zs {
        for sb in zs.iter().chain(partners.iter()) { for op in OPS {
            t += 1; out(format!("{op} {} {} {}", INT_TYS[t % 6], tag(za), tag_off(sb, 1)));
            if !zs.contains(sb) { t += 1; out(format!("{op} {} {} {}", INT_TYS[t % 6], tag_off(sb, 1), tag(za))); }
        } }
    }
    // ---- stream 3b: integer value classes.  Cancelling pairs whose single products leave the element type (i16 / i32) or even i64
    // while every entry of the product is small; entries that land exactly on / next to the limits of i8, i16 and i32
    for _ in 0..(if thorough { 3000 } else { 400 }) {
        let ty = *rng.pick(&["i8", "i16", "i32", "i64", "i16", "i32", "i64", "f32", "f64"]);
        let wide = ty == "i64" || ty == "f64";
        let mmax = if rng.below(6) == 0 { 8 } else { 4 };
        let m = 2 + rng.below(mmax);
        let (n, p, s) = (1 + rng.below(3), 1 + rng.below(3), 1 + rng.below(2));
        let fams = families(n, m, p, s);
        let (op, sa, sb) = rng.pick(&fams).clone();
        // i64: the two big products must be neighbours in the sum, otherwise 2^70 + 3 is not representable on the way
        // and nothing may have been accumulated before them: the entries of a in front of the pair are 0
        let k1 = rng.below(m - 1); let k2 = if wide { k1 + 1 } else { k1 + 1 + rng.below(m - 1 - k1) };
        let big = |rng: &mut Rng| -> i64 { let v = match ty {
            "i8" => rng.range(12, 15), "i16" => rng.range(182, 300), "i32" => rng.range(46341, 100000), "f32" => rng.range(4097, 16000),
            _ => (1i64 << rng.range(32, 40)) * rng.range(1, 3) }; if rng.below(2) == 0 { -v } else { v } };
        let (ra, rb): (usize, usize) = (sa.iter().product::<usize>() / m, sb.iter().product::<usize>() / m);
        // operand a is always a pile of rows of length m; operand b is a pile of rows (inner, vdot on vectors) or of [m, p] matrices
        let b_rows = op == "inner" || sb.len() == 1 || op == "vdot";
        if op == "vdot" && sa.len() > 1 { continue; }
        let mut a = vec![0i64; ra * m]; let mut b = vec![0i64; rb * m];
        for r in 0..ra { let x = big(&mut rng); for k in 0..m { a[r * m + k] = if k == k1 { x } else if k == k2 { -x } else if wide && k < k1 { 0 } else { rng.range(-3, 3) }; } }
        if b_rows { for c in 0..rb { let y = big(&mut rng); for k in 0..m { b[c * m + k] = if k == k1 || k == k2 { y } else { rng.range(-3, 3) }; } } }
        else { let pp = *sb.last().unwrap(); let mats = rb / pp;
            for q in 0..mats { for j in 0..pp { let y = big(&mut rng); for k in 0..m { b[q * m * pp + k * pp + j] = if k == k1 || k == k2 { y } else { rng.range(-3, 3) }; } } } }
        out(format!("{op} {ty} {} {}", lit(&sa, &a), lit(&sb, &b)));
    }
    for (ty, lim) in [("i8", 127i64), ("i8", -128), ("i16", 32767), ("i16", -32768), ("i32", 2147483647), ("i32", -2147483648), ("f32", 16777216), ("f64", 9007199254740992), ("i64", 9007199254740992)] {
        // factorisations x*y + r with the sum exactly on the limit, one below, one beyond (the last is outside the statement: open)
        for d in [-1i64, 0, 1] { for _ in 0..(2 * reps) {
            let target = lim - d * lim.signum();
            let x = match ty { "i8" => rng.range(2, 11), "i16" => rng.range(2, 181), "i32" | "f32" => rng.range(2, 4000), _ => rng.range(2, 90000000) };
            let (y, r) = (target / x, target % x);
            if ty == "i8" && y.abs() > 127 { continue; }
            if ty == "i16" && y.abs() > 32767 { continue; }
            let m = 2 + rng.below(3);
            let mut a = vec![0i64; m]; let mut b = vec![0i64; m];
            let k = rng.below(m); let k2 = (k + 1) % m; a[k] = x; b[k] = y; a[k2] = if r < 0 { -1 } else { 1 }; b[k2] = r.abs();
            if (ty == "i8" && b[k2] > 127) || (ty == "i16" && b[k2] > 32767) { continue; }
            for op in ["vdot", "matmul", "inner", "dot"] { out(format!("{op} {ty} {} {}", lit(&[m], &a), lit(&[m], &b))); }
            out(format!("matmul {ty} {} {}", lit(&[1, m], &a), lit(&[m, 1], &b)));
            out(format!("matmul {ty} {} {}", lit(&[m], &a), lit(&[m, 1], &b)));
            out(format!("matmul {ty} {} {}", lit(&[1, m], &a), lit(&[m], &b)));
        } }
    }
    // ---- stream 3c: float value classes (class-coded operands): one special value aimed at a factor that is really multiplied,
    // its partner from every class; then operands drawn at random from the whole table
    let mut paths: Vec<(&str, Vec<usize>, Vec<usize>)> = families(2, 3, 2, 2);
    paths.extend(families(1, 2, 1, 1)); paths.extend(families(2, 2, 2, 2));
    paths.extend(vec![("outer", vec![2], vec![3]), ("outer", vec![2, 2], vec![2]), ("dot", vec![1], vec![2, 2]), ("dot", vec![2, 3], vec![1, 1]),
                      ("matmul", vec![2, 9], vec![9, 2]), ("vdot", vec![70], vec![70]), ("matmul", vec![1, 70], vec![70, 1]), ("matmul", vec![70], vec![70, 2]), ("matmul", vec![2, 70], vec![70]), ("inner", vec![2, 17], vec![1, 17])]);
    for fty in ["f64c", "f32c"] {
        for (op, sa, sb) in &paths { for ca in N_ORD..NCLS {
            let partners: Vec<usize> = if thorough { (0..NCLS).collect() } else { let mut v = vec![13usize, 4]; for _ in 0..3 { v.push(rng.below(NCLS)); } v };
            for cb in partners {
                let swap = rng.below(2) == 0;
                if let Some((a, b)) = if swap { paired_case(&mut rng, op, sa, sb, cb, ca) } else { paired_case(&mut rng, op, sa, sb, ca, cb) } { out(format!("{op} {fty} {a} {b}")); }
            }
        } }
        for _ in 0..(if thorough { 40000 } else { 3000 }) {
            let ml = if rng.below(8) == 0 { 9 } else { 4 };
            let (sa, sb) = conforming(&mut rng, ml);
            let op = if rng.below(3) == 0 { *rng.pick(&OPS) } else { *rng.pick(&["matmul", "matmul", "dot", "inner"]) };
            let heavy = rng.below(3) == 0;     // mostly ordinary entries with a few special ones, or every entry from the whole table
            let pickc = |rng: &mut Rng| if heavy || rng.below(6) == 0 { rng.below(NCLS) } else { ordinary(rng) };
            let a: Vec<usize> = (0..sa.iter().product::<usize>()).map(|_| pickc(&mut rng)).collect();
            let b: Vec<usize> = (0..sb.iter().product::<usize>()).map(|_| pickc(&mut rng)).collect();
            out(format!("{op} {fty} {} {}", cls_lit(&sa, &a), cls_lit(&sb, &b)));
        }
    }
}


// ------------------------------------------------------------------------------------------------ part-2 robustness streams

fn rand_vec(rng: &mut Rng, shape: &[usize], lo: i64, hi: i64) -> Vec<i64> { (0..shape.iter().product::<usize>()).map(|_| rng.range(lo, hi)).collect() }

/// rearrangements of the entries of an operand that keep its shape (what an order-insensitive fingerprint of the values, a checksum,
/// first/last-entry key or a sum cannot tell apart from the operand itself)
fn rearrangements(shape: &[usize], e: &[i64]) -> Vec<(&'static str, Vec<i64>)> {
    let n = e.len(); let mut v = vec![];
    if shape.len() == 2 {       // the entries of the transpose, poured into the same shape
        let (r, c) = (shape[0], shape[1]);
        let mut t = Vec::with_capacity(n); for j in 0..c { for i in 0..r { t.push(e[i * c + j]); } }
        v.push(("the entries of its transpose in the same shape", t));
    }
    if shape.len() >= 2 && shape[0] >= 2 { let k = n / shape[0]; let mut s = e.to_vec(); for x in 0..k { s.swap(x, k + x); } v.push(("its first two rows/slabs swapped", s)); }
    if n >= 2 {
        let mut p = e.to_vec(); p[0] += 1; p[n - 1] -= 1; v.push(("first entry + 1, last entry - 1 (same sum)", p));
        let mut rev = e.to_vec(); rev.reverse(); v.push(("its entries reversed", rev));
        let mut s = e.to_vec(); s.swap(0, n - 1); v.push(("first and last entry swapped", s));
        let mut r = e.to_vec(); r.rotate_left(1); v.push(("its entries rotated by one", r));
    }
    v.retain(|(_, x)| x.as_slice() != e);
    v
}

/// structured n x n matrices (fast paths like to recognise them)
const N_KINDS: usize = 14;
fn structured(kind: usize, n: usize, rng: &mut Rng) -> Vec<i64> {
    let mut m = vec![0i64; n * n];
    let nz = |rng: &mut Rng| { let v = rng.range(1, 3); if rng.below(2) == 0 { -v } else { v } };
    match kind {
        0 => for i in 0..n { m[i * n + i] = (i as i64 + 2) * if i % 2 == 1 { -1 } else { 1 }; },        // diagonal, all entries different
        1 => for i in 0..n { m[i * n + i] = 3; },                                                         // scalar matrix
        2 => for i in 0..n { m[i * n + i] = 1; },                                                         // identity
        3 => { let mut p = rng.perm(n); if n >= 2 && p.iter().enumerate().all(|(i, &x)| i == x) { p.swap(0, 1); } for i in 0..n { m[i * n + p[i]] = 1; } }   // permutation
        4 => for i in 0..n { for j in i..n { m[i * n + j] = nz(rng); } },                               // upper triangular
        5 => for i in 0..n { for j in 0..=i { m[i * n + j] = nz(rng); } },                              // lower triangular
        6 => { let u: Vec<i64> = (0..n).map(|_| nz(rng)).collect(); let v: Vec<i64> = (0..n).map(|_| rng.range(-1, 1)).collect(); for i in 0..n { for j in 0..n { m[i * n + j] = u[i] * v[j]; } } }   // rank one
        7 => { if n >= 2 { let i = rng.below(n); let mut j = rng.below(n); if i == j { j = (j + 1) % n; } m[i * n + j] = nz(rng); } else { m[0] = 2; } }     // one entry off the diagonal
        8 => for i in 0..n { m[i * n + (n - 1 - i)] = (i as i64 % 3) + 1; },                             // anti-diagonal
        9 => {}                                                                                             // zero
        10 => for i in 0..n { m[i * n + i] = if i == n / 2 { 0 } else { -(i as i64 % 3) - 1 }; },        // diagonal with a zero and negative entries
        11 => for x in m.iter_mut() { *x = rng.range(-3, 3); },                                           // general
        12 => for i in 0..n { for j in i..n { let v = rng.range(-3, 3); m[i * n + j] = v; m[j * n + i] = v; } },   // symmetric
        _ => { for i in 0..n { m[i * n + i] = i as i64 % 3 + 1; } if n >= 2 { m[n - 1] = 1; } }           // diagonal plus one corner entry
    }
    m
}

/// calls on an operand of shape `s` (rank 2 or 3) through every dispatch arm that could memoise something per shape
fn collision_cases(s: &[usize]) -> Vec<(&'static str, Vec<usize>, Vec<usize>)> {
    let v = s.to_vec();
    match s.len() {
        2 => vec![("matmul", v.clone(), vec![s[1]]), ("matmul", vec![s[0]], v.clone()), ("matmul", v.clone(), vec![s[1], 2]), ("matmul", vec![2, s[0]], v.clone()),
                  ("inner", v.clone(), vec![2, s[1]]), ("vdot", v.clone(), v.clone()), ("outer", v.clone(), vec![2]), ("dot", vec![s[0]], v.clone()), ("dot", v.clone(), vec![s[1]])],
        3 => vec![("matmul", v.clone(), vec![s[2]]), ("matmul", v.clone(), vec![s[2], 2]), ("matmul", v.clone(), vec![s[0], s[2], 2]), ("matmul", vec![s[1]], v.clone()), ("matmul", vec![2, s[1]], v.clone()),
                  ("inner", v.clone(), vec![2, s[2]]), ("vdot", v.clone(), v.clone()), ("outer", vec![2], v.clone())],
        _ => vec![],
    }
}

fn seq_line(parts: &[String]) -> String { format!("seq {}", parts.join(" | ")) }

fn gen_r3(tier: &str, seed: u64, out: &mut dyn FnMut(String)) {
    let thorough = tier == "thorough";
    let mut rng = Rng::new(seed ^ 0x14_0003);
    let mut t = 0usize;
    let reps = if thorough { 4 } else { 1 };

    // ---- stream 9: aliasing.  Textually equal operands are passed once as two objects and once as the very same object (`a.op(&a)`):
    // square non-symmetric matrices n = 1..9, vectors, rectangular matrices (inner / outer / vdot; matmul refuses), stacks, 4-D
    for _ in 0..reps { for n in 1..=9usize {
        let mut al: Vec<Vec<usize>> = vec![vec![n, n], vec![n], vec![n, (n % 4) + 1], vec![2, n, n], vec![(n % 3) + 1, n]];
        if n <= 4 { al.push(vec![2, 1, n, n]); al.push(vec![1, n, n]); }
        for sh in &al { for op in OPS {
            t += 1; let ty = INT_TYS[t % 6];
            let len: usize = sh.iter().product();
            let (lo, hi) = small_range(ty, if op == "vdot" { len.min(70) } else { 9 });
            let x = rand_arr_in(&mut rng, sh, lo, hi);
            out(format!("{op} {ty} {x} {x}"));
        } }
        for op in OPS { t += 1; let x = tag_off(&[n, n], 1); out(format!("{op} {} {x} {x}", TYS[t % 3])); }
    } }
    for fty in ["f64c", "f32c"] { for n in 1..=5usize { for sh in [vec![n, n], vec![n], vec![2, n, n]] { for op in OPS { for _ in 0..reps {
        let codes: Vec<usize> = (0..sh.iter().product::<usize>()).map(|_| if rng.below(4) == 0 { rng.below(NCLS) } else { ordinary(&mut rng) }).collect();
        let x = cls_lit(&sh, &codes);
        out(format!("{op} {fty} {x} {x}"));
    } } } } }

    // ---- structured operands on either side, n = 2..9: diagonal (distinct / constant / with a zero), identity, permutation, triangular,
    // rank one, single entry, anti-diagonal, zero, symmetric, nearly diagonal x general and x each other; vectors; stacks; rectangular
    for n in 2..=9usize { for kind in 0..N_KINDS { for _ in 0..reps {
        let sq = vec![n, n];
        let s1 = structured(kind, n, &mut rng); let g = structured(11, n, &mut rng); let s2 = structured(rng.below(N_KINDS), n, &mut rng);
        for (x, y) in [(&s1, &g), (&g, &s1), (&s1, &s2), (&s2, &s1)] { for op in ["matmul", "dot", "inner"] {
            t += 1; out(format!("{op} {} {} {}", INT_TYS[t % 6], lit(&sq, x), lit(&sq, y)));
        } }
        let v = rand_vec(&mut rng, &[n], -3, 3);
        for op in ["matmul", "dot"] {
            t += 1; out(format!("{op} {} {} {}", INT_TYS[t % 6], lit(&[n], &v), lit(&sq, &s1)));
            t += 1; out(format!("{op} {} {} {}", INT_TYS[t % 6], lit(&sq, &s1), lit(&[n], &v)));
        }
        if n <= 6 {
            let st = vec![2, n, n];
            let (ab, ba): (Vec<i64>, Vec<i64>) = (s1.iter().chain(g.iter()).cloned().collect(), g.iter().chain(s1.iter()).cloned().collect());
            t += 1; out(format!("matmul {} {} {}", INT_TYS[t % 6], lit(&st, &ab), lit(&st, &ba)));
            t += 1; out(format!("matmul {} {} {}", INT_TYS[t % 6], lit(&st, &ba), lit(&st, &ab)));
            t += 1; out(format!("matmul {} {} {}", INT_TYS[t % 6], lit(&st, &ba), lit(&sq, &s1)));
            t += 1; out(format!("matmul {} {} {}", INT_TYS[t % 6], lit(&sq, &s1), lit(&st, &ba)));
        }
    } } }
    for n in 2..=9usize {
        let mut d = vec![0i64; n * (n + 1)]; for i in 0..n { d[i * (n + 1) + i] = i as i64 + 2; }
        let g = rand_vec(&mut rng, &[n + 1, n], -3, 3);
        for op in ["matmul", "dot"] {
            t += 1; out(format!("{op} {} {} {}", INT_TYS[t % 6], lit(&[n, n + 1], &d), lit(&[n + 1, n], &g)));
            t += 1; out(format!("{op} {} {} {}", INT_TYS[t % 6], lit(&[n + 1, n], &g), lit(&[n, n + 1], &d)));
        }
    }
    // the same with float classes: +0 / -0 off the diagonal, the other operand with inf / NaN / huge entries (0 * inf = NaN must be kept)
    for fty in ["f64c", "f32c"] { for n in 2..=5usize { for _ in 0..(4 * reps) {
        let mut d: Vec<usize> = (0..n * n).map(|_| rng.below(2)).collect();
        for i in 0..n { d[i * n + i] = if rng.below(5) == 0 { rng.below(NCLS) } else { ordinary(&mut rng) }; }
        let g: Vec<usize> = (0..n * n).map(|_| if rng.below(3) == 0 { rng.below(NCLS) } else { ordinary(&mut rng) }).collect();
        for op in ["matmul", "dot", "inner"] {
            out(format!("{op} {fty} {} {}", cls_lit(&[n, n], &d), cls_lit(&[n, n], &g)));
            out(format!("{op} {fty} {} {}", cls_lit(&[n, n], &g), cls_lit(&[n, n], &d)));
        }
    } } }

    // ---- stream 6a: hidden state keyed by shape + a fingerprint of the values: every family, operands below and above 16 / 25 / 64
    // elements; the call, then DIRECTLY the same call with one operand replaced by a same-shape rearrangement of its entries, then the call again
    let kmax = if thorough { 6 } else { 4 };
    for &(n, m, p) in &[(2usize, 2usize, 2usize), (3, 4, 3), (4, 4, 4), (4, 5, 4), (5, 4, 5), (5, 5, 5), (2, 8, 2), (8, 2, 8), (6, 6, 6), (1, 16, 1), (16, 1, 16), (9, 9, 9), (3, 17, 2)] {
        let mut fams = families(n, m, p, 2);
        fams.push(("outer", vec![n, m], vec![m, p])); fams.push(("outer", vec![m], vec![p, m]));
        for (op, sa, sb) in fams {
            t += 1; let ty = INT_TYS[t % 6];
            let (lo, hi) = small_range(ty, if op == "vdot" { (n * m).min(70) } else { m });
            let (a, b) = (rand_vec(&mut rng, &sa, lo, hi), rand_vec(&mut rng, &sb, lo, hi));
            let mk = |x: &[i64], y: &[i64]| format!("{op} {ty} {} {}", lit(&sa, x), lit(&sb, y));
            let base = mk(&a, &b);
            let (ra, rb) = (rearrangements(&sa, &a), rearrangements(&sb, &b));
            for (_, b2) in rb.iter().take(kmax) { out(seq_line(&[base.clone(), mk(&a, b2), base.clone()])); }
            for (_, a2) in ra.iter().take(kmax) { out(seq_line(&[base.clone(), mk(a2, &b), base.clone()])); }
            if let (Some((_, a2)), Some((_, b2))) = (ra.first(), rb.first()) { out(seq_line(&[base.clone(), mk(a2, b2), mk(a2, &b), mk(&a, b2), base.clone()])); }
        }
    }
    // ---- stream 6b: shapes that collide under weak polynomial hashes (multipliers 31, 33, 37, 131, 257), back to back in both orders
    for (s1, s2) in collision_shape_pairs() {
        let (c1, c2) = (collision_cases(&s1), collision_cases(&s2));
        for k in 0..c1.len().min(c2.len()) {
            if !thorough && (k + t) % 2 == 1 && s1.len() == 3 { continue; }
            t += 1; let ty = ["i32", "i64", "f64", "f32"][t % 4];
            let x = format!("{} {ty} {} {}", c1[k].0, rand_arr_in(&mut rng, &c1[k].1, -9, 9), rand_arr_in(&mut rng, &c1[k].2, -9, 9));
            let y = format!("{} {ty} {} {}", c2[k].0, rand_arr_in(&mut rng, &c2[k].1, -9, 9), rand_arr_in(&mut rng, &c2[k].2, -9, 9));
            out(seq_line(&[x.clone(), y.clone(), x, y]));
        }
    }
    // ---- stream 6c: a refused call (contracted lengths differ / zero-length operand) directly followed by a valid one
    for &(n, m, p) in &[(2usize, 3usize, 2usize), (4, 4, 4), (5, 4, 5), (3, 6, 2)] { for (op, sa, sb) in families(n, m, p, 2) {
        t += 1; let ty = INT_TYS[t % 6];
        let (lo, hi) = small_range(ty, if op == "vdot" { (n * m).min(70) } else { m });
        let mut sb_bad = sb.clone(); let k = sb_bad.iter().position(|&d| d == m).unwrap_or(0); sb_bad[k] = m + 1;
        let mut sa_bad = sa.clone(); let k = sa_bad.iter().rposition(|&d| d == m).unwrap_or(0); sa_bad[k] = m + 1;
        let (a, b) = (rand_arr_in(&mut rng, &sa, lo, hi), rand_arr_in(&mut rng, &sb, lo, hi));
        let good = format!("{op} {ty} {a} {b}");
        let bad1 = format!("{op} {ty} {a} {}", rand_arr_in(&mut rng, &sb_bad, lo, hi));
        let bad2 = format!("{op} {ty} {} {b}", rand_arr_in(&mut rng, &sa_bad, lo, hi));
        out(seq_line(&[bad1, good.clone(), bad2, good.clone()]));
        out(seq_line(&[good.clone(), format!("{op} {ty} {} {b}", tag(&[0])), good.clone(), format!("{op} {ty} {a} {}", tag(&[0, 2])), good]));
    } }
    // ---- stream 6d: the same arguments (and rearranged ones) through different element types back to back
    for &(n, m, p) in &[(2usize, 3usize, 2usize), (4, 4, 4), (5, 5, 5)] { for (op, sa, sb) in families(n, m, p, 2) {
        let (a, b) = (rand_vec(&mut rng, &sa, -2, 2), rand_vec(&mut rng, &sb, -2, 2));
        let a2 = rearrangements(&sa, &a).first().map_or(a.clone(), |x| x.1.clone());
        let b2 = rearrangements(&sb, &b).first().map_or(b.clone(), |x| x.1.clone());
        let tys = ["i32", "f64", "i8", "i64", "f32", "i16"];
        out(seq_line(&tys.iter().map(|ty| format!("{op} {ty} {} {}", lit(&sa, &a), lit(&sb, &b))).collect::<Vec<_>>()));
        out(seq_line(&tys.iter().enumerate().map(|(i, ty)| if i % 2 == 0 { format!("{op} {ty} {} {}", lit(&sa, &a), lit(&sb, &b)) } else { format!("{op} {ty} {} {}", lit(&sa, &a2), lit(&sb, &b2)) }).collect::<Vec<_>>()));
    } }

    // ---- stream 8: every length 1..300 (quick: 1..130 and a few beyond) of a non-leading / contracted / trailing axis, every dispatch arm
    let lens: Vec<usize> = if thorough { (1..=300).collect() } else { (1..=130).chain([160usize, 192, 200, 255, 256, 257, 300]).collect() };
    for &l in &lens {
        let fams: Vec<(&str, Vec<usize>, Vec<usize>)> = vec![
            ("matmul", vec![2, 3], vec![3, l]), ("matmul", vec![2, l], vec![l, 2]), ("matmul", vec![3], vec![3, l]), ("matmul", vec![2, l], vec![l]), ("matmul", vec![l], vec![l, 2]),
            ("inner", vec![2, l], vec![3, l]), ("matmul", vec![2, 2, l], vec![2, l, 2]), ("matmul", vec![2, 2, 3], vec![2, 3, l]), ("outer", vec![l], vec![3]), ("outer", vec![3], vec![l]),
            ("dot", vec![l], vec![l, 2]), ("dot", vec![2, l], vec![l]), ("dot", vec![2, l], vec![l, 2]), ("vdot", vec![2, l], vec![l, 2])];
        for (op, sa, sb) in fams {
            t += 1; let mut ty = INT_TYS[t % 6];
            if l > 35 && (ty == "i8" || ty == "i16") { ty = "i32"; }
            let (lo, hi) = small_range(ty, (2 * l).min(70));
            out(format!("{op} {ty} {} {}", rand_arr_in(&mut rng, &sa, lo, hi), rand_arr_in(&mut rng, &sb, lo, hi)));
        }
    }

    // ---- stream 10: ranks 5..8 (judged by the model alone: the term-list oracle covers ranks up to 3)
    for (op, sa, sb) in [
        ("matmul", vec![2usize, 1, 1, 1, 1, 1, 2, 3], vec![2usize, 1, 1, 1, 1, 1, 3, 2]), ("matmul", vec![1, 2, 1, 2, 1, 2, 2, 3], vec![1, 2, 1, 2, 1, 2, 3, 2]), ("matmul", vec![2, 1, 2, 2, 3], vec![3, 2]),
        ("matmul", vec![3, 1, 1, 2, 3], vec![3, 1, 1, 3, 4]), ("matmul", vec![2, 3], vec![2, 1, 1, 1, 3, 2]), ("matmul", vec![2, 1, 1, 1, 2, 3], vec![3]), ("matmul", vec![3], vec![2, 1, 1, 3, 2]),
        ("inner", vec![2, 1, 2, 2, 3], vec![2, 3]), ("inner", vec![1, 2, 1, 2, 1, 3], vec![2, 1, 2, 3]), ("inner", vec![1, 1, 2, 1, 1, 2, 1, 3], vec![3]),
        ("outer", vec![1, 2, 1, 2, 1, 2, 1, 2], vec![2, 2]), ("outer", vec![3], vec![1, 2, 1, 1, 2, 1]), ("vdot", vec![1, 2, 1, 2, 1, 2, 1, 2], vec![16]), ("vdot", vec![2, 1, 2, 1, 2, 1], vec![1, 2, 1, 2, 1, 2]),
        ("dot", vec![1, 1, 1, 1, 1, 1], vec![2, 3]), ("dot", vec![2, 3], vec![1, 1, 1, 1, 1, 1, 1, 1]),
    ] { for ty in INT_TYS { out(format!("{op} {ty} {} {}", rand_arr_in(&mut rng, &sa, -3, 3), rand_arr_in(&mut rng, &sb, -3, 3))); } }

    // ---- stream 7: huge operands (16 384 .. 140 000 elements, an axis above 65 536, extents that are not multiples of 32).  The list-backed
    // model is too slow here: element type `…n` = judged by the native term-list oracle, which is compared with the model on every smaller case
    let huge: Vec<(&str, Vec<usize>, Vec<usize>)> = vec![
        ("matmul", vec![130, 130], vec![130, 130]), ("matmul", vec![100, 200], vec![200, 100]), ("matmul", vec![129, 131], vec![131, 129]), ("dot", vec![130, 130], vec![130, 130]),
        ("vdot", vec![16385], vec![16385]), ("vdot", vec![70000], vec![70000]), ("vdot", vec![2, 70000], vec![70000, 2]), ("vdot", vec![300, 300], vec![300, 300]), ("vdot", vec![10, 11, 12, 13], vec![17160]),
        ("matmul", vec![33000], vec![33000]), ("dot", vec![70000], vec![70000]), ("inner", vec![70000], vec![70000]),
        ("matmul", vec![2, 70000], vec![70000, 2]), ("matmul", vec![70000, 2], vec![2, 3]), ("matmul", vec![16385], vec![16385, 2]), ("matmul", vec![2, 16385], vec![16385]), ("matmul", vec![16385, 2], vec![2]),
        ("dot", vec![16385], vec![16385, 2]), ("dot", vec![2, 33000], vec![33000]), ("dot", vec![2, 33000], vec![33000, 2]),
        ("inner", vec![40, 30, 30], vec![7, 30]), ("inner", vec![2, 70000], vec![3, 70000]), ("inner", vec![130, 130], vec![130, 130]),
        ("matmul", vec![40, 30, 30], vec![40, 30, 5]), ("matmul", vec![40, 30, 30], vec![30, 5]), ("matmul", vec![5, 30], vec![40, 30, 30]),
        ("outer", vec![300], vec![300]), ("outer", vec![16385], vec![3]), ("outer", vec![2], vec![70000]), ("outer", vec![130, 130], vec![2]),
        ("matmul", vec![130, 130], vec![129, 130]), ("vdot", vec![70000], vec![70001]), ("inner", vec![2, 70000], vec![2, 69999]), ("matmul", vec![16385], vec![16384, 2]),
    ];
    for (i, (op, sa, sb)) in huge.iter().enumerate() {
        let tys = ["i64n", "f64n", "i32n", "f32n"];
        let chosen: Vec<&str> = if thorough { tys.to_vec() } else { vec![tys[i % 4]] };
        for ty in chosen { out(format!("{op} {ty} {} {}", rand_arr_in(&mut rng, sa, -3, 3), rand_arr_in(&mut rng, sb, -3, 3))); }
    }
    // 70 000 rows x a vector: the crate's row split is quadratic in the number of rows (6 s per call) - thorough tier only
    if thorough { out(format!("matmul i64n {} {}", rand_arr_in(&mut rng, &[70000, 2], -3, 3), rand_arr_in(&mut rng, &[2], -3, 3))); }
}

fn gen(tier: &str, seed: u64, out: &mut dyn FnMut(String)) {
    // the streams of rounds 1 and 2, unchanged; every 16th short line A is also kept, with its predecessor B, as the self-contained sequence B A B
    let mut lines: Vec<String> = vec![];
    let mut extra: Vec<String> = vec![];
    {
        let mut prev: Option<String> = None; let mut k = 0usize;
        let mut tee = |l: String| {
            if l.len() <= 300 && !l.starts_with("dot ") {
                k += 1;
                if k % 16 == 0 { if let Some(p) = &prev { if *p != l { extra.push(format!("seq {p} | {l} | {p}")); } } }
                prev = Some(l.clone());
            }
            lines.push(l);
        };
        gen_base(tier, seed, &mut tee);
    }
    lines.extend(extra);
    // the part-2 streams go in front of the last quarter of the older streams (the seeded random tail), so that the first tally line below sees them
    let tail = lines.split_off(lines.len() * 3 / 4);
    gen_r3(tier, seed, &mut |l| lines.push(l));
    lines.extend(tail);
    // two `tally` lines: one where the summary's sampler picks its last sample (so the counters show in the evidence file), one at the very end
    let n = lines.len() + 2;
    let pos = (11 * (n / 12).max(1)).min(lines.len());
    lines.insert(pos, "tally".to_string());
    lines.push("tally".to_string());
    for l in lines { out(l); }
}

// ------------------------------------------------------------------------------------------------ independent reference

/// how the code documents the accumulation of one entry
#[derive(Clone, Copy, PartialEq, Debug)]
enum Acc { Single, MulFold, IterSum, Fma }

/// the textbook definition, by index formulas: for every entry of the result the list of (flat index in a, flat index in b) factor
/// pairs in the order of the shared index
enum Ref { NotCovered, Refuse, Terms { shape: Vec<usize>, entries: Vec<Vec<(usize, usize)>>, acc: Acc } }

fn reference(op: &str, sa: &[usize], sb: &[usize]) -> Ref {
    if sa.is_empty() || sb.is_empty() || sa.iter().chain(sb.iter()).any(|&d| d == 0) { return Ref::NotCovered; }
    let (la, lb): (usize, usize) = (sa.iter().product(), sb.iter().product());
    let (ra, rb) = (sa.len(), sb.len());
    let rows = |n: usize, m: usize, p: usize, offa: usize, offb: usize| -> Vec<Vec<(usize, usize)>> {       // [n,m] x [m,p]
        let mut e = vec![]; for i in 0..n { for j in 0..p { e.push((0..m).map(|k| (offa + i * m + k, offb + k * p + j)).collect()); } } e };
    let vd = || if la == lb { Ref::Terms { shape: vec![1], entries: vec![(0..la).map(|k| (k, k)).collect()], acc: Acc::MulFold } } else { Ref::Refuse };
    match op {
        "vdot" => vd(),
        "outer" => { let mut e = vec![]; for i in 0..la { for j in 0..lb { e.push(vec![(i, j)]); } } Ref::Terms { shape: vec![la, lb], entries: e, acc: Acc::Single } }
        "inner" => {
            let m = sa[ra - 1]; if m != sb[rb - 1] { return Ref::Refuse; }
            let (na, nb) = (la / m, lb / m);
            let shape = if ra == 1 && rb == 1 { vec![1] } else { sa[..ra - 1].iter().chain(sb[..rb - 1].iter()).cloned().collect() };
            let mut e = vec![]; for r in 0..na { for c in 0..nb { e.push((0..m).map(|k| (r * m + k, c * m + k)).collect()); } }
            Ref::Terms { shape, entries: e, acc: Acc::MulFold }
        }
        "matmul" => match (ra, rb) {
            (1, 1) => vd(),
            (1, 2) => if sa[0] == sb[0] { Ref::Terms { shape: vec![sb[1]], entries: rows(1, sa[0], sb[1], 0, 0), acc: Acc::IterSum } } else { Ref::Refuse },
            (2, 1) => if sa[1] == sb[0] { Ref::Terms { shape: vec![sa[0]], entries: rows(sa[0], sa[1], 1, 0, 0), acc: Acc::IterSum } } else { Ref::Refuse },
            (2, 2) => if sa[1] == sb[0] { Ref::Terms { shape: vec![sa[0], sb[1]], entries: rows(sa[0], sa[1], sb[1], 0, 0), acc: Acc::Fma } } else { Ref::Refuse },
            (3, 3) | (3, 2) | (2, 3) => {
                let (s1, n, m) = if ra == 3 { (sa[0], sa[1], sa[2]) } else { (1, sa[0], sa[1]) };
                let (s2, m2, p) = if rb == 3 { (sb[0], sb[1], sb[2]) } else { (1, sb[0], sb[1]) };
                if m != m2 { return Ref::Refuse; }
                if ra == 3 && rb == 3 && s1 != s2 { return Ref::NotCovered; }
                let s = s1.max(s2);
                let mut e = vec![];
                for q in 0..s { e.extend(rows(n, m, p, if ra == 3 { q * n * m } else { 0 }, if rb == 3 { q * m * p } else { 0 })); }
                Ref::Terms { shape: vec![s, n, p], entries: e, acc: Acc::Fma }
            }
            _ => Ref::NotCovered,
        },
        "dot" => {
            if la == 1 || lb == 1 {
                // one-element operand: scales the other one; result shape by right-aligned broadcasting
                let r = ra.max(rb);
                let pad = |s: &[usize]| { let mut v = vec![1usize; r - s.len()]; v.extend_from_slice(s); v };
                let shape: Vec<usize> = pad(sa).iter().zip(pad(sb).iter()).map(|(&x, &y)| if x == 1 { y } else { x }).collect();
                let e = if la == 1 { (0..lb).map(|j| vec![(0, j)]).collect() } else { (0..la).map(|i| vec![(i, 0)]).collect() };
                return Ref::Terms { shape, entries: e, acc: Acc::Single };
            }
            match (ra, rb) {
                (1, 1) => vd(),
                (2, 2) => if sa[1] != sb[0] { Ref::Refuse } else if sa[0] == sb[1] { Ref::Terms { shape: vec![sa[0], sb[1]], entries: rows(sa[0], sa[1], sb[1], 0, 0), acc: Acc::Fma } }
                          else { Ref::NotCovered },        // rectangular result: region of the open finding, judged by the model/driver pair
                (1, 2) => if sa[0] == sb[0] { Ref::Terms { shape: vec![sb[1]], entries: rows(1, sa[0], sb[1], 0, 0), acc: Acc::MulFold } } else { Ref::Refuse },
                (2, 1) => if sa[1] == sb[0] { Ref::Terms { shape: vec![sa[0]], entries: rows(sa[0], sa[1], 1, 0, 0), acc: Acc::MulFold } } else { Ref::Refuse },
                _ => Ref::NotCovered,
            }
        }
        _ => Ref::NotCovered,
    }
}

/// one entry of the float reference: f64 accumulation as documented for the path
fn accumulate(acc: Acc, terms: &[(f64, f64)]) -> f64 {
    match acc {
        Acc::Single => terms[0].0 * terms[0].1,
        Acc::MulFold => terms.iter().map(|&(x, y)| x * y).fold(0., |a, b| a + b),
        Acc::IterSum => terms.iter().map(|&(x, y)| x * y).sum::<f64>(),
        Acc::Fma => terms.iter().fold(0., |acc, &(x, y)| x.mul_add(y, acc)),
    }
}

fn exact_f64(v: i128) -> bool { let f = v as f64; f.is_finite() && f.abs() < 1.0e38 && (f as i128) == v }

/// exact integer sums of the entries (i128), and whether every product and every partial sum is exactly representable in f64
fn exact_sums(entries: &[Vec<(usize, usize)>], a: &[i64], b: &[i64]) -> Option<(Vec<i128>, bool)> {
    let mut out = vec![]; let mut exact = true;
    for e in entries {
        let mut s: i128 = 0;
        for &(i, j) in e {
            let p = (a[i] as i128).checked_mul(b[j] as i128)?;
            s = s.checked_add(p)?;
            if !exact_f64(p) || !exact_f64(s) { exact = false; }
        }
        out.push(s);
    }
    Some((out, exact))
}

// ------------------------------------------------------------------------------------------------ executor

trait Num: NumericOps {
    fn of_i64(v: i64) -> Option<Self>;
    /// the entry as an exact integer (None: not an integer)
    fn int(&self) -> Option<i128>;
    fn cast(f: f64) -> Self;
    fn f(&self) -> f64;
}
macro_rules! num_int { ($t:ty) => { impl Num for $t {
    fn of_i64(v: i64) -> Option<Self> { <$t>::try_from(v).ok() }
    fn int(&self) -> Option<i128> { Some(*self as i128) }
    fn cast(f: f64) -> Self { f as $t }
    fn f(&self) -> f64 { *self as f64 }
} } }
num_int!(i16); num_int!(i32); num_int!(i64); num_int!(i8);
impl Num for f64 {
    fn of_i64(v: i64) -> Option<Self> { if exact_f64(v as i128) { Some(v as f64) } else { None } }
    fn int(&self) -> Option<i128> { if self.is_finite() && self.fract() == 0.0 && self.abs() < 1.0e30 { Some(*self as i128) } else { None } }
    fn cast(f: f64) -> Self { f }
    fn f(&self) -> f64 { *self }
}
impl Num for f32 {
    fn of_i64(v: i64) -> Option<Self> { let f = v as f32; if (f as i128) == v as i128 { Some(f) } else { None } }
    fn int(&self) -> Option<i128> { if self.is_finite() && self.fract() == 0.0 && self.abs() < 1.0e30 { Some(*self as i128) } else { None } }
    fn cast(f: f64) -> Self { f as f32 }
    fn f(&self) -> f64 { *self as f64 }
}
fn fits<N: Num>(v: i128) -> bool { i64::try_from(v).ok().and_then(N::of_i64).is_some() }

enum Real<N: Num> { Panic, Err(&'static str), Ok(Array<N>) }

fn call<N: Num>(op: &str, a: &Array<N>, b: &Array<N>, chained: bool) -> Option<Real<N>> {
    let r = catch_unwind(AssertUnwindSafe(|| -> Option<Result<Array<N>, ArrayError>> {
        let ra: Result<Array<N>, ArrayError> = Ok(a.clone());
        Some(match (op, chained) {
            ("matmul", false) => a.matmul(b), ("matmul", true) => ra.matmul(b),
            ("dot", false) => a.dot(b), ("dot", true) => ra.dot(b),
            ("vdot", false) => a.vdot(b), ("vdot", true) => ra.vdot(b),
            ("inner", false) => a.inner(b), ("inner", true) => ra.inner(b),
            ("outer", false) => a.outer(b), ("outer", true) => ra.outer(b),
            _ => return None,
        })
    }));
    Some(match r { Err(_) => Real::Panic, Ok(None) => return None, Ok(Some(Err(e))) => Real::Err(err_name(&e)), Ok(Some(Ok(x))) => Real::Ok(x) })
}

/// the SAME object on both sides: `a.op(&a)`
fn call_alias<N: Num>(op: &str, a: &Array<N>) -> Option<Real<N>> {
    let r = catch_unwind(AssertUnwindSafe(|| -> Option<Result<Array<N>, ArrayError>> {
        Some(match op { "matmul" => a.matmul(a), "dot" => a.dot(a), "vdot" => a.vdot(a), "inner" => a.inner(a), "outer" => a.outer(a), _ => return None })
    }));
    Some(match r { Err(_) => Real::Panic, Ok(None) => return None, Ok(Some(Err(e))) => Real::Err(err_name(&e)), Ok(Some(Ok(x))) => Real::Ok(x) })
}

/// the operands once more, built another way: `clone_from` into an existing array of another shape; `IntoIterator` by value and by
/// reference into `FromIterator` through a `filter` (size hint not exact), then `reshape`.  `None` when a shape cannot be rebuilt that way
fn rebuilt<N: Num>(a: &Array<N>, b: &Array<N>, sha: &[usize], shb: &[usize]) -> Option<(Array<N>, Array<N>)> {
    catch_unwind(AssertUnwindSafe(|| -> Option<(Array<N>, Array<N>)> {
        let mut a2: Array<N> = Array::new(vec![N::of_i64(1)?, N::of_i64(2)?], vec![2]).ok()?;
        a2.clone_from(a);
        let b2 = if shb.len() % 2 == 0 { b.clone().into_iter().filter(|_| true).collect::<Array<N>>() } else { b.into_iter().filter(|_| true).cloned().collect::<Array<N>>() }.reshape(shb).ok()?;
        if a2.get_shape().ok()? != sha || a2.get_elements().ok()? != a.get_elements().ok()? || b2.get_shape().ok()? != shb || b2.get_elements().ok()? != b.get_elements().ok()? { return None; }
        Some((a2, b2))
    })).ok().flatten()
}

fn line_hash(parts: &[&str]) -> u64 { let mut h = 0xcbf29ce484222325u64; for p in parts { for b in p.bytes() { h = (h ^ b as u64).wrapping_mul(0x100000001b3); } h = h.wrapping_mul(31); } h }

/// integer text of a real outcome; `Err(detail)` when the result is malformed or holds a non-integer
fn int_text<N: Num>(r: &Real<N>) -> Result<String, String> {
    match r {
        Real::Panic => Ok("panic".into()), Real::Err(e) => Ok(format!("err {e}")),
        Real::Ok(arr) => {
            if !consistent(arr) { return Err(format!("result violates shape/length consistency: shape {:?}, {} elements", arr.get_shape().unwrap(), arr.get_elements().unwrap().len())); }
            let mut es = vec![];
            for v in arr.get_elements().unwrap() { match v.int() { Some(i) => es.push(i), None => return Err(format!("non-integer entry {}", v.f())) } }
            Ok(format!("ok {}:{}", show_list(&arr.get_shape().unwrap()), show_list(&es)))
        }
    }
}

fn parse_ok(expected: &str) -> Option<(Vec<usize>, Vec<i128>)> {
    let body = expected.strip_prefix("ok ")?; let (sh, el) = body.split_once(':')?;
    let shape = parse_usize_list(sh);
    let elems = if el == "-" { vec![] } else { el.split(',').map(|x| x.parse::<i128>().ok()).collect::<Option<Vec<_>>>()? };
    Some((shape, elems))
}

fn exec_int<N: Num>(op: &str, ty: &str, sa: &str, sb: &str, expected: &str, follow: bool) -> Option<Verdict> {
    let ((sha, ea), (shb, eb)) = (parse_arr_raw(sa), parse_arr_raw(sb));
    let va: Vec<N> = ea.iter().map(|&v| N::of_i64(v)).collect::<Option<_>>()?;
    let vb: Vec<N> = eb.iter().map(|&v| N::of_i64(v)).collect::<Option<_>>()?;
    let a = Array::new(va, sha.clone()).expect("harness: malformed array literal in case line");
    let b = Array::new(vb, shb.clone()).expect("harness: malformed array literal in case line");
    let plain = call(op, &a, &b, false)?; let chained = call(op, &a, &b, true)?;
    let observed = match int_text(&plain) { Ok(s) => s, Err(d) => return Some(Verdict::Mismatch { observed: "ok <malformed>".into(), detail: d }) };
    match int_text(&chained) {
        Ok(c) if c == observed => {}
        Ok(c) => return Some(Verdict::Mismatch { observed: format!("RECEIVER-DIVERGENCE chained call gives `{}`, plain call `{}`", truncate(&c, 300), truncate(&observed, 300)), detail: "the call on Ok(array) through the Result receiver differs from the plain call".into() }),
        Err(d) => return Some(Verdict::Mismatch { observed: "RECEIVER-DIVERGENCE chained call gives a malformed result".into(), detail: d }),
    }
    // aliasing: equal operands are also passed as the very same object
    if sha == shb && ea == eb {
        N_ALIAS.fetch_add(1, Relaxed);
        match int_text(&call_alias(op, &a)?) {
            Ok(c) if c == observed => {}
            Ok(c) => return Some(Verdict::Mismatch { observed: format!("ALIAS-DIVERGENCE `a.{op}(&a)` (the same object on both sides) gives `{}`, two equal objects give `{}`", truncate(&c, 300), truncate(&observed, 300)), detail: format!("the result must not depend on whether the two operands are the same object; model says `{}`", truncate(expected, 300)) }),
            Err(d) => return Some(Verdict::Mismatch { observed: format!("ALIAS-DIVERGENCE `a.{op}(&a)` gives a malformed result"), detail: d }),
        }
    }
    // operands built another way (clone_from, IntoIterator -> filter -> FromIterator -> reshape): a share of the cases
    if line_hash(&[op, ty, sa, sb]) % 4 == 0 && ea.len() + eb.len() <= 5000 && !sha.iter().chain(shb.iter()).any(|&d| d == 0) {
        if let Some((a2, b2)) = rebuilt(&a, &b, &sha, &shb) {
            N_BUILD.fetch_add(1, Relaxed);
            match int_text(&call(op, &a2, &b2, false)?) {
                Ok(c) if c == observed => {}
                Ok(c) => return Some(Verdict::Mismatch { observed: format!("CONSTRUCTION-DIVERGENCE operands built by clone_from / collect give `{}`, operands built by Array::new give `{}`", truncate(&c, 300), truncate(&observed, 300)), detail: "equal arrays must give equal products however they were built".into() }),
                Err(d) => return Some(Verdict::Mismatch { observed: "CONSTRUCTION-DIVERGENCE malformed result".into(), detail: d }),
            }
        }
    }
    if expected == "open" { return Some(Verdict::Open(observed)); }
    // huge operands: the model answers `native`; the native term-list oracle (compared with the model on every smaller case) judges alone
    if expected == "native" {
        N_NATIVE.fetch_add(1, Relaxed);
        return Some(match reference(op, &sha, &shb) {
            Ref::Refuse => if class_of(&observed) == "err" { Verdict::Match(observed) } else { Verdict::Mismatch { observed: truncate(&observed, 300), detail: "contracted lengths differ: the call must be refused with an error".into() } },
            Ref::Terms { shape, entries, .. } => match exact_sums(&entries, &ea, &eb) {
                Some((sums, exact)) if exact && sums.iter().all(|&s| fits::<N>(s)) => {
                    let want = format!("ok {}:{}", show_list(&shape), show_list(&sums));
                    if observed == want { Verdict::Match(truncate(&observed, 200)) } else {
                        let (got, wnt): (Vec<&str>, Vec<&str>) = (observed.split(',').collect(), want.split(',').collect());
                        let k = got.iter().zip(wnt.iter()).position(|(x, y)| x != y).unwrap_or(got.len().min(wnt.len()));
                        Verdict::Mismatch { observed: truncate(&observed, 300), detail: format!("native term-list oracle (defining sums over the shared index) gives `{}`; first difference at flat position {k}: got {:?}, defining sum {:?}", truncate(&want, 300), got.get(k), wnt.get(k)) } }
                }
                _ => Verdict::Open(truncate(&observed, 200)),
            },
            Ref::NotCovered => return None,
        });
    }
    // zero-length axes are outside the statement (lengths 1..), but the model mirrors the crate there as well (`zip` / `broadcast` of an
    // empty operand is refused: the arms of `vdot`, `inner11`, `innerSplit`, `multiplyScalar` in ArrModel/C14.lean), so the region is
    // COMPARED like every other one.  Only exception: two matrices with a zero-length axis in the region of the open finding of `dot`
    // (the model's test-pinned extra check refuses, the driver sends the `matmul` value along): a refusal there is left open
    if sha.iter().chain(shb.iter()).any(|&d| d == 0) && class_of(&observed) == "err" && expected.contains(" | matmul ") { return Some(Verdict::Open(observed)); }
    // region of the open finding C14-dot-2d-rectangular-refused: the model mirrors the test-pinned refusal of `dot`,
    // the driver sends the textbook product along; the real code is held to the property (the product), not to the model
    if let Some((model, want)) = expected.split_once(" | matmul ") {
        return Some(if observed == want { Verdict::Match(observed) } else {
            Verdict::Mismatch { observed, detail: format!("dot of two conforming matrices whose product is not square: the property demands `{}`; the model, mirroring the refusal pinned by products_test::test_linalg_dot::case_15, says `{}`", truncate(want, 300), model) } });
    }
    // the independent reference: (1) it must agree with the model, (2) it says whether the case lies inside the statement
    // (defining sums representable: every product / partial sum exact in f64, every entry inside the element type)
    let narrow = !TYS.contains(&ty);
    let mut oracle: Option<(Vec<usize>, Vec<Vec<(usize, usize)>>)> = None;
    match reference(op, &sha, &shb) {
        Ref::Refuse => { if class_of(expected) != "err" { return None; } N_VALIDATED.fetch_add(1, Relaxed); }
        Ref::Terms { shape, entries, .. } => {
            match exact_sums(&entries, &ea, &eb) {
                Some((sums, exact)) => {
                    match parse_ok(expected) { Some((msh, mel)) => { if msh != shape || mel != sums { return None; } } None => return None }
                    N_VALIDATED.fetch_add(1, Relaxed);
                    if !exact || !sums.iter().all(|&s| fits::<N>(s)) { return Some(Verdict::Open(observed)); }
                    oracle = Some((shape, entries));
                }
                None => return Some(Verdict::Open(observed)),
            }
        }
        Ref::NotCovered => {
            // no term lists: a sufficient bound (number of terms x largest product) for the narrow element types
            if narrow {
                let (ma, mb) = (ea.iter().map(|v| v.unsigned_abs()).max().unwrap_or(0) as i128, eb.iter().map(|v| v.unsigned_abs()).max().unwrap_or(0) as i128);
                let bound = (ea.len().max(eb.len()).max(1) as i128) * ma * mb;
                if !fits::<N>(bound) { return Some(Verdict::Open(observed)); }
            }
        }
    }
    let verdict = compare_default(observed, expected);
    // follow-ups: directly after the case itself the same call with one operand replaced by a same-shape rearrangement of its entries
    // (transposed entries, swapped rows, same-sum change, …), judged by the term-list oracle that has just been found equal to the model
    if let (true, Verdict::Match(_), Some((shape, entries))) = (follow, &verdict, &oracle) {
        if ea.len() + eb.len() <= 6000 {
            let kmax = if ea.len() + eb.len() <= 64 { 3 } else { 1 };
            let mut variants: Vec<(&'static str, &'static str, Vec<i64>, Vec<i64>)> = vec![];
            for (what, b2) in rearrangements(&shb, &eb).into_iter().take(kmax) { variants.push(("right", what, ea.clone(), b2)); }
            for (what, a2) in rearrangements(&sha, &ea).into_iter().take(kmax) { variants.push(("left", what, a2, eb.clone())); }
            for (side, what, ea2, eb2) in variants {
                let (va2, vb2): (Option<Vec<N>>, Option<Vec<N>>) = (ea2.iter().map(|&v| N::of_i64(v)).collect(), eb2.iter().map(|&v| N::of_i64(v)).collect());
                let (Some(va2), Some(vb2)) = (va2, vb2) else { continue };
                let want = match exact_sums(entries, &ea2, &eb2) { Some((sums, true)) if sums.iter().all(|&s| fits::<N>(s)) => format!("ok {}:{}", show_list(shape), show_list(&sums)), _ => continue };
                let (a2, b2) = (Array::new(va2, sha.clone()).ok()?, Array::new(vb2, shb.clone()).ok()?);
                N_FOLLOW.fetch_add(1, Relaxed);
                let got = match int_text(&call(op, &a2, &b2, false)?) { Ok(s) => s, Err(d) => format!("ok <malformed: {d}>") };
                if got != want {
                    return Some(Verdict::Mismatch { observed: format!("FOLLOW-UP-DIVERGENCE directly after this case, `{op}` with the {side} operand replaced by {what} ({}) gives `{}`", lit(if side == "left" { &sha } else { &shb }, if side == "left" { &ea2 } else { &eb2 }), truncate(&got, 300)),
                        detail: format!("the defining sums for the rearranged operand are `{}` (native term-list oracle, equal to the model on the case itself); the answer to the case itself was right, so the call depends on the previous call", truncate(&want, 300)) });
                }
            }
        }
    }
    Some(verdict)
}

// ---- class-coded float operands

fn p2(e: i32) -> f64 { 2f64.powi(e) }
fn f64_class(c: usize) -> f64 {
    match c {
        0 => 0.0, 1 => -0.0, 2 => 1.0, 3 => -1.0, 4 => 2.0, 5 => 0.5, 6 => 3.0, 7 => -2.0,
        8 => 5e-324, 9 => -5e-324, 10 => p2(-1030), 11 => 3.0 * p2(-1060), 12 => f64::MIN_POSITIVE, 13 => p2(1023), 14 => -p2(1023), 15 => p2(1000),
        16 => p2(512), 17 => p2(-512), 18 => f64::INFINITY, 19 => f64::NEG_INFINITY, 20 => f64::NAN, 21 => f64::MAX, 22 => 0.1, 23 => 1.0 / 3.0,
        24 => 123456.789, 25 => 1e-3, 26 => 9007199254740991.0, 27 => 1e300, 28 => p2(30), _ => p2(-30),
    }
}
fn f32_class(c: usize) -> f32 {
    match c {
        0 => 0.0, 1 => -0.0, 2 => 1.0, 3 => -1.0, 4 => 2.0, 5 => 0.5, 6 => 3.0, 7 => -2.0,
        8 => 1e-45, 9 => -1e-45, 10 => 2f32.powi(-130), 11 => 3.0 * 2f32.powi(-145), 12 => f32::MIN_POSITIVE, 13 => 2f32.powi(127), 14 => -2f32.powi(127), 15 => 2f32.powi(100),
        16 => 2f32.powi(64), 17 => 2f32.powi(-64), 18 => f32::INFINITY, 19 => f32::NEG_INFINITY, 20 => f32::NAN, 21 => f32::MAX, 22 => 0.1, 23 => 1.0 / 3.0,
        24 => 123456.79, 25 => 1e-3, 26 => 16777215.0, 27 => 1e30, 28 => 2f32.powi(30), _ => 2f32.powi(-30),
    }
}

fn same_number(x: f64, y: f64) -> bool { x == y || (x.is_nan() && y.is_nan()) }

fn exec_cls<N: Num>(op: &str, sa: &str, sb: &str, expected: &str, table: fn(usize) -> N) -> Option<Verdict> {
    let ((sha, ea), (shb, eb)) = (parse_arr_raw(sa), parse_arr_raw(sb));
    if ea.iter().chain(eb.iter()).any(|&c| c < 0 || c as usize >= NCLS) { return None; }
    let va: Vec<N> = ea.iter().map(|&c| table(c as usize)).collect();
    let vb: Vec<N> = eb.iter().map(|&c| table(c as usize)).collect();
    let a = Array::new(va.clone(), sha.clone()).expect("harness: malformed array literal in case line");
    let b = Array::new(vb.clone(), shb.clone()).expect("harness: malformed array literal in case line");
    let plain = call(op, &a, &b, false)?; let chained = call(op, &a, &b, true)?;
    let brief = |r: &Real<N>| match r { Real::Panic => "panic".to_string(), Real::Err(e) => format!("err {e}"),
        Real::Ok(x) => format!("ok {}:<{} float entries>", show_list(&x.get_shape().unwrap()), x.get_elements().unwrap().len()) };
    let observed = brief(&plain);
    // both receivers: same outcome, same numbers
    let rec_same = match (&plain, &chained) {
        (Real::Ok(x), Real::Ok(y)) => x.get_shape().unwrap() == y.get_shape().unwrap() && { let (p, q) = (x.get_elements().unwrap(), y.get_elements().unwrap()); p.len() == q.len() && p.iter().zip(q.iter()).all(|(u, v)| same_number(u.f(), v.f())) },
        (p, q) => brief(p) == brief(q),
    };
    if !rec_same { return Some(Verdict::Mismatch { observed: format!("RECEIVER-DIVERGENCE chained call gives `{}`, plain call `{}`", brief(&chained), observed), detail: "the call on Ok(array) through the Result receiver differs from the plain call".into() }); }
    // aliasing: equal operands are also passed as the very same object
    if sha == shb && ea == eb {
        N_ALIAS.fetch_add(1, Relaxed);
        let aliased = call_alias(op, &a)?;
        let same = match (&plain, &aliased) {
            (Real::Ok(x), Real::Ok(y)) => x.get_shape().unwrap() == y.get_shape().unwrap() && { let (p, q) = (x.get_elements().unwrap(), y.get_elements().unwrap()); p.len() == q.len() && p.iter().zip(q.iter()).all(|(u, v)| same_number(u.f(), v.f())) },
            (p, q) => brief(p) == brief(q),
        };
        if !same {
            let vals = |r: &Real<N>| match r { Real::Ok(x) => format!("{:?}", x.get_elements().unwrap().iter().take(12).map(|v| v.f()).collect::<Vec<f64>>()), other => brief(other) };
            return Some(Verdict::Mismatch { observed: format!("ALIAS-DIVERGENCE `a.{op}(&a)` (the same object on both sides) gives {} {}, two equal objects give {} {}", brief(&aliased), vals(&aliased), observed, vals(&plain)), detail: "the result must not depend on whether the two operands are the same object".into() });
        }
    }
    if expected == "open" { return Some(Verdict::Open(observed)); }
    let expected = expected.split_once(" | matmul ").map_or(expected, |(m, _)| m);
    let r = reference(op, &sha, &shb);
    match (&plain, &r) {
        (Real::Ok(x), Ref::Terms { shape, entries, acc }) => {
            if !consistent(x) { return Some(Verdict::Mismatch { observed, detail: "result violates shape/length consistency".into() }); }
            // the model (run on the codes) must accept and give the same shape as the reference
            match parse_ok(expected) { Some((msh, _)) => if &msh != shape { return None; }, None => return None }
            let got = x.get_elements().unwrap();
            if &x.get_shape().unwrap() != shape || got.len() != entries.len() {
                return Some(Verdict::Mismatch { observed, detail: format!("the defining formula gives shape {:?}", shape) });
            }
            for (k, e) in entries.iter().enumerate() {
                let terms: Vec<(f64, f64)> = e.iter().map(|&(i, j)| (va[i].f(), vb[j].f())).collect();
                let want = N::cast(accumulate(*acc, &terms)).f();
                if !same_number(got[k].f(), want) {
                    return Some(Verdict::Mismatch { observed: format!("ok {}:<entry {k} is {:e}, its defining sum is {:e}>", show_list(shape), got[k].f(), want), detail: format!("entry {k} is {:e}; the defining sum over the shared index ({} products {:?}, accumulated in f64 {:?}, converted once) is {:e}", got[k].f(), terms.len(), &terms[..terms.len().min(9)], acc, want) });
                }
            }
            Some(Verdict::Match(observed))
        }
        (Real::Err(_), Ref::Refuse) => { if class_of(expected) != "err" { return None; } Some(Verdict::Match(observed)) }
        (_, Ref::Refuse) => { if class_of(expected) != "err" { return None; } Some(Verdict::Mismatch { observed, detail: "contracted lengths differ: the call must be refused with an error".into() }) }
        (_, Ref::Terms { shape, .. }) => Some(Verdict::Mismatch { observed, detail: format!("the operands conform: the defining formula gives a result of shape {:?}", shape) }),
        // no reference for this arm: outcome class and shape against the model
        (Real::Ok(x), Ref::NotCovered) => Some(match parse_ok(expected) {
            Some((msh, _)) if msh == x.get_shape().unwrap() => Verdict::Match(observed),
            _ => Verdict::Mismatch { observed, detail: format!("model says `{}`", truncate(expected, 200)) } }),
        (_, Ref::NotCovered) => Some(compare_default(observed, expected)),
    }
}

fn exec_single(op: &str, args: &[&str], expected: &str, follow: bool) -> Option<Verdict> {
    if args.len() != 3 || !OPS.contains(&op) { return None; }
    let (ty, sa, sb) = (args[0], args[1], args[2]);
    match ty {
        "i16" => exec_int::<i16>(op, ty, sa, sb, expected, follow),
        "i32" | "i32n" => exec_int::<i32>(op, "i32", sa, sb, expected, follow),
        "i64" | "i64n" => exec_int::<i64>(op, "i64", sa, sb, expected, follow),
        "i8" => exec_int::<i8>(op, ty, sa, sb, expected, follow),
        "f32" | "f32n" => exec_int::<f32>(op, "f32", sa, sb, expected, follow),
        "f64" | "f64n" => exec_int::<f64>(op, "f64", sa, sb, expected, follow),
        "f64c" => exec_cls::<f64>(op, sa, sb, expected, f64_class),
        "f32c" => exec_cls::<f32>(op, sa, sb, expected, f32_class),
        _ => None,
    }
}

/// `seq`: the calls of the line back to back on this thread, each judged like a single case (without follow-ups in between)
fn exec_seq(args: &[&str], expected: &str) -> Option<Verdict> {
    let groups: Vec<&[&str]> = args.split(|t| *t == "|").collect();
    let exps: Vec<&str> = expected.split(" ;; ").collect();
    if groups.is_empty() || groups.len() != exps.len() { return None; }
    let mut obs = vec![]; let mut open = false;
    for (k, (g, e)) in groups.iter().zip(exps.iter()).enumerate() {
        if g.len() != 4 { return None; }
        match exec_single(g[0], &g[1..], e, false)? {
            Verdict::Match(o) => obs.push(truncate(&o, 80)),
            Verdict::Open(o) => { open = true; obs.push(truncate(&o, 80)); }
            Verdict::Mismatch { observed, detail } => return Some(Verdict::Mismatch {
                observed: format!("step {} of {} (`{} {}`): {}", k + 1, groups.len(), g[0], truncate(&g[1..].join(" "), 300), observed),
                detail: format!("the steps are executed back to back on one thread; for this step the model says `{}`; {}", truncate(e, 300), detail) }),
        }
    }
    let text = truncate(&obs.join(" ;; "), 400);
    Some(if open { Verdict::Open(text) } else { Verdict::Match(text) })
}

thread_local! {
    /// the previous single case of this thread that was answered correctly: (op, args, expected, signature of its verdict)
    static PREV: RefCell<Option<(String, Vec<String>, String, String)>> = const { RefCell::new(None) };
}
fn signature(v: &Verdict) -> Option<String> { match v { Verdict::Match(o) => Some(format!("match {o}")), Verdict::Open(o) => Some(format!("open {o}")), Verdict::Mismatch { .. } => None } }

fn exec(op: &str, args: &[&str], expected: &str) -> Option<Verdict> {
    if op == "tally" {
        // (kept under 160 characters: the summary's samples are cut there)
        return Some(Verdict::Match(format!("ok tally: oracle==model on {} cases; oracle judged {} follow-ups, {} huge cases; {} same-object calls; {} A-B-A re-runs; {} rebuilt-operand runs",
            N_VALIDATED.load(Relaxed), N_FOLLOW.load(Relaxed), N_NATIVE.load(Relaxed), N_ALIAS.load(Relaxed), N_ABA.load(Relaxed), N_BUILD.load(Relaxed))));
    }
    if op == "seq" { return exec_seq(args, expected); }
    let mut verdict = exec_single(op, args, expected, true)?;
    // A-B-A: the previous case A is run again after this case B and must answer exactly as before
    let prev = PREV.with(|p| p.borrow_mut().take());
    if let (Some((pop, pargs, pexp, psig)), Some(_)) = (prev, signature(&verdict)) {
        if pop != op || pargs.iter().map(String::as_str).ne(args.iter().cloned()) {
            let pa: Vec<&str> = pargs.iter().map(String::as_str).collect();
            N_ABA.fetch_add(1, Relaxed);
            let again = exec_single(&pop, &pa, &pexp, false);
            let sig2 = again.as_ref().and_then(signature);
            if sig2.as_deref() != Some(psig.as_str()) {
                let now = match &again { Some(Verdict::Mismatch { observed, detail }) => format!("`{}` ({})", truncate(observed, 300), truncate(detail, 300)), Some(v) => signature(v).unwrap_or_default(), None => "<harness error>".into() };
                verdict = Verdict::Mismatch { observed: format!("A-B-A-DIVERGENCE the preceding case `{} {}` answered `{}`; run again directly after this case it answers {}", pop, truncate(&pargs.join(" "), 300), truncate(&psig, 200), now),
                    detail: "a call must not depend on the calls made before it (the case itself was answered as the model says)".into() };
            }
        }
    }
    if let Some(sig) = signature(&verdict) {
        if args.iter().map(|a| a.len()).sum::<usize>() <= 4000 { PREV.with(|p| *p.borrow_mut() = Some((op.to_string(), args.iter().map(|a| a.to_string()).collect(), expected.to_string(), sig))); }
    }
    Some(verdict)
}

/// non-trivial: both operands have more than one element (so a sum over a shared index or a refusal is at stake)
fn nontrivial(op: &str, args: &[&str]) -> bool {
    if op == "seq" { return args.split(|t| *t == "|").any(|g| g.len() == 4 && nontrivial(g[0], &g[1..])); }
    if args.len() != 3 { return false; }
    let (a, _) = parse_arr_raw(args[1]);
    let (b, _) = parse_arr_raw(args[2]);
    a.iter().product::<usize>() > 1 && b.iter().product::<usize>() > 1
}

fn main() {
    harness_main(Spec { prop: "C14", gen, exec, nontrivial, hang_secs: 20,
        rule: "corpus of defect witnesses; exhaustive: every ordered pair of shapes among vectors [n], matrices [n,m], stacks [s,n,m] with lengths 1..3 x {matmul,dot,vdot,inner,outer} x {tag data, signed pseudo-random data} (element types i32/i64/f64 in rotation quick, all three thorough); every vector/matrix pair with lengths up to 4 (quick) / 5 (thorough) for matmul, dot, inner; thorough: every vector/matrix/stack pair with lengths up to 4 x 5 operations (tag data); rank-4 and one-element operands; + seeded random conforming pairs (lengths 1..5, all arms incl. broadcast stacks) + malformed stream (one axis length off by one, unrelated shapes). Robustness streams: element types i8/i16/f32 next to i32/i64/f64 (the crate has no products for unsigned types); contracted lengths 6..9 for every family x 6 element types, a few of 12..70; big operands (axis lengths 7-17, > 256/1024/4096 elements); zero-length axes x every operation; integer value classes (cancelling products beyond i16/i32/i64, entries on the limits of i8/i16/i32/2^24/2^53; outside the representable range = open); float value classes as class-coded operands (+0,-0, subnormal, huge, inf, NaN, inexact fractions) compared with an independent native reference using the documented f64 accumulation; both receivers on every case. Part-2 streams: equal operands also passed as the SAME object (a.op(&a)): square non-symmetric matrices n=1..9, vectors, rectangular matrices, stacks, 4-D, float classes with NaN/inf; structured operands on either side for n=2..9 (diagonal with distinct / constant / zero entries, identity, permutation, triangular, rank one, single entry, anti-diagonal, zero, symmetric, nearly diagonal; vectors, stacks, rectangular diagonal; float classes with +-0 off the diagonal against inf/NaN); seq lines = calls back to back on one thread (operand then a same-shape rearrangement of its entries - transposed, rows swapped, same-sum change, reversed - then the operand again, for every family with operands of 4..81 elements; collision_shape_pairs() through every arm in both orders; refused call / zero-length operand then a valid call; the same and rearranged arguments through six element types; every 16th base line as B A B); in exec every case is followed by the same call on rearranged operands judged by the native term-list oracle, every case A is re-run after the next case B, a quarter of the cases are repeated on operands rebuilt by clone_from / IntoIterator+filter+FromIterator+reshape; every length 1..130 (thorough 1..300) of the contracted / trailing axis in 14 families; ranks 5..8; huge operands (130x130, 100x200, 129x131, vectors of 16385..70000, 2x70000 . 70000x2, 40x30x30 stacks, outer 300x300, element type `..n`) judged by the native oracle alone, which is compared with the model on every smaller covered case (count in the tally line). distinct = distinct case lines; non-trivial = both operands have more than one element" });
}
