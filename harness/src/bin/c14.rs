//! C14 — vector and matrix products (`dot`, `vdot`, `inner`, `outer`, `matmul`).
//!
//! Case lines: `C14.<op> <type> <a> <b>`.
//! * `<type>` in `i8 i16 i32 i64 f32 f64`: integer entries (`shape:elems`, or tag arrays `iSHAPE+off`).  The model answers with the
//!   integer result array; the real crate is run on `Array<type>` holding the same integers and its result is printed as integers.
//!   The statement speaks about values for which the defining sum is representable, so a case is judged only when every product and
//!   every partial sum (left to right) is exactly representable in f64 and every entry fits the element type (checked natively with
//!   i128 arithmetic on the term lists of the independent reference below); otherwise it is reported as open, not compared.
//! * `<type>` in `f64c f32c`: the entries are CLASS CODES into a table of float values (±0, subnormals, huge, inf, NaN, inexact
//!   fractions …).  No float crosses the boundary: the model computes on the codes and only its outcome class and result shape are
//!   used; the VALUES are compared with an independent native reference (textbook index formulas written here, accumulated in f64
//!   the way the code documents for the path: `mul_add` left fold for matrix x matrix, `sum::<f64>()` of the products for
//!   vector x matrix / matrix x vector, `fold(0., +)` of the products for vdot / inner / dot, one conversion to the element type at
//!   the end).  Equal = same number (`==`, so +0 and -0 agree) or both NaN.
//! Every case is run on BOTH receivers (plain `Array<T>` and `Ok(array)` through `impl … for Result<Array<N>, ArrayError>`).
use arrharness::*;
use std::panic::{catch_unwind, AssertUnwindSafe};

const OPS: [&str; 5] = ["matmul", "dot", "vdot", "inner", "outer"];
const TYS: [&str; 3] = ["i32", "i64", "f64"];
const INT_TYS: [&str; 6] = ["i16", "i32", "i64", "i8", "f32", "f64"];

fn lit(shape: &[usize], elems: &[i64]) -> String { format!("{}:{}", show_list(shape), show_list(elems)) }

fn rand_arr(rng: &mut Rng, shape: &[usize]) -> String {
    let n: usize = shape.iter().product();
    let e: Vec<i64> = (0..n).map(|_| rng.range(-5, 6)).collect();
    lit(shape, &e)
}
fn rand_arr_in(rng: &mut Rng, shape: &[usize], lo: i64, hi: i64) -> String {
    let n: usize = shape.iter().product();
    let e: Vec<i64> = (0..n).map(|_| rng.range(lo, hi)).collect();
    lit(shape, &e)
}

/// vectors, matrices and stacks with every axis in lo..=hi
fn vms(lo: usize, hi: usize) -> Vec<Vec<usize>> { shapes(1, 3, lo, hi) }

/// a pair that conforms for `matmul`/`dot`/`inner` (chosen by `kind`), lengths 1..=maxlen
fn conforming(rng: &mut Rng, maxlen: usize) -> (Vec<usize>, Vec<usize>) {
    let d = |r: &mut Rng| 1 + r.below(maxlen);
    let (n, m, p, s) = (d(rng), d(rng), d(rng), d(rng));
    match rng.below(9) {
        0 => (vec![m], vec![m]),
        1 => (vec![n, m], vec![m, p]),
        2 => (vec![m], vec![m, p]),
        3 => (vec![n, m], vec![m]),
        4 => (vec![s, n, m], vec![s, m, p]),
        5 => (vec![s, n, m], vec![m, p]),
        6 => (vec![n, m], vec![s, m, p]),
        7 => (vec![n, m], vec![p, m]),          // inner
        _ => (vec![s, n, m], vec![p, m]),       // inner, stack x matrix
    }
}

/// every (operation, shape pair) family with contracted length `m` and outer lengths `n`, `p`, stack length `s`
fn families(n: usize, m: usize, p: usize, s: usize) -> Vec<(&'static str, Vec<usize>, Vec<usize>)> {
    vec![
        ("vdot", vec![m], vec![m]), ("inner", vec![m], vec![m]), ("matmul", vec![m], vec![m]), ("dot", vec![m], vec![m]),
        ("matmul", vec![n, m], vec![m, p]), ("matmul", vec![m], vec![m, p]), ("matmul", vec![n, m], vec![m]),
        ("matmul", vec![s, n, m], vec![s, m, p]), ("matmul", vec![s, n, m], vec![m, p]), ("matmul", vec![n, m], vec![s, m, p]),
        ("dot", vec![n, m], vec![m, n]), ("dot", vec![m], vec![m, p]), ("dot", vec![n, m], vec![m]),
        ("inner", vec![n, m], vec![p, m]), ("inner", vec![m], vec![p, m]), ("inner", vec![s, n, m], vec![p, m]),
        ("vdot", vec![n, m], vec![m, n]),
    ]
}

/// inclusive value range for random integer entries such that sums over `m` products stay inside the element type
fn small_range(ty: &str, m: usize) -> (i64, i64) {
    match ty {
        "i8" => if m <= 14 { (-3, 3) } else if m <= 31 { (-2, 2) } else { (-1, 1) },   // 14*9 = 126, 31*4 = 124, m <= 127
        "i16" => if m <= 9 { (-60, 60) } else { (-20, 20) },                        // 9*3600 = 32400, 70*400 = 28000
        _ => (-9, 9),
    }
}

// ---- class-coded float operands

const NCLS: usize = 30;
const N_ORD: usize = 8;       // codes 2..8 are "ordinary" small values, 0/1 the zeros, 8.. the special classes
fn cls_lit(shape: &[usize], codes: &[usize]) -> String { format!("{}:{}", show_list(shape), show_list(codes)) }
fn ordinary(rng: &mut Rng) -> usize { 2 + rng.below(N_ORD - 2) }

/// the textbook reference is used by the generator as well, to aim a special value at a factor that really is multiplied
fn paired_case(rng: &mut Rng, op: &str, sa: &[usize], sb: &[usize], ca: usize, cb: usize) -> Option<(String, String)> {
    let (la, lb) = (sa.iter().product::<usize>(), sb.iter().product::<usize>());
    let mut a: Vec<usize> = (0..la).map(|_| ordinary(rng)).collect();
    let mut b: Vec<usize> = (0..lb).map(|_| ordinary(rng)).collect();
    if let Ref::Terms { entries, .. } = reference(op, sa, sb) {
        let e = rng.pick(&entries); if e.is_empty() { return None; }
        let &(ia, ib) = rng.pick(e);
        a[ia] = ca; b[ib] = cb;
        Some((cls_lit(sa, &a), cls_lit(sb, &b)))
    } else { None }
}

fn gen(tier: &str, seed: u64, out: &mut dyn FnMut(String)) {
    let thorough = tier == "thorough";
    // (i) corpus: the witnesses of the defects of the pinned tree and the suite's own rows
    for l in [
        "matmul i32 3,3:1,2,3,4,5,6,7,8,9 3,2:1,2,3,4,5,6",
        "matmul i32 2,3:1,2,3,4,5,6 4,2:1,2,3,4,5,6,7,8",
        "matmul i64 2,3:1,2,3,4,5,6 1,2:1,2",
        "matmul i32 2:1,2 2,3:0,1,2,3,4,5",
        "matmul i32 3:1,2,3 2,3:0,1,2,3,4,5",
        "matmul f64 2,2,3:1,2,3,4,5,6,7,8,9,10,11,12 2,3,4:1,2,3,4,5,6,7,8,9,10,11,12,13,14,15,16,17,18,19,20,21,22,23,24",
        "matmul i32 2,2,3:1,2,3,4,5,6,7,8,9,10,11,12 3,2:1,2,3,4,5,6",
        "dot i32 2,2:1,2,3,4 2,3:5,6,3,7,8,3",
        "dot i32 3,3:1,2,3,4,5,6,7,8,9 3,2:1,2,3,4,5,6",
        "dot i32 2,3:1,2,3,4,5,6 4,2:1,2,3,4,5,6,7,8",
        "dot i32 1:2 2,3:1,2,3,4,5,6",
        "matmul i32 2:1,2 2,2,2:1,2,1,2,1,2,1,2",
        "matmul i32 2,2,2:1,2,1,2,1,2,1,2 2:1,2",
        "inner i32 3:1,2,3 2,3:6,5,4,3,2,1",
        "outer i32 2,2:1,2,3,4 2,2:4,3,2,1",
        "vdot i32 3:1,2,3 2,3:1,2,3,4,5,6",
        // witnesses of the seeded changes C14-r2-m1 (codes: 10 = 2^-1030, 13 = 2^1023, 18 = inf) and C14-r2-m2
        "matmul f64c 2,2:10,4,5,4 2,2:13,2,5,4",
        "matmul f64c 1,2:18,2 2,1:2,2",
        "vdot i32 3:100000,-100000,3 3:100000,100000,2",
        "vdot i16 2,2:300,-300,2,1 2,2:300,300,2,1",
        "vdot i64 3:1099511627776,-1099511627776,3 3:1073741824,1073741824,2",
    ] { out(l.to_string()); }

    // (ii) exhaustive small scope: every ordered pair of vector / matrix / stack shapes with lengths 1..3,
    // every operation, tag data (distinct non-zero entries) and pseudo-random signed data, element types in rotation
    let mut rng = Rng::new(0xC14);          // the enumerated part does not depend on the seed
    let small = vms(1, 3);
    let mut t = 0usize;
    for sa in &small { for sb in &small {
        for op in OPS {
            let tys: Vec<&str> = if thorough { TYS.to_vec() } else { t += 1; vec![TYS[t % 3]] };
            for ty in tys {
                out(format!("{op} {ty} {} {}", tag_off(sa, 1), tag_off(sb, 100)));
                out(format!("{op} {ty} {} {}", rand_arr(&mut rng, sa), rand_arr(&mut rng, sb)));
            }
        }
    } }
    // vectors and matrices with lengths up to 4 (quick) / 5 (thorough), matmul + dot + inner, exhaustive
    let hi = if thorough { 5 } else { 4 };
    let vm = shapes(1, 2, 1, hi);
    for sa in &vm { for sb in &vm {
        if sa.iter().chain(sb.iter()).all(|&d| d <= 3) { continue; }
        for op in ["matmul", "dot", "inner"] {
            t += 1;
            out(format!("{op} {} {} {}", TYS[t % 3], tag_off(sa, 1), tag_off(sb, 100)));
        }
    } }
    // thorough: every vector / matrix / stack pair with lengths up to 4, every operation, tag data
    if thorough {
        let mid = vms(1, 4);
        for sa in &mid { for sb in &mid {
            if sa.iter().chain(sb.iter()).all(|&d| d <= 3) { continue; }
            for op in OPS { t += 1; out(format!("{op} {} {} {}", TYS[t % 3], tag_off(sa, 1), tag_off(sb, 100))); }
        } }
    }
    // rank-4 operands and one-element operands of every rank (arms: matmul_nd on 4-D, scalar arm of dot)
    for sa in [vec![2, 2, 2, 3], vec![1, 2, 2, 3], vec![2, 1, 3, 2], vec![1, 1, 1, 1], vec![1, 1], vec![1]] {
        for sb in [vec![2, 2, 3, 2], vec![1, 2, 3, 2], vec![3, 2], vec![3], vec![2], vec![1, 1, 1], vec![2, 3, 2]] {
            for op in OPS { t += 1; out(format!("{op} {} {} {}", TYS[t % 3], tag_off(&sa, 1), tag_off(&sb, 100)));
                            t += 1; out(format!("{op} {} {} {}", TYS[t % 3], tag_off(&sb, 1), tag_off(&sa, 100))); }
        }
    }

    // (iii) seeded random stream, lengths 1..5: conforming by construction
    let mut rng = Rng::new(seed ^ 0x14);
    let n_rand = if thorough { 100000 } else { 8000 };
    for _ in 0..n_rand {
        let (sa, sb) = conforming(&mut rng, 5);
        let op = if rng.below(4) == 0 { *rng.pick(&OPS) } else { *rng.pick(&["matmul", "matmul", "dot", "inner"]) };
        let ty = *rng.pick(&TYS);
        out(format!("{op} {ty} {} {}", rand_arr(&mut rng, &sa), rand_arr(&mut rng, &sb)));
    }
    // (iv) malformed stream: a conforming pair with one axis length changed, and unrelated shape pairs
    for _ in 0..n_rand / 2 {
        let (mut sa, mut sb) = conforming(&mut rng, 5);
        if rng.below(3) == 0 { sa = rng.shape(1, 3, 5); sb = rng.shape(1, 3, 5); }
        else {
            let which = rng.below(sa.len() + sb.len());
            let tgt = if which < sa.len() { &mut sa[which] } else { &mut sb[which - sa.len()] };
            *tgt = if *tgt == 1 { 2 } else if rng.below(2) == 0 { *tgt - 1 } else { *tgt + 1 };
        }
        let op = *rng.pick(&OPS);
        let ty = *rng.pick(&TYS);
        out(format!("{op} {ty} {} {}", rand_arr(&mut rng, &sa), rand_arr(&mut rng, &sb)));
    }

    // ============================================================ robustness streams (FRAMEWORK.md)
    let mut rng = Rng::new(seed ^ 0xC14C14);
    let reps = if thorough { 6 } else { 1 };

    // ---- stream 3a: element types i8 / i16 / f32 (+ the three above) on the seeded conforming and off-by-one pairs, lengths 1..5
    for _ in 0..(if thorough { 30000 } else { 4000 }) {
        let (mut sa, mut sb) = conforming(&mut rng, 5);
        if rng.below(5) == 0 {
            let which = rng.below(sa.len() + sb.len());
            let tgt = if which < sa.len() { &mut sa[which] } else { &mut sb[which - sa.len()] };
            *tgt = if *tgt == 1 { 2 } else if rng.below(2) == 0 { *tgt - 1 } else { *tgt + 1 };
        }
        let op = if rng.below(3) == 0 { *rng.pick(&OPS) } else { *rng.pick(&["matmul", "matmul", "dot", "inner"]) };
        let ty = *rng.pick(&["i16", "i8", "f32", "i16", "i8", "f32", "i32", "i64", "f64"]);
        let (lo, hi) = small_range(ty, 5);
        out(format!("{op} {ty} {} {}", rand_arr_in(&mut rng, &sa, lo, hi), rand_arr_in(&mut rng, &sb, lo, hi)));
    }
    // ---- stream 1a: contracted lengths 6..9 for every family and element type, outer lengths 1..3
    for m in 6..=9 { for _ in 0..reps {
        let (n, p, s) = (1 + rng.below(3), 1 + rng.below(3), 1 + rng.below(3));
        for (op, sa, sb) in families(n, m, p, s) { for ty in INT_TYS {
            let (lo, hi) = small_range(ty, m);
            out(format!("{op} {ty} {} {}", rand_arr_in(&mut rng, &sa, lo, hi), rand_arr_in(&mut rng, &sb, lo, hi)));
        } }
        // tag data (distinct entries), the wide types only
        for (op, sa, sb) in families(n, m, p, s) { t += 1; out(format!("{op} {} {} {}", TYS[t % 3], tag_off(&sa, 1), tag_off(&sb, 100))); }
        // contracted lengths that differ by one / are swapped: refused
        for (op, sa, sb) in families(n, m, p, s) { let mut sb2 = sb.clone(); let k = sb2.iter().position(|&d| d == m).unwrap_or(0); sb2[k] = m - 1;
            t += 1; out(format!("{op} {} {} {}", INT_TYS[t % 6], rand_arr_in(&mut rng, &sa, 0, 1), rand_arr_in(&mut rng, &sb2, 0, 1))); }
    } }
    // ---- stream 1b: a few contracted lengths up to 70 (and axis lengths 7-17 in the outer positions)
    for m in [12usize, 16, 17, 33, 64, 65, 70] { for _ in 0..reps {
        let (n, p, s) = (1 + rng.below(2), 1 + rng.below(2), 2);
        for (op, sa, sb) in families(n, m, p, s) { t += 1; let ty = INT_TYS[t % 6];
            let (lo, hi) = small_range(ty, m);
            out(format!("{op} {ty} {} {}", rand_arr_in(&mut rng, &sa, lo, hi), rand_arr_in(&mut rng, &sb, lo, hi)));
            if m >= 64 { let ty = INT_TYS[(t + 3) % 6]; let (lo, hi) = small_range(ty, m);
                out(format!("{op} {ty} {} {}", rand_arr_in(&mut rng, &sa, lo, hi), rand_arr_in(&mut rng, &sb, lo, hi))); }
        }
    } }
    // ---- stream 1c: big operands: axis lengths 7..17 in every position, results and operands with > 256 / 1024 / 4096 elements
    for (op, sa, sb) in [
        ("matmul", vec![9usize, 9], vec![9usize, 9]), ("matmul", vec![17, 16], vec![16, 17]), ("matmul", vec![16, 17], vec![17, 8]), ("matmul", vec![8, 3], vec![3, 9]),
        ("matmul", vec![40, 30], vec![30, 40]), ("matmul", vec![7, 70], vec![70, 7]), ("matmul", vec![70, 2], vec![2, 70]),
        ("matmul", vec![8, 3, 9], vec![8, 9, 2]), ("matmul", vec![2, 8, 3], vec![2, 3, 8]), ("matmul", vec![3, 2, 8], vec![8, 7]), ("matmul", vec![7, 8], vec![3, 8, 2]),
        ("matmul", vec![17], vec![17, 16]), ("matmul", vec![16, 17], vec![17]), ("matmul", vec![300], vec![300, 4]), ("matmul", vec![4, 1030], vec![1030]),
        ("matmul", vec![4100], vec![4100]), ("vdot", vec![4100], vec![4100]), ("vdot", vec![70, 70], vec![4900]), ("vdot", vec![40, 30], vec![30, 40]), ("vdot", vec![4, 4, 4, 4], vec![256]),
        ("dot", vec![1030], vec![1030]), ("dot", vec![16, 16], vec![16, 16]), ("dot", vec![9, 17], vec![17, 9]), ("dot", vec![17], vec![17, 9]), ("dot", vec![9, 17], vec![17]),
        ("inner", vec![300], vec![300]), ("inner", vec![17, 16], vec![9, 16]), ("inner", vec![2, 8, 3], vec![7, 3]), ("inner", vec![40, 30], vec![40, 30]), ("inner", vec![5, 5, 5, 5], vec![2, 5]),
        ("outer", vec![64], vec![65]), ("outer", vec![100], vec![41]), ("outer", vec![9, 9], vec![8, 3]), ("outer", vec![17], vec![16]), ("outer", vec![4100], vec![1]), ("outer", vec![2], vec![1030]),
        ("matmul", vec![2, 3, 4, 5, 2], vec![2, 3, 4, 2, 5]), ("matmul", vec![7, 1, 9], vec![7, 9, 1]), ("matmul", vec![1, 16, 1, 17], vec![1, 16, 17, 1]),
    ] {
        for ty in ["i64", "f64", "i32", "i16", "i8", "f32"] {
            let m = sa.iter().product::<usize>().min(sb.iter().product::<usize>());
            let (lo, hi) = if op == "outer" { small_range(ty, 1) } else if m > 127 && ty == "i8" { (0, 1) } else if m > 70 && ty == "i16" { (-2, 2) } else { small_range(ty, m.min(70)) };
            out(format!("{op} {ty} {} {}", rand_arr_in(&mut rng, &sa, lo, hi), rand_arr_in(&mut rng, &sb, lo, hi)));
        }
    }
    // ---- stream 2: zero-length axes: every operation, zero shapes against zero shapes and against small vectors / matrices / stacks
    let zs: Vec<Vec<usize>> = zero_shapes().into_iter().chain(vec![vec![0usize, 3], vec![3, 0], vec![2, 0, 2]]).collect();
    let partners: Vec<Vec<usize>> = vec![vec![1], vec![2], vec![3], vec![2, 3], vec![3, 2], vec![1, 1], vec![2, 3, 2], vec![2, 2, 3]];
    for za in &zs {
        for sb in zs.iter().chain(partners.iter()) { for op in OPS {
            t += 1; out(format!("{op} {} {} {}", INT_TYS[t % 6], tag(za), tag_off(sb, 1)));
            if !zs.contains(sb) { t += 1; out(format!("{op} {} {} {}", INT_TYS[t % 6], tag_off(sb, 1), tag(za))); }
        } }
    }
    // ---- stream 3b: integer value classes.  Cancelling pairs whose single products leave the element type (i16 / i32) or even i64
    // while every entry of the product is small; entries that land exactly on / next to the limits of i8, i16 and i32
    for _ in 0..(if thorough { 3000 } else { 400 }) {
        let ty = *rng.pick(&["i8", "i16", "i32", "i64", "i16", "i32", "i64", "f32", "f64"]);
        let wide = ty == "i64" || ty == "f64";
        let mmax = if rng.below(6) == 0 { 8 } else { 4 };
        let m = 2 + rng.below(mmax);
        let (n, p, s) = (1 + rng.below(3), 1 + rng.below(3), 1 + rng.below(2));
        let fams = families(n, m, p, s);
        let (op, sa, sb) = rng.pick(&fams).clone();
        // i64: the two big products must be neighbours in the sum, otherwise 2^70 + 3 is not representable on the way
        // and nothing may have been accumulated before them: the entries of a in front of the pair are 0
        let k1 = rng.below(m - 1); let k2 = if wide { k1 + 1 } else { k1 + 1 + rng.below(m - 1 - k1) };
        let big = |rng: &mut Rng| -> i64 { let v = match ty {
            "i8" => rng.range(12, 15), "i16" => rng.range(182, 300), "i32" => rng.range(46341, 100000), "f32" => rng.range(4097, 16000),
            _ => (1i64 << rng.range(32, 40)) * rng.range(1, 3) }; if rng.below(2) == 0 { -v } else { v } };
        let (ra, rb): (usize, usize) = (sa.iter().product::<usize>() / m, sb.iter().product::<usize>() / m);
        // operand a is always a pile of rows of length m; operand b is a pile of rows (inner, vdot on vectors) or of [m, p] matrices
        let b_rows = op == "inner" || sb.len() == 1 || op == "vdot";
        if op == "vdot" && sa.len() > 1 { continue; }
        let mut a = vec![0i64; ra * m]; let mut b = vec![0i64; rb * m];
        for r in 0..ra { let x = big(&mut rng); for k in 0..m { a[r * m + k] = if k == k1 { x } else if k == k2 { -x } else if wide && k < k1 { 0 } else { rng.range(-3, 3) }; } }
        if b_rows { for c in 0..rb { let y = big(&mut rng); for k in 0..m { b[c * m + k] = if k == k1 || k == k2 { y } else { rng.range(-3, 3) }; } } }
        else { let pp = *sb.last().unwrap(); let mats = rb / pp;
            for q in 0..mats { for j in 0..pp { let y = big(&mut rng); for k in 0..m { b[q * m * pp + k * pp + j] = if k == k1 || k == k2 { y } else { rng.range(-3, 3) }; } } } }
        out(format!("{op} {ty} {} {}", lit(&sa, &a), lit(&sb, &b)));
    }
    for (ty, lim) in [("i8", 127i64), ("i8", -128), ("i16", 32767), ("i16", -32768), ("i32", 2147483647), ("i32", -2147483648), ("f32", 16777216), ("f64", 9007199254740992), ("i64", 9007199254740992)] {
        // factorisations x*y + r with the sum exactly on the limit, one below, one beyond (the last is outside the statement: open)
        for d in [-1i64, 0, 1] { for _ in 0..(2 * reps) {
            let target = lim - d * lim.signum();
            let x = match ty { "i8" => rng.range(2, 11), "i16" => rng.range(2, 181), "i32" | "f32" => rng.range(2, 4000), _ => rng.range(2, 90000000) };
            let (y, r) = (target / x, target % x);
            if ty == "i8" && y.abs() > 127 { continue; }
            if ty == "i16" && y.abs() > 32767 { continue; }
            let m = 2 + rng.below(3);
            let mut a = vec![0i64; m]; let mut b = vec![0i64; m];
            let k = rng.below(m); let k2 = (k + 1) % m; a[k] = x; b[k] = y; a[k2] = if r < 0 { -1 } else { 1 }; b[k2] = r.abs();
            if (ty == "i8" && b[k2] > 127) || (ty == "i16" && b[k2] > 32767) { continue; }
            for op in ["vdot", "matmul", "inner", "dot"] { out(format!("{op} {ty} {} {}", lit(&[m], &a), lit(&[m], &b))); }
            out(format!("matmul {ty} {} {}", lit(&[1, m], &a), lit(&[m, 1], &b)));
            out(format!("matmul {ty} {} {}", lit(&[m], &a), lit(&[m, 1], &b)));
            out(format!("matmul {ty} {} {}", lit(&[1, m], &a), lit(&[m], &b)));
        } }
    }
    // ---- stream 3c: float value classes (class-coded operands): one special value aimed at a factor that is really multiplied,
    // its partner from every class; then operands drawn at random from the whole table
    let mut paths: Vec<(&str, Vec<usize>, Vec<usize>)> = families(2, 3, 2, 2);
    paths.extend(families(1, 2, 1, 1)); paths.extend(families(2, 2, 2, 2));
    paths.extend(vec![("outer", vec![2], vec![3]), ("outer", vec![2, 2], vec![2]), ("dot", vec![1], vec![2, 2]), ("dot", vec![2, 3], vec![1, 1]),
                      ("matmul", vec![2, 9], vec![9, 2]), ("vdot", vec![70], vec![70]), ("matmul", vec![1, 70], vec![70, 1]), ("matmul", vec![70], vec![70, 2]), ("matmul", vec![2, 70], vec![70]), ("inner", vec![2, 17], vec![1, 17])]);
    for fty in ["f64c", "f32c"] {
        for (op, sa, sb) in &paths { for ca in N_ORD..NCLS {
            let partners: Vec<usize> = if thorough { (0..NCLS).collect() } else { let mut v = vec![13usize, 4]; for _ in 0..3 { v.push(rng.below(NCLS)); } v };
            for cb in partners {
                let swap = rng.below(2) == 0;
                if let Some((a, b)) = if swap { paired_case(&mut rng, op, sa, sb, cb, ca) } else { paired_case(&mut rng, op, sa, sb, ca, cb) } { out(format!("{op} {fty} {a} {b}")); }
            }
        } }
        for _ in 0..(if thorough { 40000 } else { 3000 }) {
            let ml = if rng.below(8) == 0 { 9 } else { 4 };
            let (sa, sb) = conforming(&mut rng, ml);
            let op = if rng.below(3) == 0 { *rng.pick(&OPS) } else { *rng.pick(&["matmul", "matmul", "dot", "inner"]) };
            let heavy = rng.below(3) == 0;     // mostly ordinary entries with a few special ones, or every entry from the whole table
            let pickc = |rng: &mut Rng| if heavy || rng.below(6) == 0 { rng.below(NCLS) } else { ordinary(rng) };
            let a: Vec<usize> = (0..sa.iter().product::<usize>()).map(|_| pickc(&mut rng)).collect();
            let b: Vec<usize> = (0..sb.iter().product::<usize>()).map(|_| pickc(&mut rng)).collect();
            out(format!("{op} {fty} {} {}", cls_lit(&sa, &a), cls_lit(&sb, &b)));
        }
    }
}

// ------------------------------------------------------------------------------------------------ independent reference

/// how the code documents the accumulation of one entry
#[derive(Clone, Copy, PartialEq, Debug)]
enum Acc { Single, MulFold, IterSum, Fma }

/// the textbook definition, by index formulas: for every entry of the result the list of (flat index in a, flat index in b) factor
/// pairs in the order of the shared index
enum Ref { NotCovered, Refuse, Terms { shape: Vec<usize>, entries: Vec<Vec<(usize, usize)>>, acc: Acc } }

fn reference(op: &str, sa: &[usize], sb: &[usize]) -> Ref {
    if sa.is_empty() || sb.is_empty() || sa.iter().chain(sb.iter()).any(|&d| d == 0) { return Ref::NotCovered; }
    let (la, lb): (usize, usize) = (sa.iter().product(), sb.iter().product());
    let (ra, rb) = (sa.len(), sb.len());
    let rows = |n: usize, m: usize, p: usize, offa: usize, offb: usize| -> Vec<Vec<(usize, usize)>> {       // [n,m] x [m,p]
        let mut e = vec![]; for i in 0..n { for j in 0..p { e.push((0..m).map(|k| (offa + i * m + k, offb + k * p + j)).collect()); } } e };
    let vd = || if la == lb { Ref::Terms { shape: vec![1], entries: vec![(0..la).map(|k| (k, k)).collect()], acc: Acc::MulFold } } else { Ref::Refuse };
    match op {
        "vdot" => vd(),
        "outer" => { let mut e = vec![]; for i in 0..la { for j in 0..lb { e.push(vec![(i, j)]); } } Ref::Terms { shape: vec![la, lb], entries: e, acc: Acc::Single } }
        "inner" => {
            let m = sa[ra - 1]; if m != sb[rb - 1] { return Ref::Refuse; }
            let (na, nb) = (la / m, lb / m);
            let shape = if ra == 1 && rb == 1 { vec![1] } else { sa[..ra - 1].iter().chain(sb[..rb - 1].iter()).cloned().collect() };
            let mut e = vec![]; for r in 0..na { for c in 0..nb { e.push((0..m).map(|k| (r * m + k, c * m + k)).collect()); } }
            Ref::Terms { shape, entries: e, acc: Acc::MulFold }
        }
        "matmul" => match (ra, rb) {
            (1, 1) => vd(),
            (1, 2) => if sa[0] == sb[0] { Ref::Terms { shape: vec![sb[1]], entries: rows(1, sa[0], sb[1], 0, 0), acc: Acc::IterSum } } else { Ref::Refuse },
            (2, 1) => if sa[1] == sb[0] { Ref::Terms { shape: vec![sa[0]], entries: rows(sa[0], sa[1], 1, 0, 0), acc: Acc::IterSum } } else { Ref::Refuse },
            (2, 2) => if sa[1] == sb[0] { Ref::Terms { shape: vec![sa[0], sb[1]], entries: rows(sa[0], sa[1], sb[1], 0, 0), acc: Acc::Fma } } else { Ref::Refuse },
            (3, 3) | (3, 2) | (2, 3) => {
                let (s1, n, m) = if ra == 3 { (sa[0], sa[1], sa[2]) } else { (1, sa[0], sa[1]) };
                let (s2, m2, p) = if rb == 3 { (sb[0], sb[1], sb[2]) } else { (1, sb[0], sb[1]) };
                if m != m2 { return Ref::Refuse; }
                if ra == 3 && rb == 3 && s1 != s2 { return Ref::NotCovered; }
                let s = s1.max(s2);
                let mut e = vec![];
                for q in 0..s { e.extend(rows(n, m, p, if ra == 3 { q * n * m } else { 0 }, if rb == 3 { q * m * p } else { 0 })); }
                Ref::Terms { shape: vec![s, n, p], entries: e, acc: Acc::Fma }
            }
            _ => Ref::NotCovered,
        },
        "dot" => {
            if la == 1 || lb == 1 {
                // one-element operand: scales the other one; result shape by right-aligned broadcasting
                let r = ra.max(rb);
                let pad = |s: &[usize]| { let mut v = vec![1usize; r - s.len()]; v.extend_from_slice(s); v };
                let shape: Vec<usize> = pad(sa).iter().zip(pad(sb).iter()).map(|(&x, &y)| if x == 1 { y } else { x }).collect();
                let e = if la == 1 { (0..lb).map(|j| vec![(0, j)]).collect() } else { (0..la).map(|i| vec![(i, 0)]).collect() };
                return Ref::Terms { shape, entries: e, acc: Acc::Single };
            }
            match (ra, rb) {
                (1, 1) => vd(),
                (2, 2) => if sa[1] != sb[0] { Ref::Refuse } else if sa[0] == sb[1] { Ref::Terms { shape: vec![sa[0], sb[1]], entries: rows(sa[0], sa[1], sb[1], 0, 0), acc: Acc::Fma } }
                          else { Ref::NotCovered },        // rectangular result: region of the open finding, judged by the model/driver pair
                (1, 2) => if sa[0] == sb[0] { Ref::Terms { shape: vec![sb[1]], entries: rows(1, sa[0], sb[1], 0, 0), acc: Acc::MulFold } } else { Ref::Refuse },
                (2, 1) => if sa[1] == sb[0] { Ref::Terms { shape: vec![sa[0]], entries: rows(sa[0], sa[1], 1, 0, 0), acc: Acc::MulFold } } else { Ref::Refuse },
                _ => Ref::NotCovered,
            }
        }
        _ => Ref::NotCovered,
    }
}

/// one entry of the float reference: f64 accumulation as documented for the path
fn accumulate(acc: Acc, terms: &[(f64, f64)]) -> f64 {
    match acc {
        Acc::Single => terms[0].0 * terms[0].1,
        Acc::MulFold => terms.iter().map(|&(x, y)| x * y).fold(0., |a, b| a + b),
        Acc::IterSum => terms.iter().map(|&(x, y)| x * y).sum::<f64>(),
        Acc::Fma => terms.iter().fold(0., |acc, &(x, y)| x.mul_add(y, acc)),
    }
}

fn exact_f64(v: i128) -> bool { let f = v as f64; f.is_finite() && f.abs() < 1.0e38 && (f as i128) == v }

/// exact integer sums of the entries (i128), and whether every product and every partial sum is exactly representable in f64
fn exact_sums(entries: &[Vec<(usize, usize)>], a: &[i64], b: &[i64]) -> Option<(Vec<i128>, bool)> {
    let mut out = vec![]; let mut exact = true;
    for e in entries {
        let mut s: i128 = 0;
        for &(i, j) in e {
            let p = (a[i] as i128).checked_mul(b[j] as i128)?;
            s = s.checked_add(p)?;
            if !exact_f64(p) || !exact_f64(s) { exact = false; }
        }
        out.push(s);
    }
    Some((out, exact))
}

// ------------------------------------------------------------------------------------------------ executor

trait Num: NumericOps {
    fn of_i64(v: i64) -> Option<Self>;
    /// the entry as an exact integer (None: not an integer)
    fn int(&self) -> Option<i128>;
    fn cast(f: f64) -> Self;
    fn f(&self) -> f64;
}
macro_rules! num_int { ($t:ty) => { impl Num for $t {
    fn of_i64(v: i64) -> Option<Self> { <$t>::try_from(v).ok() }
    fn int(&self) -> Option<i128> { Some(*self as i128) }
    fn cast(f: f64) -> Self { f as $t }
    fn f(&self) -> f64 { *self as f64 }
} } }
num_int!(i16); num_int!(i32); num_int!(i64); num_int!(i8);
impl Num for f64 {
    fn of_i64(v: i64) -> Option<Self> { if exact_f64(v as i128) { Some(v as f64) } else { None } }
    fn int(&self) -> Option<i128> { if self.is_finite() && self.fract() == 0.0 && self.abs() < 1.0e30 { Some(*self as i128) } else { None } }
    fn cast(f: f64) -> Self { f }
    fn f(&self) -> f64 { *self }
}
impl Num for f32 {
    fn of_i64(v: i64) -> Option<Self> { let f = v as f32; if (f as i128) == v as i128 { Some(f) } else { None } }
    fn int(&self) -> Option<i128> { if self.is_finite() && self.fract() == 0.0 && self.abs() < 1.0e30 { Some(*self as i128) } else { None } }
    fn cast(f: f64) -> Self { f as f32 }
    fn f(&self) -> f64 { *self as f64 }
}
fn fits<N: Num>(v: i128) -> bool { i64::try_from(v).ok().and_then(N::of_i64).is_some() }

enum Real<N: Num> { Panic, Err(&'static str), Ok(Array<N>) }

fn call<N: Num>(op: &str, a: &Array<N>, b: &Array<N>, chained: bool) -> Option<Real<N>> {
    let r = catch_unwind(AssertUnwindSafe(|| -> Option<Result<Array<N>, ArrayError>> {
        let ra: Result<Array<N>, ArrayError> = Ok(a.clone());
        Some(match (op, chained) {
            ("matmul", false) => a.matmul(b), ("matmul", true) => ra.matmul(b),
            ("dot", false) => a.dot(b), ("dot", true) => ra.dot(b),
            ("vdot", false) => a.vdot(b), ("vdot", true) => ra.vdot(b),
            ("inner", false) => a.inner(b), ("inner", true) => ra.inner(b),
            ("outer", false) => a.outer(b), ("outer", true) => ra.outer(b),
            _ => return None,
        })
    }));
    Some(match r { Err(_) => Real::Panic, Ok(None) => return None, Ok(Some(Err(e))) => Real::Err(err_name(&e)), Ok(Some(Ok(x))) => Real::Ok(x) })
}

/// integer text of a real outcome; `Err(detail)` when the result is malformed or holds a non-integer
fn int_text<N: Num>(r: &Real<N>) -> Result<String, String> {
    match r {
        Real::Panic => Ok("panic".into()), Real::Err(e) => Ok(format!("err {e}")),
        Real::Ok(arr) => {
            if !consistent(arr) { return Err(format!("result violates shape/length consistency: shape {:?}, {} elements", arr.get_shape().unwrap(), arr.get_elements().unwrap().len())); }
            let mut es = vec![];
            for v in arr.get_elements().unwrap() { match v.int() { Some(i) => es.push(i), None => return Err(format!("non-integer entry {}", v.f())) } }
            Ok(format!("ok {}:{}", show_list(&arr.get_shape().unwrap()), show_list(&es)))
        }
    }
}

fn parse_ok(expected: &str) -> Option<(Vec<usize>, Vec<i128>)> {
    let body = expected.strip_prefix("ok ")?; let (sh, el) = body.split_once(':')?;
    let shape = parse_usize_list(sh);
    let elems = if el == "-" { vec![] } else { el.split(',').map(|x| x.parse::<i128>().ok()).collect::<Option<Vec<_>>>()? };
    Some((shape, elems))
}

fn exec_int<N: Num>(op: &str, ty: &str, sa: &str, sb: &str, expected: &str) -> Option<Verdict> {
    let ((sha, ea), (shb, eb)) = (parse_arr_raw(sa), parse_arr_raw(sb));
    let va: Vec<N> = ea.iter().map(|&v| N::of_i64(v)).collect::<Option<_>>()?;
    let vb: Vec<N> = eb.iter().map(|&v| N::of_i64(v)).collect::<Option<_>>()?;
    let a = Array::new(va, sha.clone()).expect("harness: malformed array literal in case line");
    let b = Array::new(vb, shb.clone()).expect("harness: malformed array literal in case line");
    let plain = call(op, &a, &b, false)?; let chained = call(op, &a, &b, true)?;
    let observed = match int_text(&plain) { Ok(s) => s, Err(d) => return Some(Verdict::Mismatch { observed: "ok <malformed>".into(), detail: d }) };
    match int_text(&chained) {
        Ok(c) if c == observed => {}
        Ok(c) => return Some(Verdict::Mismatch { observed: format!("RECEIVER-DIVERGENCE chained call gives `{}`, plain call `{}`", truncate(&c, 300), truncate(&observed, 300)), detail: "the call on Ok(array) through the Result receiver differs from the plain call".into() }),
        Err(d) => return Some(Verdict::Mismatch { observed: "RECEIVER-DIVERGENCE chained call gives a malformed result".into(), detail: d }),
    }
    if expected == "open" { return Some(Verdict::Open(observed)); }
    // zero-length axes are outside the statement (lengths 1..): the real crate refuses most empty operands (`zip` / `broadcast` of an
    // empty array is an error) where the model, which has no such arm, returns the empty sum.  Held to: no divergence between the
    // receivers (above), and the model's answer whenever the crate does return a value or panics; a refusal is left open
    if sha.iter().chain(shb.iter()).any(|&d| d == 0) && class_of(&observed) == "err" && (class_of(expected) == "ok" || expected.contains(" | matmul ")) { return Some(Verdict::Open(observed)); }
    // region of the open finding C14-dot-2d-rectangular-refused: the model mirrors the test-pinned refusal of `dot`,
    // the driver sends the textbook product along; the real code is held to the property (the product), not to the model
    if let Some((model, want)) = expected.split_once(" | matmul ") {
        return Some(if observed == want { Verdict::Match(observed) } else {
            Verdict::Mismatch { observed, detail: format!("dot of two conforming matrices whose product is not square: the property demands `{}`; the model, mirroring the refusal pinned by products_test::test_linalg_dot::case_15, says `{}`", truncate(want, 300), model) } });
    }
    // the independent reference: (1) it must agree with the model, (2) it says whether the case lies inside the statement
    // (defining sums representable: every product / partial sum exact in f64, every entry inside the element type)
    let narrow = !TYS.contains(&ty);
    match reference(op, &sha, &shb) {
        Ref::Refuse => { if class_of(expected) != "err" { return None; } }
        Ref::Terms { shape, entries, .. } => {
            match exact_sums(&entries, &ea, &eb) {
                Some((sums, exact)) => {
                    match parse_ok(expected) { Some((msh, mel)) => { if msh != shape || mel != sums { return None; } } None => return None }
                    if !exact || !sums.iter().all(|&s| fits::<N>(s)) { return Some(Verdict::Open(observed)); }
                }
                None => return Some(Verdict::Open(observed)),
            }
        }
        Ref::NotCovered => {
            // no term lists: a sufficient bound (number of terms x largest product) for the narrow element types
            if narrow {
                let (ma, mb) = (ea.iter().map(|v| v.unsigned_abs()).max().unwrap_or(0) as i128, eb.iter().map(|v| v.unsigned_abs()).max().unwrap_or(0) as i128);
                let bound = (ea.len().max(eb.len()).max(1) as i128) * ma * mb;
                if !fits::<N>(bound) { return Some(Verdict::Open(observed)); }
            }
        }
    }
    Some(compare_default(observed, expected))
}

// ---- class-coded float operands

fn p2(e: i32) -> f64 { 2f64.powi(e) }
fn f64_class(c: usize) -> f64 {
    match c {
        0 => 0.0, 1 => -0.0, 2 => 1.0, 3 => -1.0, 4 => 2.0, 5 => 0.5, 6 => 3.0, 7 => -2.0,
        8 => 5e-324, 9 => -5e-324, 10 => p2(-1030), 11 => 3.0 * p2(-1060), 12 => f64::MIN_POSITIVE, 13 => p2(1023), 14 => -p2(1023), 15 => p2(1000),
        16 => p2(512), 17 => p2(-512), 18 => f64::INFINITY, 19 => f64::NEG_INFINITY, 20 => f64::NAN, 21 => f64::MAX, 22 => 0.1, 23 => 1.0 / 3.0,
        24 => 123456.789, 25 => 1e-3, 26 => 9007199254740991.0, 27 => 1e300, 28 => p2(30), _ => p2(-30),
    }
}
fn f32_class(c: usize) -> f32 {
    match c {
        0 => 0.0, 1 => -0.0, 2 => 1.0, 3 => -1.0, 4 => 2.0, 5 => 0.5, 6 => 3.0, 7 => -2.0,
        8 => 1e-45, 9 => -1e-45, 10 => 2f32.powi(-130), 11 => 3.0 * 2f32.powi(-145), 12 => f32::MIN_POSITIVE, 13 => 2f32.powi(127), 14 => -2f32.powi(127), 15 => 2f32.powi(100),
        16 => 2f32.powi(64), 17 => 2f32.powi(-64), 18 => f32::INFINITY, 19 => f32::NEG_INFINITY, 20 => f32::NAN, 21 => f32::MAX, 22 => 0.1, 23 => 1.0 / 3.0,
        24 => 123456.79, 25 => 1e-3, 26 => 16777215.0, 27 => 1e30, 28 => 2f32.powi(30), _ => 2f32.powi(-30),
    }
}

fn same_number(x: f64, y: f64) -> bool { x == y || (x.is_nan() && y.is_nan()) }

fn exec_cls<N: Num>(op: &str, sa: &str, sb: &str, expected: &str, table: fn(usize) -> N) -> Option<Verdict> {
    let ((sha, ea), (shb, eb)) = (parse_arr_raw(sa), parse_arr_raw(sb));
    if ea.iter().chain(eb.iter()).any(|&c| c < 0 || c as usize >= NCLS) { return None; }
    let va: Vec<N> = ea.iter().map(|&c| table(c as usize)).collect();
    let vb: Vec<N> = eb.iter().map(|&c| table(c as usize)).collect();
    let a = Array::new(va.clone(), sha.clone()).expect("harness: malformed array literal in case line");
    let b = Array::new(vb.clone(), shb.clone()).expect("harness: malformed array literal in case line");
    let plain = call(op, &a, &b, false)?; let chained = call(op, &a, &b, true)?;
    let brief = |r: &Real<N>| match r { Real::Panic => "panic".to_string(), Real::Err(e) => format!("err {e}"),
        Real::Ok(x) => format!("ok {}:<{} float entries>", show_list(&x.get_shape().unwrap()), x.get_elements().unwrap().len()) };
    let observed = brief(&plain);
    // both receivers: same outcome, same numbers
    let rec_same = match (&plain, &chained) {
        (Real::Ok(x), Real::Ok(y)) => x.get_shape().unwrap() == y.get_shape().unwrap() && { let (p, q) = (x.get_elements().unwrap(), y.get_elements().unwrap()); p.len() == q.len() && p.iter().zip(q.iter()).all(|(u, v)| same_number(u.f(), v.f())) },
        (p, q) => brief(p) == brief(q),
    };
    if !rec_same { return Some(Verdict::Mismatch { observed: format!("RECEIVER-DIVERGENCE chained call gives `{}`, plain call `{}`", brief(&chained), observed), detail: "the call on Ok(array) through the Result receiver differs from the plain call".into() }); }
    if expected == "open" { return Some(Verdict::Open(observed)); }
    let expected = expected.split_once(" | matmul ").map_or(expected, |(m, _)| m);
    let r = reference(op, &sha, &shb);
    match (&plain, &r) {
        (Real::Ok(x), Ref::Terms { shape, entries, acc }) => {
            if !consistent(x) { return Some(Verdict::Mismatch { observed, detail: "result violates shape/length consistency".into() }); }
            // the model (run on the codes) must accept and give the same shape as the reference
            match parse_ok(expected) { Some((msh, _)) => if &msh != shape { return None; }, None => return None }
            let got = x.get_elements().unwrap();
            if &x.get_shape().unwrap() != shape || got.len() != entries.len() {
                return Some(Verdict::Mismatch { observed, detail: format!("the defining formula gives shape {:?}", shape) });
            }
            for (k, e) in entries.iter().enumerate() {
                let terms: Vec<(f64, f64)> = e.iter().map(|&(i, j)| (va[i].f(), vb[j].f())).collect();
                let want = N::cast(accumulate(*acc, &terms)).f();
                if !same_number(got[k].f(), want) {
                    return Some(Verdict::Mismatch { observed: format!("ok {}:<entry {k} is {:e}, its defining sum is {:e}>", show_list(shape), got[k].f(), want), detail: format!("entry {k} is {:e}; the defining sum over the shared index ({} products {:?}, accumulated in f64 {:?}, converted once) is {:e}", got[k].f(), terms.len(), &terms[..terms.len().min(9)], acc, want) });
                }
            }
            Some(Verdict::Match(observed))
        }
        (Real::Err(_), Ref::Refuse) => { if class_of(expected) != "err" { return None; } Some(Verdict::Match(observed)) }
        (_, Ref::Refuse) => { if class_of(expected) != "err" { return None; } Some(Verdict::Mismatch { observed, detail: "contracted lengths differ: the call must be refused with an error".into() }) }
        (_, Ref::Terms { shape, .. }) => Some(Verdict::Mismatch { observed, detail: format!("the operands conform: the defining formula gives a result of shape {:?}", shape) }),
        // no reference for this arm: outcome class and shape against the model
        (Real::Ok(x), Ref::NotCovered) => Some(match parse_ok(expected) {
            Some((msh, _)) if msh == x.get_shape().unwrap() => Verdict::Match(observed),
            _ => Verdict::Mismatch { observed, detail: format!("model says `{}`", truncate(expected, 200)) } }),
        (_, Ref::NotCovered) => Some(compare_default(observed, expected)),
    }
}

fn exec(op: &str, args: &[&str], expected: &str) -> Option<Verdict> {
    if args.len() != 3 || !OPS.contains(&op) { return None; }
    let (ty, sa, sb) = (args[0], args[1], args[2]);
    match ty {
        "i16" => exec_int::<i16>(op, ty, sa, sb, expected),
        "i32" => exec_int::<i32>(op, ty, sa, sb, expected),
        "i64" => exec_int::<i64>(op, ty, sa, sb, expected),
        "i8" => exec_int::<i8>(op, ty, sa, sb, expected),
        "f32" => exec_int::<f32>(op, ty, sa, sb, expected),
        "f64" => exec_int::<f64>(op, ty, sa, sb, expected),
        "f64c" => exec_cls::<f64>(op, sa, sb, expected, f64_class),
        "f32c" => exec_cls::<f32>(op, sa, sb, expected, f32_class),
        _ => None,
    }
}

/// non-trivial: both operands have more than one element (so a sum over a shared index or a refusal is at stake)
fn nontrivial(_op: &str, args: &[&str]) -> bool {
    if args.len() != 3 { return false; }
    let (a, _) = parse_arr_raw(args[1]);
    let (b, _) = parse_arr_raw(args[2]);
    a.iter().product::<usize>() > 1 && b.iter().product::<usize>() > 1
}

fn main() {
    harness_main(Spec { prop: "C14", gen, exec, nontrivial, hang_secs: 20,
        rule: "corpus of defect witnesses; exhaustive: every ordered pair of shapes among vectors [n], matrices [n,m], stacks [s,n,m] with lengths 1..3 x {matmul,dot,vdot,inner,outer} x {tag data, signed pseudo-random data} (element types i32/i64/f64 in rotation quick, all three thorough); every vector/matrix pair with lengths up to 4 (quick) / 5 (thorough) for matmul, dot, inner; thorough: every vector/matrix/stack pair with lengths up to 4 x 5 operations (tag data); rank-4 and one-element operands; + seeded random conforming pairs (lengths 1..5, all arms incl. broadcast stacks) + malformed stream (one axis length off by one, unrelated shapes). Robustness streams: element types i8/i16/f32 next to i32/i64/f64 (the crate has no products for unsigned types); contracted lengths 6..9 for every family x 6 element types, a few of 12..70; big operands (axis lengths 7-17, > 256/1024/4096 elements); zero-length axes x every operation; integer value classes (cancelling products beyond i16/i32/i64, entries on the limits of i8/i16/i32/2^24/2^53; outside the representable range = open); float value classes as class-coded operands (+0,-0, subnormal, huge, inf, NaN, inexact fractions) compared with an independent native reference using the documented f64 accumulation; both receivers on every case. distinct = distinct case lines; non-trivial = both operands have more than one element" });
}
