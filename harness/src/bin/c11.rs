//! C11 — joining lays inputs contiguously along the axis; splitting is its inverse. Value protocol with tags.
//!
//! Every case is executed on `Array<i64>` tag arrays (the answer compared with the model), on their `u8` and `f64` (tag 0 = -0.0,
//! bit-wise) images — the comparison of lib.rs `cross_type_arr` / `cross_type_list`, i.e. what `on_types_arr!` / `on_types_list!`
//! do, extended to operations whose source is a LIST of arrays — and, for a share of the small cases, on `i8`, `bool`, `String`,
//! `f32` (-0.0).  `append` and the six splitting methods have an `impl … for Result<Array<T>, ArrayError>`: they are called on
//! BOTH receivers every time.  The i64 call is repeated (same call twice).  Any divergence fails the case.
//!
//! Robustness streams, part 2: `seq call / call / …` lines run several calls back to back on the executing thread (hidden state:
//! shapes that collide under weak hashes, (axis length, part count) pairs that collide under 8-/16-bit packing, sums, products and
//! polynomial hashes, a long axis after its residue modulo 65 536, a refused call followed by a valid one, A–B–A); `n call…` lines
//! are arrays on which the quadratic list model is too slow (16 384 … 140 000 elements, an axis above 65 536, more than 64 parts)
//! judged by the harness-native block-placement reference `oracle`, which is compared with the full model answer on EVERY other
//! case of the run (`oracle_report` lines); `exec` additionally re-runs the previous case after a share of the cases (implicit
//! A–B–A).  `append_self` passes the receiver itself as the `values` argument (aliasing).
use arrharness::*;
use std::cell::RefCell;

// ---------------------------------------------------------------- cross-type / both-receiver plumbing (local copy, lib.rs is shared)

thread_local! { static NOTE: RefCell<Option<String>> = const { RefCell::new(None) }; }
// huge `n` lines: the Result receiver only on i64, no repeated call (the crate needs 0.1 s per call there)
thread_local! { static LITE: std::cell::Cell<bool> = const { std::cell::Cell::new(false) }; }
fn lite() -> bool { LITE.with(|l| l.get()) }
fn note(s: String) { NOTE.with(|n| { let mut n = n.borrow_mut(); if n.is_none() { *n = Some(s); } }); }
fn take_note() -> Option<String> { NOTE.with(|n| n.borrow_mut().take()) }

/// tag -> element of every swept type (i64 / u8 / f64 agree with lib.rs `tag_u8`, `tag_f64z`)
trait Tagged: ArrayElement {
    const NAME: &'static str;
    fn of(t: i64) -> Self;
    fn same(a: &Self, b: &Self) -> bool { a == b }
}
impl Tagged for i64 { const NAME: &'static str = "i64"; fn of(t: i64) -> Self { t } }
impl Tagged for u8 { const NAME: &'static str = "u8"; fn of(t: i64) -> Self { if zmode() { 7 } else { tag_u8(t) } } }
impl Tagged for i8 { const NAME: &'static str = "i8"; fn of(t: i64) -> Self { tag_i8(t) } }
impl Tagged for bool { const NAME: &'static str = "bool"; fn of(t: i64) -> Self { !zmode() && t % 2 != 0 } }
impl Tagged for String { const NAME: &'static str = "String"; fn of(t: i64) -> Self { format!("s{t}") } }
impl Tagged for f64 { const NAME: &'static str = "f64"; fn of(t: i64) -> Self { if zmode() { if t.rem_euclid(2) == 0 { 0.0 } else { -0.0 } } else { tag_f64z(t) } } fn same(a: &Self, b: &Self) -> bool { a.to_bits() == b.to_bits() } }
impl Tagged for f32 { const NAME: &'static str = "f32"; fn of(t: i64) -> Self { if zmode() { if t.rem_euclid(3) == 0 { -0.0 } else { 0.0 } } else if t == 0 { -0.0 } else { t as f32 } } fn same(a: &Self, b: &Self) -> bool { a.to_bits() == b.to_bits() } }
// odd layouts (FRAMEWORK part 3, class 12): 12 bytes, 3 bytes, 32 bytes and not `Copy`
impl Tagged for T3 { const NAME: &'static str = "Tuple3<i32,i32,i32> (12 bytes)"; fn of(t: i64) -> Self { tag_t3(t) } }
impl Tagged for T3b { const NAME: &'static str = "Tuple3<u8,u8,u8> (3 bytes)"; fn of(t: i64) -> Self { tag_t3b(t) } }
impl Tagged for TW { const NAME: &'static str = "Tuple2<String,i32> (32 bytes)"; fn of(t: i64) -> Self { tag_tw(t) } }

// `z call` lines (class 13, values related in a way random data never is): the f64 / f32 images hold ONLY zeros — all elements are
// `==` to each other, the sign bit follows the tag (parity / residue modulo 3) — so `a == values` is true for arrays that are not
// bit-identical; the u8 and bool images are constant.  The i64 tags keep every position distinguishable.
thread_local! { static ZMODE: std::cell::Cell<bool> = const { std::cell::Cell::new(false) }; }
fn zmode() -> bool { ZMODE.with(|z| z.get()) }

fn arr_of<T: Tagged>(s: &str) -> Array<T> { let (sh, e) = parse_arr_raw(s); Array::new(e.into_iter().map(T::of).collect(), sh).expect("harness: array literal") }

fn same_res<T: Tagged>(a: &Result<Array<T>, ArrayError>, b: &Result<Array<T>, ArrayError>) -> bool {
    match (a, b) {
        (Ok(a), Ok(b)) => a.get_shape().unwrap() == b.get_shape().unwrap() && { let (x, y) = (a.get_elements().unwrap(), b.get_elements().unwrap()); x.len() == y.len() && x.iter().zip(y.iter()).all(|(p, q)| T::same(p, q)) },
        (Err(a), Err(b)) => err_name(a) == err_name(b),
        _ => false,
    }
}
fn brief<T: Tagged>(r: &Result<Array<T>, ArrayError>) -> String { truncate(&res_arr(r), 200) }

/// plain receiver, then the same call on `Ok(array)`, then (i64 only) the plain call again; the plain answer is returned,
/// a divergence is left in NOTE (and fails the case)
fn rx<T: Tagged>(plain: impl Fn() -> Result<Array<T>, ArrayError>, chained: impl Fn() -> Result<Array<T>, ArrayError>) -> Result<Array<T>, ArrayError> {
    let p = plain();
    if let Ok(a) = &p { if !consistent(a) { note(format!("INCONSISTENT result on {}: {}", T::NAME, brief(&p))); } }
    if lite() && T::NAME != "i64" { return p; }
    match std::panic::catch_unwind(std::panic::AssertUnwindSafe(&chained)) {
        Ok(c) => if !same_res(&p, &c) { note(format!("RECEIVER-DIVERGENCE ({}) the call on Ok(array) gives `{}`, the plain call `{}`", T::NAME, brief(&c), brief(&p))); },
        Err(_) => note(format!("RECEIVER-DIVERGENCE ({}) the call on Ok(array) panics, the plain call gives `{}`", T::NAME, brief(&p))),
    }
    if T::NAME == "i64" && !lite() { let p2 = plain(); if !same_res(&p, &p2) { note(format!("REPEAT-DIVERGENCE the same call twice: `{}` then `{}`", brief(&p), brief(&p2))); } }
    p
}

fn extra_arr<T: Tagged>(ri: &Result<Array<i64>, ArrayError>, rt: std::thread::Result<Result<Array<T>, ArrayError>>) -> Option<String> {
    let rt = match rt { Ok(r) => r, Err(_) => return Some(format!("the {} run panics", T::NAME)) };
    if ri.is_ok() != rt.is_ok() { return Some(format!("element type {} gives a different outcome class ({})", T::NAME, brief(&rt))); }
    if let (Ok(i), Ok(t)) = (ri, &rt) {
        let (ei, et) = (i.get_elements().unwrap(), t.get_elements().unwrap());
        if i.get_shape().unwrap() != t.get_shape().unwrap() || ei.len() != et.len() { return Some(format!("{} result has another shape: {}", T::NAME, brief(&rt))); }
        for p in 0..ei.len() { if !T::same(&et[p], &T::of(ei[p])) { return Some(format!("{} run differs at flat position {p}: {:?} instead of {:?}", T::NAME, et[p], T::of(ei[p]))); } }
    }
    None
}

macro_rules! at_type { ($T:ident, $ty:ty, $body:expr) => {{ #[allow(dead_code, non_camel_case_types)] type $T = $ty; std::panic::catch_unwind(std::panic::AssertUnwindSafe(|| $body)) }} }
/// `$body` (an expression in the element type alias `$T`, giving `Result<Array<$T>, ArrayError>`) on i64 / u8 / f64(-0.0) — the
/// comparison of lib.rs `cross_type_arr`, i.e. what `on_types_arr!` does — and, when `$more`, on i8 / bool / String / f32 too
macro_rules! sweep_arr { ($more:expr, |$T:ident| $body:expr) => {{
    let _ = take_note();
    let mut obs = if zmode() {
        // all-equal-but-not-identical images: every run is compared with the i64 run through `Tagged::of` (bit-wise for the floats)
        match at_type!($T, i64, $body) {
            Ok(ri) => {
                let mut d = extra_arr::<f64>(&ri, at_type!($T, f64, $body));
                if d.is_none() { d = extra_arr::<f32>(&ri, at_type!($T, f32, $body)); }
                if d.is_none() { d = extra_arr::<u8>(&ri, at_type!($T, u8, $body)); }
                if d.is_none() { d = extra_arr::<bool>(&ri, at_type!($T, bool, $body)); }
                match d { None => res_arr(&ri), Some(d) => format!("VALUE-DIVERGENCE (all elements equal as numbers, signs of zero differ) {d}; i64 run: {}", truncate(&res_arr(&ri), 300)) }
            }
            Err(_) => "panic".to_string(),
        }
    } else { match (at_type!($T, i64, $body), at_type!($T, u8, $body), at_type!($T, f64, $body)) {
        (Ok(ri), Ok(ru), Ok(rf)) => {
            let mut d = cross_type_arr(&ri, &ru, &rf);
            if d.is_none() && $more & 4 != 0 {
                d = extra_arr::<i8>(&ri, at_type!($T, i8, $body));
                if d.is_none() { d = extra_arr::<bool>(&ri, at_type!($T, bool, $body)); }
                if d.is_none() { d = extra_arr::<String>(&ri, at_type!($T, String, $body)); }
                if d.is_none() { d = extra_arr::<f32>(&ri, at_type!($T, f32, $body)); }
            }
            if d.is_none() && $more & 1 != 0 {
                d = extra_arr::<T3>(&ri, at_type!($T, T3, $body));
                if d.is_none() { d = extra_arr::<T3b>(&ri, at_type!($T, T3b, $body)); }
                if d.is_none() && $more & 2 != 0 { d = extra_arr::<TW>(&ri, at_type!($T, TW, $body)); }
                if d.is_some() { d = d.map(|d| format!("(LAYOUT) {d}")); }
                LAYOUT_RUNS.fetch_add(1, Ordering::Relaxed);
            }
            match d { None => res_arr(&ri), Some(d) => format!("TYPE-DIVERGENCE {d}; i64 run: {}", truncate(&res_arr(&ri), 300)) }
        }
        (Err(_), Err(_), Err(_)) => "panic".to_string(),
        (ri, ru, rf) => format!("TYPE-DIVERGENCE panic only for some element types (i64 {}, u8 {}, f64 {})", ri.is_err(), ru.is_err(), rf.is_err()),
    } };
    if let Some(n) = take_note() { obs = format!("{n}; answer: {}", truncate(&obs, 300)); }
    obs
}} }

fn list_of<T: Tagged>(s: &str) -> Vec<Array<T>> { if s == "-" { vec![] } else { s.split(';').map(arr_of::<T>).collect() } }
fn same_list<T: Tagged>(a: &Result<Vec<Array<T>>, ArrayError>, b: &Result<Vec<Array<T>>, ArrayError>) -> bool {
    match (a, b) {
        (Ok(a), Ok(b)) => a.len() == b.len() && a.iter().zip(b.iter()).all(|(x, y)| same_res(&Ok(x.clone()), &Ok(y.clone()))),
        (Err(a), Err(b)) => err_name(a) == err_name(b),
        _ => false,
    }
}
fn brief_list<T: Tagged>(r: &Result<Vec<Array<T>>, ArrayError>) -> String { truncate(&res_arr_list(r), 200) }
/// the splitting methods: plain receiver, `Ok(array)` receiver, (i64) the plain call again
fn rx_list<T: Tagged>(plain: impl Fn() -> Result<Vec<Array<T>>, ArrayError>, chained: impl Fn() -> Result<Vec<Array<T>>, ArrayError>) -> Result<Vec<Array<T>>, ArrayError> {
    let p = plain();
    if let Ok(v) = &p { if v.iter().any(|a| !consistent(a)) { note(format!("INCONSISTENT piece on {}: {}", T::NAME, brief_list(&p))); } }
    if lite() && T::NAME != "i64" { return p; }
    match std::panic::catch_unwind(std::panic::AssertUnwindSafe(&chained)) {
        Ok(c) => if !same_list(&p, &c) { note(format!("RECEIVER-DIVERGENCE ({}) the call on Ok(array) gives `{}`, the plain call `{}`", T::NAME, brief_list(&c), brief_list(&p))); },
        Err(_) => note(format!("RECEIVER-DIVERGENCE ({}) the call on Ok(array) panics, the plain call gives `{}`", T::NAME, brief_list(&p))),
    }
    if T::NAME == "i64" && !lite() { let p2 = plain(); if !same_list(&p, &p2) { note(format!("REPEAT-DIVERGENCE the same call twice: `{}` then `{}`", brief_list(&p), brief_list(&p2))); } }
    p
}
/// the associated functions of ArrayJoining (no Result receiver exists): C01 monitor + (i64) the same call twice
fn rep<T: Tagged>(plain: impl Fn() -> Result<Array<T>, ArrayError>) -> Result<Array<T>, ArrayError> {
    let p = plain();
    if let Ok(a) = &p { if !consistent(a) { note(format!("INCONSISTENT result on {}: {}", T::NAME, brief(&p))); } }
    if T::NAME == "i64" && !lite() { let p2 = plain(); if !same_res(&p, &p2) { note(format!("REPEAT-DIVERGENCE the same call twice: `{}` then `{}`", brief(&p), brief(&p2))); } }
    p
}
fn extra_list<T: Tagged>(ri: &Result<Vec<Array<i64>>, ArrayError>, rt: std::thread::Result<Result<Vec<Array<T>>, ArrayError>>) -> Option<String> {
    let rt = match rt { Ok(r) => r, Err(_) => return Some(format!("the {} run panics", T::NAME)) };
    if ri.is_ok() != rt.is_ok() { return Some(format!("element type {} gives a different outcome class ({})", T::NAME, brief_list(&rt))); }
    if let (Ok(i), Ok(t)) = (ri, &rt) {
        if i.len() != t.len() { return Some(format!("element type {} gives {} pieces instead of {}", T::NAME, t.len(), i.len())); }
        for k in 0..i.len() { if let Some(d) = extra_arr::<T>(&Ok(i[k].clone()), Ok(Ok(t[k].clone()))) { return Some(format!("piece {k}: {d}")); } }
    }
    None
}
/// `sweep_arr!` for bodies giving `Result<Vec<Array<$T>>, ArrayError>` (lib.rs `cross_type_list`, what `on_types_list!` does)
macro_rules! sweep_list { ($more:expr, |$T:ident| $body:expr) => {{
    let _ = take_note();
    let mut obs = if zmode() {
        match at_type!($T, i64, $body) {
            Ok(ri) => {
                let mut d = extra_list::<f64>(&ri, at_type!($T, f64, $body));
                if d.is_none() { d = extra_list::<f32>(&ri, at_type!($T, f32, $body)); }
                if d.is_none() { d = extra_list::<u8>(&ri, at_type!($T, u8, $body)); }
                if d.is_none() { d = extra_list::<bool>(&ri, at_type!($T, bool, $body)); }
                match d { None => res_arr_list(&ri), Some(d) => format!("VALUE-DIVERGENCE (all elements equal as numbers, signs of zero differ) {d}; i64 run: {}", truncate(&res_arr_list(&ri), 300)) }
            }
            Err(_) => "panic".to_string(),
        }
    } else { match (at_type!($T, i64, $body), at_type!($T, u8, $body), at_type!($T, f64, $body)) {
        (Ok(ri), Ok(ru), Ok(rf)) => {
            let mut d = cross_type_list(&ri, &ru, &rf);
            if d.is_none() && $more & 4 != 0 {
                d = extra_list::<i8>(&ri, at_type!($T, i8, $body));
                if d.is_none() { d = extra_list::<bool>(&ri, at_type!($T, bool, $body)); }
                if d.is_none() { d = extra_list::<String>(&ri, at_type!($T, String, $body)); }
                if d.is_none() { d = extra_list::<f32>(&ri, at_type!($T, f32, $body)); }
            }
            if d.is_none() && $more & 1 != 0 {
                d = extra_list::<T3>(&ri, at_type!($T, T3, $body));
                if d.is_none() { d = extra_list::<T3b>(&ri, at_type!($T, T3b, $body)); }
                if d.is_none() && $more & 2 != 0 { d = extra_list::<TW>(&ri, at_type!($T, TW, $body)); }
                if d.is_some() { d = d.map(|d| format!("(LAYOUT) {d}")); }
                LAYOUT_RUNS.fetch_add(1, Ordering::Relaxed);
            }
            match d { None => res_arr_list(&ri), Some(d) => format!("TYPE-DIVERGENCE {d}; i64 run: {}", truncate(&res_arr_list(&ri), 300)) }
        }
        (Err(_), Err(_), Err(_)) => "panic".to_string(),
        (ri, ru, rf) => format!("TYPE-DIVERGENCE panic only for some element types (i64 {}, u8 {}, f64 {})", ri.is_err(), ru.is_err(), rf.is_err()),
    } };
    if let Some(n) = take_note() { obs = format!("{n}; answer: {}", truncate(&obs, 300)); }
    obs
}} }

// ---------------------------------------------------------------- generator

fn list(items: &[(Vec<usize>, i64)]) -> String { items.iter().map(|(s, o)| tag_off(s, *o)).collect::<Vec<_>>().join(";") }

/// shapes of the size streams: lib `big_shapes()` + shapes at / just below / above the 256, 1024 and 4096 element marks in several
/// ranks + long trailing runs + unit axes next to long ones
fn c11_big_shapes(thorough: bool) -> Vec<Vec<usize>> {
    let mut v = big_shapes();
    let more: Vec<Vec<usize>> = vec![vec![16, 16], vec![15, 17], vec![32, 32], vec![33, 31], vec![63, 65], vec![16, 20, 16], vec![8, 8, 8, 8],
        vec![2, 1, 8, 8], vec![9, 8, 10], vec![1, 300], vec![300, 1], vec![3, 1, 64], vec![13, 10], vec![10, 13], vec![7, 11, 5], vec![2, 2, 2, 2, 2, 2, 2, 2]];
    for s in more { if !v.contains(&s) { v.push(s); } }
    if thorough { for s in [vec![64, 64], vec![64, 65], vec![2, 3, 700], vec![2, 2050], vec![4, 4, 4, 4, 4, 4], vec![1, 4096], vec![4097, 1], vec![65, 64], vec![71, 70], vec![20, 16, 16], vec![16, 16, 20], vec![3, 1400], vec![12, 12, 12, 3], vec![5, 30, 30], vec![2, 2, 2, 2, 2, 2, 2, 2, 2, 2, 2, 2, 2]] { if !v.contains(&s) { v.push(s); } } }
    v
}

/// a part count that does NOT divide `d` (uneven split)
fn uneven(d: usize) -> usize { for p in [3usize, 4, 5, 7, 2, 6] { if d % p != 0 { return p; } } 11 }

/// array text with MANY zero tags (f64 image -0.0, u8 image 0, bool false): one tag in three kept; `j` shifts the pattern and the tags
fn zeros_arr(s: &[usize], j: i64) -> String {
    let n: usize = s.iter().product();
    format!("{}:{}", show_list(s), show_list(&(0..n as i64).map(|i| if (i * 7 + 1 + j) % 3 == 0 { i + 1000 * j } else { 0 }).collect::<Vec<_>>()))
}

/// level 0: below 1000 elements (every part count), 1: below 2000 (reduced), 2: from 2000 on (one uneven split per axis, round trip,
/// parts beyond the length; the rest only in the thorough tier) — the model driver needs ~0.4 s per case at 5000 elements
fn gen_split_big(a: &str, s: &[usize], thorough: bool, out: &mut dyn FnMut(String)) {
    let nd = s.len(); let n: usize = s.iter().product();
    let level = if n < 1000 { 0 } else if n < 2000 { 1 } else { 2 };
    for ax in 0..nd {
        let d = s[ax];
        if level == 2 { out(format!("array_split {a} {} {ax}", uneven(d))); continue; }
        let mut ps: Vec<usize> = if level == 0 { vec![2, 3, 4, 5, 7, d.saturating_sub(1), d, d + 1, 2 * d] } else { vec![2, uneven(d), d, d + 1] }; ps.retain(|&p| p >= 1); ps.sort(); ps.dedup();
        for p in ps { out(format!("array_split {a} {p} {ax}")); out(format!("split {a} {p} {ax}")); }
        if level == 0 { for p in [2, 3, uneven(d), d + 1] { out(format!("split_concat {a} {p} {ax}")); } } else { out(format!("split_concat {a} {} {ax}", uneven(d))); }
        out(format!("split_axis {a} {ax}"));
    }
    if level == 2 {
        if nd <= 2 || thorough { out(format!("split_concat {a} {} {}", uneven(s[nd / 2]), nd / 2)); }
        out(format!("array_split {a} {} {}", s[nd - 1] + 1, nd - 1));
        if thorough {
            out(format!("split {a} 2 0")); out(format!("split {a} {} {}", s[nd - 1], nd - 1)); out(format!("split_axis {a} {}", nd - 1)); out(format!("array_split {a} {} none", uneven(s[0])));
            out(format!("hsplit {a} 2")); out(format!("vsplit {a} 2")); out(format!("dsplit {a} 2"));
            if nd >= 2 { out(format!("split_concat {a} {} 0", uneven(s[0]))); }
            for ax in 0..nd { out(format!("array_split {a} {} {ax}", 2 * s[ax] + 1)); }
        }
    } else {
        out(format!("array_split {a} {} none", uneven(s[0]))); out(format!("split {a} 2 none")); out(format!("array_split {a} 2 {nd}")); out(format!("array_split {a} 0 0"));
        for p in [2, 3, 4] { out(format!("hsplit {a} {p}")); out(format!("vsplit {a} {p}")); out(format!("dsplit {a} {p}")); }
    }
}

fn gen(tier: &str, seed: u64, out: &mut dyn FnMut(String)) {
    let thorough = tier == "thorough";
    let mut rng = Rng::new(seed);
    for l in ["array_split i2,4 2 1", "array_split i2,5 3 1", "hstack i2,2;i2,1+1000", "dstack i2,2,1;i2,2,2+1000", "stack i2,3;i2,3+1000 2", "array_split i3,2,2 2 0",
              // off-axis lengths differ but have the same product (permuted / regrouped): must be refused
              "append i2,3,2 i1,2,3+1000 0", "concatenate i2,4,1;i2,2,2+1000 0",
              // round-2 corpus: long trailing runs with unequal lengths on an inner joining axis; -0.0 through column_stack; uneven split of >= 4096 elements
              "append i2,1,8,8 i2,2,8,8+1000 1", "concatenate i2,1,64;i2,3,64+1000 1", "concatenate i2,2,64;i2,2,64+1000;i2,2,64+2000 1", "column_stack 2,2:0,1,0,3;2:0,0",
              "array_split i16,20,16 3 1", "array_split i70,70 3 0", "split_concat i16,20,16 3 1"] { out(l.to_string()); }
    // rank-0 receivers (`Array::new(vec![x], vec![])`, spelled `i-` / `i-+off`): the defaulted axis is validated (/repo 3685e2a), so every
    // splitting call is refused — `array_split` / `split` with `None` used to panic at `self.shape[0]` (fixes/C09-split-rank0.md)
    for a in ["i-", "i-+7"] {
        for p in 0..=2 { for ax in ["none", "0", "1"] { out(format!("array_split {a} {p} {ax}")); out(format!("split {a} {p} {ax}")); } }
        out(format!("split_axis {a} 0")); out(format!("split_axis {a} 1")); out(format!("split_concat {a} 1 0")); out(format!("split_concat {a} 2 0"));
        for p in 0..=2 { out(format!("hsplit {a} {p}")); out(format!("vsplit {a} {p}")); out(format!("dsplit {a} {p}")); }
    }
    let mut all = shapes(1, 4, 1, 3);
    all.extend(vec![vec![4], vec![5], vec![7], vec![2, 4], vec![5, 2], vec![2, 2, 5]]);
    for s in &all {
        let a = tag(s); let nd = s.len();
        // ---- splitting
        for ax in 0..nd {
            for p in 1..=(s[ax] + 2) { out(format!("array_split {a} {p} {ax}")); out(format!("split {a} {p} {ax}")); out(format!("split_concat {a} {p} {ax}")); }
            out(format!("array_split {a} 0 {ax}")); out(format!("split {a} 0 {ax}")); out(format!("split_axis {a} {ax}"));
        }
        for p in 1..=(s[0] + 1) { out(format!("array_split {a} {p} none")); out(format!("split {a} {p} none")); }
        out(format!("array_split {a} 1 {nd}")); out(format!("split {a} 1 {nd}")); out(format!("split_axis {a} {nd}"));
        for p in 0..=4 { out(format!("hsplit {a} {p}")); out(format!("vsplit {a} {p}")); out(format!("dsplit {a} {p}")); }
        // ---- joining: lists of 2..4 arrays that agree off the axis, lengths 1..3 along it
        for ax in 0..nd {
            let k = 2 + rng.below(3);
            let items: Vec<(Vec<usize>, i64)> = (0..k).map(|j| { let mut t = s.clone(); t[ax] = 1 + rng.below(3); (t, 1000 * j as i64) }).collect();
            out(format!("concatenate {} {ax}", list(&items)));
            out(format!("append {} {} {ax}", tag_off(&items[0].0, 0), tag_off(&items[1].0, 1000)));
            // a mismatch off the axis must be refused
            if nd >= 2 { let mut bad = items.clone(); let o = (ax + 1) % nd; bad[1].0[o] += 1; out(format!("concatenate {} {ax}", list(&bad))); out(format!("append {} {} {ax}", tag_off(&bad[0].0, 0), tag_off(&bad[1].0, 1000))); }
            // stack: identical shapes, new axis at ax
            let same: Vec<(Vec<usize>, i64)> = (0..k).map(|j| (s.clone(), 1000 * j as i64)).collect();
            out(format!("stack {} {ax}", list(&same)));
        }
        let same: Vec<(Vec<usize>, i64)> = (0..3).map(|j| (s.clone(), 1000 * j as i64)).collect();
        out(format!("stack {} none", list(&same))); out(format!("stack {} {nd}", list(&same))); out(format!("stack {} {}", list(&same), nd + 1));
        out(format!("concatenate {} none", list(&same))); out(format!("concatenate {} {nd}", list(&same)));
        out(format!("concatenate {} 0", tag(s))); out(format!("append {} {} none", tag(s), tag_off(&[2], 1000)));
        { let mut t = s.clone(); t.push(2); out(format!("append {} {} 0", tag(s), tag_off(&t, 1000))); out(format!("stack {};{} 0", tag(s), tag_off(&t, 1000))); }
        // ---- conveniences: same shape, and differing only along the stacking axis
        for op in ["vstack", "hstack", "dstack", "column_stack", "row_stack"] {
            out(format!("{op} {}", list(&same)));
            out(format!("{op} {}", tag(s)));
            let join_ax = match op { "vstack" | "row_stack" => 0, "hstack" | "column_stack" => if nd == 1 { 0 } else { 1 }, _ => 2 };
            if join_ax < nd { let items: Vec<(Vec<usize>, i64)> = (0..3).map(|j| { let mut t = s.clone(); t[join_ax] = 1 + (j + s[join_ax]) % 3; (t, 1000 * j as i64) }).collect(); out(format!("{op} {}", list(&items))); }
            // mismatch off the stacking axis
            if nd >= 2 { let o = if join_ax == 0 { 1 } else { 0 }; let mut items = same.clone(); items[1].0[o] += 1; out(format!("{op} {}", list(&items))); }
        }
    }
    // mixed ranks for the conveniences
    for l in ["vstack i3;i1,3+1000", "vstack i3;i2,3+1000;i3+2000", "hstack i2;i3+1000;i1+2000", "hstack i2;i2,1+1000", "dstack i2;i1,2+1000;i1,2,1+2000", "dstack i2,3;i2,3,2+1000",
              "column_stack i3;i3,2+1000;i3+2000", "column_stack i3;i2+1000", "column_stack i2,2,2", "row_stack i2;i2+1000;i2+2000", "vstack -", "hstack -", "dstack -", "column_stack -", "concatenate - 0", "stack - 0"] { out(l.to_string()); }
    // off-axis MISMATCHES THAT KEEP THE PRODUCT of the other axes: permuted off-axis lengths and regrouped factors, rank 3 and 4,
    // every axis, both orders, mismatch at the first and at a later pair; all must be refused
    {
        let offs: Vec<(Vec<usize>, Vec<usize>)> = vec![
            (vec![2, 3], vec![3, 2]), (vec![1, 2], vec![2, 1]), (vec![4, 1], vec![2, 2]), (vec![1, 6], vec![3, 2]), (vec![2, 1], vec![1, 2]),
            (vec![2, 3, 1], vec![3, 1, 2]), (vec![2, 3, 2], vec![3, 2, 2]), (vec![1, 2, 3], vec![1, 3, 2]), (vec![4, 1, 2], vec![2, 2, 2]), (vec![2, 2, 3], vec![4, 1, 3]), (vec![1, 1, 4], vec![2, 2, 1])];
        for (pa, pb) in &offs {
            let nd = pa.len() + 1;
            for ax in 0..nd {
                for (ka, kb) in [(2usize, 2usize), (2, 1), (1, 3)] {
                    let mut sa = pa.clone(); sa.insert(ax, ka); let mut sb = pb.clone(); sb.insert(ax, kb);
                    let (a, b, b2) = (tag(&sa), tag_off(&sb, 1000), tag_off(&sa, 2000));
                    out(format!("append {a} {b} {ax}")); out(format!("append {b} {a} {ax}"));
                    out(format!("concatenate {a};{b} {ax}")); out(format!("concatenate {b};{a} {ax}"));
                    out(format!("concatenate {a};{b2};{b} {ax}")); out(format!("concatenate {a};{b};{b2} {ax}"));
                    let ops: &[&str] = match ax { 0 => &["vstack", "row_stack"], 1 => &["hstack", "column_stack"], 2 => &["dstack"], _ => &[] };
                    for op in ops { out(format!("{op} {a};{b}")); out(format!("{op} {b};{a}")); out(format!("{op} {a};{b2};{b}")); }
                }
            }
        }
        // dstack promotes rank 2 to [m,n,1]: 2-D inputs whose shapes are permutations of each other
        for l in ["dstack i2,3;i3,2+1000", "dstack i1,4;i2,2+1000", "dstack i4,1;i2,2+1000;i2,2+2000", "dstack i2,3,1;i3,2+1000", "vstack i2,3,1;i3,2,1+1000",
                  "hstack i2,1,3;i3,1,2+1000", "hstack i6;i2,3+1000", "vstack i6;i2,3+1000", "vstack i2,3;i6+1000",
                  // stack: shapes that are permutations / regroupings of each other (same element count)
                  "stack i2,3;i3,2+1000 0", "stack i2,3;i3,2+1000 1", "stack i2,3;i2,3+1000;i3,2+2000 0", "stack i2,3,2;i3,2,2+1000 0", "stack i2,3,2;i2,2,3+1000 2",
                  "stack i4,1;i2,2+1000 0", "stack i4;i2,2+1000 0", "stack i2,2;i4+1000 0", "stack i1,2,3;i3,2,1+1000 1", "stack i2,3,2,1;i2,1,3,2+1000 3",
                  // column_stack: same element count, different row count
                  "column_stack i2,3;i3,2+1000", "column_stack i6;i2,3+1000", "column_stack i2,3;i6+1000", "column_stack i4,1;i2,2+1000", "column_stack i2;i2,2+1000;i4+2000", "column_stack i2,2;i1,4+1000"] { out(l.to_string()); }
    }
    // zero-size arrays (an empty axis on or off the joining axis): joining, stacking, the conveniences, splitting
    for s in [vec![0usize], vec![2, 0], vec![0, 2], vec![0, 0], vec![2, 0, 3], vec![2, 3, 0], vec![0, 2, 2], vec![1, 0], vec![0, 1], vec![0, 0, 2], vec![3, 0, 2], vec![2, 2, 0, 2]] {
        let nd = s.len(); let a = tag(&s);
        for ax in 0..nd {
            for m in 0..3usize { let mut t = s.clone(); t[ax] = m;
                out(format!("append {a} {} {ax}", tag_off(&t, 1000))); out(format!("append {} {a} {ax}", tag_off(&t, 1000)));
                out(format!("concatenate {a};{};{a} {ax}", tag_off(&t, 1000))); }
            out(format!("stack {a};{a} {ax}")); out(format!("concatenate {a} {ax}"));
            for p in 0..3 { out(format!("array_split {a} {p} {ax}")); out(format!("split {a} {p} {ax}")); if p > 0 { out(format!("split_concat {a} {p} {ax}")); } }
            out(format!("split_axis {a} {ax}"));
        }
        out(format!("stack {a};{a};{a} none")); out(format!("concatenate {a};{a} none")); out(format!("append {a} {a} none"));
        for op in ["vstack", "hstack", "dstack", "column_stack", "row_stack"] {
            out(format!("{op} {a}")); out(format!("{op} {a};{a}")); out(format!("{op} {a};{a};{a}"));
            let join_ax = match op { "vstack" | "row_stack" => 0, "hstack" | "column_stack" => if nd == 1 { 0 } else { 1 }, _ => 2 };
            if join_ax < nd { let mut t = s.clone(); t[join_ax] = 2; out(format!("{op} {a};{}", tag_off(&t, 1000))); out(format!("{op} {};{a}", tag_off(&t, 1000))); }
        }
        for p in 0..3 { out(format!("hsplit {a} {p}")); out(format!("vsplit {a} {p}")); out(format!("dsplit {a} {p}")); }
    }
    // random rank 5 and longer lists
    for _ in 0..(if thorough { 3000 } else { 300 }) {
        let nd = 1 + rng.below(5); let s: Vec<usize> = (0..nd).map(|_| 1 + rng.below(3)).collect(); let ax = rng.below(nd);
        match rng.below(3) {
            0 => { let k = 1 + rng.below(4); let items: Vec<(Vec<usize>, i64)> = (0..k).map(|j| { let mut t = s.clone(); t[ax] = 1 + rng.below(4); (t, 1000 * j as i64) }).collect(); out(format!("concatenate {} {ax}", list(&items))); }
            1 => { let mut t = s.clone(); t[ax] = 1 + rng.below(9); out(format!("split_concat {} {} {ax}", tag(&t), 1 + rng.below(t[ax] + 2))); out(format!("array_split {} {} {ax}", tag(&t), 1 + rng.below(t[ax] + 2))); }
            _ => { let k = 1 + rng.below(4); let same: Vec<(Vec<usize>, i64)> = (0..k).map(|j| (s.clone(), 1000 * j as i64)).collect(); out(format!("stack {} {ax}", list(&same))); }
        }
    }
    // ---- robustness streams (FRAMEWORK.md)
    // 1a. sizes, splitting: axis lengths 7..17 in every position, element counts beyond 256 / 1024 / 4096 (the marks themselves too)
    for s in c11_big_shapes(thorough) { gen_split_big(&tag(&s), &s, thorough, out); }
    // 1b. sizes, joining: the big array with 1-2 partners of length 1..3 along every axis, equal shapes for stack and the conveniences
    for s in c11_big_shapes(thorough) {
        let n: usize = s.iter().product(); let nd = s.len(); let a = tag(&s);
        if n >= 2000 {
            if nd >= 2 { let mut t = s.clone(); t[1] = 1; out(format!("append {} {a} 1", tag_off(&t, 10000))); } else { out(format!("append {a} {} 0", tag_off(&[3], 10000))); }
            if thorough {
                let mut t = s.clone(); t[0] = 1; out(format!("concatenate {a};{} 0", tag_off(&t, 10000)));
                let mut t = s.clone(); t[nd - 1] = 2; out(format!("append {a} {} {}", tag_off(&t, 10000), nd - 1));
                out(format!("stack {a};{} {}", tag_off(&s, 10000), nd - 1));
            }
            continue;
        }
        for ax in 0..nd {
            let k = 2 + rng.below(2);
            let items: Vec<(Vec<usize>, i64)> = (0..k).map(|j| { let mut t = s.clone(); if j > 0 { t[ax] = 1 + rng.below(3); } (t, 10000 * j as i64) }).collect();
            out(format!("concatenate {} {ax}", list(&items)));
            out(format!("append {} {} {ax}", tag_off(&items[1].0, 10000), tag(&items[0].0)));
            if n >= 1000 && !thorough { continue; }
            out(format!("append {} {} {ax}", tag(&items[0].0), tag_off(&items[1].0, 10000)));
            if n <= 700 { out(format!("stack {a};{};{} {ax}", tag_off(&s, 10000), tag_off(&s, 20000))); } else { out(format!("stack {a};{} {ax}", tag_off(&s, 10000))); }
            let ops: &[&str] = match ax { 0 => &["vstack", "row_stack"], 1 => &["hstack", "column_stack"], 2 => &["dstack"], _ => &[] };
            for op in ops { if *op == "column_stack" && nd > 2 { continue; } out(format!("{op} {}", list(&items))); }
        }
        for op in ["vstack", "hstack", "dstack", "column_stack", "row_stack"] { if n <= 1300 { out(format!("{op} {a};{}", tag_off(&s, 10000))); } }
        out(format!("concatenate {a};{} none", tag_off(&s, 10000))); out(format!("append {a} {} none", tag_off(&[3], 10000)));
    }
    // 1c. sizes, joining along an axis followed by a LONG contiguous run (trailing product 63..1030; outer extent 1..7): every
    //     combination of equal / unequal / zero lengths on the joining axis, 2 and 3 inputs, through append (both orders),
    //     concatenate, stack and the convenience of that axis
    {
        let mut templates: Vec<(Vec<usize>, usize)> = vec![
            (vec![2, 0, 8, 8], 1), (vec![2, 0, 64], 1), (vec![2, 0, 63], 1), (vec![2, 0, 65], 1), (vec![3, 0, 70], 1), (vec![2, 2, 0, 100], 2), (vec![0, 128], 0), (vec![0, 8, 8], 0),
            (vec![2, 0, 7, 9], 1), (vec![2, 0, 9, 8], 1), (vec![3, 0, 256], 1), (vec![1, 0, 64], 1), (vec![2, 0, 4, 4, 4], 1), (vec![2, 3, 0, 64], 2), (vec![2, 0, 1030], 1),
            (vec![4, 0, 33, 2], 1), (vec![2, 0, 16, 17], 1), (vec![7, 0, 16], 1), (vec![2, 1, 0, 300], 2), (vec![3, 2, 2, 0, 64], 3), (vec![17, 0, 9], 1), (vec![2, 0, 31], 1), (vec![2, 0, 32], 1)];
        if thorough { templates.extend(vec![(vec![7, 0, 17, 16], 1), (vec![2, 0, 4100], 1), (vec![3, 0, 5, 5, 5], 1), (vec![2, 0, 128], 1), (vec![2, 0, 127], 1), (vec![2, 0, 255], 1), (vec![2, 0, 256], 1), (vec![2, 0, 257], 1), (vec![9, 8, 0, 70], 2)]); }
        let combos: Vec<Vec<usize>> = vec![vec![1, 2], vec![2, 1], vec![3, 1], vec![1, 3], vec![2, 2], vec![1, 1, 1], vec![2, 1, 3], vec![0, 2], vec![2, 0], vec![1, 0, 2], vec![1, 1], vec![5, 7]];
        let cap = if thorough { 9000 } else { 4200 };
        for (tpl, ax) in &templates {
            let unit: usize = tpl.iter().enumerate().map(|(i, &d)| if i == *ax { 1 } else { d }).product();
            for c in &combos {
                if unit * c.iter().sum::<usize>() > cap { continue; }
                // quick tier: the long lists only on the templates with short units (the model driver is quadratic in the result size)
                if !thorough && ((unit > 300 && !matches!(c.as_slice(), [1, 2] | [2, 1] | [1, 1, 1] | [0, 2])) || (unit > 150 && c.as_slice() == [5, 7])) { continue; }
                let items: Vec<(Vec<usize>, i64)> = c.iter().enumerate().map(|(j, &m)| { let mut t = tpl.clone(); t[*ax] = m; (t, 10000 * j as i64) }).collect();
                let total = unit * c.iter().sum::<usize>();
                if total > (if thorough { 4000 } else { 1200 }) { if c.len() == 2 { out(format!("append {} {} {ax}", tag_off(&items[0].0, 0), tag_off(&items[1].0, 10000))); } else { out(format!("concatenate {} {ax}", list(&items))); } continue; }
                out(format!("concatenate {} {ax}", list(&items)));
                out(format!("append {} {} {ax}", tag_off(&items[0].0, 0), tag_off(&items[1].0, 10000)));
                out(format!("append {} {} {ax}", tag_off(&items[1].0, 10000), tag_off(&items[0].0, 0)));
                if c.iter().all(|&m| m == c[0]) { out(format!("stack {} {ax}", list(&items))); if total <= 2000 { out(format!("stack {} 0", list(&items))); } }
                let ops: &[&str] = match ax { 0 => &["vstack", "row_stack"], 1 => &["hstack", "column_stack"], 2 => &["dstack"], _ => &[] };
                for op in ops { if *op == "column_stack" && tpl.len() > 2 { continue; } out(format!("{op} {}", list(&items))); }
                if c.len() == 2 { out(format!("split_concat {} {} {ax}", tag(&items[0].0), 1 + c[1])); }
            }
        }
    }
    // 3. value classes for the f64 / f32 / u8 / bool images: arrays holding the zero tag (-0.0, 0u8, false) in most positions
    {
        let mut vs = shapes(1, 3, 1, 2); vs.extend([vec![3], vec![4], vec![2, 3], vec![3, 2], vec![3, 1, 2], vec![2, 3, 4], vec![2, 1, 8, 8], vec![8, 9], vec![5, 1]]);
        for s in &vs {
            let nd = s.len(); let z = |t: &[usize], j: i64| zeros_arr(t, j);
            for ax in 0..nd {
                let mut t = s.clone(); t[ax] += 1;
                out(format!("concatenate {};{};{} {ax}", z(s, 0), z(&t, 1), z(s, 2))); out(format!("append {} {} {ax}", z(s, 0), z(&t, 1))); out(format!("append {} {} {ax}", z(&t, 1), z(s, 0)));
                out(format!("stack {};{} {ax}", z(s, 0), z(s, 1)));
                for p in [1, 2, 3] { out(format!("array_split {} {p} {ax}", z(&t, 0))); out(format!("split {} {p} {ax}", z(&t, 0))); out(format!("split_concat {} {p} {ax}", z(&t, 0))); }
                out(format!("split_axis {} {ax}", z(s, 0)));
            }
            for op in ["vstack", "hstack", "dstack", "column_stack", "row_stack"] { out(format!("{op} {};{}", z(s, 0), z(s, 1))); out(format!("{op} {}", z(s, 0))); out(format!("{op} {};{};{}", z(s, 2), z(s, 0), z(s, 1))); }
            out(format!("concatenate {};{} none", z(s, 0), z(s, 1))); out(format!("append {} {} none", z(s, 0), z(&[2], 1)));
            for p in [1, 2] { out(format!("hsplit {} {p}", z(s, 0))); out(format!("vsplit {} {p}", z(s, 0))); out(format!("dsplit {} {p}", z(s, 0))); }
            // column_stack: vectors as single columns next to matrices with that many rows
            let r = s[0];
            out(format!("column_stack {};{};{}", z(&[r], 0), z(&[r, 2], 1), z(&[r], 2))); out(format!("column_stack {};{}", z(&[r, 3], 0), z(&[r], 1))); out(format!("column_stack {};{}", z(&[r, 1], 1), z(&[r, 1], 0)));
        }
    }
    // 4./5. both receivers (append, the six splitting methods), the repeated call and the element types are applied by `exec` to EVERY case
    // seeded random shapes with axis lengths up to 17, rank 2..4, at most ~1500 elements
    for _ in 0..(if thorough { 1500 } else { 150 }) {
        let nd = 2 + rng.below(3); let mut s: Vec<usize> = (0..nd).map(|_| 1 + rng.below(17)).collect();
        while s.iter().product::<usize>() > 1500 { let p = rng.below(nd); s[p] = 1 + s[p] / 2; }
        let ax = rng.below(nd); let a = tag(&s);
        match rng.below(4) {
            0 => { let k = 2 + rng.below(2); let items: Vec<(Vec<usize>, i64)> = (0..k).map(|j| { let mut t = s.clone(); if j > 0 { t[ax] = 1 + rng.below(4); } (t, 10000 * j as i64) }).collect(); out(format!("concatenate {} {ax}", list(&items))); }
            1 => { let mut t = s.clone(); t[ax] = 1 + rng.below(5); out(format!("append {a} {} {ax}", tag_off(&t, 10000))); out(format!("append {} {a} {ax}", tag_off(&t, 10000))); }
            2 => { let p = 1 + rng.below(s[ax] + 2); out(format!("array_split {a} {p} {ax}")); out(format!("split {a} {p} {ax}")); }
            _ => { let p = 1 + rng.below(s[ax] + 2); out(format!("split_concat {a} {p} {ax}")); }
        }
    }
    // ---- robustness streams, part 2: hidden state, huge sizes, exact lengths and values, aliasing, long lists and high ranks
    gen_part2(thorough, &mut rng, out);
}



// ---------------------------------------------------------------- robustness streams, part 2 (generator)

fn seq(calls: &[String]) -> String { format!("seq {}", calls.join(" / ")) }
/// calls on more than `lim` elements go through the native reference (`n`), smaller ones through the model
fn nz(call: String, elems: usize, lim: usize) -> String { if elems > lim { format!("n {call}") } else { call } }

/// pairs of DIFFERENT shapes with the SAME element count that collide under `h = h*m + dim`: [a, m(a+t)] and [a+t, m*a]
fn equal_count_collisions() -> Vec<(Vec<usize>, Vec<usize>)> {
    let mut v = vec![];
    for &m in &[31usize, 33, 37, 131, 257] {
        for (a, t) in [(1usize, 1usize), (2, 1), (1, 2)] { if m * a * (a + t) <= 1600 { v.push((vec![a, m * (a + t)], vec![a + t, m * a])); v.push((vec![2, a, m * (a + t)], vec![2, a + t, m * a])); } }
    }
    v
}

fn gen_part2(thorough: bool, rng: &mut Rng, out: &mut dyn FnMut(String)) {
    out("oracle_report".to_string());
    let lim = if thorough { 600 } else { 400 };
    // ---- 6a. hidden state: colliding shapes back to back, both orders, through joining (append transposes the gathered lanes) and
    // splitting (array_split rolls the axis to the front)
    let mut pairs: Vec<(Vec<usize>, Vec<usize>)> = equal_count_collisions();
    for (q, p) in collision_shape_pairs().into_iter().enumerate() { if thorough || q % 3 == 0 { pairs.push(p); } }
    for (q, (sa, sb)) in pairs.iter().enumerate() {
        let nd = sa.len(); let last = nd - 1;
        let (na, nb): (usize, usize) = (sa.iter().product(), sb.iter().product());
        let (a, b) = (tag(sa), tag(sb));
        let orders: Vec<((&String, &Vec<usize>, usize), (&String, &Vec<usize>, usize))> = if thorough || q % 2 == 0 { vec![((&a, sa, na), (&b, sb, nb)), ((&b, sb, nb), (&a, sa, na))] } else { vec![((&b, sb, nb), (&a, sa, na))] };
        for ((x, sx, nx), (y, sy, ny)) in orders {
            let px = { let mut t = sx.clone(); t[last] = 2; tag_off(&t, 100000) }; let py = { let mut t = sy.clone(); t[last] = 2; tag_off(&t, 100000) };
            out(seq(&[nz(format!("append {x} {px} {last}"), nx, lim), nz(format!("append {y} {py} {last}"), ny, lim), nz(format!("append {x} {px} {last}"), nx, lim)]));
            out(seq(&[nz(format!("array_split {x} 2 {last}"), nx, lim), nz(format!("array_split {y} 2 {last}"), ny, lim), nz(format!("array_split {x} 3 {}", last - 1), nx, lim), nz(format!("array_split {y} 3 {}", last - 1), ny, lim)]));
            if q % 4 == 0 || thorough {
                out(seq(&[nz(format!("stack {x};{} {last}", tag_off(sx, 100000)), 2 * nx, lim), nz(format!("stack {y};{} {last}", tag_off(sy, 100000)), 2 * ny, lim), nz(format!("concatenate {x};{};{x} 0", tag_off(sx, 100000)), 3 * nx, lim), nz(format!("concatenate {y};{};{y} 0", tag_off(sy, 100000)), 3 * ny, lim)]));
                out(seq(&[nz(format!("split_concat {x} 3 {last}"), nx, lim), nz(format!("split_concat {y} 3 {last}"), ny, lim), nz(format!("split_axis {x} {}", last - 1), nx, lim), nz(format!("split_axis {y} {}", last - 1), ny, lim)]));
            }
        }
    }
    // permuted / regrouped shapes with equal element counts in ONE sequence, forwards and backwards
    for group in [vec![vec![2usize, 6], vec![3, 4], vec![4, 3], vec![6, 2], vec![12, 1], vec![1, 12]], vec![vec![8, 9], vec![9, 8], vec![6, 12], vec![12, 6], vec![3, 24], vec![24, 3]],
                  vec![vec![2, 3, 4], vec![4, 3, 2], vec![3, 2, 4], vec![2, 4, 3], vec![4, 2, 3], vec![3, 4, 2], vec![2, 2, 6], vec![6, 2, 2]]] {
        for rev in [false, true] {
            let mut g = group.clone(); if rev { g.reverse(); }
            let nd = g[0].len();
            for ax in 0..nd {
                out(seq(&g.iter().map(|s| format!("append {} {} {ax}", tag(s), tag_off(s, 1000))).collect::<Vec<_>>()));
                out(seq(&g.iter().map(|s| format!("array_split {} 2 {ax}", tag(s))).collect::<Vec<_>>()));
                out(seq(&g.iter().map(|s| format!("stack {};{} {ax}", tag(s), tag_off(s, 1000))).collect::<Vec<_>>()));
            }
            out(seq(&g.iter().map(|s| format!("vstack {};{}", tag(s), tag_off(s, 1000))).chain(g.iter().map(|s| format!("dstack {};{}", tag(s), tag_off(s, 1000)))).collect::<Vec<_>>()));
            out(seq(&g.iter().map(|s| format!("split_axis {} {}", tag(s), nd - 1)).chain(g.iter().map(|s| format!("hsplit {} 1", tag(s)))).collect::<Vec<_>>()));
        }
    }
    // ---- 6b. (axis length, part count) pairs that a cache of division points could confuse: the same residue modulo 2^8 / 2^16 in
    // either component, swapped, equal sum / product / xor, equal polynomial hash (31, 33, 37, 131, 257); both orders
    {
        let mut np: Vec<((usize, usize), (usize, usize))> = vec![];
        for (n, p) in [(10usize, 3usize), (7, 2), (12, 5), (100, 7), (9, 4)] {
            np.push(((n, p), (n + 256, p))); np.push(((n, p), (n + 65536, p))); np.push(((n, p), (n + 2 * 65536, p))); np.push(((n + 300, p), (n + 300, p + 256)));
            np.push(((n, p), (p, n))); np.push(((n, p), (n + 1, p - 1))); np.push(((n, p), (n * 2, p))); np.push(((n, p), (n ^ 1, p ^ 1)));
            for m in [31usize, 33, 37, 131, 257] { np.push(((n, p), (n - 1, p + m))); if p >= 2 { np.push(((n + m, p - 1), (n, p))); } np.push(((p + 1, n + m), (p + 2, n))); }
        }
        np.push(((10, 3), (65546, 3))); np.push(((4464, 7), (70000, 7))); np.push(((1, 2), (65537, 2))); np.push(((64, 5), (65600, 5))); np.push(((1, 2), (131073, 2)));
        // (a part count above 65 536 is not generated: the crate computes the division points in quadratic time, 65 539 parts hang)
        if thorough { np.push(((300, 70), (65836, 70))); np.push(((10, 3), (10, 259))); }
        for ((n1, p1), (n2, p2)) in np {
            if p1 == 0 || p2 == 0 { continue; }
            let c1 = nz(format!("array_split {} {p1} 0", tag(&[n1])), n1, 150); let c2 = nz(format!("array_split {} {p2} 0", tag(&[n2])), n2, 150);
            out(seq(&[c1.clone(), c2.clone(), c1.clone()])); out(seq(&[c2.clone(), c1.clone(), c2.clone()]));
            // the same axis lengths in a rank-2 array, both positions (joining along an axis is quadratic in its length in the crate:
            // the round trip only for short axes and few parts)
            if n1 <= 70000 && n2 <= 70000 {
                let r1 = nz(format!("array_split {} {p1} 1", tag(&[2, n1])), 2 * n1, 150); let r2 = nz(format!("array_split {} {p2} 1", tag(&[2, n2])), 2 * n2, 150);
                out(seq(&[r1.clone(), r2.clone(), r1]));
                let op = if n1.max(n2) <= 400 && p1.max(p2) <= 70 { "split_concat" } else { "array_split" };
                let r1 = nz(format!("{op} {} {p1} 0", tag(&[n1, 2])), 2 * n1, 150); let r2 = nz(format!("{op} {} {p2} 0", tag(&[n2, 2])), 2 * n2, 150);
                out(seq(&[r2.clone(), r1, r2]));
            }
        }
    }
    // ---- 6c. a refused call directly followed by valid calls on the same thread
    for s in [vec![4usize], vec![2, 3], vec![3, 2, 2], vec![6, 4]] {
        let a = tag(&s); let nd = s.len(); let b = tag_off(&s, 1000); let last = nd - 1;
        let mut w = s.clone(); w[0] += 1; let wrong = tag_off(&w, 2000);         // differs on axis 0: refused when joined along another axis
        let bads = vec![format!("array_split {a} 0 0"), format!("split {a} {} {last}", s[last] + 1), format!("array_split {a} 2 {nd}"), format!("split_axis {a} {}", nd + 1), format!("stack {a};{wrong} 0"),
                        format!("concatenate {a};{b};{wrong} {}", if nd > 1 { last } else { 3 }), format!("append {a} {wrong} {}", if nd > 1 { last } else { 2 }), format!("dsplit {a} 0"), format!("append {a} {} 0", tag_off(&[2, 2, 2, 2, 2], 1000))];
        let goods = vec![format!("array_split {a} 3 {last}"), format!("split {a} {} 0", s[0]), format!("split_axis {a} {last}"), format!("append {a} {b} {last}"), format!("concatenate {a};{b};{a} 0"), format!("stack {a};{b} 0"),
                         format!("split_concat {a} 3 0"), format!("vstack {a};{b}"), format!("append {a} {b} none")];
        for (q, bad) in bads.iter().enumerate() { for r in 0..(if thorough { goods.len() } else { 3 }) { out(seq(&[bad.clone(), goods[(q + 3 * r) % goods.len()].clone(), goods[(q + r + 1) % goods.len()].clone()])); } }
        out(seq(&[bads[0].clone(), bads[4].clone(), goods[0].clone(), bads[6].clone(), goods[3].clone(), goods[4].clone()]));
    }
    // ---- 6d. A–B–A: a call, a different call, the first call again (seeded)
    {
        let mk = |rng: &mut Rng| -> String {
            let nd = 1 + rng.below(3); let hi = if rng.below(3) == 0 { 12 } else { 4 };
            let mut s: Vec<usize> = (0..nd).map(|_| 1 + rng.below(hi)).collect();
            while s.iter().product::<usize>() > 200 { let p = rng.below(nd); s[p] = 1 + s[p] / 2; }
            let a = tag(&s); let ax = rng.below(nd);
            match rng.below(5) {
                0 => { let mut t = s.clone(); t[ax] = 1 + rng.below(3); format!("append {a} {} {ax}", tag_off(&t, 1000)) }
                1 => { let mut t = s.clone(); t[ax] = 1 + rng.below(3); format!("concatenate {a};{};{a} {ax}", tag_off(&t, 1000)) }
                2 => format!("array_split {a} {} {ax}", 1 + rng.below(s[ax] + 1)),
                3 => format!("stack {a};{} {ax}", tag_off(&s, 1000)),
                _ => format!("split_concat {a} {} {ax}", 1 + rng.below(s[ax] + 1)),
            }
        };
        for _ in 0..(if thorough { 600 } else { 200 }) { let (a, b) = (mk(rng), mk(rng)); out(seq(&[a.clone(), b, a])); }
    }
    // ---- 7. huge sizes through the native reference: joining the array with partners on every axis whose length the crate can cut
    // (its `split` is quadratic in the number of parts: axes up to 3000 positions), stacking, the conveniences, every split
    let mut huge = huge_shapes();
    huge.extend([vec![130, 100], vec![65, 129], vec![257, 65], vec![2, 65, 129], vec![1, 65600]]);
    if thorough { huge.extend([vec![100, 130], vec![3, 8200], vec![191, 193], vec![64, 257], vec![1000, 131], vec![127, 129, 3], vec![7, 9, 11, 13, 2], vec![2, 3, 2, 3, 2, 3, 2, 37], vec![3, 40000], vec![129, 2, 65]]); }
    for (q, s) in huge.iter().enumerate() {
        let a = tag(s); let nd = s.len(); let n: usize = s.iter().product(); let off = 1_000_000i64;
        // the crate needs ~40 ms per call on these arrays: the quick tier takes a rotating selection of the lines below
        let mut r = q;
        let mut pick = |always: bool| -> bool { r += 1; always || (thorough && q < 17) || r % 2 == 0 };
        for ax in 0..nd {
            if s[ax] > 3000 { continue; }
            let lastax = ax + 1 == nd;
            let with = |len: usize, o: i64| { let mut t = s.clone(); t[ax] = len; tag_off(&t, o) };
            if pick(lastax) { out(format!("n append {a} {} {ax}", with(s[ax], off))); }
            if (n <= 40000 || lastax) && pick(lastax) { out(format!("n append {} {a} {ax}", with(1 + (q + ax) % 3, off))); }
            if (n <= 40000 || lastax) && pick(false) { out(format!("n concatenate {};{a};{} {ax}", with(65.min(s[ax]), off), with(3, 2 * off))); }
            if n <= 40000 && pick(false) { out(format!("n stack {a};{} {ax}", tag_off(s, off))); }
            // splitting: uneven, exact, more than 64 parts, the round trip
            let d = s[ax];
            if pick(false) { out(format!("n array_split {a} {} {ax}", uneven(d))); }
            if d >= 67 && pick(lastax) { out(format!("n array_split {a} {} {ax}", [65usize, 66, 67, 100][(q + ax) % 4].min(d))); }
            if d <= 400 && pick(false) { out(format!("n split_concat {a} {} {ax}", if d >= 70 && n <= 40000 { 67 } else { uneven(d) })); }
            if pick(false) { if d % 2 == 0 { out(format!("n split {a} 2 {ax}")); } else if d % 3 == 0 { out(format!("n split {a} 3 {ax}")); } else if d % 5 == 0 { out(format!("n split {a} 5 {ax}")); } }
            if d <= 300 && n <= 40000 && pick(false) { out(format!("n split_axis {a} {ax}")); }
        }
        // an axis above 3000 positions (above 65 536 in four shapes): few parts only
        for ax in 0..nd { if s[ax] > 3000 { out(format!("n array_split {a} 3 {ax}")); if pick(false) { out(format!("n array_split {a} 7 {ax}")); } if pick(false) { out(format!("n array_split {a} 5 {ax}")); } if s[ax] % 2 == 0 && pick(false) { out(format!("n split {a} 2 {ax}")); } } }
        if s[0] <= 3000 && n <= 40000 && pick(false) { out(format!("n vstack {a};{}", tag_off(s, off))); out(format!("n vsplit {a} {}", if s[0] % 2 == 0 { 2 } else { s[0] })); }
        if nd >= 2 && s[1] <= 3000 && n <= 40000 && pick(false) { out(format!("n hstack {a};{}", tag_off(s, off))); out(format!("n hsplit {a} {}", if s[1] % 2 == 0 { 2 } else if s[1] % 3 == 0 { 3 } else { 1 })); }
        if nd >= 3 && s[2] <= 3000 && n <= 40000 && pick(false) { out(format!("n dstack {a};{}", tag_off(s, off))); out(format!("n dsplit {a} {}", if s[2] % 2 == 0 { 2 } else { 1 })); }
        if nd == 2 && s[1] <= 3000 && n <= 40000 && pick(false) { out(format!("n column_stack {a};{};{}", tag_off(&[s[0]], off), tag_off(s, 2 * off))); }
        if pick(false) { out(format!("n append {a} {} none", tag_off(&[70000], off))); } if pick(false) { out(format!("n append_self {a} none")); } if pick(false) { out(format!("n concatenate {a};{};{a} none", tag_off(&[3], off))); }
        if s[nd - 1] <= 3000 && pick(false) { out(format!("n append_self {a} {}", nd - 1)); }
    }
    // hidden state at these sizes: equal element counts back to back; the long axis after its residue modulo 65 536 in a rank-2 array
    out(seq(&[format!("n append {} {} 1", tag(&[130, 100]), tag_off(&[130, 100], 100000)), format!("n append {} {} 1", tag(&[100, 130]), tag_off(&[100, 130], 100000)), format!("n append {} {} 1", tag(&[130, 100]), tag_off(&[130, 100], 100000)), format!("n append {} {} 1", tag(&[65, 200]), tag_off(&[65, 200], 100000))]));
    out(seq(&[format!("array_split {} 3 1", tag(&[2, 10])), format!("n array_split {} 3 1", tag(&[2, 65546])), format!("array_split {} 3 0", tag(&[10, 2])), format!("n array_split {} 3 0", tag(&[65546, 2]))]));
    // ---- 8. exact lengths: every axis length 1..300 in a non-leading position (the small ones and one in sixteen through the model, the
    // others through the reference); part counts 31, 37, 65..67, 100, 128, 129, 255..257, 1000, 1001
    for l in 1..=300usize {
        let direct = l <= 40 || l == 49 || l % 16 == 1 || (thorough && (l <= 64 || l % 8 == 1));
        let a = tag(&[2, l]); let lim8 = if direct { usize::MAX } else { 0 };
        out(nz(format!("append {a} {} 1", tag_off(&[2, 1 + l % 3], 1000)), 1, lim8));
        out(nz(format!("array_split {a} {} 1", uneven(l)), 1, lim8));
        match l % 3 { 0 => out(nz(format!("split_concat {a} {} 1", 1 + l / 2), 1, lim8)), 1 => out(nz(format!("append {} {a} 1", tag_off(&[2, l], 1000)), 1, lim8)), _ => out(nz(format!("hstack {a};{}", tag_off(&[2, l], 1000)), 1, lim8)) }
        if l % 2 == 1 { let b = tag(&[3, l, 2]); out(format!("n append {b} {} 1", tag_off(&[3, 2, 2], 1000))); out(format!("n array_split {b} {} 1", uneven(l))); if l % 4 == 1 { out(format!("n stack {b};{} 1", tag_off(&[3, l, 2], 1000))); } }
    }
    for p in [31usize, 37, 65, 66, 67, 100, 128, 129, 255, 256, 257, 1000, 1001] {
        for s in [vec![p + 7], vec![2 * p + 1, 3], vec![3, p + p / 2], vec![2, p, 2]] {
            let nd = s.len(); let ax = (0..nd).max_by_key(|&k| s[k]).unwrap(); let n: usize = s.iter().product();
            out(nz(format!("array_split {} {p} {ax}", tag(&s)), n, 300)); if p <= 67 { out(nz(format!("split_concat {} {p} {ax}", tag(&s)), n, 300)); }
            if s[ax] % p == 0 { out(nz(format!("split {} {p} {ax}", tag(&s)), n, 300)); }
        }
    }
    for &p in &[19usize, 23, 29, 31, 37, 41, 43, 47, 49, 53, 97, 101, 127, 131, 251, 257] {
        let a = tag(&[p]); out(format!("array_split {a} 3 0")); out(format!("append {a} {} 0", tag_off(&[p], 1000))); out(format!("n split_concat {} 4 1", tag(&[p, p]))); out(format!("n append {} {} 1", tag(&[p, p]), tag_off(&[p, 2], 100000)));
    }
    // axis numbers that are valid only after a narrowing cast must be refused
    for s in [vec![4usize], vec![2, 3], vec![3, 4, 2]] {
        let a = tag(&s); let b = tag_off(&s, 1000);
        for c in [0usize, 1] { for v in narrowing_images(c) {
            out(format!("array_split {a} 2 {v}")); out(format!("split {a} 1 {v}")); out(format!("split_axis {a} {v}")); out(format!("append {a} {b} {v}")); out(format!("concatenate {a};{b} {v}")); out(format!("stack {a};{b} {v}"));
        } }
        out(seq(&[format!("array_split {a} 2 {}", 1usize << 32), format!("array_split {a} 2 0"), format!("concatenate {a};{b} {}", 1usize << 16), format!("concatenate {a};{b} 0")]));
    }
    // ---- 9. aliasing: the receiver itself as the `values` argument
    for s in [vec![1usize], vec![3], vec![17], vec![300], vec![2, 3], vec![3, 1, 2], vec![8, 9], vec![2, 2, 2, 2], vec![40, 30], vec![0, 2], vec![2, 0]] {
        let a = tag(&s); let nd = s.len(); let n: usize = s.iter().product();
        out(nz(format!("append_self {a} none"), n, 700));
        for ax in 0..=nd { out(nz(format!("append_self {a} {ax}"), if ax < nd { n } else { 0 }, 700)); }
    }
    // ---- 10. lists of 5..9 arrays, ranks 5..8, many parts
    for s in [vec![2usize, 3], vec![3], vec![2, 1, 2], vec![2, 3, 2, 2, 3], vec![2, 1, 2, 2, 1, 2], vec![2, 2, 2, 2, 2, 2, 2], vec![1, 2, 1, 2, 2, 1, 2, 3]] {
        let nd = s.len();
        for k in [5usize, 6, 9] {
            for ax in 0..nd {
                if nd > 3 && (ax + k) % 3 != 0 && !thorough { continue; }
                let items: Vec<(Vec<usize>, i64)> = (0..k).map(|j| { let mut t = s.clone(); t[ax] = 1 + rng.below(3); (t, 1000 * j as i64) }).collect();
                out(format!("concatenate {} {ax}", list(&items)));
                let same: Vec<(Vec<usize>, i64)> = (0..k).map(|j| (s.clone(), 1000 * j as i64)).collect();
                out(format!("stack {} {ax}", list(&same)));
                if ax == 0 { out(format!("vstack {}", list(&items))); out(format!("row_stack {}", list(&same))); }
                if ax == 1 { out(format!("hstack {}", list(&same))); if nd == 2 { out(format!("column_stack {}", list(&items))); } }
                if ax == 2 { out(format!("dstack {}", list(&items))); }
            }
            let same: Vec<(Vec<usize>, i64)> = (0..k).map(|j| (s.clone(), 1000 * j as i64)).collect();
            out(format!("concatenate {} none", list(&same))); out(format!("dstack {}", list(&same))); out(format!("hstack {}", list(&same)));
        }
        if nd >= 5 { let a = tag(&s); for ax in 0..nd { for p in 1..=(s[ax] + 1) { out(format!("array_split {a} {p} {ax}")); out(format!("split_concat {a} {p} {ax}")); } out(format!("split_axis {a} {ax}")); out(format!("append {a} {} {ax}", tag_off(&s, 1000))); }
            out(format!("hsplit {a} 1")); out(format!("vsplit {a} 2")); out(format!("dsplit {a} 2")); }
    }
    // ---- robustness streams, part 3: giant sizes, all-equal-but-not-identical values, axis numbers near 2^64
    gen_part3(thorough, out);
    out("oracle_report final".to_string());
}

// ---------------------------------------------------------------- robustness streams, part 3 (generator)

/// a giant operand: `iota:SHAPE[+OFF]`
fn io(s: &[usize], off: i64) -> String { if off == 0 { format!("iota:{}", show_list(s)) } else { format!("iota:{}+{off}", show_list(s)) } }

fn gen_part3(thorough: bool, out: &mut dyn FnMut(String)) {
    const M: usize = 1 << 20;
    let off = 5_000_000i64;
    // ---- 11. more than 2^20 elements (`g` lines: harness-native reference, i64 tags + u8 image + a third on the 12-byte tuple).
    // The crate cuts both inputs of a join into axis-length pieces and copies the whole array for every piece: the joining axis
    // must stay short here, so that the PIECES (all positions off the axis) are the giant thing — above 2^20 elements, exact
    // multiples of 2^20 and of 64 and not — in rank 1-4 on the first, a middle and the last axis; plus joins with short pieces and a
    // giant total.  (template, joining axis, quick tier?)
    let joins: Vec<(Vec<usize>, usize, bool)> = vec![
        (vec![M + 5], 0, true), (vec![M], 0, false), (vec![2 * M + 1], 0, false), (vec![M + 64], 0, false), (vec![3 * M / 2], 0, false),
        (vec![1, M + 5], 0, true), (vec![2, M + 7], 0, false),
        (vec![M + 7, 1], 1, true), (vec![M + 64, 2], 1, false), (vec![1031, 1033, 1], 2, false),
        (vec![1025, 1, 1025], 1, true), (vec![3, 1, 400_001], 1, false), (vec![1024, 2, 1024], 1, false), (vec![1, 1031, 1033], 0, false),
        (vec![33, 1, 31, 1033], 1, true), (vec![2, 2, 1, 262_147], 2, true), (vec![1, 16, 65, 1009], 0, false), (vec![64, 128, 129, 1], 3, false),
        // short pieces, giant total
        (vec![17, 65_537], 0, true), (vec![600, 2, 1000], 1, false), (vec![3, 400_001], 0, false), (vec![400_001, 3], 1, false), (vec![16, 65, 16, 64], 2, false), (vec![65, 129, 127], 0, false)];
    for (q, (tpl, ax, quick)) in joins.iter().enumerate() {
        let (nd, ax) = (tpl.len(), *ax);
        let with = |len: usize, o: i64| { let mut t = tpl.clone(); t[ax] = len; io(&t, o) };
        let a = io(tpl, 0); let n: usize = tpl.iter().product();
        if thorough || *quick {
            // both orders: the giant pieces come from the first / the second input
            if q % 2 == 0 || thorough { out(format!("g append {a} {} {ax}", with(1, off))); }
            if q % 2 == 1 || thorough { out(format!("g append {} {a} {ax}", with(if thorough && n <= 1_200_000 { 1 + q % 2 } else { 1 }, off))); }
        }
        if thorough {
            if n <= 1_100_000 { out(format!("g concatenate {};{a};{} {ax}", with(1, off), with(1, 2 * off))); } else { out(format!("g concatenate {};{a} {ax}", with(1, off))); }
            if n <= 1_200_000 { out(format!("g append_self {a} {ax}")); }
            if nd <= 3 && n <= 1_200_000 { out(format!("g stack {a};{} {ax}", io(tpl, off))); }
            // (hstack of inputs that differ along axis 1 is the open known finding: equal shapes there)
            let conv = match (nd, ax) { (1, 0) => Some("hstack"), (_, 0) => Some("vstack"), (_, 1) => Some("hstack"), (_, 2) => Some("dstack"), _ => None };
            if let Some(op) = conv { out(format!("g {op} {a};{}", if op == "hstack" && nd > 1 { if n <= 1_200_000 { io(tpl, off) } else { continue } } else { with(1, off) })); }
        }
    }
    // the flat joins, stacking vectors, exact multiples of the 2^20 mark next to each other, aliasing, the promotions
    let v = io(&[M + 5], 0);
    out(format!("g concatenate {};{};{} 0", io(&[M], 0), io(&[70], off), io(&[M + 1], 2 * off)));
    out(format!("g vstack {v};{}", io(&[M + 5], off)));
    out(format!("g append {v} {} none", io(&[2, 3], off)));
    out(format!("g append_self {v} 0"));
    if thorough {
        out(format!("g dstack {};{}", io(&[1024, 1025], 0), io(&[1024, 1025], off)));
        out(format!("g stack {v};{} 0", io(&[M + 5], off))); out(format!("g stack {};{} 1", io(&[M + 5, 1], 0), io(&[M + 5, 1], off)));
        out(format!("g hstack {v};{};{}", io(&[M], off), io(&[3], 2 * off))); out(format!("g row_stack {};{}", io(&[1, M + 5], 0), io(&[2, M + 5], off)));
        out(format!("g column_stack {};{}", io(&[M + 5], 0), io(&[M + 5, 1], off))); out(format!("g concatenate {v};{};{v} none", io(&[3, 3], off)));
        out(format!("g append_self {v} none")); out(format!("g append_self {} 0", io(&[1, M + 5], 0))); out(format!("g dstack {v};{}", io(&[M + 5], off)));
        out(format!("g vstack {};{}", io(&[2 * M + 1], 0), io(&[2 * M + 1], off)));
        // refused at giant size, then accepted
        out(format!("g append {v} {} 0", io(&[1, M + 5], off))); out(format!("g concatenate {};{} 0", io(&[1, M + 5], 0), io(&[1, M + 6], off))); out(format!("g append {v} {} 0", io(&[2], off)));
    }
    // splitting: every lib giant shape on every axis, uneven and exact, offsets beyond 2^20 (each piece is cut from a copy of the whole
    // array: few parts), split_axis on the short axes, the conveniences, the round trip
    let mut giants = giant_shapes();
    giants.extend([vec![1024, 1024], vec![1, M + 5], vec![M + 7, 1], vec![33, 32, 31, 33], vec![2, 2, 2, 131_073]]);
    let quick_splits: &[(&[usize], usize, usize)] = &[(&[M | 5], 0, 2), (&[2_097_153], 0, 4), (&[3, 400_001], 1, 2), (&[400_001, 3], 0, 4), (&[2, 131_073, 4], 1, 3), (&[65, 129, 127], 2, 2), (&[1, M + 5], 1, 3), (&[1031, 1033], 0, 5)];
    for (q, s) in giants.iter().enumerate() {
        let a = io(s, 0); let nd = s.len();
        for ax in 0..nd {
            let d = s[ax];
            for &(qs, qax, qp) in quick_splits { if qs == &s[..] && qax == ax && !thorough { out(format!("g array_split {a} {qp} {ax}")); } }
            if !thorough { continue; }
            let mut ps = vec![2usize, uneven(d), 7, 1]; if d < 7 { ps.push(d); ps.push(d + 1); } ps.sort(); ps.dedup();
            for p in ps { if (p + q + ax) % 2 == 0 || p == uneven(d) { out(format!("g array_split {a} {p} {ax}")); } }
            for p in [2usize, 3, 4, 5, 7] { if d % p == 0 { out(format!("g split {a} {p} {ax}")); break; } }
            if d <= 5 { out(format!("g split_axis {a} {ax}")); out(format!("g split_concat {a} {} {ax}", d.clamp(2, 3))); }
            else if nd == 1 { out(format!("g split_concat {a} {} {ax}", uneven(d))); }
        }
        if thorough { out(format!("g array_split {a} 2 none")); out(format!("g hsplit {a} 1")); if nd >= 2 && s[0] % 2 == 0 { out(format!("g vsplit {a} 2")); } if nd >= 3 { out(format!("g dsplit {a} {}", if s[2] % 2 == 0 { 2 } else { 1 })); } }
    }
    out(format!("g split {} 2 2", io(&[2, 131_073, 4], 0)));
    out(format!("g split_concat {v} 2 0"));
    out(format!("g split_axis {} 1", io(&[600, 2, 1000], 0)));
    out(format!("g vsplit {} 2", io(&[2, 3, 174_763], 0)));
    out(format!("g hsplit {} 3", io(&[M + 5], 0)));      // 1 048 581 = 3 * 349 527
    out(format!("g split {v} 2 0"));                       // refused (odd length) at giant size …
    out(format!("g array_split {v} 2 0"));                 // … then accepted
    // ---- 11b. an axis beyond 2^24 positions (`g8` lines: the u8 image only): a length that went through f32 is exact up to 2^24
    const F: usize = 1 << 24;
    out(format!("g8 array_split {} 4 0", io(&[F + 3], 0)));
    out(format!("g8 array_split {} 1 0", io(&[F + 1], 0)));
    if thorough {
        for (n, p) in [(F + 1, 2usize), (F + 1, 3), (F + 3, 2), (F + 3, 7), (F + 5, 6), (2 * F + 1, 2), (F + 2, 1), (3 * F / 2 + 1, 5)] { out(format!("g8 array_split {} {p} 0", io(&[n], 0))); }
        out(format!("g8 split {} 2 0", io(&[F + 2], 0))); out(format!("g8 split {} 3 0", io(&[F + 2], 0))); out(format!("g8 hsplit {} 2", io(&[F + 6], 0)));
        out(format!("g8 split_concat {} 4 0", io(&[F + 3], 0)));
        out(format!("g8 array_split {} 4 1", io(&[1, F + 3], 0))); out(format!("g8 array_split {} 4 0", io(&[F + 3, 1], 0))); out(format!("g8 vsplit {} 1", io(&[F + 1, 1], 0)));
        out(format!("g8 append {} {} 0", io(&[F + 1], 0), io(&[3], off))); out(format!("g8 append {} {} none", io(&[F + 1], 0), io(&[F + 2], off)));
        out(format!("g8 concatenate {};{};{} 0", io(&[F / 2 + 1], 0), io(&[F / 2 + 1], off), io(&[5], 2 * off)));
        out(format!("g8 vstack {};{}", io(&[F / 2 + 1], 0), io(&[F / 2 + 1], off))); out(format!("g8 append_self {} 0", io(&[F / 2 + 1], 0)));
    }
    // ---- 13. all elements equal as numbers but not bit-identical (`z` lines: the f64 / f32 images hold +0.0 / -0.0 only, the u8 and bool
    // images are constant): `a == values` holds for different arrays, every piece of a split `==` every other
    for s in [vec![3usize], vec![4], vec![2, 3], vec![3, 2], vec![2, 2, 2], vec![3, 1, 2], vec![1, 5], vec![8, 9], vec![2, 64]] {
        let nd = s.len(); let a = tag(&s); let b = tag_off(&s, 1001); let n: usize = s.iter().product();
        for ax in 0..nd {
            out(format!("z append {a} {b} {ax}")); out(format!("z append {b} {a} {ax}")); out(format!("z append_self {a} {ax}"));
            out(format!("z concatenate {a};{b};{a} {ax}")); out(format!("z stack {a};{b} {ax}")); out(format!("z stack {a};{a};{b} {ax}"));
            for p in [2usize, 3, s[ax]] { if p >= 1 { out(format!("z array_split {a} {p} {ax}")); out(format!("z split_concat {a} {p} {ax}")); } }
            out(format!("z split {a} {} {ax}", s[ax])); out(format!("z split_axis {a} {ax}"));
            // equal as numbers AND in shape only after the join axis is ignored
            let mut t = s.clone(); t[ax] += 1; out(format!("z append {a} {} {ax}", tag_off(&t, 1001))); out(format!("z concatenate {};{a};{b} {ax}", tag_off(&t, 1001)));
        }
        out(format!("z append {a} {b} none")); out(format!("z concatenate {a};{b} none")); out(format!("z append_self {a} none"));
        for op in ["vstack", "hstack", "dstack", "column_stack", "row_stack"] { if op == "column_stack" && nd > 2 { continue; } out(format!("z {op} {a};{b}")); out(format!("z {op} {b};{a};{b}")); }
        out(format!("z hsplit {a} 1")); if n % 2 == 0 { out(format!("z vsplit {a} {}", if s[0] % 2 == 0 { 2 } else { 1 })); }
        // a constant source on the i64 tags as well: the same value everywhere, in both inputs
        let c = format!("{}:{}", show_list(&s), show_list(&vec![7i64; n])); let c2 = { let mut t = s.clone(); t[nd - 1] += 1; format!("{}:{}", show_list(&t), show_list(&vec![7i64; t.iter().product()])) };
        out(format!("append {c} {c} {}", nd - 1)); out(format!("append {c} {c2} {}", nd - 1)); out(format!("concatenate {c};{c};{c2} {}", nd - 1)); out(format!("stack {c};{c} 0")); out(format!("array_split {c2} 2 {}", nd - 1)); out(format!("split_concat {c2} 3 {}", nd - 1));
    }
    // ---- 15. the operations take no coordinates; their only numeric arguments are the axis and the part count.  Axis numbers at the
    // top of the usize range (an `axis + 1`, a cast to isize or a wrapping product must not bring them back into the rank) are
    // refused; an exact split into a part count near 2^63 / 2^64 is refused (the remainder test comes first)
    for s in [vec![4usize], vec![2, 3], vec![3, 4, 2]] {
        let a = tag(&s); let b = tag_off(&s, 1000);
        for v in [u64::MAX, u64::MAX - 1, u64::MAX - 2, 1u64 << 63, (1u64 << 63) + 1, (1u64 << 63) - 1, u64::MAX / 3 + 1, u32::MAX as u64] {
            out(format!("array_split {a} 2 {v}")); out(format!("split {a} 1 {v}")); out(format!("split_axis {a} {v}")); out(format!("append {a} {b} {v}")); out(format!("concatenate {a};{b} {v}")); out(format!("stack {a};{b} {v}"));
            out(format!("split {a} {v} 0")); out(format!("hsplit {a} {v}"));
        }
        out(seq(&[format!("append {a} {b} {}", u64::MAX), format!("append {a} {b} 0"), format!("split {a} {} 0", 1u64 << 63), format!("split {a} 1 0")]));
    }
}

// ---------------------------------------------------------------- harness-native reference (block placement by coordinates)

use std::sync::atomic::{AtomicUsize, Ordering};
static ORACLE_CHECKED: AtomicUsize = AtomicUsize::new(0);
static ORACLE_SILENT: AtomicUsize = AtomicUsize::new(0);
static ORACLE_ONLY: AtomicUsize = AtomicUsize::new(0);
static ABA_RERUNS: AtomicUsize = AtomicUsize::new(0);
static SEQ_CALLS: AtomicUsize = AtomicUsize::new(0);

static LAYOUT_RUNS: AtomicUsize = AtomicUsize::new(0);
static GIANT_CALLS: AtomicUsize = AtomicUsize::new(0);
static Z_CALLS: AtomicUsize = AtomicUsize::new(0);

// the reference is generic in the element type: it only moves elements.  The ordinary and `n` lines use it at `i64` (where it is
// compared with the model), the giant lines at i64 / u8 / the 12-byte tuple — the very same code.
type ValT<T> = (Vec<usize>, Vec<T>);
type Val = ValT<i64>;
enum AnsT<T> { Arr(ValT<T>), List(Vec<ValT<T>>) }
type Ans = AnsT<i64>;

/// every input occupies, unchanged, the block of positions following the previous input along `ax`; `None` = refused
fn concat_ref<T: Clone>(items: &[ValT<T>], ax: usize) -> Option<ValT<T>> {
    let first = &items.first()?.0; let nd = first.len();
    if ax >= nd { return None; }
    for (s, _) in items { if s.len() != nd || (0..nd).any(|k| k != ax && s[k] != first[k]) { return None; } }
    let outer: usize = first[..ax].iter().product(); let inner: usize = first[ax + 1..].iter().product();
    let mut out = Vec::with_capacity(items.iter().map(|(_, e)| e.len()).sum());
    for o in 0..outer { for (s, e) in items { let w = s[ax] * inner; out.extend_from_slice(&e[o * w..(o + 1) * w]); } }
    let mut shape = first.clone(); shape[ax] = items.iter().map(|(s, _)| s[ax]).sum();
    Some((shape, out))
}
/// the same along a newly inserted axis
fn stack_ref<T: Clone>(items: &[ValT<T>], ax: usize) -> Option<ValT<T>> {
    let first = &items.first()?.0;
    if ax > first.len() || items.iter().any(|(s, _)| s != first) { return None; }
    let with_unit: Vec<ValT<T>> = items.iter().map(|(s, e)| { let mut t = s.clone(); t.insert(ax, 1); (t, e.clone()) }).collect();
    concat_ref(&with_unit, ax)
}
/// consecutive blocks along `ax` with the given lengths
fn cut_ref<T: Clone>(shape: &[usize], e: &[T], ax: usize, sizes: &[usize]) -> Vec<ValT<T>> {
    let outer: usize = shape[..ax].iter().product(); let inner: usize = shape[ax + 1..].iter().product(); let d = shape[ax];
    let mut from = 0; let mut out = vec![];
    for &len in sizes {
        let mut piece = Vec::with_capacity(outer * len * inner);
        for o in 0..outer { piece.extend_from_slice(&e[(o * d + from) * inner..(o * d + from + len) * inner]); }
        let mut s = shape.to_vec(); s[ax] = len; out.push((s, piece)); from += len;
    }
    out
}
/// sizes that differ by at most one, larger first
fn sections(d: usize, parts: usize) -> Vec<usize> { (0..parts).map(|k| d / parts + if k < d % parts { 1 } else { 0 }).collect() }

/// The statement of C11 as direct block placement.  `None` = no opinion (zero-size arrays, mixed ranks for the conveniences, a new
/// LAST axis for stack, …: judged by the model only); `Some(None)` = the call must be refused.
fn oracle(op: &str, args: &[&str]) -> Option<Option<Ans>> {
    let src = *args.first()?;
    if src == "-" { return None; }
    let items: Vec<Val> = src.split(';').map(parse_arr_raw).collect();
    let second = if op == "append" { Some(parse_arr_raw(args[1])) } else { None };
    oracle_vals(op, &items, second, &args[if op == "append" { 2 } else { 1 }..])
}
/// `items`: the array list (or the one receiver), `second`: the `values` argument of append, `params`: the remaining arguments
fn oracle_vals<T: Clone>(op: &str, items: &[ValT<T>], second: Option<ValT<T>>, params: &[&str]) -> Option<Option<AnsT<T>>> {
    if items.is_empty() || items.iter().any(|(s, e)| e.is_empty() || s.is_empty() || s.iter().product::<usize>() != e.len()) { return None; }
    let ax_opt = |s: &str| -> Option<usize> { parse_opt(s) };
    let arr = |v: Option<ValT<T>>| v.map(AnsT::Arr);
    let same_rank = items.iter().all(|(s, _)| s.len() == items[0].0.len());
    let (shape, e) = (&items[0].0, &items[0].1); let nd = shape.len();
    let split_ref = |parts: usize, ax: Option<usize>, exact: bool| -> Option<Option<AnsT<T>>> {
        if parts == 0 { return Some(None); }
        let ax = match ax { Some(ax) if ax >= nd => return Some(None), Some(ax) => ax, None => 0 };
        if exact && shape[ax] % parts != 0 { return Some(None); }
        Some(Some(AnsT::List(cut_ref(shape, e, ax, &sections(shape[ax], parts)))))
    };
    Some(match op {
        "append" | "append_self" => { let v = if op == "append_self" { items[0].clone() } else { let v = second?; if v.1.is_empty() || v.0.is_empty() { return None; } v };
            match ax_opt(params[0]) {
                None => { let mut out = e.clone(); out.extend_from_slice(&v.1); Some(AnsT::Arr((vec![out.len()], out))) }
                Some(ax) => arr(concat_ref(&[items[0].clone(), v], ax)) } }
        "concatenate" => match ax_opt(params[0]) {
            None => { if items.len() < 2 { return None; } let out: Vec<T> = items.iter().flat_map(|(_, e)| e.iter().cloned()).collect(); Some(AnsT::Arr((vec![out.len()], out))) }
            Some(ax) => { if !same_rank { return None; } arr(concat_ref(items, ax)) } },
        "stack" => { let ax = ax_opt(params[0]).unwrap_or(0); if ax >= nd { return None; } arr(stack_ref(items, ax)) }
        "vstack" | "row_stack" => { if !same_rank { return None; }
            // vectors of different lengths: the statement demands a refusal, the pinned code (and the model, which mirrors it) reshapes the
            // chained data to [count, len(first)] whenever the total happens to fit (fixes/C11-vstack-vectors-unequal-lengths.md): no opinion
            if nd == 1 && items.iter().any(|(s, _)| s != shape) { return None; }
            if nd == 1 { arr(stack_ref(items, 0)) } else { arr(concat_ref(items, 0)) } }
        "hstack" => { if !same_rank { return None; } arr(concat_ref(items, if nd == 1 { 0 } else { 1 })) }
        "dstack" => { if !same_rank { return None; }
            let up: Vec<ValT<T>> = items.iter().map(|(s, e)| (match s.len() { 1 => vec![1, s[0], 1], 2 => vec![s[0], s[1], 1], _ => s.clone() }, e.clone())).collect();
            arr(concat_ref(&up, 2)) }
        "column_stack" => { if items.iter().any(|(s, _)| s.len() > 2) { return Some(None); }
            let up: Vec<ValT<T>> = items.iter().map(|(s, e)| (if s.len() == 1 { vec![s[0], 1] } else { s.clone() }, e.clone())).collect();
            arr(concat_ref(&up, 1)) }
        "array_split" => return split_ref(params[0].parse().ok()?, ax_opt(params[1]), false),
        "split" => { let ax = ax_opt(params[1]); if let Some(ax) = ax { if ax >= nd { return Some(None); } } return split_ref(params[0].parse().ok()?, ax, true) }
        "split_axis" => { let ax: usize = params[0].parse().ok()?; if ax >= nd { return Some(None); } if nd == 1 { Some(AnsT::List(vec![(shape.clone(), e.clone())])) } else { return split_ref(shape[ax], Some(ax), true) } }
        "hsplit" => return split_ref(params[0].parse().ok()?, Some(if nd == 1 { 0 } else { 1 }), true),
        "vsplit" => { if nd < 2 { return Some(None); } return split_ref(params[0].parse().ok()?, Some(0), true) }
        "dsplit" => { if nd < 3 { return Some(None); } return split_ref(params[0].parse().ok()?, Some(2), true) }
        // splitting is the inverse of joining: the pieces, concatenated, are the original array
        "split_concat" => { let (p, ax): (usize, usize) = (params[0].parse().ok()?, params[1].parse().ok()?);
            match split_ref(p, Some(ax), false)? { None => None, Some(AnsT::List(ps)) => arr(concat_ref(&ps, ax)), Some(a) => Some(a) } }
        _ => return None,
    })
}
fn val_text(v: &Val) -> String { format!("{}:{}", show_list(&v.0), show_list(&v.1)) }
fn oracle_text(o: &Option<Ans>) -> String {
    match o { Some(Ans::Arr(v)) => format!("ok {}", val_text(v)), Some(Ans::List(l)) => format!("ok {}", l.iter().map(val_text).collect::<Vec<_>>().join(";")), None => "err".to_string() }
}

/// where two `ok shape:elements[;shape:elements…]` answers differ
fn diff_detail(obs: &str, want: &str) -> String {
    let parse = |t: &str| -> Option<Vec<(String, Vec<String>)>> { t.strip_prefix("ok ")?.split(';').map(|p| { let (s, e) = p.split_once(':')?; Some((s.to_string(), e.split(',').map(|x| x.to_string()).collect())) }).collect() };
    match (parse(obs), parse(want)) {
        (Some(o), Some(w)) => {
            if o.len() != w.len() { return format!("{} pieces instead of {}", o.len(), w.len()); }
            for (k, ((so, eo), (sw, ew))) in o.iter().zip(&w).enumerate() {
                let at = if o.len() > 1 { format!("piece {k}: ") } else { String::new() };
                if so != sw { return format!("{at}shape {so} instead of {sw}"); }
                if eo.len() != ew.len() { return format!("{at}{} elements instead of {}", eo.len(), ew.len()); }
                let bad: Vec<usize> = (0..eo.len()).filter(|&p| eo[p] != ew[p]).collect();
                if let Some(&p) = bad.first() { return format!("{at}shape {so}: {} of {} positions differ, the first at flat position {p}: {} instead of {}", bad.len(), eo.len(), eo[p], ew[p]); }
            }
            "equal".into()
        }
        _ => format!("`{}` instead of `{}`", truncate(obs, 200), truncate(want, 200)),
    }
}

// ---------------------------------------------------------------- executor

fn fnv_args(args: &[&str]) -> u64 { args.iter().flat_map(|a| a.bytes().chain(std::iter::once(b' '))).fold(0xcbf29ce484222325u64, |h, b| (h ^ b as u64).wrapping_mul(0x100000001b3)) >> 7 }
fn shape_elems(a: &str) -> usize { let body = a.strip_prefix('i').unwrap_or(a); let sh = body.split(|c| c == '+' || c == ':').next().unwrap_or("-"); parse_usize_list(sh).iter().product() }
fn elems_of(s: &str) -> usize { if s == "-" { 0 } else { s.split(';').map(shape_elems).sum() } }

/// the real call: i64 / u8 / f64 (`more` flags: 4 = + i8 / bool / String / f32, 1 = + the 12- and 3-byte tuples, 2 = + the 32-byte
/// `Tuple2<String,i32>`), both receivers where they exist, the i64 call twice
fn run_call(op: &str, args: &[&str], more: u8) -> Option<String> {
    let ax_opt = |s: &str| -> Option<usize> { parse_opt(s) };
    let src = *args.first()?;
    Some(match op {
        "append" => { let ax = ax_opt(args[2]);
            sweep_arr!(more, |T| { let (a, v) = (arr_of::<T>(src), arr_of::<T>(args[1])); rx(|| a.append(&v, ax), || Ok(a.clone()).append(&v, ax)) }) }
        // aliasing: the receiver itself is the `values` argument
        "append_self" => { let ax = ax_opt(args[1]);
            sweep_arr!(more, |T| { let a = arr_of::<T>(src); rx(|| a.append(&a, ax), || Ok(a.clone()).append(&a, ax)) }) }
        "concatenate" => { let ax = ax_opt(args[1]); sweep_arr!(more, |T| { let l = list_of::<T>(src); rep(|| Array::concatenate(l.clone(), ax)) }) }
        "stack" => { let ax = ax_opt(args[1]); sweep_arr!(more, |T| { let l = list_of::<T>(src); rep(|| Array::stack(l.clone(), ax)) }) }
        "vstack" => sweep_arr!(more, |T| { let l = list_of::<T>(src); rep(|| Array::vstack(l.clone())) }),
        "row_stack" => sweep_arr!(more, |T| { let l = list_of::<T>(src); rep(|| Array::row_stack(l.clone())) }),
        "hstack" => sweep_arr!(more, |T| { let l = list_of::<T>(src); rep(|| Array::hstack(l.clone())) }),
        "dstack" => sweep_arr!(more, |T| { let l = list_of::<T>(src); rep(|| Array::dstack(l.clone())) }),
        "column_stack" => sweep_arr!(more, |T| { let l = list_of::<T>(src); rep(|| Array::column_stack(l.clone())) }),
        "array_split" => { let p: usize = args[1].parse().ok()?; let ax = ax_opt(args[2]);
            sweep_list!(more, |T| { let a = arr_of::<T>(src); rx_list(|| a.array_split(p, ax), || Ok(a.clone()).array_split(p, ax)) }) }
        "split" => { let p: usize = args[1].parse().ok()?; let ax = ax_opt(args[2]);
            sweep_list!(more, |T| { let a = arr_of::<T>(src); rx_list(|| ArraySplit::split(&a, p, ax), || ArraySplit::split(&Ok(a.clone()), p, ax)) }) }
        "split_axis" => { let ax: usize = args[1].parse().ok()?;
            sweep_list!(more, |T| { let a = arr_of::<T>(src); rx_list(|| a.split_axis(ax), || Ok(a.clone()).split_axis(ax)) }) }
        "hsplit" => { let p: usize = args[1].parse().ok()?; sweep_list!(more, |T| { let a = arr_of::<T>(src); rx_list(|| a.hsplit(p), || Ok(a.clone()).hsplit(p)) }) }
        "vsplit" => { let p: usize = args[1].parse().ok()?; sweep_list!(more, |T| { let a = arr_of::<T>(src); rx_list(|| a.vsplit(p), || Ok(a.clone()).vsplit(p)) }) }
        "dsplit" => { let p: usize = args[1].parse().ok()?; sweep_list!(more, |T| { let a = arr_of::<T>(src); rx_list(|| a.dsplit(p), || Ok(a.clone()).dsplit(p)) }) }
        // round trip; the split goes through the Result receiver here
        "split_concat" => { let p: usize = args[1].parse().ok()?; let ax: usize = args[2].parse().ok()?;
            sweep_arr!(more, |T| { let a = arr_of::<T>(src); rep(|| match Ok(a.clone()).array_split(p, Some(ax)) { Ok(ps) => Array::concatenate(ps, Some(ax)), Err(e) => Err(e) }) }) }
        _ => return None,
    })
}

/// only the plain call on `Array<i64>` (the A–B–A re-run)
fn plain_i64(op: &str, args: &[&str]) -> Option<String> {
    let ax_opt = |s: &str| -> Option<usize> { parse_opt(s) };
    let src = *args.first()?;
    Some(match op {
        "append" => { let (a, v) = (parse_arr_i64(src), parse_arr_i64(args[1])); let ax = ax_opt(args[2]); guarded(|| res_arr(&a.append(&v, ax))) }
        "concatenate" => { let l = parse_arr_list_i64(src); let ax = ax_opt(args[1]); guarded(|| res_arr(&Array::concatenate(l, ax))) }
        "stack" => { let l = parse_arr_list_i64(src); let ax = ax_opt(args[1]); guarded(|| res_arr(&Array::stack(l, ax))) }
        "vstack" => { let l = parse_arr_list_i64(src); guarded(|| res_arr(&Array::vstack(l))) }
        "hstack" => { let l = parse_arr_list_i64(src); guarded(|| res_arr(&Array::hstack(l))) }
        "dstack" => { let l = parse_arr_list_i64(src); guarded(|| res_arr(&Array::dstack(l))) }
        "array_split" => { let a = parse_arr_i64(src); let p: usize = args[1].parse().ok()?; let ax = ax_opt(args[2]); guarded(|| res_arr_list(&a.array_split(p, ax))) }
        "split" => { let a = parse_arr_i64(src); let p: usize = args[1].parse().ok()?; let ax = ax_opt(args[2]); guarded(|| res_arr_list(&ArraySplit::split(&a, p, ax))) }
        "split_axis" => { let a = parse_arr_i64(src); let ax: usize = args[1].parse().ok()?; guarded(|| res_arr_list(&a.split_axis(ax))) }
        _ => return None,
    })
}

/// one ordinary call line against the model's answer; on the way the native reference is compared with the model
fn exec_call(op: &str, args: &[&str], expected: &str) -> Option<Verdict> {
    let src = *args.first()?;
    // the four further element types: at most 600 input elements, one case line in three
    // and the three odd-layout element types (12 / 3 / 32 bytes) with them; between 600 and 6000 input elements the odd layouts alone,
    // one case line in four (a tile of `64 / size_of::<T>()` elements only matters once a blocked path is entered)
    let more: u8 = { let n = elems_of(src) + if op == "append" { elems_of(args[1]) } else { 0 }; let h = args.iter().map(|a| a.len()).sum::<usize>();
        if n <= 600 { if h % 3 == 0 { 7 } else { 0 } } else if n <= 6000 && fnv_args(args) % 4 == 0 { 3 } else { 0 } };
    let obs = run_call(op, args, more)?;
    match oracle(op, args) {
        None => { ORACLE_SILENT.fetch_add(1, Ordering::Relaxed); }
        Some(o) => {
            let ot = oracle_text(&o);
            let agree = if o.is_none() { class_of(expected) == "err" } else { ot == expected };
            if !agree { return Some(Verdict::Mismatch { observed: obs, detail: format!("ORACLE-VS-MODEL the harness-native reference gives `{}`, the model `{}` ({}) (harness defect: the reference is not usable)", truncate(&ot, 300), truncate(expected, 300), diff_detail(&ot, expected)) }); }
            ORACLE_CHECKED.fetch_add(1, Ordering::Relaxed);
        }
    }
    if op == "stack" {
        // a new LAST axis (axis == rank) is refused by the code; the statement does not say which positions must be accepted: open
        let ax: Option<usize> = parse_opt(args[1]);
        if let (Some(ax), Some(first)) = (ax, src.split(';').next()) { if src != "-" && ax == parse_arr_raw(first).0.len() && obs != expected { return Some(Verdict::Open(obs)); } }
    }
    Some(compare_default(obs, expected))
}

/// `n call…`: the driver answers `ok native`, the crate is judged by the native reference
fn exec_native(args: &[&str], expected: &str) -> Option<Verdict> {
    if expected != "ok native" { return Some(compare_default("harness: an `n` line expects the driver to answer `ok native`".into(), expected)); }
    let (op, rest) = (*args.first()?, &args[1..]);
    let want = oracle_text(&oracle(op, rest)?);      // `n` lines are only generated where the reference has an opinion
    ORACLE_ONLY.fetch_add(1, Ordering::Relaxed);
    let elems = elems_of(rest[0]);
    LITE.with(|l| l.set(elems > 5000));
    // the odd-layout element types on one reference-judged line in eight up to 40 000 elements (the 32-byte `Tuple2<String,i32>` up to
    // 2000: the crate clones the whole array for every piece it cuts)
    let obs = run_call(op, rest, if elems <= 40000 && fnv_args(rest) % 8 == 0 { if elems <= 2000 { 3 } else { 1 } } else { 0 });
    LITE.with(|l| l.set(false));
    let obs = obs?;
    if obs == want || (class_of(&obs) == "err" && want == "err") { return Some(Verdict::Match(format!("ok native ({} bytes as the harness-native reference)", obs.len()))); }
    Some(Verdict::Mismatch { detail: format!("differs from the harness-native block-placement reference: {}; reference `{}`", diff_detail(&obs, &want), truncate(&want, 300)), observed: truncate(&obs, 1500) })
}

// ---------------------------------------------------------------- giant lines (FRAMEWORK part 3, class 11)

/// `iota:SHAPE[+OFF]`: element k of the flat data carries the tag OFF + k; built here, never written out, never formatted
fn giant_operand(s: &str) -> Option<(Vec<usize>, i64)> {
    let body = s.strip_prefix("iota:")?;
    Some(match body.split_once('+') { Some((sh, off)) => (parse_usize_list(sh), off.parse().ok()?), None => (parse_usize_list(body), 0) })
}
fn giant_val<T: Tagged>(o: &(Vec<usize>, i64)) -> ValT<T> { let n: usize = o.0.iter().product(); (o.0.clone(), (0..n as i64).map(|k| T::of(o.1 + k)).collect()) }
fn to_array<T: Tagged>(v: &ValT<T>) -> Array<T> { Array::new(v.1.clone(), v.0.clone()).expect("harness: giant array") }

enum Out<T: ArrayElement> { Arr(Array<T>), List(Vec<Array<T>>) }
/// the real call; `chained`: through `Ok(array)` where an `impl … for Result<Array<T>, ArrayError>` exists
fn giant_call<T: Tagged>(op: &str, mut l: Vec<Array<T>>, v: Option<Array<T>>, params: &[&str], chained: bool) -> Option<Result<Out<T>, ArrayError>> {
    let ax_opt = |s: &str| -> Option<usize> { parse_opt(s) };
    let ok = |a: Array<T>| -> Result<Array<T>, ArrayError> { Ok(a) };
    let p0 = || -> Option<usize> { params.first()?.parse().ok() };
    Some(match op {
        "append" => { let (a, v, ax) = (l.remove(0), v?, ax_opt(params[0])); (if chained { ok(a).append(&v, ax) } else { a.append(&v, ax) }).map(Out::Arr) }
        "append_self" => { let (a, ax) = (l.remove(0), ax_opt(params[0])); (if chained { ok(a.clone()).append(&a, ax) } else { a.append(&a, ax) }).map(Out::Arr) }
        "concatenate" => Array::concatenate(l, ax_opt(params[0])).map(Out::Arr),
        "stack" => Array::stack(l, ax_opt(params[0])).map(Out::Arr),
        "vstack" => Array::vstack(l).map(Out::Arr),
        "row_stack" => Array::row_stack(l).map(Out::Arr),
        "hstack" => Array::hstack(l).map(Out::Arr),
        "dstack" => Array::dstack(l).map(Out::Arr),
        "column_stack" => Array::column_stack(l).map(Out::Arr),
        "array_split" => { let (a, p, ax) = (l.remove(0), p0()?, ax_opt(params[1])); (if chained { ok(a).array_split(p, ax) } else { a.array_split(p, ax) }).map(Out::List) }
        "split" => { let (a, p, ax) = (l.remove(0), p0()?, ax_opt(params[1])); (if chained { ArraySplit::split(&ok(a), p, ax) } else { ArraySplit::split(&a, p, ax) }).map(Out::List) }
        "split_axis" => { let (a, ax) = (l.remove(0), p0()?); (if chained { ok(a).split_axis(ax) } else { a.split_axis(ax) }).map(Out::List) }
        "hsplit" => { let (a, p) = (l.remove(0), p0()?); (if chained { ok(a).hsplit(p) } else { a.hsplit(p) }).map(Out::List) }
        "vsplit" => { let (a, p) = (l.remove(0), p0()?); (if chained { ok(a).vsplit(p) } else { a.vsplit(p) }).map(Out::List) }
        "dsplit" => { let (a, p) = (l.remove(0), p0()?); (if chained { ok(a).dsplit(p) } else { a.dsplit(p) }).map(Out::List) }
        "split_concat" => { let (a, p, ax) = (l.remove(0), p0()?, params[1].parse::<usize>().ok()?);
            (if chained { ok(a).array_split(p, Some(ax)) } else { a.array_split(p, Some(ax)) }).and_then(|ps| Array::concatenate(ps, Some(ax))).map(Out::Arr) }
        _ => return None,
    })
}
/// one array of a giant answer against the reference, in place; only the first differing position is reported
fn giant_cmp<T: Tagged>(at: &str, got: Array<T>, want: &ValT<T>) -> Option<String> {
    if !consistent(&got) { return Some(format!("{at}INCONSISTENT array (shape {:?}, {} elements)", got.get_shape().unwrap(), got.get_elements().unwrap().len())); }
    let (gs, ge) = (got.get_shape().unwrap(), got.get_elements().unwrap());
    drop(got);
    if gs != want.0 || ge.len() != want.1.len() { return Some(format!("{at}shape {:?} with {} elements instead of shape {:?} with {}", gs, ge.len(), want.0, want.1.len())); }
    let mut first: Option<usize> = None; let mut bad = 0usize;
    for p in 0..ge.len() { if !T::same(&ge[p], &want.1[p]) { bad += 1; if first.is_none() { first = Some(p); } } }
    first.map(|p| format!("{at}shape {:?}: {bad} of {} positions differ, the first at flat position {p}: {:?} instead of {:?}", gs, ge.len(), ge[p], want.1[p]))
}
/// the call on element type `T` (tags through `Tagged::of`) against the generic reference at the same type
fn giant_run<T: Tagged>(op: &str, operands: &[(Vec<usize>, i64)], second: &Option<(Vec<usize>, i64)>, params: &[&str], chained: bool) -> Option<Result<String, String>> {
    let label = format!("{}{}", T::NAME, if chained { ", Ok(array) receiver" } else { ", plain receiver" });
    let items: Vec<ValT<T>> = operands.iter().map(giant_val::<T>).collect();
    let sec: Option<ValT<T>> = second.as_ref().map(giant_val::<T>);
    let arrays: Vec<Array<T>> = items.iter().map(to_array).collect();
    let sec_arr = sec.as_ref().map(to_array);
    let want = oracle_vals(op, &items, sec, params)?;       // giant lines are only generated where the reference has an opinion
    drop(items);
    let got = match std::panic::catch_unwind(std::panic::AssertUnwindSafe(|| giant_call(op, arrays, sec_arr, params, chained))) {
        Ok(g) => g?,
        Err(_) => return Some(Err(format!("{label}: the call panics"))),
    };
    Some(match (got, want) {
        (Err(_), None) => Ok("err".into()),
        (Err(e), Some(_)) => Err(format!("{label}: the call is refused ({}), the reference accepts it", err_name(&e))),
        (Ok(_), None) => Err(format!("{label}: the call is accepted, the reference refuses it")),
        (Ok(Out::Arr(a)), Some(AnsT::Arr(w))) => { let sh = a.get_shape().unwrap(); match giant_cmp("", a, &w) { None => Ok(format!("ok {}:…", show_list(&sh))), Some(d) => Err(format!("{label}: {d}")) } }
        (Ok(Out::List(l)), Some(AnsT::List(w))) => {
            if l.len() != w.len() { return Some(Err(format!("{label}: {} pieces instead of {}", l.len(), w.len()))); }
            let shapes: Vec<String> = l.iter().map(|a| show_list(&a.get_shape().unwrap())).collect();
            for (k, (a, wk)) in l.into_iter().zip(&w).enumerate() { if let Some(d) = giant_cmp(&format!("piece {k}: "), a, wk) { return Some(Err(format!("{label}: {d}"))); } }
            Ok(format!("ok {}", shapes.iter().map(|s| format!("{s}:…")).collect::<Vec<_>>().join(";")))
        }
        _ => Err(format!("{label}: harness: the reference and the call give different kinds of answer")),
    })
}
/// `g op operands params…` (`append`: two operand tokens): i64 tags on the plain receiver, the u8 image on `Ok(array)` (plain for the
/// associated functions), a third of the lines up to 1.3 million input elements also on the 12-byte tuple.  `g8`: the u8 image only (axes beyond 2^24 positions).
fn exec_giant(only_u8: bool, args: &[&str], expected: &str) -> Option<Verdict> {
    if expected != "ok native" { return Some(compare_default("harness: a giant line expects the driver to answer `ok native`".into(), expected)); }
    let op = *args.first()?;
    let operands: Vec<(Vec<usize>, i64)> = args.get(1)?.split(';').map(giant_operand).collect::<Option<Vec<_>>>()?;
    let (second, params) = if op == "append" { (Some(giant_operand(args.get(2)?)?), &args[3..]) } else { (None, &args[2..]) };
    ORACLE_ONLY.fetch_add(1, Ordering::Relaxed); GIANT_CALLS.fetch_add(1, Ordering::Relaxed);
    let mut texts: Vec<String> = vec![];
    let mut step = |r: Option<Result<String, String>>| -> Option<Option<Verdict>> {
        match r { None => Some(None), Some(Err(d)) => Some(Some(Verdict::Mismatch { observed: truncate(&d, 400), detail: format!("differs from the harness-native block-placement reference (compared with the model on every ordinary case of this run): {d}") })), Some(Ok(t)) => { texts.push(t); None } }
    };
    if !only_u8 { if let Some(v) = step(giant_run::<i64>(op, &operands, &second, params, false)) { return v; } }
    if let Some(v) = step(giant_run::<u8>(op, &operands, &second, params, !only_u8)) { return v; }
    let total: usize = operands.iter().chain(second.iter()).map(|o| o.0.iter().product::<usize>()).sum();
    if !only_u8 && fnv_args(args) % 3 == 0 && total <= 1_300_000 { if let Some(v) = step(giant_run::<T3>(op, &operands, &second, params, false)) { return v; } }
    Some(Verdict::Match(format!("ok native ({} runs: {})", texts.len(), texts[0])))
}

thread_local! { static PREV: RefCell<Option<(String, Vec<String>, String)>> = const { RefCell::new(None) }; }

fn exec(op: &str, args: &[&str], expected: &str) -> Option<Verdict> {
    // VERIF_SLOW=<seconds>: name the case lines whose execution takes longer (tuning aid, no influence on the verdicts)
    let t0 = std::time::Instant::now();
    let v = exec_line(op, args, expected);
    if let Some(lim) = std::env::var("VERIF_SLOW").ok().and_then(|s| s.parse::<f64>().ok()) { let dt = t0.elapsed().as_secs_f64(); if dt > lim { eprintln!("slow {dt:.2}s {op} {}", truncate(&args.join(" "), 150)); } }
    v
}

fn exec_line(op: &str, args: &[&str], expected: &str) -> Option<Verdict> {
    match op {
        "oracle_report" => {
            let text = format!("ok report: so far the harness-native reference agreed with the full model answer on {} cases (no opinion on {}), {} calls judged by the reference only ({} of them giant: more than 2^20 elements), {} calls inside seq lines, {} implicit A-B-A re-runs, {} cases also on the 12- / 3- / 32-byte element types, {} cases on all-equal-but-not-identical values",
                ORACLE_CHECKED.load(Ordering::Relaxed), ORACLE_SILENT.load(Ordering::Relaxed), ORACLE_ONLY.load(Ordering::Relaxed), GIANT_CALLS.load(Ordering::Relaxed), SEQ_CALLS.load(Ordering::Relaxed), ABA_RERUNS.load(Ordering::Relaxed), LAYOUT_RUNS.load(Ordering::Relaxed), Z_CALLS.load(Ordering::Relaxed));
            if expected != "ok report" { return Some(compare_default(text, expected)); }
            if args.first() == Some(&"final") && ORACLE_ONLY.load(Ordering::Relaxed) > 0 && ORACLE_CHECKED.load(Ordering::Relaxed) < 1000 {
                return Some(Verdict::Mismatch { observed: text, detail: "the native reference was relied upon without having been compared with the model on at least 1000 cases of this run".into() });
            }
            Some(Verdict::Match(text))
        }
        "n" => exec_native(args, expected),
        "g" | "g8" => exec_giant(op == "g8", args, expected),
        // all-equal-but-not-identical values: the ordinary judgement first, then the same call on the zero-only / constant images
        "z" => {
            let v = exec_call(args.first()?, &args[1..], expected)?;
            if !matches!(v, Verdict::Match(_)) { return Some(v); }
            Z_CALLS.fetch_add(1, Ordering::Relaxed);
            ZMODE.with(|z| z.set(true));
            let obs = run_call(args[0], &args[1..], 0);   // (the flags are not consulted in z mode)
            ZMODE.with(|z| z.set(false));
            Some(compare_default(obs?, expected))
        }
        "seq" => {
            let calls: Vec<&[&str]> = args.split(|t| *t == "/").collect();
            let exps: Vec<&str> = expected.split(" / ").collect();
            if calls.len() != exps.len() { return Some(compare_default(format!("harness: {} calls but {} model answers", calls.len(), exps.len()), expected)); }
            let mut texts = vec![]; let mut bad: Option<String> = None;
            for (q, (c, e)) in calls.iter().zip(&exps).enumerate() {
                SEQ_CALLS.fetch_add(1, Ordering::Relaxed);
                let v = if c.first() == Some(&"n") { exec_native(&c[1..], e)? } else { exec_call(c.first()?, &c[1..], e)? };
                match v {
                    Verdict::Match(o) | Verdict::Open(o) => texts.push(truncate(&o, 400)),
                    Verdict::Mismatch { observed, detail } => { if bad.is_none() { bad = Some(format!("call {} of the sequence (`{}`): {}", q + 1, truncate(&c.join(" "), 300), detail)); } texts.push(truncate(&observed, 400)); }
                }
            }
            let obs = texts.join(" / ");
            Some(match bad { Some(d) => Verdict::Mismatch { observed: obs, detail: d }, None => Verdict::Match(obs) })
        }
        _ => {
            let v = exec_call(op, args, expected)?;
            // implicit A–B–A: after a share of the small cases the PREVIOUS case is run again and must repeat its answer
            let small = elems_of(args[0]) <= 600 && args.iter().map(|a| a.len()).sum::<usize>() <= 1000;
            if small && args.iter().map(|a| a.len()).sum::<usize>() % 4 == 1 {
                if let Some((pop, pargs, pans)) = PREV.with(|p| p.borrow().clone()) {
                    let pa: Vec<&str> = pargs.iter().map(|s| s.as_str()).collect();
                    if let Some(again) = plain_i64(&pop, &pa) {
                        ABA_RERUNS.fetch_add(1, Ordering::Relaxed);
                        if again != pans { if let Verdict::Match(o) = &v { return Some(Verdict::Mismatch { observed: o.clone(), detail: format!("A-B-A: after this call the previous case `{} {}` no longer repeats its answer: `{}` instead of `{}`", pop, pargs.join(" "), truncate(&again, 300), truncate(&pans, 300)) }); } }
                    }
                }
            }
            if small { match plain_i64(op, args) { Some(ans) => PREV.with(|p| *p.borrow_mut() = Some((op.to_string(), args.iter().map(|s| s.to_string()).collect(), ans))), None => PREV.with(|p| *p.borrow_mut() = None) } }
            Some(v)
        }
    }
}

fn nontrivial(op: &str, args: &[&str]) -> bool {
    match op {
        "oracle_report" => false,
        "seq" => args.split(|t| *t == "/").any(|c| !c.is_empty() && nontrivial(c[0], &c[1..])),
        "n" | "z" => args.len() >= 2 && nontrivial(args[0], &args[1..]),
        "g" | "g8" => args.len() >= 3 && (args[1].contains(';') || args[0].starts_with("append") || (args[1].contains(',') && args[2] != "1")),
        "append_self" => true,
        "array_split" | "split" | "split_concat" => args[1] != "1" && args[1] != "0" && parse_arr_raw(args[0]).0.len() >= 2,
        "split_axis" | "hsplit" | "vsplit" | "dsplit" => parse_arr_raw(args[0]).0.len() >= 2,
        _ => args[0].contains(';'),
    }
}

fn main() {
    harness_main(Spec { prop: "C11", gen, exec, nontrivial, hang_secs: 90,
        rule: "every shape rank<=4 len<=3 (+ lengths 4-7): array_split / split / split-then-concatenate for EVERY axis and every part count 1..len+2 (+0, axis none, axis out of range), split_axis, hsplit/vsplit/dsplit 0..4; concatenate/append of 2-4 arrays with seeded lengths 1..3 along EVERY axis (+ off-axis mismatch, rank mismatch, flat form), stack on every axis (+none, rank, rank+1), the five conveniences on equal shapes / shapes differing along the stacking axis / off-axis mismatches / mixed ranks / empty lists; off-axis mismatches that keep the product of the other axes (permuted / regrouped off-axis lengths, rank 3-4, every axis, both orders, first and later pair) for append/concatenate/vstack/row_stack/hstack/column_stack/dstack, permuted shapes for stack and column_stack - all must be refused; zero-size shapes (lib zero_shapes + [2,0,3],[0,2,2],[3,0,2],[2,2,0,2]): append/concatenate with partners of length 0..2 on every axis, stack, the five conveniences, every split; seeded random rank<=5. Robustness streams: sizes (lib big_shapes + shapes at/around 256, 1024, 4096 elements in rank 2-4, up to [70,70]/[16,20,16]/[8,8,8,8], rank 8): every split op on every axis with part counts 2,3,4,5,7,len-1,len,len+1,2len and the round trip (>= 2000 elements: one uneven part count per axis + round trip + parts beyond the length), joining the big array with 1-2 partners of length 1..3 on every axis, stack and the conveniences; joining along an axis followed by a long contiguous run (23 templates, trailing product 31..1030, outer extent 1..17) x 12 combinations of equal/unequal/zero lengths for 2 and 3 inputs through append (both orders), concatenate, stack, the convenience of that axis and the round trip; arrays holding the zero tag in most positions (f64/f32 image -0.0, bit-wise) through every op incl. column_stack of vectors and matrices; seeded random rank 2-4 with axis lengths <= 17. EVERY case runs on Array<i64> (the compared answer), on the u8 and f64 (tag 0 = -0.0, bit-wise) images, one small case in three also on i8 / bool / String / f32; append and the six splitting methods on the plain receiver AND on Ok(array) through the Result-receiver impls (ArrayJoining has associated functions only); the i64 call twice; any divergence fails the case. Tag arrays.  Part 2: seq lines (calls back to back on one thread: colliding shapes, colliding (axis length, part count) pairs incl. a long axis after its residue modulo 65536, refused-then-valid, A-B-A), n lines (16384..140000 elements, axes above 65536, >64 parts, every axis length 1..300) judged by the harness-native block-placement reference, which is compared with the full model answer on every other case of the run (oracle_report lines); append_self (aliasing); lists of 5-9 arrays, ranks 5-8; implicit A-B-A re-runs in exec. non-trivial: >=2 parts on rank>=2, or >=2 arrays joined (seq / n lines: some call of the line)" });
}
