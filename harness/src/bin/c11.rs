//! C11 — joining lays inputs contiguously along the axis; splitting is its inverse. Value protocol with tags.
use arrharness::*;

fn list(items: &[(Vec<usize>, i64)]) -> String { items.iter().map(|(s, o)| tag_off(s, *o)).collect::<Vec<_>>().join(";") }

fn gen(tier: &str, seed: u64, out: &mut dyn FnMut(String)) {
    let thorough = tier == "thorough";
    let mut rng = Rng::new(seed);
    for l in ["array_split i2,4 2 1", "array_split i2,5 3 1", "hstack i2,2;i2,1+1000", "dstack i2,2,1;i2,2,2+1000", "stack i2,3;i2,3+1000 2", "array_split i3,2,2 2 0",
              // off-axis lengths differ but have the same product (permuted / regrouped): must be refused
              "append i2,3,2 i1,2,3+1000 0", "concatenate i2,4,1;i2,2,2+1000 0"] { out(l.to_string()); }
    let mut all = shapes(1, 4, 1, 3);
    all.extend(vec![vec![4], vec![5], vec![7], vec![2, 4], vec![5, 2], vec![2, 2, 5]]);
    for s in &all {
        let a = tag(s); let nd = s.len();
        // ---- splitting
        for ax in 0..nd {
            for p in 1..=(s[ax] + 2) { out(format!("array_split {a} {p} {ax}")); out(format!("split {a} {p} {ax}")); out(format!("split_concat {a} {p} {ax}")); }
            out(format!("array_split {a} 0 {ax}")); out(format!("split {a} 0 {ax}")); out(format!("split_axis {a} {ax}"));
        }
        for p in 1..=(s[0] + 1) { out(format!("array_split {a} {p} none")); out(format!("split {a} {p} none")); }
        out(format!("array_split {a} 1 {nd}")); out(format!("split {a} 1 {nd}")); out(format!("split_axis {a} {nd}"));
        for p in 0..=4 { out(format!("hsplit {a} {p}")); out(format!("vsplit {a} {p}")); out(format!("dsplit {a} {p}")); }
        // ---- joining: lists of 2..4 arrays that agree off the axis, lengths 1..3 along it
        for ax in 0..nd {
            let k = 2 + rng.below(3);
            let items: Vec<(Vec<usize>, i64)> = (0..k).map(|j| { let mut t = s.clone(); t[ax] = 1 + rng.below(3); (t, 1000 * j as i64) }).collect();
            out(format!("concatenate {} {ax}", list(&items)));
            out(format!("append {} {} {ax}", tag_off(&items[0].0, 0), tag_off(&items[1].0, 1000)));
            // a mismatch off the axis must be refused
            if nd >= 2 { let mut bad = items.clone(); let o = (ax + 1) % nd; bad[1].0[o] += 1; out(format!("concatenate {} {ax}", list(&bad))); out(format!("append {} {} {ax}", tag_off(&bad[0].0, 0), tag_off(&bad[1].0, 1000))); }
            // stack: identical shapes, new axis at ax
            let same: Vec<(Vec<usize>, i64)> = (0..k).map(|j| (s.clone(), 1000 * j as i64)).collect();
            out(format!("stack {} {ax}", list(&same)));
        }
        let same: Vec<(Vec<usize>, i64)> = (0..3).map(|j| (s.clone(), 1000 * j as i64)).collect();
        out(format!("stack {} none", list(&same))); out(format!("stack {} {nd}", list(&same))); out(format!("stack {} {}", list(&same), nd + 1));
        out(format!("concatenate {} none", list(&same))); out(format!("concatenate {} {nd}", list(&same)));
        out(format!("concatenate {} 0", tag(s))); out(format!("append {} {} none", tag(s), tag_off(&[2], 1000)));
        { let mut t = s.clone(); t.push(2); out(format!("append {} {} 0", tag(s), tag_off(&t, 1000))); out(format!("stack {};{} 0", tag(s), tag_off(&t, 1000))); }
        // ---- conveniences: same shape, and differing only along the stacking axis
        for op in ["vstack", "hstack", "dstack", "column_stack", "row_stack"] {
            out(format!("{op} {}", list(&same)));
            out(format!("{op} {}", tag(s)));
            let join_ax = match op { "vstack" | "row_stack" => 0, "hstack" | "column_stack" => if nd == 1 { 0 } else { 1 }, _ => 2 };
            if join_ax < nd { let items: Vec<(Vec<usize>, i64)> = (0..3).map(|j| { let mut t = s.clone(); t[join_ax] = 1 + (j + s[join_ax]) % 3; (t, 1000 * j as i64) }).collect(); out(format!("{op} {}", list(&items))); }
            // mismatch off the stacking axis
            if nd >= 2 { let o = if join_ax == 0 { 1 } else { 0 }; let mut items = same.clone(); items[1].0[o] += 1; out(format!("{op} {}", list(&items))); }
        }
    }
    // mixed ranks for the conveniences
    for l in ["vstack i3;i1,3+1000", "vstack i3;i2,3+1000;i3+2000", "hstack i2;i3+1000;i1+2000", "hstack i2;i2,1+1000", "dstack i2;i1,2+1000;i1,2,1+2000", "dstack i2,3;i2,3,2+1000",
              "column_stack i3;i3,2+1000;i3+2000", "column_stack i3;i2+1000", "column_stack i2,2,2", "row_stack i2;i2+1000;i2+2000", "vstack -", "hstack -", "dstack -", "column_stack -", "concatenate - 0", "stack - 0"] { out(l.to_string()); }
    // off-axis MISMATCHES THAT KEEP THE PRODUCT of the other axes: permuted off-axis lengths and regrouped factors, rank 3 and 4,
    // every axis, both orders, mismatch at the first and at a later pair; all must be refused
    {
        let offs: Vec<(Vec<usize>, Vec<usize>)> = vec![
            (vec![2, 3], vec![3, 2]), (vec![1, 2], vec![2, 1]), (vec![4, 1], vec![2, 2]), (vec![1, 6], vec![3, 2]), (vec![2, 1], vec![1, 2]),
            (vec![2, 3, 1], vec![3, 1, 2]), (vec![2, 3, 2], vec![3, 2, 2]), (vec![1, 2, 3], vec![1, 3, 2]), (vec![4, 1, 2], vec![2, 2, 2]), (vec![2, 2, 3], vec![4, 1, 3]), (vec![1, 1, 4], vec![2, 2, 1])];
        for (pa, pb) in &offs {
            let nd = pa.len() + 1;
            for ax in 0..nd {
                for (ka, kb) in [(2usize, 2usize), (2, 1), (1, 3)] {
                    let mut sa = pa.clone(); sa.insert(ax, ka); let mut sb = pb.clone(); sb.insert(ax, kb);
                    let (a, b, b2) = (tag(&sa), tag_off(&sb, 1000), tag_off(&sa, 2000));
                    out(format!("append {a} {b} {ax}")); out(format!("append {b} {a} {ax}"));
                    out(format!("concatenate {a};{b} {ax}")); out(format!("concatenate {b};{a} {ax}"));
                    out(format!("concatenate {a};{b2};{b} {ax}")); out(format!("concatenate {a};{b};{b2} {ax}"));
                    let ops: &[&str] = match ax { 0 => &["vstack", "row_stack"], 1 => &["hstack", "column_stack"], 2 => &["dstack"], _ => &[] };
                    for op in ops { out(format!("{op} {a};{b}")); out(format!("{op} {b};{a}")); out(format!("{op} {a};{b2};{b}")); }
                }
            }
        }
        // dstack promotes rank 2 to [m,n,1]: 2-D inputs whose shapes are permutations of each other
        for l in ["dstack i2,3;i3,2+1000", "dstack i1,4;i2,2+1000", "dstack i4,1;i2,2+1000;i2,2+2000", "dstack i2,3,1;i3,2+1000", "vstack i2,3,1;i3,2,1+1000",
                  "hstack i2,1,3;i3,1,2+1000", "hstack i6;i2,3+1000", "vstack i6;i2,3+1000", "vstack i2,3;i6+1000",
                  // stack: shapes that are permutations / regroupings of each other (same element count)
                  "stack i2,3;i3,2+1000 0", "stack i2,3;i3,2+1000 1", "stack i2,3;i2,3+1000;i3,2+2000 0", "stack i2,3,2;i3,2,2+1000 0", "stack i2,3,2;i2,2,3+1000 2",
                  "stack i4,1;i2,2+1000 0", "stack i4;i2,2+1000 0", "stack i2,2;i4+1000 0", "stack i1,2,3;i3,2,1+1000 1", "stack i2,3,2,1;i2,1,3,2+1000 3",
                  // column_stack: same element count, different row count
                  "column_stack i2,3;i3,2+1000", "column_stack i6;i2,3+1000", "column_stack i2,3;i6+1000", "column_stack i4,1;i2,2+1000", "column_stack i2;i2,2+1000;i4+2000", "column_stack i2,2;i1,4+1000"] { out(l.to_string()); }
    }
    // zero-size arrays (an empty axis on or off the joining axis): joining, stacking, the conveniences, splitting
    for s in [vec![0usize], vec![2, 0], vec![0, 2], vec![0, 0], vec![2, 0, 3], vec![2, 3, 0], vec![0, 2, 2]] {
        let nd = s.len(); let a = tag(&s);
        for ax in 0..nd {
            for m in 0..3usize { let mut t = s.clone(); t[ax] = m;
                out(format!("append {a} {} {ax}", tag_off(&t, 1000))); out(format!("append {} {a} {ax}", tag_off(&t, 1000)));
                out(format!("concatenate {a};{};{a} {ax}", tag_off(&t, 1000))); }
            out(format!("stack {a};{a} {ax}")); out(format!("concatenate {a} {ax}"));
            for p in 0..3 { out(format!("array_split {a} {p} {ax}")); out(format!("split {a} {p} {ax}")); if p > 0 { out(format!("split_concat {a} {p} {ax}")); } }
            out(format!("split_axis {a} {ax}"));
        }
        out(format!("stack {a};{a};{a} none")); out(format!("concatenate {a};{a} none")); out(format!("append {a} {a} none"));
        for op in ["vstack", "hstack", "dstack", "column_stack", "row_stack"] {
            out(format!("{op} {a}")); out(format!("{op} {a};{a}")); out(format!("{op} {a};{a};{a}"));
            let join_ax = match op { "vstack" | "row_stack" => 0, "hstack" | "column_stack" => if nd == 1 { 0 } else { 1 }, _ => 2 };
            if join_ax < nd { let mut t = s.clone(); t[join_ax] = 2; out(format!("{op} {a};{}", tag_off(&t, 1000))); out(format!("{op} {};{a}", tag_off(&t, 1000))); }
        }
        for p in 0..3 { out(format!("hsplit {a} {p}")); out(format!("vsplit {a} {p}")); out(format!("dsplit {a} {p}")); }
    }
    // random rank 5 and longer lists
    for _ in 0..(if thorough { 3000 } else { 300 }) {
        let nd = 1 + rng.below(5); let s: Vec<usize> = (0..nd).map(|_| 1 + rng.below(3)).collect(); let ax = rng.below(nd);
        match rng.below(3) {
            0 => { let k = 1 + rng.below(4); let items: Vec<(Vec<usize>, i64)> = (0..k).map(|j| { let mut t = s.clone(); t[ax] = 1 + rng.below(4); (t, 1000 * j as i64) }).collect(); out(format!("concatenate {} {ax}", list(&items))); }
            1 => { let mut t = s.clone(); t[ax] = 1 + rng.below(9); out(format!("split_concat {} {} {ax}", tag(&t), 1 + rng.below(t[ax] + 2))); out(format!("array_split {} {} {ax}", tag(&t), 1 + rng.below(t[ax] + 2))); }
            _ => { let k = 1 + rng.below(4); let same: Vec<(Vec<usize>, i64)> = (0..k).map(|j| (s.clone(), 1000 * j as i64)).collect(); out(format!("stack {} {ax}", list(&same))); }
        }
    }
}

fn exec(op: &str, args: &[&str], expected: &str) -> Option<Verdict> {
    let ax_opt = |s: &str| -> Option<usize> { parse_opt(s) };
    let obs = match op {
        "append" => { let (a, v) = (parse_arr_i64(args[0]), parse_arr_i64(args[1])); let ax = ax_opt(args[2]); guarded(|| res_arr(&a.append(&v, ax))) }
        "concatenate" => { let l = parse_arr_list_i64(args[0]); let ax = ax_opt(args[1]); guarded(|| res_arr(&Array::concatenate(l.clone(), ax))) }
        "stack" => { let l = parse_arr_list_i64(args[0]); let ax = ax_opt(args[1]);
            // a new LAST axis (axis == rank) is refused by the code; the statement does not say which positions must be accepted: open
            let o = guarded(|| res_arr(&Array::stack(l.clone(), ax)));
            if let (Some(ax), Some(first)) = (ax, l.first()) { if ax == first.ndim().unwrap() && o != expected { return Some(Verdict::Open(o)); } }
            o }
        "vstack" => { let l = parse_arr_list_i64(args[0]); guarded(|| res_arr(&Array::vstack(l.clone()))) }
        "row_stack" => { let l = parse_arr_list_i64(args[0]); guarded(|| res_arr(&Array::row_stack(l.clone()))) }
        "hstack" => { let l = parse_arr_list_i64(args[0]); guarded(|| res_arr(&Array::hstack(l.clone()))) }
        "dstack" => { let l = parse_arr_list_i64(args[0]); guarded(|| res_arr(&Array::dstack(l.clone()))) }
        "column_stack" => { let l = parse_arr_list_i64(args[0]); guarded(|| res_arr(&Array::column_stack(l.clone()))) }
        "array_split" => { let a = parse_arr_i64(args[0]); let p: usize = args[1].parse().ok()?; let ax = ax_opt(args[2]); guarded(|| res_arr_list(&a.array_split(p, ax))) }
        "split" => { let a = parse_arr_i64(args[0]); let p: usize = args[1].parse().ok()?; let ax = ax_opt(args[2]); guarded(|| res_arr_list(&a.split(p, ax))) }
        "split_axis" => { let a = parse_arr_i64(args[0]); let ax: usize = args[1].parse().ok()?; guarded(|| res_arr_list(&a.split_axis(ax))) }
        "hsplit" => { let a = parse_arr_i64(args[0]); let p: usize = args[1].parse().ok()?; guarded(|| res_arr_list(&a.hsplit(p))) }
        "vsplit" => { let a = parse_arr_i64(args[0]); let p: usize = args[1].parse().ok()?; guarded(|| res_arr_list(&a.vsplit(p))) }
        "dsplit" => { let a = parse_arr_i64(args[0]); let p: usize = args[1].parse().ok()?; guarded(|| res_arr_list(&a.dsplit(p))) }
        "split_concat" => { let a = parse_arr_i64(args[0]); let p: usize = args[1].parse().ok()?; let ax: usize = args[2].parse().ok()?;
            guarded(|| match a.array_split(p, Some(ax)) { Ok(ps) => res_arr(&Array::concatenate(ps, Some(ax))), Err(e) => format!("err {}", err_name(&e)) }) }
        _ => return None,
    };
    Some(compare_default(obs, expected))
}

fn nontrivial(op: &str, args: &[&str]) -> bool {
    match op {
        "array_split" | "split" | "split_concat" => args[1] != "1" && args[1] != "0" && parse_arr_raw(args[0]).0.len() >= 2,
        "split_axis" | "hsplit" | "vsplit" | "dsplit" => parse_arr_raw(args[0]).0.len() >= 2,
        _ => args[0].contains(';'),
    }
}

fn main() {
    harness_main(Spec { prop: "C11", gen, exec, nontrivial, hang_secs: 20,
        rule: "every shape rank<=4 len<=3 (+ lengths 4-7): array_split / split / split-then-concatenate for EVERY axis and every part count 1..len+2 (+0, axis none, axis out of range), split_axis, hsplit/vsplit/dsplit 0..4; concatenate/append of 2-4 arrays with seeded lengths 1..3 along EVERY axis (+ off-axis mismatch, rank mismatch, flat form), stack on every axis (+none, rank, rank+1), the five conveniences on equal shapes / shapes differing along the stacking axis / off-axis mismatches / mixed ranks / empty lists; off-axis mismatches that keep the product of the other axes (permuted / regrouped off-axis lengths, rank 3-4, every axis, both orders, first and later pair) for append/concatenate/vstack/row_stack/hstack/column_stack/dstack, permuted shapes for stack and column_stack - all must be refused; zero-size shapes ([0],[2,0],[0,2],[0,0],[2,0,3],[2,3,0],[0,2,2]): append/concatenate with partners of length 0..2 on every axis, stack, the five conveniences, every split; seeded random rank<=5. Tag arrays. non-trivial: >=2 parts on rank>=2, or >=2 arrays joined" });
}
